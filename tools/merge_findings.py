#!/usr/bin/env python3
"""tools/merge_findings.py c01 [id ...] : copy proposed open entries into known_findings.json (coordinator only)."""
import json, sys
prop = sys.argv[1]
ids = set(sys.argv[2:])
kf = json.load(open('/verif/known_findings.json'))
prop_f = json.load(open(f'/verif/findings_proposed/{prop}.json'))
have = {e['id'] for e in kf['findings']}
for e in prop_f['findings']:
    if ids and e['id'] not in ids: continue
    if e['id'] in have: continue
    e = {k: e[k] for k in ('id','property','status','clause','subject','sig','what','witness','why_open') if k in e}
    e['status'] = 'open'
    kf['findings'].append(e); print('added', e['id'])
json.dump(kf, open('/verif/known_findings.json','w'), indent=1)
