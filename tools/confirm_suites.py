#!/venv/bin/python
"""For every seeded/<id>/ whose meta.json has no suite result yet: apply the patch to a scratch worktree and run the
repository's whole unedited test suite; record the summary line in meta.json (suite_passes must be True to keep it)."""
import glob, json, os, subprocess, sys, tempfile, time
VERIF = os.path.dirname(os.path.dirname(os.path.abspath(__file__)))
jobs = sys.argv[1] if len(sys.argv) > 1 else "8"
shard, nshards = (int(sys.argv[2]), int(sys.argv[3])) if len(sys.argv) > 3 else (0, 1)  # several instances side by side
todo = [mp for mp in sorted(glob.glob(os.path.join(VERIF, "seeded", "*", "meta.json"))) if not json.load(open(mp)).get("suite_summary")]
for mp in todo[shard::nshards]:
    meta = json.load(open(mp))
    if meta.get("suite_summary"):
        continue
    d = os.path.dirname(mp)
    wt = tempfile.mkdtemp(prefix="wt-suite-", dir="/tmp"); os.rmdir(wt)
    subprocess.run(f"git -C /repo worktree add --detach {wt} HEAD", shell=True, capture_output=True)
    try:
        r = subprocess.run(f"git -C {wt} apply {d}/patch.diff", shell=True, capture_output=True, text=True)
        if r.returncode:
            meta["suite_summary"] = "patch does not apply: " + r.stderr[:200]; meta["suite_passes"] = False
        else:
            env = dict(os.environ, PYTHONPATH=f"{wt}/src", PYTHONDONTWRITEBYTECODE="1", OMP_NUM_THREADS="1", OPENBLAS_NUM_THREADS="1", MKL_NUM_THREADS="1")
            t0 = time.time()
            rs = subprocess.run(f"cd {wt} && /venv/bin/python -m pytest -q -p no:cacheprovider -n {jobs} --timeout=5400 src/grid/tests 2>&1 | tail -1", shell=True, capture_output=True, text=True, env=env)
            meta["suite_summary"] = rs.stdout.strip()
            meta["suite_passes"] = "598 passed" in rs.stdout and "failed" not in rs.stdout and "error" not in rs.stdout.lower()
            meta.setdefault("ran", []).append(f"pytest -n {jobs} src/grid/tests on the patched worktree -> {rs.stdout.strip()} [{time.time()-t0:.0f}s]")
        fresh = json.load(open(mp))  # re-read: another tool may have updated the check results meanwhile
        fresh["suite_summary"], fresh["suite_passes"] = meta["suite_summary"], meta["suite_passes"]
        if meta.get("ran") and str(meta["ran"][-1]).startswith("pytest"):
            fresh.setdefault("ran", []).append(meta["ran"][-1])
        fresh["confirmed"] = bool(fresh.get("demo_unchanged_exit") == 0 and fresh.get("demo_changed_exit", 0) != 0 and fresh["suite_passes"])
        meta = fresh
        json.dump(meta, open(mp, "w"), indent=1)
        print(meta["id"], meta["suite_summary"], flush=True)
    finally:
        subprocess.run(f"git -C /repo worktree remove --force {wt}; git -C /repo worktree prune", shell=True, capture_output=True)
