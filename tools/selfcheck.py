#!/venv/bin/python
"""Sensitivity self-check: apply each seeded break to a scratch worktree of /repo (never /repo itself),
run the property's quick check against it (GRID_REPO=<worktree>) and expect VIOLATION (exit 1).

usage: tools/selfcheck.py C07 [patch.diff ...] [--suite test_molgrid.py] [--tier quick] [--others C05,C06]
Prints one line per patch:  <patch> check=<exit> clauses=<...> suite=<pass|fail|->
The scratch worktree is removed at the end.  Evidence files written during these runs are restored afterwards.
"""
import argparse
import glob
import json
import os
import shutil
import subprocess
import sys
import tempfile

VERIF = os.path.dirname(os.path.dirname(os.path.abspath(__file__)))


def sh(cmd, **kw):
    return subprocess.run(cmd, shell=True, capture_output=True, text=True, **kw)


def main():
    ap = argparse.ArgumentParser()
    ap.add_argument("prop")
    ap.add_argument("patches", nargs="*")
    ap.add_argument("--suite", default=None, help="repo test file(s) to run with each patch, comma separated")
    ap.add_argument("--tier", default="quick")
    ap.add_argument("--jobs", default="16")
    ap.add_argument("--others", default="", help="other properties whose quick check must stay silent")
    a = ap.parse_args()
    prop = a.prop.upper()
    patches = a.patches or sorted(glob.glob(os.path.join(VERIF, "gridrv", "selfcheck", prop.lower(), "*.diff")) + glob.glob(os.path.join(VERIF, "seeded", "*", "patch.diff")))
    if not a.patches:
        patches = [p for p in patches if "/selfcheck/" in p or _meta_prop(p) == prop]
    wt = tempfile.mkdtemp(prefix=f"wt-self-{prop}-", dir="/tmp")
    os.rmdir(wt)
    r = sh(f"git -C /repo worktree add --detach {wt} HEAD")
    if r.returncode:
        print(r.stderr)
        sys.exit(2)
    evdir = os.path.join(VERIF, "evidence")
    saved = tempfile.mkdtemp(prefix="ev-save-", dir="/tmp")
    involved = [prop] + [x for x in a.others.split(",") if x]
    for pr in involved:
        f = os.path.join(evdir, pr + ".json")
        if os.path.exists(f):
            shutil.copy(f, saved)
    rows = []
    try:
        for p in patches:
            sh(f"git -C {wt} checkout -- . && git -C {wt} clean -fdq")
            r = sh(f"git -C {wt} apply {p}")
            if r.returncode:
                rows.append((p, "patch-does-not-apply", "", "-"))
                print(f"{os.path.relpath(p, VERIF):<60} PATCH DOES NOT APPLY: {r.stderr.strip()[:200]}")
                continue
            env = dict(os.environ, GRID_REPO=wt)
            res = []
            for pr in [prop] + [x for x in a.others.split(",") if x]:
                c = subprocess.run([os.path.join(VERIF, "check"), pr, "--tier", a.tier, "--jobs", a.jobs], env=env, capture_output=True, text=True, cwd=VERIF)
                clauses = sorted({l.split("clause=")[1].split()[0] for l in c.stdout.splitlines() if l.strip().startswith("clause=")})
                res.append((pr, c.returncode, clauses))
            suite = "-"
            if a.suite:
                files = " ".join(f"src/grid/tests/{f}" for f in a.suite.split(","))
                t = sh(f"cd {wt} && PYTHONPATH={wt}/src PYTHONDONTWRITEBYTECODE=1 /venv/bin/python -m pytest -q -x -p no:cacheprovider -n 8 {files} 2>&1 | tail -1")
                suite = "pass" if " passed" in t.stdout and "failed" not in t.stdout and "error" not in t.stdout else "FAIL(" + t.stdout.strip()[-60:] + ")"
            main_rc = res[0][1]
            others = " ".join(f"{pr}={rc}" for pr, rc, _ in res[1:])
            print(f"{os.path.relpath(p, VERIF):<60} check={main_rc} {'CAUGHT' if main_rc == 1 else 'MISSED' if main_rc == 0 else 'INCONCLUSIVE'} clauses={','.join(res[0][2])[:120]} suite={suite} {others}")
            rows.append((p, main_rc, res[0][2], suite))
    finally:
        sh(f"git -C /repo worktree remove --force {wt}")
        sh("git -C /repo worktree prune")
        for f in glob.glob(os.path.join(saved, "*.json")):
            shutil.copy(f, evdir)
        shutil.rmtree(saved, ignore_errors=True)
    missed = [r for r in rows if r[1] != 1]
    print(f"{len(rows) - len(missed)}/{len(rows)} caught")
    sys.exit(0 if not missed else 1)


def _meta_prop(p):
    try:
        return json.load(open(os.path.join(os.path.dirname(p), "meta.json")))["property"]
    except Exception:
        return None


if __name__ == "__main__":
    main()
