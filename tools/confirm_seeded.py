#!/venv/bin/python
"""Confirm an independently written property-breaking change and file it under /verif/seeded/<id>/.

usage: tools/confirm_seeded.py <PROP> <src-dir with patch.diff, demo.py[, notes.md]> <seed-id> [--no-suite] [--checks C05,C12]

Steps, all in a scratch worktree of /repo under /tmp (never /repo itself):
  1. demo.py on the unchanged tree          -> must exit 0
  2. git apply patch.diff; demo.py          -> must exit non-zero
  3. the repository's whole test suite      -> must be 598 passed, 1 skipped (same as unchanged)
  4. ./check <PROP> --tier quick with GRID_REPO=<worktree> (and any --checks) -> records exit code / clauses
Writes seeded/<id>/{patch.diff, demo.py, notes.md, meta.json}; removes the worktree.
"""
import argparse
import json
import os
import shutil
import subprocess
import sys
import tempfile
import time

VERIF = os.path.dirname(os.path.dirname(os.path.abspath(__file__)))


def sh(cmd, timeout=None, env=None):
    return subprocess.run(cmd, shell=True, capture_output=True, text=True, timeout=timeout, env=env)


def main():
    ap = argparse.ArgumentParser()
    ap.add_argument("prop")
    ap.add_argument("src")
    ap.add_argument("seed_id")
    ap.add_argument("--no-suite", action="store_true")
    ap.add_argument("--suite-jobs", default="16")
    ap.add_argument("--checks", default="")
    ap.add_argument("--tier", default="quick")
    a = ap.parse_args()
    prop = a.prop.upper()
    patch = os.path.join(a.src, "patch.diff")
    demo = os.path.join(a.src, "demo.py")
    assert os.path.exists(patch) and os.path.exists(demo), "need patch.diff and demo.py"
    wt = tempfile.mkdtemp(prefix=f"wt-seed-{a.seed_id}-", dir="/tmp")
    os.rmdir(wt)
    r = sh(f"git -C /repo worktree add --detach {wt} HEAD")
    assert r.returncode == 0, r.stderr
    meta = {"id": a.seed_id, "property": prop, "repo_head": sh("git -C /repo rev-parse --short HEAD").stdout.strip(), "ran": []}
    env = dict(os.environ, PYTHONPATH=f"{wt}/src", PYTHONDONTWRITEBYTECODE="1")
    try:
        r0 = sh(f"/venv/bin/python -W ignore {demo}", timeout=1800, env=env)
        meta["demo_unchanged_exit"] = r0.returncode
        meta["ran"].append(f"PYTHONPATH=<worktree>/src /venv/bin/python demo.py  (unchanged tree) -> exit {r0.returncode}")
        ra = sh(f"git -C {wt} apply {patch}")
        if ra.returncode:
            meta["error"] = "patch does not apply: " + ra.stderr[:300]
            print(json.dumps(meta, indent=1))
            return 2
        r1 = sh(f"/venv/bin/python -W ignore {demo}", timeout=1800, env=env)
        meta["demo_changed_exit"] = r1.returncode
        meta["demo_changed_tail"] = (r1.stdout + r1.stderr)[-400:]
        meta["ran"].append(f"git apply patch.diff; demo.py (changed tree) -> exit {r1.returncode}")
        if not a.no_suite:
            t0 = time.time()
            rs = sh(f"cd {wt} && /venv/bin/python -m pytest -q -p no:cacheprovider -n {a.suite_jobs} --timeout=1800 src/grid/tests 2>&1 | tail -1", timeout=7200, env=env)
            meta["suite_summary"] = rs.stdout.strip()
            meta["suite_passes"] = ("598 passed" in rs.stdout and "failed" not in rs.stdout and "error" not in rs.stdout.lower())
            meta["ran"].append(f"pytest -n {a.suite_jobs} src/grid/tests (changed tree) -> {rs.stdout.strip()} [{time.time() - t0:.0f}s]")
        cenv = dict(os.environ, GRID_REPO=wt)
        meta["checks"] = {}
        saved = {}
        for pr in [prop] + [x for x in a.checks.split(",") if x]:
            ev = os.path.join(VERIF, "evidence", pr + ".json")
            if os.path.exists(ev):
                saved[ev] = open(ev).read()
            c = subprocess.run([os.path.join(VERIF, "check"), pr, "--tier", a.tier], env=cenv, capture_output=True, text=True, cwd=VERIF)
            clauses = sorted({l.split("clause=")[1].split()[0] for l in c.stdout.splitlines() if l.strip().startswith("clause=")})
            meta["checks"][pr] = {"exit": c.returncode, "tier": a.tier, "clauses_fired": clauses, "violation_lines": sum(1 for l in c.stdout.splitlines() if l.startswith("VIOLATION"))}
            meta["ran"].append(f"GRID_REPO=<worktree> ./check {pr} --tier {a.tier} -> exit {c.returncode} ({'VIOLATION' if c.returncode == 1 else 'held' if c.returncode == 0 else 'inconclusive'})")
        for ev, txt in saved.items():
            open(ev, "w").write(txt)
    finally:
        sh(f"git -C /repo worktree remove --force {wt}")
        sh("git -C /repo worktree prune")
    ok = meta.get("demo_unchanged_exit") == 0 and meta.get("demo_changed_exit", 0) != 0 and (a.no_suite or meta.get("suite_passes"))
    meta["confirmed"] = bool(ok)
    meta["caught_by_check"] = meta["checks"].get(prop, {}).get("exit") == 1
    out = os.path.join(VERIF, "seeded", a.seed_id)
    prev_path = os.path.join(out, "meta.json")
    if os.path.exists(prev_path):  # keep what earlier confirmations established (suite run, first-run note)
        prev = json.load(open(prev_path))
        for k in ("suite_summary", "suite_passes", "first_run"):
            if k in prev and k not in meta:
                meta[k] = prev[k]
        if a.no_suite and "suite_passes" in meta:
            meta["confirmed"] = bool(ok and meta["suite_passes"])
            meta["ran"] += [r for r in prev.get("ran", []) if r.startswith("pytest")]
    if ok:
        os.makedirs(out, exist_ok=True)
        shutil.copy(patch, os.path.join(out, "patch.diff"))
        shutil.copy(demo, os.path.join(out, "demo.py"))
        notes = os.path.join(a.src, "notes.md")
        if os.path.exists(notes):
            shutil.copy(notes, os.path.join(out, "notes.md"))
            meta["needs_to_manifest"] = "see notes.md"
        json.dump(meta, open(os.path.join(out, "meta.json"), "w"), indent=1)
    print(json.dumps(meta, indent=1))
    return 0 if ok else 1


if __name__ == "__main__":
    sys.exit(main())
