#!/venv/bin/python
"""Regenerate /verif/MANIFEST.json from the property modules that exist."""
import importlib, json, os, sys
here = os.path.dirname(os.path.dirname(os.path.abspath(__file__)))
sys.path.insert(0, here)
os.environ.setdefault("GRID_REPO", "/repo")
sys.path.insert(0, "/repo/src")
props = [json.loads(l) for l in open(os.path.join(here, "properties.jsonl"))]
repo_commits = []
checks, na = [], []
for p in props:
    pid = p["id"]
    path = os.path.join(here, "gridrv", "props", pid.lower() + ".py")
    ready = set(open(os.path.join(here, "tools", "ready.txt")).read().split())
    if not os.path.exists(path) or pid not in ready:
        na.append({"property_id": pid, "reason": "check not built yet (work in progress); the technique applies, see DESIGN.md section 4"})
        continue
    mod = importlib.import_module("gridrv.props." + pid.lower())
    checks.append({
        "property_id": pid,
        "quick_cmd": f"./check {pid} --tier quick",
        "thorough_cmd": f"./check {pid} --tier thorough",
        "evidence_file": f"/verif/evidence/{pid}.json",
        "replay_cmd_template": f"./check {pid} --replay {{path}}",
        "engine": "gridrv",
        "level_claimed": {"category": "exploration", "text": getattr(mod, "LEVEL_TEXT", "held on the executions listed in the evidence"), "design_ref": f"DESIGN.md section 4, {pid}"},
        "level_note": getattr(mod, "LEVEL_NOTE", "trusted base: NumPy/SciPy/mpmath of /venv, the independent oracles in gridrv/oracles (self-tested at the start of every run), the tolerances recorded in the evidence"),
        "technique": getattr(mod, "TECHNIQUE", "runtime monitoring: post-condition/invariant monitors on the real API under seeded hostile workloads"),
    })
man = {
    "version": 1,
    "setup_cmd": "./setup.sh",
    "hooks": {
        "guard": "GRID_VERIF",
        "enable": "no source hooks: monitors wrap the real public API from the harness process (gridrv/instrument.py); GRID_VERIF=1 is set in every worker",
        "baseline_off_cmd": "cd /repo && /venv/bin/python -m pytest -ra -q -p no:cacheprovider --timeout=900 --continue-on-collection-errors -n 16",
        "source_commits": [],
        "add_only": True,
    },
    "engines": [{"name": "gridrv", "path": "/verif/gridrv", "serves_properties": [c["property_id"] for c in checks], "kind_free_text": "runtime monitoring: monitors (post-conditions, invariants, reference models, history checkers) wrapped around the real library in worker subprocesses; offline three-valued verdict; evidence writer"}],
    "checks": checks,
    "notes": "All checks import grid from /repo/src (working tree) at every run; nothing is built or cached. Exit 0 held / 1 VIOLATION / 2 INCONCLUSIVE. known_findings.json lists genuine defects (open/fixed).",
    "not_applicable": na,
}
json.dump(man, open(os.path.join(here, "MANIFEST.json"), "w"), indent=1)
print("checks:", [c["property_id"] for c in checks], "na:", len(na))
