#!/bin/bash
# tools/sweep.sh <tier> <seed...>  : run every registered check for the given seeds, print one line per run.
cd "$(dirname "$0")/.."
tier=${1:-quick}; shift
seeds=${@:-0}
props=$(python3 -c "import json;print(' '.join(c['property_id'] for c in json.load(open('MANIFEST.json'))['checks']))")
mkdir -p .work/sweep
for s in $seeds; do for p in ${PROPS:-$props}; do
  t0=$(date +%s); VERIF_SEED=$s ./check $p --tier $tier > .work/sweep/$p-$tier-$s.log 2>&1; rc=$?; t1=$(date +%s)
  echo "$p tier=$tier seed=$s rc=$rc wall=$((t1-t0))s $(grep -c '^VIOLATION' .work/sweep/$p-$tier-$s.log) violations $(grep -c '^KNOWN-FINDING' .work/sweep/$p-$tier-$s.log) known $(grep -c '^INCONCLUSIVE' .work/sweep/$p-$tier-$s.log) inconclusive"
done; done
