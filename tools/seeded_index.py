#!/usr/bin/env python3
"""Regenerate seeded/INDEX.md from seeded/*/meta.json."""
import glob, json, os, re
V = os.path.dirname(os.path.dirname(os.path.abspath(__file__)))
rows = []
for mp in sorted(glob.glob(os.path.join(V, "seeded", "*", "meta.json"))):
    m = json.load(open(mp))
    d = os.path.dirname(mp)
    patch = open(os.path.join(d, "patch.diff")).read()
    files = sorted(set(re.findall(r"^\+\+\+ b/(\S+)", patch, re.M)))
    first = ""
    n = os.path.join(d, "notes.md")
    if os.path.exists(n):
        for l in open(n):
            l = l.strip()
            if l and not l.startswith("#"):
                first = l[:160]; break
        t = open(n).readline().strip("# \n")
    else:
        t = ""
    ck = m.get("checks", {}).get(m["property"], {})
    others = {k: v["exit"] for k, v in m.get("checks", {}).items() if k != m["property"]}
    rows.append((m["id"], m["property"], ", ".join(os.path.basename(f) for f in files), t[:110], "pass" if m.get("suite_passes") else ("pending" if not m.get("suite_summary") else "FAIL"), {1: "CAUGHT", 0: "missed", 2: "inconclusive"}.get(ck.get("exit"), "?"), ",".join(ck.get("clauses_fired", []))[:90], " ".join(f"{k}:{'caught' if v == 1 else 'silent'}" for k, v in others.items())))
with open(os.path.join(V, "seeded", "INDEX.md"), "w") as fh:
    fh.write("# Independently written property-breaking changes\n\nEach directory holds patch.diff (applies to /repo HEAD), demo.py (exit 0 = property holds), notes.md (author's notes: clause broken, what it needs to manifest) and meta.json (what was run to confirm it and the result of the property's quick check on the patched tree, `tools/confirm_seeded.py`). 'first run' misses that led to a strengthened check are listed in DESIGN.md 8.4.\n\n")
    fh.write("| id | property | file(s) | change | unedited suite | quick check | clauses that fired | other checks |\n|---|---|---|---|---|---|---|---|\n")
    for r in rows:
        fh.write("| " + " | ".join(str(x).replace("|", "/") for x in r) + " |\n")
    c = sum(1 for r in rows if r[5] == "CAUGHT")
    fh.write(f"\n{c}/{len(rows)} caught by the property's own quick check.\n")
print(len(rows), "rows")
