#!/usr/bin/env python3
"""Print the prompt given to an independent sub-agent that writes property-breaking changes (gets nothing from /verif)."""
import json, sys
pid = sys.argv[1]
n = sys.argv[2] if len(sys.argv) > 2 else "3"
p = next(json.loads(l) for l in open('/verif/properties.jsonl') if json.loads(l)['id'] == pid)
wt = f"/tmp/adv-{pid.lower()}"
out = f"/tmp/adv-out/{pid.lower()}"
print(f"""You are helping to evaluate how robust an independent verification effort for the Python library theochem/grid is. You get ONLY the text of one semantic property of the library and your own scratch git worktree. Do not read, list or touch anything under /verif (it must stay independent of what you write), and never edit /repo itself.

Setup: `git -C /repo worktree add --detach {wt} HEAD` and work ONLY inside {wt} (library source under {wt}/src/grid, tests under {wt}/src/grid/tests). Run Python as `PYTHONPATH={wt}/src PYTHONDONTWRITEBYTECODE=1 /venv/bin/python ...` (check `import grid; print(grid.__file__)` points into your worktree).

PROPERTY {pid}: {p['title']}
Statement: {p['statement']}
Quantified: {p['quantifier']['text']}

TASK: produce {n} DIFFERENT changes to the library (edit files under src/grid - code or shipped data - not the tests), each of which makes the library violate this property while (a) the package still imports and (b) the ENTIRE existing test suite still passes unedited. Each change must come with a demonstration: a small program demo.py that exits with a non-zero status (assertion failure) when run against the changed tree and exits 0 against the unchanged tree.
- Aim for realistic changes - the kind of slip a maintainer makes in a refactoring, an optimisation, an off-by-one, a wrong branch condition, a copy dropped, a cache key, a sign for one parameter class - NOT sabotage that ordinary use would expose at once. Prefer changes that need something specific to manifest: a particular input class or parameter range (odd sizes, many atoms, non-default options, unusual but documented argument forms), a multi-step sequence of calls on one object or in one process, or two cooperating sites that each look fine alone. The {n} changes should differ from each other in mechanism and location.
- Keep each change small (a few lines). It must break the property as stated (quote the clause it breaks in your notes), not merely change undocumented behaviour.
- Validate: run the relevant test files first, then the whole suite once per change: `cd {wt} && PYTHONPATH={wt}/src /venv/bin/python -m pytest -q -p no:cacheprovider -n 6 --timeout=900 src/grid/tests` (598 tests, takes several minutes on this shared machine; be patient, use a long timeout). A change is only acceptable if the suite result is identical to the unchanged tree (598 passed, 1 skipped).
- Between changes reset the worktree: `git -C {wt} checkout -- .`.

OUTPUT (outside /verif): for change k = 1..{n} write {out}/<k>/patch.diff (output of `git -C {wt} diff`, must apply to /repo HEAD with `git apply`), {out}/<k>/demo.py (self-contained; run as `PYTHONPATH=<tree>/src /venv/bin/python demo.py`; exit 0 = property holds, non-zero = broken), and {out}/<k>/notes.md (which clause it breaks; what it needs in order to manifest; the commands you ran and their results: demo on unchanged tree, demo on changed tree, full-suite summary line).
When done remove your worktree: `git -C /repo worktree remove --force {wt}`. Final answer: a short table of the changes (file, mechanism, what is needed to manifest, suite result).""")
