#!/bin/bash
# Re-run tools/confirm_seeded.py (without the suite) for every seeded change against the current checks.
cd "$(dirname "$0")/.."
for d in seeded/*/; do
  id=$(basename $d); prop=$(python3 -c "import json;print(json.load(open('$d/meta.json'))['property'])")
  others=$(python3 -c "import json;m=json.load(open('$d/meta.json'));print(','.join(k for k in m.get('checks',{}) if k!=m['property']))")
  tmp=$(mktemp -d /tmp/reconf-XXXX); cp $d/patch.diff $d/demo.py $tmp/; [ -f $d/notes.md ] && cp $d/notes.md $tmp/
  if [ -n "$others" ]; then tools/confirm_seeded.py $prop $tmp $id --no-suite --checks $others > /dev/null 2>&1; else tools/confirm_seeded.py $prop $tmp $id --no-suite > /dev/null 2>&1; fi
  rm -rf $tmp
  python3 -c "import json;m=json.load(open('$d/meta.json'));print(m['id'], {k:v['exit'] for k,v in m['checks'].items()}, 'suite', m.get('suite_passes'))"
done
