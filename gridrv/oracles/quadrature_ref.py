"""Independent references for 1-D quadrature rules (property C01).

Two kinds of oracle, neither of which re-types a weight formula of ``grid.onedgrid``:

* **Gram-matrix exactness.**  A rule (x_i, w_i) integrates every polynomial of degree <= D
  against the weight function omega exactly  <=>  sum_i w_i p_j(x_i) p_k(x_i) = delta_jk for
  all j + k <= D, where p_k are the polynomials ORTHONORMAL with respect to omega.  The p_k
  are evaluated by their three-term recurrence (Jacobi-matrix coefficients typed from the
  mathematics and verified at start-up by adaptive quadrature), which is well conditioned
  for every degree used here.  ``exact_degree_profile`` returns the error per total degree
  so that the largest degree D' for which the rule is exact can be measured.
* **Definition oracle.**  For a variable-substitution rule the nodes are phi(t_k) and the
  weights are  step * phi'(t_k)  with phi the DOCUMENTED node map evaluated in mpmath
  (30 digits) and phi' obtained by numerical differentiation (``mp.diff``), i.e. the
  derivative is computed, not typed.  The Hale-Trefethen polynomial maps are built from the
  Taylor coefficients of arcsin (``mp.taylor``), the strip map is typed from the paper and
  verified at start-up against its defining property (the rho-ellipse is mapped onto a strip:
  Im g is constant on the ellipse, g(+-1) = +-1).
"""

from __future__ import annotations

import functools
import math

import mpmath as mp
import numpy as np
from scipy.special import gammaln

DPS = 30

# ------------------------------------------------------------------ orthonormal functions
KINDS = ("legendre", "chebt", "chebu", "laguerre")


def recurrence(kind, K, alpha=0.0):
    """Jacobi coefficients of the orthonormal polynomials of ``kind`` up to degree K.

    x p_k = a_{k+1} p_{k+1} + b_k p_k + a_k p_{k-1};  returns (a[1..K] as a[0..K-1], b[0..K-1], p_0).
    legendre: omega = 1 on [-1,1];  chebt: 1/sqrt(1-x^2);  chebu: sqrt(1-x^2);
    laguerre: x^alpha e^-x on [0,inf).
    """
    k = np.arange(1, K + 1, dtype=float)
    if kind == "legendre":
        return k / np.sqrt(4.0 * k * k - 1.0), np.zeros(K), math.sqrt(0.5)
    if kind == "chebt":
        a = np.full(K, 0.5)
        if K:
            a[0] = math.sqrt(0.5)
        return a, np.zeros(K), 1.0 / math.sqrt(math.pi)
    if kind == "chebu":
        return np.full(K, 0.5), np.zeros(K), math.sqrt(2.0 / math.pi)
    if kind == "laguerre":
        return np.sqrt(k * (k + alpha)), 2.0 * np.arange(K) + alpha + 1.0, math.exp(-0.5 * gammaln(alpha + 1.0))
    raise ValueError(kind)


def orthonormal_vander(kind, x, K, alpha=0.0, scale=None):
    """V[i, k] = scale_i * p_k(x_i), k = 0..K (recurrence run on the scaled values: no overflow)."""
    x = np.asarray(x, dtype=float)
    a, b, p0 = recurrence(kind, K, alpha)
    V = np.empty((x.size, K + 1))
    V[:, 0] = p0 if scale is None else p0 * scale
    if K >= 1:
        V[:, 1] = (x - b[0]) * V[:, 0] / a[0]
    for k in range(1, K):
        V[:, k + 1] = ((x - b[k]) * V[:, k] - a[k - 1] * V[:, k - 1]) / a[k]
    return V


def sqrt_weight_function(kind, x, alpha=0.0):
    """sqrt(omega(x)) of the family (used to multiply the stored, weight-divided, weights back)."""
    x = np.asarray(x, dtype=float)
    if kind == "legendre":
        return np.ones_like(x)
    if kind == "chebt":
        return ((1.0 - x) * (1.0 + x)) ** -0.25
    if kind == "chebu":
        return ((1.0 - x) * (1.0 + x)) ** 0.25
    if kind == "laguerre":
        return np.exp(-0.5 * x) * x ** (0.5 * alpha)
    raise ValueError(kind)


def exact_degree_profile(kind, x, w_stored, D, alpha=0.0):
    """Error of the rule per total polynomial degree d = 0..D.

    err[d] = max( |sum_i W_i p_d(x_i) p_0 - delta_d0| ,  max_{j+k=d, j,k<=D//2+1} |G_jk - delta_jk| )
    with W_i = w_stored_i * omega(x_i).  Returns (err, G-block size).
    """
    x = np.asarray(x, dtype=float)
    w = np.asarray(w_stored, dtype=float)
    r = np.sqrt(np.abs(w)) * sqrt_weight_function(kind, x, alpha)
    sgn = np.sign(w)
    V = orthonormal_vander(kind, x, D, alpha, scale=r)  # psi_k = p_k sqrt(|W|)
    K = min(D, D // 2 + 1)
    Vs = V * sgn[:, None]
    G = Vs[:, : K + 1].T @ V[:, : K + 1]
    col0 = Vs[:, 0] @ V  # sum W p_0 p_d
    err = np.abs(col0 - (np.arange(D + 1) == 0))
    E = np.abs(G - np.eye(K + 1))
    jj, kk = np.indices(E.shape)
    dd = jj + kk
    for d in range(min(D, 2 * K) + 1):
        m = E[dd == d].max()
        if not m <= err[d]:
            err[d] = m
    return err, K


def max_exact_degree(err, tol):
    """Largest D' such that err[d] <= tol for all d <= D' (-1: not even constants)."""
    bad = np.where(~(err <= tol))[0]
    return (len(err) - 1) if len(bad) == 0 else int(bad[0]) - 1


def weight_function(kind, x, alpha=0.0):
    return sqrt_weight_function(kind, x, alpha) ** 2


# ------------------------------------------------------------------ substitution rules
def _mpf(v):
    return mp.mpf(float(v))


NODE_MAPS = {
    # class name -> documented node map phi(t) (class docstring), t_k = k * step
    "TanhSinh": lambda t: mp.tanh(mp.pi / 2 * mp.sinh(t)),
    "ExpSinh": lambda t: mp.exp(mp.pi / 2 * mp.sinh(t)),
    "LogExpSinh": lambda t: mp.log(mp.exp(mp.pi / 2 * mp.sinh(t)) + 1),
    "ExpExp": lambda t: mp.exp(t) * mp.exp(-mp.exp(-t)),
    "SingleTanh": lambda t: mp.tanh(t),
    "SingleExp": lambda t: mp.exp(t),
    "SingleArcSinhExp": lambda t: mp.asinh(mp.exp(t)),
    "UniformInteger": lambda t: t,
}
# largest |t| = m*step for which nodes AND weights of the library formula stay finite in float64
T_MAX = {"TanhSinh": 340.0, "ExpSinh": 6.6, "LogExpSinh": 6.6, "ExpExp": 340.0, "SingleTanh": 340.0, "SingleExp": 340.0, "SingleArcSinhExp": 340.0}
DOMAINS = {"TanhSinh": (-1.0, 1.0), "SingleTanh": (-1.0, 1.0), "ExpSinh": (0.0, np.inf), "LogExpSinh": (0.0, np.inf), "ExpExp": (0.0, np.inf), "SingleExp": (0.0, np.inf), "SingleArcSinhExp": (0.0, np.inf), "UniformInteger": (0.0, np.inf)}


def _to_float(v):
    try:
        return float(v)
    except OverflowError:
        return math.inf if v > 0 else -math.inf


def substitution_reference(name, n, step):
    """(nodes, weights) of the substitution rule ``name`` with n nodes: phi(t_k), step*phi'(t_k)."""
    phi = NODE_MAPS[name]
    with mp.workdps(DPS):
        h = _mpf(step)
        if name == "UniformInteger":
            ks = range(n)
        else:
            m = (n - 1) // 2
            ks = range(-m, m + 1)
        xs, ws = [], []
        for k in ks:
            t = h * k
            xs.append(_to_float(phi(t)))
            ws.append(_to_float(h * mp.diff(phi, t)))
    return np.array(xs), np.array(ws)


def lobatto_reference(n):
    """Chebyshev-Lobatto: trapezoid rule in theta for x = cos(theta), theta_i = (i-1) pi/(n-1), i=1..n.

    Stored (weight-divided) weights = step * c_i * |d cos/d theta| with c_1 = c_n = 1/2; returned ascending.
    """
    with mp.workdps(DPS):
        step = mp.pi / (n - 1)
        xs, ws = [], []
        for i in range(n):
            th = step * i
            c = mp.mpf(1) / 2 if i in (0, n - 1) else mp.mpf(1)
            xs.append(float(mp.cos(th)))
            ws.append(float(step * c * abs(mp.diff(mp.cos, th))))
    return np.array(xs[::-1]), np.array(ws[::-1])


def sine_rule_series_weight(n, i):
    """Weight number i (1-based) of the documented rectangle rule for sine series, on q = 2x-1 in [-1,1].

    w_i = 2/(n+1) sum_{m=1..n} sin(m pi x_i) (1-cos(m pi))/(m pi),  x_i = i/(n+1);  dq = 2 dx.
    """
    with mp.workdps(DPS):
        x = mp.mpf(i) / (n + 1)
        s = mp.mpf(0)
        for m in range(1, n + 1):
            s += mp.sin(m * mp.pi * x) * (1 - mp.cos(m * mp.pi)) / (m * mp.pi)
        return float(2 * x - 1), float(2 * mp.mpf(2) / (n + 1) * s)


def sine_rule_exactness(q, w):
    """max_m | sum_i w_i sin(m pi (q_i+1)/2) - int_{-1}^{1} sin(m pi (q+1)/2) dq |, m = 1..n.

    The defining property of the rectangle rule for sine series (Boyd): exact for the first n sine modes.
    The exact integral is 4/(m pi) for odd m and 0 for even m.
    """
    q = np.asarray(q, dtype=float)
    n = q.size
    m = np.arange(1, n + 1)
    S = np.sin(np.outer(m, np.pi * (q + 1.0) / 2.0))
    exact = np.where(m % 2 == 1, 4.0 / (m * np.pi), 0.0)
    return float(np.abs(S @ np.asarray(w, dtype=float) - exact).max())


# ------------------------------------------------------------------ Hale-Trefethen maps
@functools.lru_cache(None)
def _arcsin_taylor(d):
    with mp.workdps(DPS):
        c = mp.taylor(mp.asin, 0, d)
        tot = mp.fsum(c)
        return tuple(ci / tot for ci in c)


def trefethen_poly_map(d):
    """g(s) = (degree-d Taylor polynomial of arcsin)(s) / (same at 1)  - Hale & Trefethen 2008, section 2."""
    c = _arcsin_taylor(int(d))

    def g(s):
        return mp.polyval(c[::-1], s)

    return g


def _strip_parts(rho):
    tau = mp.pi / mp.log(_mpf(rho))
    d = mp.mpf(1) / 2 + 1 / (mp.exp(tau * mp.pi) + 1)

    def G(u):  # unnormalised map in the variable u = arcsin(s)
        return mp.log(1 + mp.exp(-tau * (mp.pi / 2 + u))) - mp.log(1 + mp.exp(-tau * (mp.pi / 2 - u))) + d * tau * u

    return tau, d, G, G(mp.pi / 2)


def strip_map(rho):
    """Hale-Trefethen strip map g(s), g(+-1) = +-1, conformal from the rho-ellipse onto a strip."""
    tau, d, G, C = _strip_parts(rho)

    def g(s):
        return G(mp.asin(s)) / C

    return g


def strip_map_reference(rho, s_nodes):
    """(g(s_i), g'(s_i)) at EVERY node, the derivative being computed numerically.

    g(s) = G(arcsin s)/C.  Away from the ends g' = mp.diff(g, s).  Within 1e-4 of s = +-1, where arcsin has a
    square-root singularity (a finite-difference stencil in s would leave [-1,1]), the chain rule through the
    regular variable u = arcsin(s) is used:  g'(s) = G'(u) / cos(u) / C  with G' = mp.diff(G, u) and
    cos(u) = sqrt((1-s)(1+s)) evaluated exactly from the float node (30 digits: accurate for 1-|s| down to one ulp).
    At s = +-1 exactly the limit  -G''(pi/2)/C  (second numerical derivative).  The two branches are compared in
    the self-test.
    """
    with mp.workdps(DPS):
        tau, d, G, C = _strip_parts(rho)
        g = lambda s: G(mp.asin(s)) / C  # noqa: E731
        end = -mp.diff(G, mp.pi / 2, 2) / C
        xs, ds = [], []
        for s in s_nodes:
            s = _mpf(s)
            xs.append(float(g(s)))
            dist = 1 - abs(s)
            if dist == 0:
                ds.append(float(end))
            elif dist < mp.mpf(10) ** -4:
                ds.append(float(mp.diff(G, mp.asin(s)) / mp.sqrt((1 - s) * (1 + s)) / C))
            else:
                ds.append(float(mp.diff(g, s)))
    return np.array(xs), np.array(ds)


def poly_map_reference(d, s_nodes):
    with mp.workdps(DPS):
        g = trefethen_poly_map(d)
        xs = [float(g(_mpf(s))) for s in s_nodes]
        ds = [float(mp.diff(g, _mpf(s))) for s in s_nodes]
    return np.array(xs), np.array(ds)


# ------------------------------------------------------------------ closed-form node definitions
def documented_nodes(name, n):
    """Ascending nodes of the rules whose docstring gives them in closed form (long double)."""
    ld = np.longdouble
    i = np.arange(1, n + 1, dtype=ld)
    pi = np.arccos(ld(-1))
    if name in ("GaussChebyshev", "FejerFirst"):
        x = np.cos((2 * i - 1) * pi / (2 * n))
    elif name in ("GaussChebyshevType2", "FejerSecond"):
        x = np.cos(i * pi / (n + 1))
    elif name in ("ClenshawCurtis", "GaussChebyshevLobatto"):
        x = np.cos((i - 1) * pi / (n - 1))
    elif name in ("Trapezoidal", "Simpson"):
        x = -1 + 2 * (i - 1) / (n - 1)
    elif name == "MidPoint":
        x = -1 + (2 * (i - 1) + 1) / ld(n)
    elif name == "RectangleRuleSineEndPoints":
        x = 2 * i / (n + 1) - 1
    else:
        return None
    return np.sort(np.asarray(x, dtype=float))


# ------------------------------------------------------------------ Fejer-2 series (classification of a failure)
def fejer2_series_weights(n, drop=0):
    """Ascending (nodes, weights) of Fejer's second rule with n nodes from its definition, in long double:

        theta_k = k pi / N,  N = n + 1,  k = 1..n,   x_k = cos(theta_k),
        w_k = (4 sin(theta_k) / N) * sum_{j=1}^{floor(N/2) - drop} sin((2j-1) theta_k) / (2j-1).

    drop = 0 is the rule (self-tested to be exact to degree n-1); drop = 1 is the series stopped one term early,
    used ONLY to classify how an inexact FejerSecond fails (signature of the open finding), never to accept it.
    """
    ld = np.longdouble
    N = n + 1
    pi = np.arccos(ld(-1))
    theta = np.arange(1, n + 1, dtype=ld) * pi / N
    acc = np.zeros(n, dtype=ld)
    for j in range(1, N // 2 - int(drop) + 1):
        acc += np.sin((2 * j - 1) * theta) / (2 * j - 1)
    w = 4 * np.sin(theta) * acc / N
    return np.asarray(np.cos(theta)[::-1], dtype=float), np.asarray(w[::-1], dtype=float)


def fejer2_truncation_distance(n, weights):
    """max_k |w_k - w_k(series minus last term)| relative to the mean weight 2/n."""
    w = np.asarray(weights, dtype=float)
    _, wp = fejer2_series_weights(n, drop=1)
    if w.shape != wp.shape or not np.all(np.isfinite(w)):
        return float("inf")
    return float(np.abs(w - wp).max() / (2.0 / n))


# ------------------------------------------------------------------ self-tests
def self_test():
    """Raise when an oracle of this module is wrong (-> the check is INCONCLUSIVE)."""
    from scipy.integrate import quad

    worst = 0.0
    # 1. recurrence coefficients against the integral definition of orthonormality
    for kind, alpha in (("legendre", 0.0), ("chebt", 0.0), ("chebu", 0.0), ("laguerre", 0.0), ("laguerre", -0.5), ("laguerre", 3.7)):
        for j in range(5):
            for k in range(j, 5):

                def p(x, jj=j, kk=k):
                    V = orthonormal_vander(kind, np.atleast_1d(x), 4, alpha)
                    return V[0, jj] * V[0, kk]

                if kind == "legendre":
                    val = quad(p, -1, 1, epsabs=1e-13, epsrel=1e-13)[0]
                elif kind == "chebt":
                    val = quad(lambda th: p(math.cos(th)), 0, math.pi, epsabs=1e-13, epsrel=1e-13)[0]
                elif kind == "chebu":
                    val = quad(lambda th: p(math.cos(th)) * math.sin(th) ** 2, 0, math.pi, epsabs=1e-13, epsrel=1e-13)[0]
                else:  # x = t^2
                    val = quad(lambda t: p(t * t) * 2 * t ** (2 * alpha + 1) * math.exp(-t * t), 0, 12, epsabs=1e-13, epsrel=1e-13, limit=200)[0]
                e = abs(val - (j == k))
                worst = max(worst, e)
                if e > 1e-9:
                    raise AssertionError(f"orthonormal recurrence {kind} alpha={alpha} ({j},{k}): {val}")
    # 2. Gram of NumPy's Gauss-Legendre(8) is the identity; a damaged rule is detected at the right degree
    x, w = np.polynomial.legendre.leggauss(8)
    err, _ = exact_degree_profile("legendre", x, w, 15)
    if err.max() > 1e-14:
        raise AssertionError(f"Gram of leggauss(8) off by {err.max()}")
    err, _ = exact_degree_profile("legendre", x, w, 17)
    if max_exact_degree(err, 1e-9) != 15:
        raise AssertionError("Gauss-Legendre(8) measured exact beyond degree 15")
    w2 = w.copy()
    w2[3] *= 1.001
    if max_exact_degree(exact_degree_profile("legendre", x, w2, 15)[0], 1e-9) != -1:
        raise AssertionError("perturbed rule not detected")
    # closed Newton-Cotes with 3 points is exact to degree 3 and not 4
    err, _ = exact_degree_profile("legendre", np.array([-1.0, 0, 1]), np.array([1.0, 4, 1]) / 3, 6)
    if max_exact_degree(err, 1e-9) != 3:
        raise AssertionError("3-point Simpson not measured as degree 3")
    # 3. substitution reference: sum of weights of tanh-sinh approximates 2, nodes symmetric
    xs, ws = substitution_reference("TanhSinh", 41, 0.2)
    if abs(ws.sum() - 2) > 1e-6 or abs(xs + xs[::-1]).max() > 1e-15:
        raise AssertionError("tanh-sinh reference")
    xs, ws = substitution_reference("SingleExp", 5, 0.5)
    if abs(xs - np.exp(0.5 * np.arange(-2, 3))).max() > 1e-15 or abs(ws - 0.5 * xs).max() > 1e-15:
        raise AssertionError("exp reference")
    # 4. Trefethen maps: g(+-1) = +-1, odd, increasing; strip map sends the rho-ellipse to Im = const
    with mp.workdps(DPS):
        for d in (1, 5, 9):
            g = trefethen_poly_map(d)
            if abs(g(1) - 1) > 1e-25 or abs(g(-1) + 1) > 1e-25 or mp.diff(g, 0.3) <= 0:
                raise AssertionError(f"polynomial map d={d}")
        if abs(trefethen_poly_map(5)(mp.mpf(1) / 2) - (mp.mpf(120) / 2 + mp.mpf(20) / 8 + mp.mpf(9) / 32) / 149) > 1e-25:
            raise AssertionError("polynomial map d=5 value")
        for rho in (1.05, 1.1, 1.7, 3.0):
            tau, d, G, C = _strip_parts(rho)
            g = strip_map(rho)
            if abs(g(1) - 1) > 1e-25 or abs(g(-1) + 1) > 1e-25 or abs(g(mp.mpf("0.37")) + g(mp.mpf("-0.37"))) > 1e-25:
                raise AssertionError(f"strip map ends rho={rho}")
            ims = []
            for ang in (0.3, 0.9, 1.4, 2.2, 2.9):  # upper half of the ellipse
                z = _mpf(rho) * mp.expjpi(ang / mp.pi)
                s = (z + 1 / z) / 2
                ims.append(mp.im(G(mp.asin(s)) / C))
            if max(ims) - min(ims) > 1e-20 or ims[0] <= 0:
                raise AssertionError(f"strip map does not send the rho-ellipse to a horizontal line (rho={rho}): {ims}")
            # end derivative: limit of interior derivative
            _, dd = strip_map_reference(rho, [1.0, 1 - 2.0**-53, 1 - 1e-15])
            if abs(dd[0] - dd[1]) > 1e-5 * abs(dd[0]) or abs(dd[0] - dd[2]) > 1e-5 * abs(dd[0]):
                raise AssertionError("strip end derivative")
            # chain-rule branch (|s| within 1e-4 of 1) against plain numerical differentiation in s
            g = strip_map(rho)
            for sv in (1 - 3e-5, -1 + 7e-7, 1 - 1e-9):
                a1 = strip_map_reference(rho, [sv])[1][0]
                a2 = float(mp.diff(g, _mpf(sv)))
                if abs(a1 - a2) > 1e-12 * abs(a2):
                    raise AssertionError(f"strip derivative branches disagree at s={sv}, rho={rho}: {a1} {a2}")
    # 4b. Fejer-2 definition: the full series is exact to degree n-1, the series minus its last term is not
    for n in (2, 3, 6, 7, 40, 41):
        xf, wf = fejer2_series_weights(n)
        if max_exact_degree(exact_degree_profile("legendre", xf, wf, n - 1)[0], 1e-12) != n - 1:
            raise AssertionError(f"Fejer-2 series definition is not exact to degree n-1 (n={n})")
        xt, wt = fejer2_series_weights(n, drop=1)
        if max_exact_degree(exact_degree_profile("legendre", xt, wt, n - 1)[0], 1e-9) != (n - 3 if n % 2 == 0 else n - 2):
            raise AssertionError(f"truncated Fejer-2 series: unexpected exact degree (n={n})")
        if fejer2_truncation_distance(n, wf) < 1e-4:
            raise AssertionError("truncation classifier cannot tell the full series from the truncated one")
    # 5. sine rule: the series weights satisfy the sine-exactness identity
    qs, wsr = zip(*[sine_rule_series_weight(7, i) for i in range(1, 8)])
    if sine_rule_exactness(np.array(qs), np.array(wsr)) > 1e-14:
        raise AssertionError("sine rule identity")
    return worst
