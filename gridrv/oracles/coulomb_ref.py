"""Independent reference for the electrostatic potential of the spherical Gaussian densities
DOCUMENTED in the docstrings of ``grid.coulomb`` (C17).

Three layers, each validated against the previous one by ``self_test``:

1. ``v_quad``  - the definition: V(r) = (1/r) int_0^r 4 pi s^2 rho(s) ds + int_r^inf 4 pi s rho(s) ds
   evaluated by mpmath tanh-sinh quadrature (40 digits) of the density typed literally from the
   docstring (``rho_mp``).  No closed form, no erf.
2. ``v_closed_mp`` - closed forms derived by hand from (1) (see the derivation below), in mpmath.
3. ``v_ref``  - the same closed forms in float64 (libm ``math.erf``/``math.exp`` through numpy
   ufuncs - not ``scipy.special.erf`` which the library uses - with a Taylor branch for tiny
   arguments), fast enough for dense sweeps.

Derivation (a = alpha, x = sqrt(a) r, Q(r) = charge inside radius r):
 s, normalised   rho = (a/pi)^{3/2} e^{-a r^2}
     Q(r) = erf(x) - (2/sqrt(pi)) x e^{-x^2},   int_r^inf 4 pi s rho = 2 sqrt(a/pi) e^{-x^2}
     V = Q/r + outer = erf(x)/r,                V(0) = 2 sqrt(a/pi)
 p, normalised   rho = (2/3) a^{5/2} pi^{-3/2} r^2 e^{-a r^2}     (integrates to 1)
     int_0^r s^4 e^{-a s^2} ds = (3 sqrt(pi)/(8 a^{5/2})) erf(x) - e^{-x^2} (r^3/(2a) + 3r/(4a^2))
     Q(r)/r = erf(x)/r - sqrt(a/pi) e^{-x^2} ((4/3) x^2 + 2)
     int_r^inf 4 pi s rho = (4/3) sqrt(a/pi) (x^2 + 1) e^{-x^2}
     V = erf(x)/r - (2/3) sqrt(a/pi) e^{-x^2},  V(0) = (4/3) sqrt(a/pi)
 unnormalised densities e^{-a r^2} and r^2 e^{-a r^2} are the normalised ones divided by
     N_s = (a/pi)^{3/2},  N_p = (2/3) a^{5/2} pi^{-3/2};  total charges 1/N_s and 1/N_p.
"""

from __future__ import annotations

import math

import mpmath as mp
import numpy as np

DPS = 40
KINDS = ("s", "p")

_erf = np.frompyfunc(math.erf, 1, 1)


def _exp_neg(t):
    # exp(-t) for t >= 0 (t may be inf); libm through numpy, no scipy
    with np.errstate(under="ignore", over="ignore"):
        return np.exp(-t)


# ------------------------------------------------------------------ layer 1: the definition
def rho_mp(kind, alpha, normalized=True):
    """The density exactly as written in the docstring of coulomb_gaussian_<kind> (mpmath callable)."""
    a = mp.mpf(alpha)
    if kind == "s":
        if normalized:
            return lambda s: (a / mp.pi) ** (mp.mpf(3) / 2) * mp.exp(-a * s * s)
        return lambda s: mp.exp(-a * s * s)
    if kind == "p":
        if normalized:
            return lambda s: (mp.mpf(2) / 3) * a ** (mp.mpf(5) / 2) / mp.pi ** (mp.mpf(3) / 2) * s * s * mp.exp(-a * s * s)
        return lambda s: s * s * mp.exp(-a * s * s)
    raise ValueError(kind)


_BREAKS = (0.25, 0.5, 1, 2, 4, 8, 16, 32)


def v_quad(kind, r, alpha, normalized=True):
    """Potential at radius r by direct quadrature of the Coulomb integral (mpmath, slow: ~50 ms).

    mp.quad works to an ABSOLUTE tolerance, so the integration variable is scaled to the width of the
    density (s = L t, L = 1/sqrt(alpha)) and the integrand is divided by the constant rho(L); otherwise
    integrands of size 1e-45 (unnormalised density at alpha = 1e30, normalised at alpha = 1e-30) would be
    accepted at low order.  This is the same integral of the same documented density.
    """
    with mp.workdps(DPS):
        rho = rho_mp(kind, alpha, normalized)
        a = mp.mpf(alpha)
        L = 1 / mp.sqrt(a)  # width of the density
        r = mp.mpf(r)
        if r == mp.inf:
            return mp.mpf(0)
        rho_l = rho(L)
        x = r / L
        vin = mp.mpf(0)
        if r > 0:
            pts = [mp.mpf(0)] + [mp.mpf(b) for b in _BREAKS if b < x] + [x]
            vin = 4 * mp.pi * L**3 * rho_l * mp.quad(lambda t: t * t * rho(L * t) / rho_l, pts) / r
        # the integrand beyond x + 45 is below e^{-2025}: truncated
        pts = [x] + [x + b for b in _BREAKS] + [x + 45]
        vout = 4 * mp.pi * L**2 * rho_l * mp.quad(lambda t: t * rho(L * t) / rho_l, pts)
        return vin + vout


def charge_quad(kind, alpha, normalized=True):
    """Total charge 4 pi int_0^inf s^2 rho(s) ds by quadrature (scaled as in v_quad)."""
    with mp.workdps(DPS):
        rho = rho_mp(kind, alpha, normalized)
        L = 1 / mp.sqrt(mp.mpf(alpha))
        rho_l = rho(L)
        pts = [mp.mpf(0)] + [mp.mpf(b) for b in _BREAKS] + [mp.mpf(45)]
        return 4 * mp.pi * L**3 * rho_l * mp.quad(lambda t: t * t * rho(L * t) / rho_l, pts)


# ------------------------------------------------------------------ layer 2: closed forms, mpmath
def norm_const_mp(kind, alpha):
    a = mp.mpf(alpha)
    if kind == "s":
        return (a / mp.pi) ** (mp.mpf(3) / 2)
    return (mp.mpf(2) / 3) * a ** (mp.mpf(5) / 2) / mp.pi ** (mp.mpf(3) / 2)


def v_closed_mp(kind, r, alpha, normalized=True):
    with mp.workdps(DPS):
        a = mp.mpf(alpha)
        r = mp.mpf(r)
        if r == mp.inf:
            return mp.mpf(0)
        sa = mp.sqrt(a)
        v = mp.erf(sa * r) / r if r > 0 else 2 * sa / mp.sqrt(mp.pi)
        if kind == "p":
            v -= (mp.mpf(2) / 3) * sa / mp.sqrt(mp.pi) * mp.exp(-a * r * r)
        elif kind != "s":
            raise ValueError(kind)
        if not normalized:
            v /= norm_const_mp(kind, alpha)
        return v


# ------------------------------------------------------------------ layer 3: closed forms, float64
def unnorm_factor(kind, alpha):
    """V_unnormalised / V_normalised = 1/N_kind = total charge of the unnormalised density (float64)."""
    a = float(alpha)
    if kind == "s":
        return (math.pi / a) ** 1.5
    if kind == "p":
        return 1.5 * math.pi**1.5 / a**2.5
    raise ValueError(kind)


def total_charge(kind, alpha, normalized=True):
    return 1.0 if normalized else unnorm_factor(kind, alpha)


def gauss_tail(r, alpha):
    """sqrt(alpha/pi) exp(-alpha r^2) in float64 (the unit of the known p-type discrepancy)."""
    r = np.asarray(r, dtype=float)
    a = float(alpha)
    x = math.sqrt(a) * r
    with np.errstate(over="ignore"):
        return math.sqrt(a / math.pi) * _exp_neg(x * x)


def v_ref(kind, r, alpha, normalized=True):
    """Float64 reference potential for an array of radii r >= 0 (r = inf allowed -> 0)."""
    r = np.asarray(r, dtype=float)
    a = float(alpha)
    sa = math.sqrt(a)
    x = sa * r
    out = np.empty(r.shape, dtype=float)
    small = x < 1e-4
    xs = x[small]
    x2 = xs * xs
    # erf(x)/x = (2/sqrt(pi)) (1 - x^2/3 + x^4/10 - x^6/42 + ...), remainder < 1e-34 for x < 1e-4
    out[small] = (2.0 * sa / math.sqrt(math.pi)) * (1.0 - x2 / 3.0 + x2 * x2 / 10.0)
    big = ~small
    fin = big & np.isfinite(r)
    out[fin] = _erf(x[fin]).astype(float) / r[fin]
    out[big & ~np.isfinite(r)] = 0.0
    if kind == "p":
        with np.errstate(over="ignore"):
            out = out - (2.0 / 3.0) * (sa / math.sqrt(math.pi)) * _exp_neg(x * x)
    elif kind != "s":
        raise ValueError(kind)
    if not normalized:
        out = out * unnorm_factor(kind, a)
    return out


# ------------------------------------------------------------------ self-test
SELFTEST_ALPHAS = (1e-30, 1e-4, 0.013, 1.0, 37.5, 2.4e3, 1e6, 3e17, 1e30)
SELFTEST_X = (0.0, 1e-9, 0.03, 0.4, 1.0, 2.2, 4.5, 9.0, 60.0)


def self_test(n_quad=24, n_dense=1500, seed=12345):
    """Raise RuntimeError when a layer disagrees with the previous one.

    * closed forms (mp) == quadrature of the documented density: ``n_quad`` points per kind drawn
      from the (alpha, x) product above (rotating with ``seed``), rel 1e-30; the DESIGN's anchor
      'the s-type reference equals erf(sqrt(alpha) r)/r' is part of this;
    * total charges == quadrature, rel 1e-30;
    * float64 reference == mp closed forms on ``n_dense`` hostile points, rel 2e-15.
    Returns the largest float64-vs-mp relative error seen.
    """
    with mp.workdps(DPS):
        return _self_test(n_quad, n_dense, seed)


def _self_test(n_quad, n_dense, seed):
    rng = np.random.default_rng(seed)
    combos = [(a, x) for a in SELFTEST_ALPHAS for x in SELFTEST_X]
    for kind in KINDS:
        idx = rng.permutation(len(combos))[:n_quad]
        for j, i in enumerate(idx):
            a, x = combos[i]
            r = x / math.sqrt(a)
            nrm = bool(j % 3)
            q = v_quad(kind, r, a, nrm)
            c = v_closed_mp(kind, r, a, nrm)
            if not abs(q - c) <= mp.mpf(10) ** -30 * abs(q):
                raise RuntimeError(f"coulomb_ref: closed form != quadrature for kind={kind} alpha={a} r={r} normalized={nrm}: {q} vs {c}")
        for a in (1e-30, 1e-4, 0.7, 1e6, 1e30):
            for nrm in (True, False):
                q = charge_quad(kind, a, nrm)
                c = mp.mpf(1) if nrm else 1 / norm_const_mp(kind, a)
                if not abs(q - c) <= mp.mpf(10) ** -30 * abs(q):
                    raise RuntimeError(f"coulomb_ref: total charge != quadrature for kind={kind} alpha={a} normalized={nrm}")
                f = total_charge(kind, a, nrm)
                if not abs(f - q) <= 1e-15 * abs(q):
                    raise RuntimeError(f"coulomb_ref: float64 total charge wrong for kind={kind} alpha={a} normalized={nrm}")
    # special value: r = 1e-300 (inner charge underflows in float64, not in mp) and r = 0
    for kind in KINDS:
        for r in (0.0, 1e-300):
            q = v_quad(kind, r, 2.0, True)
            c = v_closed_mp(kind, r, 2.0, True)
            if not abs(q - c) <= mp.mpf(10) ** -30 * abs(q):
                raise RuntimeError(f"coulomb_ref: closed form != quadrature at r={r} kind={kind}")
    worst = 0.0
    alphas = np.where(rng.random(n_dense) < 0.5, 10.0 ** rng.uniform(-4, 6, n_dense), 10.0 ** rng.uniform(-30, 30, n_dense))
    xs = np.concatenate([10.0 ** rng.uniform(-12, 1.6, n_dense - 8), [0.0, 1e-4, 0.99e-4, 1e-300, 5.0, 6.0, 27.0, 1e9]])
    for k in range(n_dense):
        a = float(alphas[k])
        r = float(xs[k] / math.sqrt(a))
        for kind in KINDS:
            nrm = bool((k + (kind == "p")) % 2)
            f = float(v_ref(kind, np.array([r]), a, nrm)[0])
            c = v_closed_mp(kind, r, a, nrm)
            err = float(abs(mp.mpf(f) - c) / abs(c))
            worst = max(worst, err)
            if not err <= 2e-15:
                raise RuntimeError(f"coulomb_ref: float64 reference off by {err:.2e} for kind={kind} alpha={a} r={r} normalized={nrm}")
    if float(v_ref("s", np.array([np.inf]), 1.0)[0]) != 0.0 or float(v_ref("p", np.array([np.inf]), 1.0)[0]) != 0.0:
        raise RuntimeError("coulomb_ref: reference at r=inf is not 0")
    return worst
