"""Independent reference models for C13 (rectilinear grids).  Shares no code with grid.cubic.

* explicit lexicographic layout of uniform / tensor grids (``np.indices`` in C order),
* tri-cubic polynomials, their partial derivatives (falling factorials) and the derivatives of
  exp(polynomial) from the explicit Faa-di-Bruno formulas up to order three,
* brute-force nearest node,
* margins of nuclei inside a uniform box and a classifier of HOW an enclosure fails,
* a plain-text reader of Gaussian cube files and a writer of the Angstrom convention.
"""

from __future__ import annotations

import numpy as np

# CODATA 2018 Bohr radius in Angstrom, typed here (the library derives its own factor from scipy.constants)
BOHR_IN_ANGSTROM = 0.529177210903


# --------------------------------------------------------------------------- layout
def uniform_points(origin, axes, shape):
    """points[(i,j,k) in C order, last index fastest] = origin + i a1 + j a2 + k a3."""
    shape = tuple(int(m) for m in shape)
    dim = len(shape)
    idx = np.indices(shape).reshape(dim, -1).T.astype(float)  # C order: last index runs fastest
    pts = np.tile(np.asarray(origin, float), (idx.shape[0], 1))
    for k in range(dim):
        pts = pts + idx[:, k : k + 1] * np.asarray(axes[k], float)[None, :]
    return pts


def tensor_points(nodes):
    """nodes: list of D 1-D arrays -> (prod M, D) array in C order."""
    shape = tuple(len(n) for n in nodes)
    idx = np.indices(shape).reshape(len(shape), -1)
    return np.stack([np.asarray(nodes[d])[idx[d]] for d in range(len(shape))], axis=1)


def tensor_weights(ws):
    shape = tuple(len(w) for w in ws)
    idx = np.indices(shape).reshape(len(shape), -1)
    out = np.asarray(ws[0])[idx[0]] * np.asarray(ws[1])[idx[1]]
    if len(ws) == 3:
        out = out * np.asarray(ws[2])[idx[2]]
    return out


def ravel_index(coords, shape):
    """Flat index of integer coordinates, last index fastest (plain arithmetic)."""
    flat = 0
    for c, m in zip(coords, shape):
        flat = flat * int(m) + int(c)
    return flat


def unravel_index(flat, shape):
    out = []
    flat = int(flat)
    for m in reversed([int(m) for m in shape]):
        out.append(flat % m)
        flat //= m
    return tuple(reversed(out))


# --------------------------------------------------------------------------- polynomials
def _dpow(x, n):
    """rows a=0..3: d^n/dx^n x^a."""
    x = np.asarray(x, float)
    out = np.zeros((4, x.size))
    for a in range(4):
        if a < n:
            continue
        ff = 1.0
        for t in range(n):
            ff *= a - t
        out[a] = ff * x ** (a - n)
    return out


def poly3(c, pts, nu=(0, 0, 0)):
    """d^nu of p(x,y,z) = sum c[a,b,c] x^a y^b z^c (a,b,c <= 3) at pts (n,3)."""
    pts = np.asarray(pts, float)
    X = [_dpow(pts[:, d], int(nu[d])) for d in range(3)]
    return np.einsum("abc,an,bn,cn->n", np.asarray(c, float), X[0], X[1], X[2])


def exp_poly3(c, pts, axis=None, order=0):
    """d^order/d(axis)^order of exp(p) (order <= 3, single variable) by the explicit chain rule."""
    f = np.exp(poly3(c, pts))
    if order == 0:
        return f
    nu = lambda n: tuple(n if d == axis else 0 for d in range(3))  # noqa: E731
    p1 = poly3(c, pts, nu(1))
    if order == 1:
        return p1 * f
    p2 = poly3(c, pts, nu(2))
    if order == 2:
        return (p2 + p1**2) * f
    p3 = poly3(c, pts, nu(3))
    if order == 3:
        return (p3 + 3 * p1 * p2 + p1**3) * f
    raise ValueError(order)


# --------------------------------------------------------------------------- nearest node
def brute_closest(points, p):
    """(argmin index, smallest distance, second smallest distance)."""
    d = np.sqrt(((np.asarray(points) - np.asarray(p)[None, :]) ** 2).sum(axis=1))
    o = np.argsort(d, kind="stable")
    return int(o[0]), float(d[o[0]]), float(d[o[1]])


# --------------------------------------------------------------------------- molecule enclosure
def molecule_margins(origin, axes, shape, coords):
    """Distance (in length units along each grid axis) of the outermost nuclei to the first / last grid plane."""
    axes = np.asarray(axes, float)
    steps = np.linalg.norm(axes, axis=1)
    frac = (np.asarray(coords, float) - np.asarray(origin, float)) @ np.linalg.inv(axes)
    m = np.asarray(shape, float)
    lo = frac.min(axis=0) * steps
    hi = (m - 1.0 - frac.max(axis=0)) * steps
    return lo, hi, steps, frac


def classify_enclosure_failure(origin, axes, shape, coords, charges, ext, slack=1e-9):
    """Quantised description of how a box fails to enclose the nuclei with margin ext - spacing.

    off-centre      : the box is long enough along each of its own axes (M_k s_k >= extent_k + 2 ext), it is
                      merely displaced; ';box-centre=charge-centre' when origin + M/2 axes is the centre of charge
    axes-transposed : not long enough along its own axes, but long enough along the rows of axes^T
    box-too-small   : neither
    """
    axes = np.asarray(axes, float)
    coords = np.asarray(coords, float)
    m = np.asarray(shape, float)
    steps = np.linalg.norm(axes, axis=1)
    frac = (coords - np.asarray(origin, float)) @ np.linalg.inv(axes)
    extent = (frac.max(axis=0) - frac.min(axis=0)) * steps
    if np.all(m * steps >= extent + 2 * ext - slack):
        centre = np.asarray(origin, float) + 0.5 * m @ axes
        com = np.asarray(charges, float) @ coords / np.sum(charges)
        same = np.abs(centre - com).max() <= 1e-7 * (1.0 + np.abs(coords).max())
        return "off-centre;" + ("box-centre=charge-centre" if same else "box-centre=elsewhere")
    axes_t = axes.T
    steps_t = np.linalg.norm(axes_t, axis=1)
    frac_t = coords @ np.linalg.inv(axes_t)
    extent_t = (frac_t.max(axis=0) - frac_t.min(axis=0)) * steps_t
    if np.abs(axes - axes_t).max() > 1e-6 * steps.max() and np.all(m * steps_t >= extent_t + 2 * ext - slack):
        return "axes-transposed"
    return "box-too-small"


def inertia_frame(coords, charges):
    """Own principal-axes frame: returns (coords in the frame centred on the centre of charge, moments)."""
    coords = np.asarray(coords, float)
    charges = np.asarray(charges, float)
    com = charges @ coords / charges.sum()
    x = coords - com
    r2 = (x**2).sum(axis=1)
    tensor = np.einsum("i,i,ab->ab", charges, r2, np.eye(3)) - np.einsum("i,ia,ib->ab", charges, x, x)
    ev, vec = np.linalg.eigh(tensor)
    return x @ vec, ev


# --------------------------------------------------------------------------- cube files
def parse_cube(path):
    """Plain reader of the cube layout: 2 comment lines, natom+origin, 3 x (count, vector), atoms, values."""
    with open(path) as fh:
        lines = fh.read().split("\n")
    head = lines[2].split()
    natom = int(head[0])
    origin = [float(v) for v in head[1:4]]
    counts, axes = [], []
    for k in range(3):
        w = lines[3 + k].split()
        counts.append(int(w[0]))
        axes.append([float(v) for v in w[1:4]])
    atoms = []
    for k in range(abs(natom)):
        w = lines[6 + k].split()
        atoms.append((int(w[0]), float(w[1]), [float(v) for v in w[2:5]]))
    tokens = " ".join(lines[6 + abs(natom) :]).split()
    return {"comments": lines[:2], "natom": natom, "origin": origin, "counts": counts, "axes": axes, "atoms": atoms, "tokens": tokens, "data_lines": [ln for ln in lines[6 + abs(natom) :] if ln.strip()]}


def write_cube_angstrom(parsed, path, negative="first"):
    """Write the same cube with all lengths in Angstrom; the convention is flagged by a negative
    voxel count (``negative='first'``: only N1 < 0, ``'all'``: N1, N2, N3 < 0).  Values are untouched."""
    f = BOHR_IN_ANGSTROM
    with open(path, "w") as fh:
        fh.write(parsed["comments"][0] + "\n" + parsed["comments"][1] + "\n")
        o = parsed["origin"]
        fh.write(f"{parsed['natom']:5d} {o[0] * f:16.10f} {o[1] * f:16.10f} {o[2] * f:16.10f}\n")
        for k in range(3):
            n = parsed["counts"][k]
            if negative == "all" or k == 0:
                n = -n
            a = parsed["axes"][k]
            fh.write(f"{n:5d} {a[0] * f:16.10f} {a[1] * f:16.10f} {a[2] * f:16.10f}\n")
        for z, q, xyz in parsed["atoms"]:
            fh.write(f"{z:5d} {q:11.6f} {xyz[0] * f:16.10f} {xyz[1] * f:16.10f} {xyz[2] * f:16.10f}\n")
        for ln in parsed["data_lines"]:
            fh.write(ln + "\n")


# --------------------------------------------------------------------------- self test
def self_test():
    import sympy as sp

    rng = np.random.default_rng(1313)
    # layout: explicit triple loop
    o, a, m = rng.normal(size=3), rng.normal(size=(3, 3)), (2, 3, 4)
    ref = np.array([o + i * a[0] + j * a[1] + k * a[2] for i in range(2) for j in range(3) for k in range(4)])
    if np.abs(uniform_points(o, a, m) - ref).max() > 1e-14:
        raise RuntimeError("uniform_points self-test failed")
    nodes = [rng.normal(size=2), rng.normal(size=3), rng.normal(size=4)]
    ref = np.array([[nodes[0][i], nodes[1][j], nodes[2][k]] for i in range(2) for j in range(3) for k in range(4)])
    if not np.array_equal(tensor_points(nodes), ref):
        raise RuntimeError("tensor_points self-test failed")
    refw = np.array([nodes[0][i] * nodes[1][j] * nodes[2][k] for i in range(2) for j in range(3) for k in range(4)])
    if np.abs(tensor_weights(nodes) - refw).max() > 1e-15:
        raise RuntimeError("tensor_weights self-test failed")
    for flat in range(24):
        c = unravel_index(flat, m)
        if ravel_index(c, m) != flat or c != tuple(int(v) for v in np.unravel_index(flat, m)):
            raise RuntimeError("index arithmetic self-test failed")
    # polynomials against sympy
    x, y, z = sp.symbols("x y z")
    c = rng.normal(size=(4, 4, 4))
    expr = sum(sp.Float(c[i, j, k], 30) * x**i * y**j * z**k for i in range(4) for j in range(4) for k in range(4))
    pts = rng.uniform(-1.5, 1.5, (3, 3))
    for nu in [(0, 0, 0), (1, 0, 2), (3, 3, 3), (0, 2, 0), (2, 1, 3)]:
        d = expr
        for s, n in zip((x, y, z), nu):
            if n:
                d = sp.diff(d, s, n)
        want = np.array([float(d.subs({x: p[0], y: p[1], z: p[2]})) for p in pts])
        got = poly3(c, pts, nu)
        if np.abs(got - want).max() > 1e-10 * (1 + np.abs(want).max()):
            raise RuntimeError(f"poly3 self-test failed for nu={nu}")
    c2 = 0.2 * c
    e2 = sp.exp(sum(sp.Float(c2[i, j, k], 30) * x**i * y**j * z**k for i in range(4) for j in range(4) for k in range(4)))
    for axis, s in enumerate((x, y, z)):
        for n in (1, 2, 3):
            d = sp.diff(e2, s, n)
            want = np.array([float(d.subs({x: p[0], y: p[1], z: p[2]})) for p in pts[:2]])
            got = exp_poly3(c2, pts[:2], axis, n)
            if np.abs(got - want).max() > 1e-9 * (1 + np.abs(want).max()):
                raise RuntimeError(f"exp_poly3 self-test failed axis={axis} n={n}")
    # enclosure classifier on hand-made boxes
    coords = np.array([[0.0, 0, -1.0], [0.0, 0, 1.0]])
    ch = np.array([1.0, 1.0])
    ax = np.eye(3) * 0.5
    lo, hi, _, _ = molecule_margins(np.array([-2.0, -2, -3.0]), ax, (9, 9, 13), coords)
    if not (np.allclose(lo, [2, 2, 2]) and np.allclose(hi, [2, 2, 2])):
        raise RuntimeError("molecule_margins self-test failed")
    if classify_enclosure_failure(np.array([-2.0, -2, -2.0]), ax, (8, 8, 12), coords, ch, 2.0) != "off-centre;box-centre=elsewhere":
        raise RuntimeError("classifier self-test (off-centre) failed")
    if classify_enclosure_failure(np.array([-2.0, -2, -2.0]), ax, (8, 8, 8), coords, ch, 2.0) != "box-too-small":
        raise RuntimeError("classifier self-test (too small) failed")
    return True
