"""Manufactured linear ODE problems with known solutions (oracle of C15).

Nothing here uses ``grid.ode``.  A problem is

    sum_{k=0..K} a_k(x) y^(k)(x) = f(x),     K in {1, 2, 3},

where the SOLUTION is chosen first from a closed-form family

    y(x) = cs*sin(w*u + p) + ce*exp(l*u) + q0 + q1*u + q2*u^2 + q3*u^3,     u = x - xc,

(optionally plus a term cl*exp((x - xb)/dl) that varies rapidly towards xb, and a correction polynomial sum_j q2_j (x - xc2)^j that makes chosen derivatives at chosen points INTEGERS,
see ``integerise``) whose derivatives of every order are typed analytically (NumPy), the coefficient functions are

    a_k(x) = alpha_k + beta_k * s_k(u),    s in {0, sin(om*u+ph), 2/(1+u^2)-1, tanh(om*u)}   (|s| <= 1),

and the right-hand side is DEFINED as f := sum a_k y^(k).  The leading coefficient satisfies
alpha_K - |beta_K| >= 0.5.  The whole equation may be multiplied by a common factor ``lam`` (coefficients AND right-hand
side: the solution does not change).  ``self_test`` re-derives y', y'', y''' and f of random instances with SymPy
(symbolic differentiation, 30-digit evaluation) and compares with the NumPy closed forms.

Also here: ``map_derivs`` - derivatives g', g'' of an implemented coordinate map obtained ONLY from its forward
map ``tf.transform`` (Chebyshev interpolation on a small interval), so that the harness can convert derivative
boundary values into the transformed variable and size its tolerances without calling ``tf.deriv*``.
"""

from __future__ import annotations

import math

import numpy as np

SHAPES = ("const", "sin", "lorentz", "tanh")


# --------------------------------------------------------------------------- solution family
def y_deriv(sol, x, k):
    """k-th derivative (k >= 0) of the manufactured solution at the points x (fresh array)."""
    x = np.asarray(x, dtype=float)
    u = x - sol["xc"]
    out = sol["cs"] * sol["w"] ** k * np.sin(sol["w"] * u + sol["p"] + k * (math.pi / 2))
    out = out + sol["ce"] * sol["l"] ** k * np.exp(sol["l"] * u)
    q = sol["q"]
    for j in range(k, len(q)):
        # d^k u^j = j!/(j-k)! u^(j-k)
        out = out + q[j] * (math.factorial(j) / math.factorial(j - k)) * u ** (j - k)
    if "cl" in sol:  # optional term varying rapidly towards the point xb: cl*exp((x - xb)/dl)
        out = out + sol["cl"] * sol["dl"] ** (-k) * np.exp((x - sol["xb"]) / sol["dl"])
    q2 = sol.get("q2")
    if q2:
        u2 = x - sol["xc2"]
        for j in range(k, len(q2)):
            out = out + q2[j] * (math.factorial(j) / math.factorial(j - k)) * u2 ** (j - k)
    return out


def shape_value(c, x):
    """s(u) of one coefficient function, |s| <= 1 (fresh array)."""
    u = np.asarray(x, dtype=float) - c["xc"]
    kind = c["shape"]
    if kind == "const":
        return np.zeros_like(u)
    if kind == "sin":
        return np.sin(c["om"] * u + c["ph"])
    if kind == "lorentz":
        return 2.0 / (1.0 + u * u) - 1.0
    if kind == "tanh":
        return np.tanh(c["om"] * u)
    raise ValueError(kind)


def coeff_value(c, x):
    """a(x) = alpha + beta*s(u) evaluated on x (fresh array)."""
    return c["alpha"] + c["beta"] * shape_value(c, x)


class Problem:
    """One manufactured problem; ``params`` is a small JSON-able description (for evidence/replay notes)."""

    def __init__(self, order, sol, coefs, lam=1.0):
        self.lam = float(lam)  # common factor of all coefficients and of the right-hand side
        self.order = int(order)
        self.sol = sol
        self.coefs = coefs  # list of K+1 dicts
        assert len(coefs) == order + 1
        self.calls = {"fx": 0, "coef": 0}

    # exact quantities ---------------------------------------------------------------
    def y(self, x, k=0):
        return y_deriv(self.sol, x, k)

    def exact(self, x):
        """array (K, N): y, y', ..., y^(K-1) at x."""
        return np.array([self.y(x, k) for k in range(self.order)])

    def a(self, k, x):
        return self.lam * coeff_value(self.coefs[k], x)

    def f(self, x):
        x = np.asarray(x, dtype=float)
        tot = np.zeros_like(x)
        for k in range(self.order + 1):
            tot = tot + self.a(k, x) * self.y(x, k)
        return tot

    # what is handed to the library --------------------------------------------------
    def fx_callback(self):
        def fx(x):
            self.calls["fx"] += 1
            return np.array(self.f(x), dtype=float)  # always a fresh array

        return fx

    def coeff_arg(self, mode):
        """``coeffs`` argument. mode: 'callable' (all callables), 'mixed' (constants passed as numbers),
        'array' / 'list' (only for all-constant problems: ndarray / list of Python floats)."""
        const = [c["shape"] == "const" or c["beta"] == 0.0 for c in self.coefs]
        if mode == "array":
            if not all(const):
                raise ValueError("coefficient mode needs an all-constant problem")
            return np.array([self.lam * c["alpha"] for c in self.coefs], dtype=float)
        if mode == "list":
            if not all(const):
                raise ValueError("coefficient mode needs an all-constant problem")
            return [float(self.lam * c["alpha"]) for c in self.coefs]
        out = []
        for k, c in enumerate(self.coefs):
            if const[k] and mode == "mixed":
                out.append(float(self.lam * c["alpha"]) if k % 2 else np.float64(self.lam * c["alpha"]))
            else:
                out.append(self._coef_callback(k))
        return out

    def _coef_callback(self, k):
        def a_k(x):
            self.calls["coef"] += 1
            return np.array(self.lam * coeff_value(self.coefs[k], x), dtype=float)  # fresh array

        return a_k

    def is_constant(self):
        return all(c["shape"] == "const" or c["beta"] == 0.0 for c in self.coefs)

    def describe(self):
        return {"order": self.order, "lam": self.lam, "sol": _round(self.sol), "coefs": [_round(c) for c in self.coefs]}


def _round(d):
    return {k: (round(float(v), 6) if isinstance(v, (float, np.floating)) else ([round(float(t), 6) for t in v] if isinstance(v, (list, np.ndarray)) else v)) for k, v in d.items()}


def _pm(rng, lo, hi):
    return float(rng.choice([-1.0, 1.0]) * rng.uniform(lo, hi))


def random_solution(rng, xc):
    q = [_pm(rng, 0.1, 1.0), _pm(rng, 0.1, 1.0), _pm(rng, 0.05, 0.5), _pm(rng, 0.02, 0.2)]
    return {"xc": float(xc), "cs": _pm(rng, 0.3, 1.5), "w": float(rng.uniform(0.5, 3.0)), "p": float(rng.uniform(0, 2 * math.pi)), "ce": _pm(rng, 0.2, 1.0), "l": _pm(rng, 0.2, 1.2), "q": q}


def _shape(rng, xc, const):
    if const:
        return {"shape": "const", "xc": float(xc), "om": 0.0, "ph": 0.0}
    return {"shape": str(rng.choice(SHAPES[1:])), "xc": float(xc), "om": float(rng.uniform(0.5, 2.5)), "ph": float(rng.uniform(0, 2 * math.pi))}


def random_problem(rng, order, xc, kind, constant):
    """kind: 'ivp' | 'bvp'.  Well-posedness recipe (see DESIGN C15):
    ivp  - any non-zero lower-order coefficients with |a_k| <= 1.3, leading >= 0.5 (mostly >= 0.8);
    bvp1 - same (a first-order problem with one condition is an IVP);
    bvp2 - a_0(x) <= -0.1 everywhere and a_2 >= 0.5 (maximum principle: Dirichlet / mixed problem uniquely solvable);
    bvp3 - |a_0|,|a_1|,|a_2| <= 0.3 with a_3 >= 0.8 on an interval of length <= 1 (perturbation of y''' = f)."""
    sol = random_solution(rng, xc)
    coefs = []
    for k in range(order + 1):
        c = _shape(rng, xc, constant)
        if k == order:  # leading
            c["alpha"] = float(rng.uniform(0.9, 2.0))
            c["beta"] = 0.0 if constant else _pm(rng, 0.05, min(0.6, c["alpha"] - 0.5))
            if kind == "bvp" and order == 3:
                c["alpha"] = float(rng.uniform(1.0, 2.0))
                c["beta"] = 0.0 if constant else _pm(rng, 0.05, 0.2)
        elif kind == "bvp" and order == 2 and k == 0:
            c["alpha"] = -float(rng.uniform(0.3, 1.5))
            c["beta"] = 0.0 if constant else _pm(rng, 0.05, abs(c["alpha"]) - 0.1)
        elif kind == "bvp" and order == 3:
            c["alpha"] = _pm(rng, 0.05, 0.2)
            c["beta"] = 0.0 if constant else _pm(rng, 0.02, 0.1)
        else:
            c["alpha"] = _pm(rng, 0.2, 0.9)
            c["beta"] = 0.0 if constant else _pm(rng, 0.05, 0.4)
        coefs.append(c)
    return Problem(order, sol, coefs)


def integerise(pr, conds, rng):
    """Make the prescribed data integers: add to the manufactured solution the polynomial P of degree < len(conds) with
    P^(k)(x_e) = n - y^(k)(x_e) for every condition (x_e, k) in `conds`, n = an integer next to the current value
    (so the correction stays O(1)).  f is defined from y, so it follows automatically.  Returns the integers, in order."""
    m = len(conds)
    xc2 = float(np.mean([xe for xe, _ in conds]))
    A = np.zeros((m, m))
    rhs = np.zeros(m)
    targets = []
    pr.sol.pop("q2", None)
    for i, (xe, k) in enumerate(conds):
        cur = float(pr.y(np.array([xe]), k)[0])
        n = int(round(cur)) + int(rng.integers(-1, 2))
        targets.append(n)
        rhs[i] = n - cur
        for j in range(k, m):
            A[i, j] = math.factorial(j) / math.factorial(j - k) * (xe - xc2) ** (j - k)
    pr.sol["xc2"] = xc2
    pr.sol["q2"] = [float(v) for v in np.linalg.solve(A, rhs)]
    for (xe, k), n in zip(conds, targets):
        got = float(pr.y(np.array([xe]), k)[0])
        if abs(got - n) > 1e-12 * max(1.0, abs(n)):
            raise RuntimeError(f"ode_ref.integerise: y^({k})({xe}) = {got!r}, wanted {n}")
    return targets


# --------------------------------------------------------------------------- conditioning of the problem itself
def propagators(pr, xs):
    """Phi(xs[i], xs[0]) (n, K, K): fundamental matrices of the homogeneous companion system of the problem in the
    ORIGINAL variable, by a tight SciPy integration of our own right-hand side (used only to size tolerances)."""
    from scipy.integrate import solve_ivp

    K = pr.order
    xs = np.asarray(xs, dtype=float)
    order_ix = np.argsort(xs)
    x0 = xs[0]

    def rhs(x, z):
        Z = z.reshape(K, K)
        xa = np.array([x])
        top = float(pr.a(K, xa)[0])
        last = -sum(float(pr.a(k, xa)[0]) * Z[k] for k in range(K)) / top
        return np.vstack((Z[1:], last[None, :])).ravel()

    out = np.zeros((xs.size, K, K))
    for sign in (1, -1):  # xs[0] need not be an end of the range
        sel = [i for i in order_ix if (xs[i] - x0) * sign > 0]
        if sign == -1:
            sel = sel[::-1]
        if not sel:
            continue
        res = solve_ivp(rhs, (x0, xs[sel[-1]]), np.eye(K).ravel(), t_eval=xs[sel], method="DOP853", rtol=1e-9, atol=1e-12)
        if res.status != 0 or res.y.shape[1] != len(sel):
            raise RuntimeError("ode_ref.propagators: reference integration failed")
        for c, i in enumerate(sel):
            out[i] = res.y[:, c].reshape(K, K)
    for i in range(xs.size):
        if xs[i] == x0:
            out[i] = np.eye(K)
    return out


# --------------------------------------------------------------------------- map derivatives from the forward map
def map_derivs(tf, x, nmax=2, n=20, rho_cap=0.2):
    """[g'(x), g''(x), ...] (nmax of them) of the implemented map r = tf.transform(x), from the forward map only.

    Chebyshev interpolation of degree n-1 on [x-rho, x+rho] with rho = min(max(rho_cap, 0.05|x|), 0.45*distance to the
    nearest end of tf.domain); all sample points stay inside the domain.  The map is sampled and the coefficients are
    formed in np.longdouble (every transform class accepts it): for maps with a tiny slope on top of an O(1) offset
    double-precision samples would not resolve the variation of the map.
    """
    ld = np.longdouble
    lo, hi = (float(v) for v in tf.domain)
    x = float(x)
    d = min(x - lo if math.isfinite(lo) else math.inf, hi - x if math.isfinite(hi) else math.inf)
    rho = min(max(rho_cap, 0.05 * abs(x)), 0.45 * d)
    if not rho > 0:
        raise ValueError(f"map_derivs: point {x} not strictly inside the domain {tf.domain}")
    theta = (np.arange(n, dtype=ld) + ld(0.5)) * _PI_LD / ld(n)
    t = np.cos(theta)
    vals = np.asarray(tf.transform(ld(x) + ld(rho) * t), dtype=ld)
    # discrete Chebyshev transform at the Chebyshev nodes: c_k = (2 - [k=0])/n * sum_j f(t_j) cos(k theta_j)
    kk = np.arange(n, dtype=ld)
    c = (np.cos(kk[:, None] * theta[None, :]) @ vals) * (ld(2) / ld(n))
    c[0] = c[0] / ld(2)
    out = []
    for k in range(1, nmax + 1):
        c = _chebder(c)
        t0 = np.array([(1, 0, -1, 0)[i % 4] for i in range(c.size)], dtype=ld)  # T_i(0)
        out.append(float((c @ t0) / ld(rho) ** k))
    return out


_PI_LD = np.longdouble("3.14159265358979323846264338327950288")


def _chebder(c):
    """Derivative of a Chebyshev series (the recurrence of numpy's chebder, dtype preserving)."""
    n = c.size - 1
    if n < 1:
        return np.zeros(1, dtype=c.dtype)
    c = c.copy()
    der = np.zeros(n, dtype=c.dtype)
    for j in range(n, 2, -1):
        der[j - 1] = 2 * j * c[j]
        c[j - 2] += j * c[j] / (j - 2)
    if n > 1:
        der[1] = 4 * c[2]
    der[0] = c[1]
    return der


def bell_matrix(g1, g2, size):
    """Faa di Bruno: [y', y'']^T = M [Y_r, Y_rr]^T for y(x) = Y(g(x)) (typed from the chain rule)."""
    if size == 0:
        return np.zeros((0, 0))
    if size == 1:
        return np.array([[g1]])
    return np.array([[g1, 0.0], [g2, g1 * g1]])


# --------------------------------------------------------------------------- self test
class _FakeMap:
    def __init__(self, fn, domain):
        self.transform, self.domain = fn, domain


def _require(cond, msg="oracle self-test failed"):
    if not cond:
        raise AssertionError(msg)


def self_test(nprob=3, seed=12345):
    """Raises AssertionError when the closed forms disagree with SymPy or map_derivs is inaccurate."""
    import sympy as sp

    rng = np.random.default_rng(seed)
    X = sp.Symbol("x")
    worst = 0.0
    for i in range(nprob):
        order = 1 + i % 3
        pr = random_problem(rng, order, xc=float(rng.uniform(-0.5, 3.0)), kind="ivp" if i % 2 else "bvp", constant=False)
        pr.lam = (1.0, 3.7e-18, 2.5e11)[i % 3]
        if i != 1:
            pr.sol.update({"cl": -0.7, "dl": 0.21, "xb": pr.sol["xc"] + 0.9})
        x0 = pr.sol["xc"] - 0.7
        ints = integerise(pr, [(x0, k) for k in range(order)] + ([(x0 + 1.5, 0)] if i % 2 else []), rng)
        _require(all(isinstance(n, int) for n in ints) and abs(float(pr.y(np.array([x0]), 0)[0]) - ints[0]) < 1e-12)
        s = pr.sol
        R = lambda v: sp.Rational(repr(float(v)))  # exact decimal of the double's repr  # noqa: E731
        u = X - R(s["xc"])
        ysym = R(s["cs"]) * sp.sin(R(s["w"]) * u + R(s["p"])) + R(s["ce"]) * sp.exp(R(s["l"]) * u) + sum(R(q) * u**j for j, q in enumerate(s["q"]))
        ysym = ysym + sum(R(q) * (X - R(s["xc2"])) ** j for j, q in enumerate(s["q2"]))
        if "cl" in s:
            ysym = ysym + R(s["cl"]) * sp.exp((X - R(s["xb"])) / R(s["dl"]))
        fsym = 0
        pts = [float(s["xc"] + t) for t in (-1.1, -0.3, 0.0, 0.45, 1.2)]
        for k in range(order + 1):
            c = pr.coefs[k]
            uc = X - R(c["xc"])
            shp = {"const": sp.Integer(0), "sin": sp.sin(R(c["om"]) * uc + R(c["ph"])), "lorentz": 2 / (1 + uc**2) - 1, "tanh": sp.tanh(R(c["om"]) * uc)}[c["shape"]]
            asym = R(pr.lam) * (R(c["alpha"]) + R(c["beta"]) * shp)
            dk = sp.diff(ysym, X, k)
            fsym = fsym + asym * dk
            for xv in pts:
                ref = float(dk.evalf(30, subs={X: R(xv)}))
                got = float(pr.y(np.array([xv]), k)[0])
                worst = max(worst, abs(ref - got) / (1 + abs(ref)))
                refa = float(asym.evalf(30, subs={X: R(xv)}))
                worst = max(worst, abs(refa - float(pr.a(k, np.array([xv]))[0])) / pr.lam)
        for xv in pts:
            ref = float(fsym.evalf(30, subs={X: R(xv)}))
            worst = max(worst, abs(ref - float(pr.f(np.array([xv]))[0])) / (pr.lam + abs(ref)))
        # callbacks return fresh arrays
        xx = np.array(pts)
        fx = pr.fx_callback()
        a1, a2 = fx(xx), fx(xx)
        _require(a1 is not a2 and a1.base is None)
    _require(worst < 1e-12, f"ode_ref closed forms disagree with SymPy: {worst:.3g}")
    # map_derivs on maps with known derivatives
    m1 = _FakeMap(lambda x: 1.7 * (1 + x) / (1 - x) + 0.3, (-1, 1))
    for xv in (-0.9, 0.0, 0.9):
        g1, g2 = map_derivs(m1, xv)
        e1, e2 = 2 * 1.7 / (1 - xv) ** 2, 4 * 1.7 / (1 - xv) ** 3
        _require(abs(g1 / e1 - 1) < 1e-10 and abs(g2 / e2 - 1) < 1e-7, (xv, g1 / e1 - 1, g2 / e2 - 1))
    m2 = _FakeMap(lambda x: 0.2 * np.exp(0.8 * x), (0, np.inf))
    for xv in (0.1, 3.0, 6.0):
        g1, g2 = map_derivs(m2, xv)
        e1 = 0.16 * math.exp(0.8 * xv)
        _require(abs(g1 / e1 - 1) < 1e-10 and abs(g2 / (0.8 * e1) - 1) < 1e-7, (xv, g1 / e1 - 1))
    # tiny slope on top of an O(1) offset (needs the extended-precision sampling)
    m3 = _FakeMap(lambda x: 0.3 + 1e-7 * (x + 0.25 * x * x), (-1, 1))
    g1, g2 = map_derivs(m3, 0.4)
    _require(abs(g1 / 1.2e-7 - 1) < 1e-8 and abs(g2 / 0.5e-7 - 1) < 1e-5, (g1 / 1.2e-7 - 1, g2 / 0.5e-7 - 1))
    # propagators on y'' + 4 y = 0: Phi(x, 0) = [[cos 2x, sin 2x / 2], [-2 sin 2x, cos 2x]]
    c0 = {"shape": "const", "xc": 0.0, "om": 0.0, "ph": 0.0, "beta": 0.0}
    pr = Problem(2, random_solution(rng, 0.0), [dict(c0, alpha=4.0), dict(c0, alpha=0.0), dict(c0, alpha=1.0)])
    xt = np.array([0.0, 1.3, 0.4, 0.9])
    ph = propagators(pr, xt)
    ref = np.array([[[math.cos(2 * x), math.sin(2 * x) / 2], [-2 * math.sin(2 * x), math.cos(2 * x)]] for x in xt])
    _require(np.max(np.abs(ph - ref)) < 1e-7, np.max(np.abs(ph - ref)))
    return worst
