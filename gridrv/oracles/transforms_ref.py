"""transforms_ref - mpmath (40 digits) reference maps of the 11 closed-form radial transforms, typed from the class
docstrings of ``grid.rtransform`` (the documented maths, not the code), with ``mp.diff`` derivatives.

SECONDARY layer of C03: it sharpens the primary ``numdiff`` oracle (rel 1e-9 instead of 1e-5) but cannot raise a false
alarm about the formula itself: an instance is compared only when the IMPLEMENTED forward map agrees with the reference
map to 1e-12 on the sample; otherwise the layer is skipped for that instance and counted as ``model_mismatch``
(the property does not fix the formula, only the self-consistency of the methods).
"""

from __future__ import annotations

import mpmath as mp
import numpy as np

DPS = 40
TOL_MODEL = 1e-12
TOL_DERIV = 1e-9


def ref_map(kind, a, b=None):
    """Return f(x) (mp numbers) for the documented forward map. ``a`` = constructor arguments, b = scale point."""
    M = mp.mpf
    if kind == "Becke":
        R, rmin = M(a["R"]), M(a["rmin"])
        return lambda x: R * (1 + x) / (1 - x) + rmin
    if kind == "LinearFinite":
        rmin, rmax = M(a["rmin"]), M(a["rmax"])
        return lambda x: (rmax - rmin) / 2 * (1 + x) + rmin
    if kind == "Identity":
        return lambda x: x
    if kind == "LinearInfinite":
        rmin, rmax, bb = M(a["rmin"]), M(a["rmax"]), M(b)
        return lambda x: (rmax - rmin) / bb * x + rmin
    if kind == "Exp":
        rmin, rmax, bb = M(a["rmin"]), M(a["rmax"]), M(b)
        return lambda x: rmin * mp.exp(x * mp.log(rmax / rmin) / bb)
    if kind == "Power":
        rmin, rmax, bb = M(a["rmin"]), M(a["rmax"]), M(b)
        p = (mp.log(rmax) - mp.log(rmin)) / mp.log(bb + 1)
        return lambda x: rmin * (x + 1) ** p
    if kind == "Hyperbolic":
        aa, bb = M(a["a"]), M(a["b"])
        return lambda x: aa * x / (1 - bb * x)
    if kind == "MultiExp":
        R, rmin = M(a["R"]), M(a["rmin"])
        return lambda x: -R * mp.log((x + 1) / 2) + rmin
    if kind == "Knowles":
        R, rmin, k = M(a["R"]), M(a["rmin"]), M(a["k"])
        return lambda x: rmin - R * mp.log(1 - M(2) ** (-k) * (x + 1) ** k)
    if kind == "Handy":
        R, rmin, m = M(a["R"]), M(a["rmin"]), M(a["m"])
        return lambda x: R * ((1 + x) / (1 - x)) ** m + rmin
    if kind == "HandyMod":
        rmin, rmax, m = M(a["rmin"]), M(a["rmax"]), M(a["m"])
        s, t = rmax - rmin, M(2) ** m
        return lambda x: (1 + x) ** m * s / (t * (1 - t + s) - (1 + x) ** m * (s - t)) + rmin
    raise ValueError(kind)


def self_test():
    """Every reference map is monotone on its domain and hits its documented end points."""
    with mp.workdps(DPS):
        args = {
            "Becke": {"rmin": 0.1, "R": 1.3},
            "LinearFinite": {"rmin": 0.1, "rmax": 7.0},
            "Identity": {},
            "LinearInfinite": {"rmin": 0.1, "rmax": 7.0},
            "Exp": {"rmin": 0.1, "rmax": 7.0},
            "Power": {"rmin": 0.1, "rmax": 7.0},
            "Hyperbolic": {"a": 2.0, "b": 0.01},
            "MultiExp": {"rmin": 0.1, "R": 1.3},
            "Knowles": {"rmin": 0.1, "R": 1.3, "k": 2.5},
            "Handy": {"rmin": 0.1, "R": 1.3, "m": 2.5},
            "HandyMod": {"rmin": 0.1, "rmax": 9.0, "m": 2.5},
        }
        for kind, a in args.items():
            f = ref_map(kind, a, b=5.0)
            if kind in ("Becke", "LinearFinite", "MultiExp", "Knowles", "Handy", "HandyMod"):
                xs = [mp.mpf(-1) + mp.mpf(2) * i / 50 for i in range(1, 50)]
                lo, hi = mp.mpf(-1), mp.mpf(1)
            elif kind == "Hyperbolic":
                xs = [mp.mpf(99) * i / 50 for i in range(1, 50)]
                lo, hi = mp.mpf(0), None
            else:
                xs = [mp.mpf(5) * i / 50 for i in range(1, 50)]
                lo, hi = mp.mpf(0), mp.mpf(5)
            v = [f(x) for x in xs]
            d = [v[i + 1] - v[i] for i in range(len(v) - 1)]
            if not (all(t > 0 for t in d) or all(t < 0 for t in d)):
                raise AssertionError(f"transforms_ref: {kind} reference map not monotone")
            want_lo = {"MultiExp": None, "Identity": 0, "Hyperbolic": 0}.get(kind, a.get("rmin"))
            if want_lo is not None and abs(f(lo) - mp.mpf(want_lo)) > mp.mpf(10) ** -30:
                raise AssertionError(f"transforms_ref: {kind} lower end point")
            if kind in ("LinearFinite", "HandyMod", "LinearInfinite", "Exp", "Power") and abs(f(hi) - mp.mpf(a["rmax"])) > mp.mpf(10) ** -30:
                raise AssertionError(f"transforms_ref: {kind} upper end point")
            if kind == "MultiExp" and abs(f(hi) - mp.mpf(a["rmin"])) > mp.mpf(10) ** -30:
                raise AssertionError("transforms_ref: MultiExp upper end point")
            if kind in ("Becke", "Knowles", "Handy"):
                if not f(mp.mpf(1) - mp.mpf(10) ** -30) > 50:
                    raise AssertionError(f"transforms_ref: {kind} does not grow towards x=1")


def compare(ctx, I, res):
    """Secondary comparison for one C03 instance (forward direction): I = c03.Inst, res = result of check_map."""
    tf = I.tf
    n = I.x.size
    # a handful of well-conditioned interior points (the middle 80 % of the sample)
    idx = np.unique(np.linspace(int(0.15 * n), int(0.85 * n) - 1, 6).astype(int))
    x = I.x[idx]
    b = getattr(tf, "b", None)
    with mp.workdps(DPS):
        fargs = {k: (v if v is None or isinstance(v, bool) else float(v)) for k, v in I.args.items()}  # any numeric spelling
        f = ref_map(I.kind, fargs, b=None if b is None else float(b))
        xm = [mp.mpf(float(v)) for v in x]
        rm = [f(v) for v in xm]
        r_lib = res["r"][idx]
        scale = max(abs(float(v)) for v in rm) or 1.0
        dev = max(abs(float(mp.mpf(float(rl)) - rv)) for rl, rv in zip(r_lib, rm)) / scale
        if not dev <= TOL_MODEL:
            ctx.count("secondary:model_mismatch")
            if len([o for o in ctx.observations if o["what"].startswith("model_mismatch")]) < 10:
                ctx.observe("model_mismatch: implemented forward map differs from the documented formula by more than 1e-12 (secondary layer skipped)", subject=I.name, rel=dev)
            return
        ctx.count("secondary:instances-compared")
        for o, name in enumerate(("deriv", "deriv2", "deriv3"), start=1):
            if name not in res["libd"]:
                continue
            lib = res["libd"][name][idx]
            ref = np.array([float(mp.diff(f, v, o)) for v in xm])
            # scale as in the primary layer so that identically-zero derivatives stay decidable
            ell = np.minimum(x - I.fb[0], I.fb[1] - x) if np.isfinite(I.fb[1]) else x - I.fb[0]
            lower = np.abs(np.array([float(mp.diff(f, v, 1)) for v in xm])) / ell ** (o - 1) if o > 1 else 0.0
            sc = np.maximum(np.abs(ref), 1e-3 * lower)
            worst = float(np.max(np.abs(lib - ref) / sc))
            ctx.check(name + "-mpref", I.name, worst, TOL_DERIV, sig="differs-from-mp.diff-of-documented-map", detail={"args": {k: (None if v is None else float(v)) for k, v in I.args.items()}, "x": [float(v) for v in x]})


# ---------------------------------------------------------------------------------------------- used by the C04 monitor
_KIND = {"BeckeRTransform": "Becke", "LinearFiniteRTransform": "LinearFinite", "IdentityRTransform": "Identity", "LinearInfiniteRTransform": "LinearInfinite", "ExpRTransform": "Exp", "PowerRTransform": "Power", "HyperbolicRTransform": "Hyperbolic", "MultiExpRTransform": "MultiExp", "KnowlesRTransform": "Knowles", "HandyRTransform": "Handy", "HandyModRTransform": "HandyMod"}


def args_from_object(tf):
    """(kind, constructor arguments, b) read from the PUBLIC properties of a closed-form transform object; None for others."""
    kind = _KIND.get(type(tf).__name__)
    if kind is None:
        return None
    a = {}
    for name in ("rmin", "rmax", "R", "k", "m", "a"):
        if hasattr(tf, name):
            a[name] = float(getattr(tf, name))
    b = getattr(tf, "b", None)
    if kind == "Hyperbolic":
        a["b"] = float(b)
    if kind in ("LinearInfinite", "Exp", "Power") and b is None:
        return None
    return kind, a, (None if b is None else float(b))


def mp_jacobian(tf, x, r_impl):
    """Secondary |J| oracle for the C04 monitor: d/dx of the DOCUMENTED map (mp.diff, 40 digits) at the nodes x, provided the
    implemented map agrees with the documented one at those nodes (|r_impl - r_doc| <= 1e-12 (|r_doc| + scale)); returns
    (J, ok) with ok False where there is no reference (other class, b not set, model mismatch, non-finite)."""
    n = len(x)
    J = np.full(n, np.nan)
    ok = np.zeros(n, dtype=bool)
    got = args_from_object(tf)
    if got is None:
        return J, ok
    kind, a, b = got
    # 150 digits: next to x = -1 the documented Knowles map is log(1 - t) with t = ((1+x)/2)^k down to 1e-77 (TanhSinh nodes)
    with mp.workdps(150):
        f = ref_map(kind, a, b=b)
        rs = []
        for i in range(n):
            try:
                xm = mp.mpf(float(x[i]))
                rm = f(xm)
                rs.append(float(rm))
                J[i] = float(mp.diff(f, xm, 1))
            except Exception:  # noqa: BLE001 - pole / log of zero at a singular end: no reference there
                rs.append(np.nan)
        rs = np.array(rs)
        with np.errstate(all="ignore"):
            scale = np.nanmax(np.abs(rs)) if np.any(np.isfinite(rs)) else 1.0
            ok = np.isfinite(J) & np.isfinite(rs) & (np.abs(np.asarray(r_impl, dtype=float) - rs) <= 1e-12 * (np.abs(rs) + 1e-3 * scale))
    return J, ok
