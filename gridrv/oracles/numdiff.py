"""numdiff - derivatives of an IMPLEMENTED map by Chebyshev differentiation in np.longdouble.

The oracle never looks at a documented formula: it samples the callable it is given (``tf.transform`` or
``tf.inverse`` of the real library, evaluated with 80-bit ``np.longdouble`` input, which every transform of
``grid.rtransform`` propagates) at N Chebyshev nodes of an interval around the point, builds the Chebyshev
interpolant and differentiates it 1-3 times.

Two layers:

* ``cheb_derivs(f, lo, hi, x0, ...)``   one fit per point on [lo, hi] (x0 anywhere inside, also on an edge: one-sided)
* ``derivs_with_error(f, x0, left, right, ...)``   several fits with shrinking radius and different N; returns the
  estimate of the pair of consecutive fits that agree best together with that disagreement as an *error estimate*
  (truncation error falls, rounding noise grows when the radius shrinks, so the best agreeing pair brackets the
  optimum).  Callers scale their tolerance with the error estimate and leave a point undecided when it is too large
  - that is what keeps the oracle honest next to singular end points.

Used by C03 (derivative methods == derivatives of the implemented forward / inverse map) and by C04 (|J| of the
weight identity is taken from here, not from ``tf.deriv``).
"""

from __future__ import annotations

import numpy as np
from numpy.polynomial import chebyshev as C

LD = np.longdouble
EPS_LD = float(np.finfo(LD).eps)

_tables = {}


def _table(N):
    """Chebyshev nodes t_k (first kind), analysis matrix A (coefficients = A @ samples) and derivative
    coefficient operators D[o] (N-o x N) such that chebval(t, D[o] @ coeffs) is the o-th derivative in t."""
    tab = _tables.get(N)
    if tab is None:
        k = np.arange(N, dtype=LD)
        # np.pi is only a double; build pi in long double from its two-term split to keep 80-bit nodes
        pi_ld = LD(3.141592653589793) + LD(1.2246467991473532e-16)
        ang = pi_ld * (k + LD(0.5)) / LD(N)
        t = np.cos(ang)
        j = np.arange(N, dtype=LD)
        A = (LD(2) / LD(N)) * np.cos(np.outer(j, ang))
        A[0] /= 2
        eye = np.eye(N, dtype=LD)
        D = {0: eye}
        for o in (1, 2, 3):
            D[o] = C.chebder(eye, m=o, axis=0)
        tab = _tables[N] = (t, A, D)
    return tab


def call_flat(f, xs, chunk=None):
    """Evaluate ``f`` on the 1-D long-double array ``xs``.  ``chunk`` limits the array length handed to the
    library in one call (HyperbolicRTransform refuses arrays with b*(size-1) >= 1)."""
    if chunk is None or chunk >= xs.size:
        return np.asarray(f(xs), dtype=LD).reshape(xs.shape)
    out = np.empty(xs.shape, dtype=LD)
    for s in range(0, xs.size, chunk):
        out[s : s + chunk] = np.asarray(f(xs[s : s + chunk]), dtype=LD).reshape(-1)
    return out


def cheb_derivs(f, lo, hi, x0, N=33, orders=(1, 2, 3), chunk=None):
    """Derivatives of ``f`` at the points ``x0`` (P,) from one Chebyshev fit per point on [lo_p, hi_p].

    Returns (vals, ders, noise): vals (P,) = interpolant at x0 (should reproduce f(x0)), ders (len(orders), P),
    noise (len(orders), P) float64 = first-order bound of the effect of the rounding noise of the samples on each
    derivative: sum_k |W_k| * n_k with W the linear functional (samples -> derivative) and n_k the noise of sample k,
    n_k = max(eps_ld*|y_k|, 4*(eps_ld/eps_64)*|f64(x_k) - f_ld(x_k)|) + eps_ld*|x_k|*|slope_k|: the second term MEASURES
    the conditioning of the implementation (internal cancellation such as 1 - tiny) by running the same code in float64,
    the third is the rounding of the node positions.
    Everything else in long double.  Non-finite samples give non-finite results (caller treats as undecided).
    """
    t, A, D = _table(N)
    lo = np.asarray(lo, dtype=LD)
    hi = np.asarray(hi, dtype=LD)
    x0 = np.asarray(x0, dtype=LD)
    c = (hi + lo) / 2
    h = (hi - lo) / 2
    xs = (c[:, None] + h[:, None] * t[None, :]).reshape(-1)
    with np.errstate(all="ignore"):
        xs64 = xs.astype(np.float64)
        ys = call_flat(f, xs, chunk)
        ys_at64 = call_flat(f, xs64.astype(LD), chunk)
        ys64 = call_flat(f, xs64, chunk)
        nk = np.maximum(EPS_LD * np.abs(ys), (4 * EPS_LD / 2.220446049250313e-16) * np.abs(ys64 - ys_at64)).reshape(-1, N)
        # float64 run has fewer than two correct digits => the evaluation has (nearly) collapsed (1 - tiny == 1): the
        # measured deviation saturates and is only a LOWER bound of the conditioning; declare the sample all noise
        collapsed = (np.abs(ys64 - ys_at64) > 0.01 * np.abs(ys_at64)).reshape(-1, N)
        nk = np.where(collapsed, np.maximum(np.abs(ys).reshape(-1, N), nk), nk)
        ys = ys.reshape(-1, N)
        # the nodes c + h*t_k are themselves rounded to long double: the samples are taken at x_k(1 + eps) - matters
        # when |x f'| >> |f| (a point a few ulps away from a singular end that is far from the origin)
        xk = xs.reshape(-1, N)
        slope = np.abs(np.gradient(ys, axis=1) / np.gradient(xk, axis=1))
        nk = nk + EPS_LD * np.abs(xk) * slope
        t0 = (x0 - c) / h  # in [-1, 1]
        vals = np.einsum("pk,pk->p", ys, C.chebval(t0, D[0]).T @ A)
        ders = np.empty((len(orders), x0.size), dtype=LD)
        noise = np.empty((len(orders), x0.size), dtype=float)
        for i, o in enumerate(orders):
            # chebval(t0, M) with M (N-o, N): result (N, P): row j = o-th derivative of T_j at t0
            W = (C.chebval(t0, D[o]).T @ A) / (h**o)[:, None]  # (P, N): derivative = sum_k W[p,k] * y[p,k]
            ders[i] = np.einsum("pk,pk->p", ys, W)
            noise[i] = np.einsum("pk,pk->p", np.abs(W), nk).astype(float)
        # a fit whose samples are all identical carries no information about the derivative (collapsed evaluation)
        flat = np.all(ys == ys[:, :1], axis=1)
        noise[:, flat] = np.inf
    return vals, ders, noise


def derivs_with_error(f, x0, left, right, orders=(1, 2, 3), chunk=None, shrink=(1.0, 0.45, 0.2, 0.08), Ns=(33, 29, 33, 29)):
    """Adaptive numerical derivatives with an error estimate.

    x0 (P,) points; ``left``/``right`` (P,) >= 0: largest admissible extent of the fit interval to the left / right
    of x0 (0 on one side = one-sided fit, for a point that sits on a regular end of the domain).  For every
    shrink factor s_i the interval [x0 - s_i*left, x0 + s_i*right] is fitted with N_i nodes.  The error of fit i is
    estimated as  noise_i + |fit_i - fit_{i+1}|  (rounding-noise bound of the fit + its distance to the next smaller
    interval, whose truncation error is much smaller; for the smallest interval the distance to the previous one);
    for each point and order the fit with the smallest estimate is returned: est (len(orders), P) long double and
    err (len(orders), P) float64.  Points whose samples are not finite get err = inf.
    """
    x0 = np.asarray(x0, dtype=LD)
    left = np.asarray(left, dtype=LD)
    right = np.asarray(right, dtype=LD)
    fits, noises = [], []
    for s, N in zip(shrink, Ns):
        _, d, nz = cheb_derivs(f, x0 - LD(s) * left, x0 + LD(s) * right, x0, N=N, orders=orders, chunk=chunk)
        fits.append(d)
        noises.append(nz)
    fits = np.array(fits)  # (S, O, P)
    noises = np.array(noises)
    with np.errstate(all="ignore"):
        dis = np.abs(fits[1:] - fits[:-1]).astype(float)  # (S-1, O, P)
        tot = noises + np.concatenate([dis, dis[-1:]], axis=0)
    tot[~np.isfinite(tot)] = np.inf
    best = np.argmin(tot, axis=0)  # (O, P)
    oi, pi = np.indices(best.shape)
    return fits[best, oi, pi], tot[best, oi, pi]


def self_test():
    """Reproduce derivatives of exp / log / rational / power test functions: central and adaptive fits to
    1e-11 / 1e-10 / 1e-8 (orders 1 / 2 / 3; the last point sits 0.05 from a singularity with radius 0.025, the hardest
    geometry the monitors use), one-sided first derivative to 1e-6; the error estimate must cover the true error."""
    x0 = np.array([0.3, -0.7, 0.95], dtype=LD)
    half = np.array([0.35, 0.15, 0.025], dtype=LD)
    lim = np.array([1e-11, 1e-10, 1e-8])[:, None]
    worst = 0.0
    cases = [
        (lambda x: np.exp(2 * x), lambda x: [2 * np.exp(2 * x), 4 * np.exp(2 * x), 8 * np.exp(2 * x)]),
        (lambda x: np.log(1 + x), lambda x: [1 / (1 + x), -1 / (1 + x) ** 2, 2 / (1 + x) ** 3]),
        (lambda x: (1 + x) / (1 - x), lambda x: [2 / (1 - x) ** 2, 4 / (1 - x) ** 3, 12 / (1 - x) ** 4]),
        (lambda x: (1 + x) ** LD(2.5), lambda x: [LD(2.5) * (1 + x) ** LD(1.5), LD(3.75) * (1 + x) ** LD(0.5), LD(1.875) * (1 + x) ** LD(-0.5)]),
    ]
    for f, df in cases:
        ref = np.array(df(x0))
        _, d, _ = cheb_derivs(f, x0 - half, x0 + half, x0)
        rel = (np.abs(d - ref) / np.abs(ref)).astype(float)
        worst = max(worst, float(np.max(rel / lim)))
        est, err = derivs_with_error(f, x0, half, half)
        rel = (np.abs(est - ref) / np.abs(ref)).astype(float)
        worst = max(worst, float(np.max(rel / lim)))
        if np.any(np.abs(est - ref).astype(float) > 10 * err + 1e-13 * np.abs(ref).astype(float)):
            raise AssertionError("numdiff self-test: error estimate too optimistic")
        est1, err1 = derivs_with_error(f, x0, np.zeros(3, dtype=LD), half)  # one-sided (x0 on the left edge)
        rel1 = (np.abs(est1[0] - ref[0]) / np.abs(ref[0])).astype(float)
        worst = max(worst, float(np.max(rel1)) / 1e-6)
        if np.any(np.abs(est1 - ref).astype(float) > 10 * err1 + 1e-13 * np.abs(ref).astype(float)):
            raise AssertionError("numdiff self-test: one-sided error estimate too optimistic")
    if not worst < 1.0:
        raise AssertionError(f"numdiff self-test failed: worst error / limit = {worst:.3g}")
    if EPS_LD > 2e-19:
        raise AssertionError("np.longdouble is not 80-bit extended on this platform; numdiff tolerances do not apply")
    return worst
