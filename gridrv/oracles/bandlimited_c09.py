"""Manufactured band-limited functions and numerical differentiation for property C09.

f(x) = sum_{l<=L} sum_m g_lm(|x-c|) Y_lm((x-c)/|x-c|)   with
g_lm(r) = c_lm * N_l * t^l * (1 + p1 t + p2 t^2) * exp(-alpha t),   t = r / r0,
N_l = (alpha e / l)^l (so that t^l e^{-alpha t} N_l <= 1), hence g_lm ~ r^l at the origin and f is a smooth
function of position there (f(c) = g_00(0) Y_00).  Y_lm comes from the independent recursion
``gridrv.oracles.sph`` (Horton-2 order), evaluated on the Cartesian unit vector.

The numerical-differentiation helpers differentiate a *callable of Cartesian points* (the interpolant returned
by the library) using only its values:
  * radial derivatives 1..3: the interpolant restricted to a ray is ONE cubic polynomial between two radial
    nodes, so a degree-3 Chebyshev least-squares fit through 7 samples inside the node interval gives the
    derivatives to rounding (the fit residual is returned as a self-check);
  * d/dtheta, d/dphi: on a latitude circle / great circle through the pole the interpolant is a trigonometric
    polynomial of degree <= K, so DFT differentiation from 2K+4 equispaced samples is exact to rounding;
  * Cartesian gradient: 4th-order central differences with a step adapted to the distance to the centre and to
    the nearest radial node (the interpolant is only C^2 across a node sphere).
None of this uses the library's chain rule, spline derivative or harmonic derivative code.
"""

from __future__ import annotations

import numpy as np

from gridrv.oracles import sph


def lm_rows(L):
    """l and m of every row of the Horton-2 ordered table of size (L+1)^2."""
    ls, ms = [], []
    for l in range(L + 1):
        ls.append(l)
        ms.append(0)
        for m in range(1, l + 1):
            ls += [l, l]
            ms += [m, -m]
    return np.array(ls), np.array(ms)


class BandLimited:
    """Random function with harmonic content l <= L around ``center``."""

    def __init__(self, rng, L, r0, center, sparse=False, irregular=False):
        self.L = int(L)
        self.r0 = float(r0)
        self.center = np.asarray(center, dtype=float)
        n = (self.L + 1) ** 2
        self.l, self.m = lm_rows(self.L)
        c = rng.normal(size=n)
        c = np.sign(c) * (0.3 + np.abs(c))  # no accidentally tiny component
        if sparse and self.L > 0:
            keep = rng.random(n) < 0.3
            keep[0] = True
            keep[self.l == self.L] = True  # the band edge is always populated
            c = np.where(keep, c, 0.0)
        self.c = c
        # irregular=True adds q_lm e^{-alpha t} to the l >= 1 components: they no longer vanish at r = 0, so f is NOT a
        # function of position at the centre - admissible only on grids that never sample r = 0 (no shell there); it makes
        # the library's splines O(1) at r = 0 for odd l, which is what the centre convention (theta = phi = 0) acts on
        self.q = np.where(self.l > 0, rng.uniform(0.3, 1.0, n) * np.sign(rng.normal(size=n)), 0.0) if irregular else np.zeros(n)
        self.p1 = rng.uniform(-0.4, 0.4, n)
        self.p2 = rng.uniform(0.0, 0.3, n)
        self.alpha = rng.uniform(1.0, 2.5, n) * (1.0 + 0.35 * self.l)
        with np.errstate(divide="ignore", invalid="ignore"):
            self.lognorm = np.where(self.l > 0, self.l * (np.log(self.alpha) + 1.0 - np.log(np.maximum(self.l, 1))), 0.0)

    def g(self, r):
        """Radial components, array ((L+1)^2, len(r)); exact r^l behaviour at r = 0."""
        r = np.asarray(r, dtype=float)
        t = r / self.r0
        out = np.zeros((len(self.l), len(t)))
        pos = t > 0
        lt = np.log(t[pos])
        ex = self.l[:, None] * lt[None, :] - self.alpha[:, None] * t[pos][None, :] + self.lognorm[:, None]
        out[:, pos] = np.exp(ex)
        out[:, ~pos] = (self.l == 0)[:, None] * 1.0
        poly = 1.0 + self.p1[:, None] * t[None, :] + self.p2[:, None] * t[None, :] ** 2
        res = self.c[:, None] * out * poly
        if np.any(self.q):
            res = res + (self.c * self.q)[:, None] * np.exp(-self.alpha[:, None] * t[None, :])
        return res

    def __call__(self, points):
        d = np.asarray(points, dtype=float) - self.center
        r = np.linalg.norm(d, axis=1)
        with np.errstate(divide="ignore", invalid="ignore"):
            u = d / r[:, None]
        u[r == 0] = (0.0, 0.0, 1.0)  # direction irrelevant: only l=0 survives at r=0
        Y = sph.ref_Y_cart(self.L, u[:, 0], u[:, 1], u[:, 2])
        return np.einsum("kn,kn->n", self.g(r), Y)


def unit_and_radius(points, center):
    """Radius and unit vector of points about center; the library's convention (0,0,1) at the centre."""
    d = np.asarray(points, dtype=float) - np.asarray(center, dtype=float)
    r = np.linalg.norm(d, axis=1)
    with np.errstate(divide="ignore", invalid="ignore"):
        u = d / r[:, None]
    u[r == 0] = (0.0, 0.0, 1.0)
    return r, u


def reference_interpolant(splines, lmax_half, points, center):
    """sum_lm spline_lm(r) * ref_Y_lm(direction) - the value the statement assigns to the interpolant."""
    r, u = unit_and_radius(points, center)
    Y = sph.ref_Y_cart(lmax_half, u[:, 0], u[:, 1], u[:, 2])
    vals = np.array([s(r) for s in splines])
    if vals.shape != Y.shape:
        raise ValueError(f"{vals.shape} splines vs {Y.shape} harmonics")
    return np.einsum("kn,kn->n", vals, Y)


# ------------------------------------------------------------------ numerical differentiation of a callable
def _piece(nodes, r):
    """Interval [lo, hi] on which the ray restriction is a single cubic (scipy extrapolates with end pieces)."""
    n = len(nodes)
    i = np.clip(np.searchsorted(nodes, r, side="right") - 1, 0, n - 2)
    a, b = nodes[i], nodes[i + 1]
    lo = np.where(r < nodes[0], 0.0, a)
    hi = np.where(r > nodes[-1], r + (b - a), b)
    lo = np.where(r > nodes[-1], a, lo)
    return lo, hi


def radial_derivs(func, points, center, nodes, nsamp=7):
    """Derivatives 0..3 along the ray through each point, from values only.

    Returns (D, resid, half, vmax): D shape (4, M), the absolute residual of the cubic fit (self-check), half-widths,
    largest |value| on each ray stencil (conditioning of the differentiation).
    """
    r, u = unit_and_radius(points, center)
    lo, hi = _piece(np.asarray(nodes, dtype=float), r)
    mid, half = 0.5 * (lo + hi), 0.5 * (hi - lo)
    k = np.arange(nsamp)
    s = np.cos(np.pi * (k + 0.5) / nsamp)  # Chebyshev nodes in (-1, 1)
    t = mid[:, None] + half[:, None] * s[None, :]  # (M, nsamp)
    P = np.asarray(center)[None, None, :] + t[:, :, None] * u[:, None, :]
    vals = np.asarray(func(P.reshape(-1, 3)), dtype=float).reshape(len(r), nsamp)
    V = np.polynomial.chebyshev.chebvander(s, 3)
    coef, *_ = np.linalg.lstsq(V, vals.T, rcond=None)  # (4, M)
    resid = np.abs(V @ coef - vals.T).max(axis=0)  # absolute; the caller compares it with the size of the function
    x = (r - mid) / half
    D = np.zeros((4, len(r)))
    for j in range(len(r)):
        c = coef[:, j]
        for nu in range(4):
            D[nu, j] = np.polynomial.chebyshev.chebval(x[j], np.polynomial.chebyshev.chebder(c, nu) if nu else c) / half[j] ** nu
    return D, resid, half, np.abs(vals).max(axis=1)


def _dft_deriv(vals):
    """d/dpsi at sample 0 of a trigonometric polynomial sampled at psi0 + 2 pi k / N (rows = points)."""
    n = vals.shape[1]
    c = np.fft.rfft(vals, axis=1) / n
    m = np.arange(c.shape[1])
    w = np.where((m > 0) & (2 * m < n), 2.0, 0.0)
    return -np.sum(w * m * c.imag, axis=1), np.abs(c[:, -1])  # second: absolute Nyquist amplitude (must be ~0)


def angular_derivs(func, points, center, K):
    """(dF/dtheta, dF/dphi) of the callable at the points (azimuth theta, polar phi about ``center``)."""
    r, u = unit_and_radius(points, center)
    theta = np.arctan2(u[:, 1], u[:, 0])
    phi = np.arccos(np.clip(u[:, 2], -1, 1))
    n = 2 * int(K) + 4
    k = 2 * np.pi * np.arange(n) / n
    th = theta[:, None] + k[None, :]
    P = np.stack([np.sin(phi)[:, None] * np.cos(th), np.sin(phi)[:, None] * np.sin(th), np.cos(phi)[:, None] * np.ones_like(th)], axis=2)
    P = np.asarray(center)[None, None, :] + r[:, None, None] * P
    v = np.asarray(func(P.reshape(-1, 3)), dtype=float).reshape(len(r), n)
    dth, ny1 = _dft_deriv(v)
    vmax = np.abs(v).max(axis=1)
    ps = phi[:, None] + k[None, :]
    P = np.stack([np.sin(ps) * np.cos(theta)[:, None], np.sin(ps) * np.sin(theta)[:, None], np.cos(ps)], axis=2)
    P = np.asarray(center)[None, None, :] + r[:, None, None] * P
    v = np.asarray(func(P.reshape(-1, 3)), dtype=float).reshape(len(r), n)
    dph, ny2 = _dft_deriv(v)
    return dth, dph, np.maximum(ny1, ny2), np.maximum(vmax, np.abs(v).max(axis=1))


def fd_step(points, center, nodes):
    """Step for the Cartesian stencil: well inside the current node interval and much smaller than r."""
    r, _ = unit_and_radius(points, center)
    nodes = np.asarray(nodes, dtype=float)
    i = np.clip(np.searchsorted(nodes, r), 1, len(nodes) - 1)
    gap = nodes[i] - nodes[i - 1]
    dnode = np.min(np.abs(r[:, None] - nodes[None, :]), axis=1)
    h = np.minimum(1e-3 * r, 0.2 * dnode)
    on_node = dnode < 1e-3 * gap
    h = np.where(on_node, np.minimum(1e-4 * gap, 1e-3 * r), h)
    return h, on_node


def cartesian_gradient(func, points, h):
    """4th-order central differences of the callable, per-point step h."""
    pts = np.asarray(points, dtype=float)
    M = len(pts)
    offs = np.array([-2.0, -1.0, 1.0, 2.0])
    wts = np.array([1.0, -8.0, 8.0, -1.0]) / 12.0
    P = np.repeat(pts[:, None, None, :], 3, axis=1)
    P = np.repeat(P, 4, axis=2)  # (M, 3, 4, 3)
    for ax in range(3):
        P[:, ax, :, ax] += h[:, None] * offs[None, :]
    v = np.asarray(func(P.reshape(-1, 3)), dtype=float).reshape(M, 3, 4)
    return np.einsum("mak,k->ma", v, wts) / h[:, None]


def self_test():
    """The differentiation helpers reproduce derivatives of a known piecewise-cubic x harmonic function."""
    from scipy.interpolate import CubicSpline

    rng = np.random.default_rng(9)
    nodes = np.sort(rng.uniform(0.2, 4.0, 9))
    K = 3
    spl = [CubicSpline(nodes, rng.normal(size=9)) for _ in range((K + 1) ** 2)]
    c = np.array([0.3, -0.2, 0.1])

    def F(p):
        return reference_interpolant(spl, K, p, c)

    pts = c + rng.normal(size=(12, 3)) * 1.5
    r, u = unit_and_radius(pts, c)
    Y = sph.ref_Y_cart(K, u[:, 0], u[:, 1], u[:, 2])
    D, resid, _, _ = radial_derivs(F, pts, c, nodes)
    worst = 0.0
    for nu in range(4):
        ex = np.einsum("kn,kn->n", np.array([s(r, nu) for s in spl]), Y)
        worst = max(worst, np.abs(D[nu] - ex).max() / (np.abs(ex).max() + 1.0))
    if worst > 1e-8 or resid.max() > 1e-10 * (1 + np.abs(F(pts)).max()):
        raise RuntimeError(f"bandlimited_c09.radial_derivs self-test failed: {worst} {resid.max()}")
    # angular: compare with a 6th-order finite difference in the angles
    dth, dph, ny, _ = angular_derivs(F, pts, c, K)
    theta = np.arctan2(u[:, 1], u[:, 0])
    phi = np.arccos(u[:, 2])

    def at(th, ph):
        return F(c + r[:, None] * np.stack([np.sin(ph) * np.cos(th), np.sin(ph) * np.sin(th), np.cos(ph)], axis=1))

    e = 1e-2
    fd = lambda f: (45 * (f(e) - f(-e)) - 9 * (f(2 * e) - f(-2 * e)) + (f(3 * e) - f(-3 * e))) / (60 * e)  # noqa: E731
    sc = 1.0 + np.abs(F(pts))  # extrapolated points have huge values; the FD reference is only relatively accurate
    w2 = max((np.abs(dth - fd(lambda d: at(theta + d, phi))) / sc).max(), (np.abs(dph - fd(lambda d: at(theta, phi + d))) / sc).max())
    if w2 > 1e-8 or ny.max() > 1e-10 * (1 + np.abs(F(pts)).max()):
        raise RuntimeError(f"bandlimited_c09.angular_derivs self-test failed: {w2} {ny.max()}")
    # gradient of an analytic function
    G = lambda p: np.exp(-0.5 * np.sum((p - c) ** 2, axis=1)) * (1 + p[:, 0] * p[:, 2])  # noqa: E731
    gr = cartesian_gradient(G, pts, np.full(len(pts), 1e-3))
    d = pts - c
    e0 = np.exp(-0.5 * np.sum(d**2, axis=1))
    ex = -d * (e0 * (1 + pts[:, 0] * pts[:, 2]))[:, None]
    ex[:, 0] += e0 * pts[:, 2]
    ex[:, 2] += e0 * pts[:, 0]
    w3 = np.abs(gr - ex).max()
    if w3 > 1e-9:
        raise RuntimeError(f"bandlimited_c09.cartesian_gradient self-test failed: {w3}")
    # the manufactured function is regular at the origin and has the advertised components
    bl = BandLimited(rng, 4, 1.3, c)
    rr = np.array([0.0, 1e-9, 0.5, 2.0])
    g = bl.g(rr)
    if not (np.all(g[1:, 0] == 0) and abs(g[0, 0] - bl.c[0]) < 1e-15 and np.all(np.isfinite(g))):
        raise RuntimeError("bandlimited_c09.BandLimited: not regular at the origin")
    if abs(bl(c[None, :])[0] - bl.c[0] / np.sqrt(4 * np.pi)) > 1e-14:
        raise RuntimeError("bandlimited_c09.BandLimited: f(centre) != g_00(0) Y_00")
    return max(worst, w2, w3)
