"""Independent real spherical harmonics (Horton-2 order) by fully normalised recursion.

Written from the Holmes-Featherstone normalised recursion; shares no code with
grid.utils.  theta = azimuth, phi = polar (grid's convention).  Row order for each
l:  m=0, +1, -1, +2, -2, ...  (cos before sin), i.e. row l*l + 2m-1 (cos) / l*l+2m (sin).
"""

from __future__ import annotations

import numpy as np


def ref_Y_cart(lmax, x, y, z):
    """Real spherical harmonics at unit vectors (x, y, z); returns ((lmax+1)^2, N)."""
    x = np.asarray(x, dtype=float)
    y = np.asarray(y, dtype=float)
    z = np.asarray(z, dtype=float)
    ct = z
    st = np.sqrt(np.maximum(0.0, x * x + y * y))
    az = np.arctan2(y, x)
    n = len(ct)
    out = np.zeros(((lmax + 1) ** 2, n))
    pmm = np.full(n, np.sqrt(1.0 / (4.0 * np.pi)))
    for m in range(lmax + 1):
        if m > 0:
            pmm = pmm * st * np.sqrt((2 * m + 1) / (2 * m))
        fac = 1.0 if m == 0 else np.sqrt(2.0)
        cm = np.cos(m * az)
        sm = np.sin(m * az)

        def put(l, p):
            if m == 0:
                out[l * l] = p
            else:
                out[l * l + 2 * m - 1] = fac * p * cm
                out[l * l + 2 * m] = fac * p * sm

        pl2 = pmm
        put(m, pl2)
        if m < lmax:
            pl1 = ct * np.sqrt(2 * m + 3) * pmm
            put(m + 1, pl1)
            for l in range(m + 2, lmax + 1):
                a = np.sqrt((4.0 * l * l - 1.0) / (l * l - m * m))
                b = np.sqrt(((l - 1.0) ** 2 - m * m) / (4.0 * (l - 1.0) ** 2 - 1.0))
                pl = a * (ct * pl1 - b * pl2)
                put(l, pl)
                pl2, pl1 = pl1, pl
    return out


def ref_Y(lmax, theta, phi):
    """Real spherical harmonics for azimuth theta and polar angle phi (any real values)."""
    theta = np.asarray(theta, dtype=float)
    phi = np.asarray(phi, dtype=float)
    x = np.sin(phi) * np.cos(theta)
    y = np.sin(phi) * np.sin(theta)
    z = np.cos(phi)
    return ref_Y_cart(lmax, x, y, z)


def moments(points, weights, lmax, block=4096):
    """max over m of |sum_i w_i Y_lm(p_i) - sqrt(4pi) delta_l0| for every l: array (lmax+1,)."""
    pts = np.asarray(points, dtype=float)
    w = np.asarray(weights, dtype=float)
    x, y, z = pts.T
    ct = z
    st = np.sqrt(np.maximum(0.0, x * x + y * y))
    az = np.arctan2(y, x)
    n = len(z)
    C = np.zeros((lmax + 1, lmax + 1))
    S = np.zeros((lmax + 1, lmax + 1))
    for s in range(0, n, block):
        e = min(n, s + block)
        c, si, p, ww = ct[s:e], st[s:e], az[s:e], w[s:e]
        pmm = np.full(e - s, np.sqrt(1.0 / (4.0 * np.pi)))
        for m in range(lmax + 1):
            if m > 0:
                pmm = pmm * si * np.sqrt((2 * m + 1) / (2 * m))
            fac = 1.0 if m == 0 else np.sqrt(2.0)
            cm = np.cos(m * p) * ww * fac
            sm = np.sin(m * p) * ww * fac
            pl2 = pmm
            C[m, m] += pl2 @ cm
            S[m, m] += pl2 @ sm
            if m < lmax:
                pl1 = c * np.sqrt(2 * m + 3) * pmm
                C[m + 1, m] += pl1 @ cm
                S[m + 1, m] += pl1 @ sm
                for l in range(m + 2, lmax + 1):
                    a = np.sqrt((4.0 * l * l - 1.0) / (l * l - m * m))
                    b = np.sqrt(((l - 1.0) ** 2 - m * m) / (4.0 * (l - 1.0) ** 2 - 1.0))
                    pl = a * (c * pl1 - b * pl2)
                    C[l, m] += pl @ cm
                    S[l, m] += pl @ sm
                    pl2, pl1 = pl1, pl
    C[0, 0] -= np.sqrt(4.0 * np.pi)
    return np.maximum(np.abs(C).max(axis=1), np.abs(S).max(axis=1))


def self_test():
    """Check the recursion against mpmath and on the octahedron; raises on failure."""
    import mpmath as mp

    rng = np.random.default_rng(12345)
    mp.mp.dps = 30
    worst = 0.0
    for _ in range(60):
        l = int(rng.integers(0, 25))
        m = int(rng.integers(-l, l + 1))
        th = float(rng.uniform(0, 2 * np.pi))
        ph = float(rng.uniform(0, np.pi))
        if m == 0:
            ref = mp.re(mp.spherharm(l, 0, ph, th))
        else:
            Y = mp.spherharm(l, abs(m), ph, th) * (-1) ** abs(m)
            ref = mp.sqrt(2) * (mp.re(Y) if m > 0 else mp.im(Y))
        got = ref_Y(l, np.array([th]), np.array([ph]))
        row = l * l + (0 if m == 0 else (2 * m - 1 if m > 0 else 2 * (-m)))
        worst = max(worst, abs(float(ref) - got[row, 0]))
    if worst > 1e-12:
        raise RuntimeError(f"sph.ref_Y self-test vs mpmath failed: {worst}")
    octa = np.array([[1, 0, 0], [-1, 0, 0], [0, 1, 0], [0, -1, 0], [0, 0, 1], [0, 0, -1]], float)
    err = moments(octa, np.full(6, 4 * np.pi / 6), 3)
    if err.max() > 1e-13:
        raise RuntimeError(f"sph.moments self-test on octahedron failed: {err}")
    err5 = moments(octa, np.full(6, 4 * np.pi / 6), 4)
    if err5[4] < 1e-3:
        raise RuntimeError("sph.moments self-test: octahedron wrongly exact at l=4")
    return worst
