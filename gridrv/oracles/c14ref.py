"""Independent references for C14 (multipole moments) - shares no code with grid.basegrid / grid.utils.

* ``ref_orders(type, L, dim)``   documented Horton-2 enumeration of the rows, built by SORTING the exponent set
  (Cartesian: descending lexicographic order of all exponent tuples of total degree l, degree by degree) or by
  writing out the documented m sequence 0, +1, -1, ... (pure), n = 1..L, l < n (pure-radial).
* ``ref_basis(type, L, d)``      basis functions evaluated on displacement vectors d = p - R:
  monomials by repeated multiplication, |d|^n, regular real solid harmonics  sqrt(4pi/(2l+1)) |d|^l Y_lm(d/|d|)
  with Y_lm from the normalised recursion in ``sph.ref_Y_cart`` (validated against mpmath), |d|^n x solid harmonic.
* ``ref_moments``                sum_i w_i f_i B_r(p_i - R_c) accumulated in long double together with the
  magnitude sum_i |w_i f_i B_r| that scales the tolerance.
"""

from __future__ import annotations

import itertools

import numpy as np

from gridrv.oracles import sph

TYPES = ("cartesian", "radial", "pure", "pure-radial")
EPS = float(np.finfo(float).eps)


def _m_sequence(l):
    seq = [0]
    for m in range(1, l + 1):
        seq += [m, -m]
    return seq


def ref_orders_single(type_mom, l, dim=3):
    """Rows contributed by ONE order l (what generate_orders_horton_order documents)."""
    if type_mom == "cartesian":
        tuples = [t for t in itertools.product(range(l + 1), repeat=dim) if sum(t) == l]
        return sorted(tuples, reverse=True)  # (l,0,0) > (l-1,1,0) > (l-1,0,1) > ... : Horton 2 / alphabetical order
    if type_mom == "radial":
        return [(l,)]
    if type_mom == "pure":
        return [(l, m) for m in _m_sequence(l)]
    if type_mom == "pure-radial":
        return [(l, ll, m) for ll in range(l) for m in _m_sequence(ll)]
    raise ValueError(type_mom)


def ref_orders(type_mom, L, dim=3):
    """All rows of Grid.moments(orders=L): order by order (pure-radial starts at n=1)."""
    start = 1 if type_mom == "pure-radial" else 0
    out = []
    for l in range(start, L + 1):
        out += ref_orders_single(type_mom, l, dim)
    return out


def _powers(x, nmax):
    """[x^0, x^1, ..., x^nmax] by repeated multiplication (0^0 = 1)."""
    out = [np.ones_like(x)]
    for _ in range(nmax):
        out.append(out[-1] * x)
    return out


def solid_harmonics_ref(lmax, d):
    """Regular real solid harmonics R_lm(d) = sqrt(4pi/(2l+1)) |d|^l Y_lm(d/|d|), rows in Horton-2 order."""
    d = np.asarray(d, dtype=float)
    r = np.sqrt(np.sum(d.astype(np.longdouble) ** 2, axis=1)).astype(float)
    ok = r > 0
    u = np.zeros_like(d)
    u[:, 2] = 1.0
    u[ok] = d[ok] / r[ok, None]
    # renormalise (division rounding) so that the recursion sees an exact unit vector to 1 ulp
    Y = sph.ref_Y_cart(lmax, u[:, 0], u[:, 1], u[:, 2])
    rp = _powers(r, lmax)
    out = np.empty_like(Y)
    for l in range(lmax + 1):
        out[l * l : (l + 1) ** 2] = Y[l * l : (l + 1) ** 2] * (np.sqrt(4.0 * np.pi / (2 * l + 1)) * rp[l])
    return out, r


def ref_basis(type_mom, L, d):
    """Matrix (rows, N) of the basis functions at displacements d (N, dim)."""
    d = np.asarray(d, dtype=float)
    n, dim = d.shape
    orders = ref_orders(type_mom, L, dim)
    B = np.empty((len(orders), n))
    if type_mom == "cartesian":
        pw = [_powers(d[:, k], L) for k in range(dim)]
        for i, t in enumerate(orders):
            v = pw[0][t[0]]
            for k in range(1, dim):
                v = v * pw[k][t[k]]
            B[i] = v
    elif type_mom == "radial":
        r = np.sqrt(np.sum(d.astype(np.longdouble) ** 2, axis=1)).astype(float)
        rp = _powers(r, L)
        for i, (k,) in enumerate(orders):
            B[i] = rp[k]
    elif type_mom == "pure":
        if dim != 3:
            raise ValueError("solid harmonics need 3-D points")
        B, _ = solid_harmonics_ref(L, d)
    elif type_mom == "pure-radial":
        if dim != 3:
            raise ValueError("solid harmonics need 3-D points")
        S, r = solid_harmonics_ref(max(L - 1, 0), d)
        rp = _powers(r, L)
        for i, (k, l, m) in enumerate(orders):
            row = l * l + (0 if m == 0 else (2 * m - 1 if m > 0 else -2 * m))
            B[i] = rp[k] * S[row]
    else:
        raise ValueError(type_mom)
    return B, orders


def ref_moments(type_mom, L, points, weights, fvals, centers):
    """(S, A, E, orders): S[r, c] = sum_i w_i f_i B_r(p_i - R_c) in long double, A = sum_i |w_i f_i B_r|,
    E = sum_i |w_i f_i| |p_i - R_c|^deg(r)  (envelope of the row: deg = l for pure, n + l for pure-radial; equals A
    for Cartesian/radial rows, where no angle is involved)."""
    pts = np.asarray(points, dtype=float)
    if pts.ndim == 1:
        pts = pts[:, None]
    wf = np.asarray(weights, dtype=np.longdouble) * np.asarray(fvals, dtype=np.longdouble)
    cols, mags, envs, amps, orders = [], [], [], [], None
    for c in np.asarray(centers, dtype=float):
        d = pts - c
        B, orders = ref_basis(type_mom, L, d)
        Bl = B.astype(np.longdouble)
        cols.append(Bl @ wf)
        mags.append(np.abs(Bl) @ np.abs(wf))
        if type_mom in ("pure", "pure-radial"):
            r = np.sqrt(np.sum(d.astype(np.longdouble) ** 2, axis=1))
            pw = np.array(_powers(r, 2 * L))
            rp = pw @ np.abs(wf)  # rp[k] = sum |w f| r^k
            envs.append(np.array([rp[o[0]] if type_mom == "pure" else rp[o[0] + o[1]] for o in orders]))
            # conditioning of a polar angle obtained as arccos(z/r): an error eps in z/r is an error eps/sin(phi) in phi
            # (at most sqrt(2 eps) when z/r rounds to +-1; none when the point is exactly on the axis or at the centre)
            with np.errstate(all="ignore"):
                sphi = np.where(r > 0, np.sqrt(np.sum(d[:, :2].astype(np.longdouble) ** 2, axis=1)) / np.where(r > 0, r, 1), 0)
                amp = np.where(sphi > 0, np.minimum(EPS / np.where(sphi > 0, sphi, 1), np.sqrt(2 * EPS)), np.where(r > 0, EPS, 0.0))
            ra = pw @ (np.abs(wf) * amp)  # ra[k] = sum |w f| r^k dphi_i
            deg = [(o[0], o[0]) if type_mom == "pure" else (o[0] + o[1], o[1]) for o in orders]
            amps.append(np.array([ra[k] * (l + 1) ** 2 for k, l in deg]))
        else:
            envs.append(mags[-1])
            amps.append(np.zeros(len(orders), dtype=np.longdouble))
    if orders is None:
        orders = ref_orders(type_mom, L, pts.shape[1])
        z = np.zeros((len(orders), 0))
        ref_moments.last_amp = z
        return z, z, z, orders
    ref_moments.last_amp = np.array(amps).T  # sum_i |w f| |d|^deg (l+1)^2 dphi_i  (kept out of the return value: older callers unpack four values)
    return np.array(cols).T, np.array(mags).T, np.array(envs).T, orders


def self_test():
    """Validate the solid-harmonic reference against closed forms (l<=3) and the addition theorem (l<=10)."""
    rng = np.random.default_rng(1414)
    d = rng.normal(size=(40, 3)) * 10 ** rng.uniform(-2, 2, size=(40, 1))
    d[0] = 0.0
    d[1] = [0, 0, 2.5]
    d[2] = [0, 0, -0.3]
    d[3] = [1.5, 0, 0]
    x, y, z = d.T
    r2 = x * x + y * y + z * z
    S, r = solid_harmonics_ref(10, d)
    s3, s15 = np.sqrt(3.0), np.sqrt(15.0)
    closed = [
        np.ones_like(x),
        z, x, y,
        (3 * z * z - r2) / 2, s3 * x * z, s3 * y * z, s3 / 2 * (x * x - y * y), s3 * x * y,
        z * (5 * z * z - 3 * r2) / 2, np.sqrt(3 / 8) * x * (5 * z * z - r2), np.sqrt(3 / 8) * y * (5 * z * z - r2),
        s15 / 2 * z * (x * x - y * y), s15 * x * y * z, np.sqrt(5 / 8) * x * (x * x - 3 * y * y), np.sqrt(5 / 8) * y * (3 * x * x - y * y),
    ]  # fmt: skip
    worst = 0.0
    for row, ref in enumerate(closed):
        l = int(np.sqrt(row))
        worst = max(worst, float(np.max(np.abs(S[row] - ref) / np.maximum(r**l, 1e-300))))
    if not worst < 1e-13:
        raise RuntimeError(f"c14ref: solid harmonics differ from closed forms: {worst}")
    # addition theorem in Racah normalisation: sum_m R_lm(a) R_lm(b) = |a|^l |b|^l P_l(cos gamma)
    a, b = d[4:22], d[22:40]
    Sa, ra = solid_harmonics_ref(10, a)
    Sb, rb = solid_harmonics_ref(10, b)
    cg = np.sum(a * b, axis=1) / (ra * rb)
    worst2 = 0.0
    for l in range(11):
        lhs = np.sum(Sa[l * l : (l + 1) ** 2] * Sb[l * l : (l + 1) ** 2], axis=0)
        coef = np.zeros(l + 1)
        coef[l] = 1.0
        rhs = (ra * rb) ** l * np.polynomial.legendre.legval(cg, coef)
        worst2 = max(worst2, float(np.max(np.abs(lhs - rhs) / (ra * rb) ** l)))
    if not worst2 < 1e-12:
        raise RuntimeError(f"c14ref: addition theorem violated: {worst2}")
    # order enumeration: sizes and the documented examples
    if ref_orders_single("cartesian", 2, 3) != [(2, 0, 0), (1, 1, 0), (1, 0, 1), (0, 2, 0), (0, 1, 1), (0, 0, 2)]:
        raise RuntimeError("c14ref: cartesian order 2 enumeration is not xx,xy,xz,yy,yz,zz")
    if ref_orders_single("pure", 2) != [(2, 0), (2, 1), (2, -1), (2, 2), (2, -2)]:
        raise RuntimeError("c14ref: pure order enumeration wrong")
    for L in range(9):
        if len(ref_orders("cartesian", L, 3)) != (L + 1) * (L + 2) * (L + 3) // 6 or len(ref_orders("pure", L)) != (L + 1) ** 2:
            raise RuntimeError("c14ref: row counts wrong")
        if len(ref_orders("pure-radial", L)) != sum(n * n for n in range(1, L + 1)) or len(ref_orders("cartesian", L, 2)) != (L + 1) * (L + 2) // 2:
            raise RuntimeError("c14ref: row counts wrong")
    return max(worst, worst2)
