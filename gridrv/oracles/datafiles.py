"""Own loader for the shipped data (pristine references), independent of grid.angular.

The advertised (degree, size) pairs are taken from the FILE NAMES
``<method>_<degree>_<size>.npz`` in the data directories - data, not code.
"""

from __future__ import annotations

import functools
import json
import os
import re

import numpy as np

from gridrv import core

DIRS = {"lebedev": "lebedev", "spherical": "spherical_design", "maxdet": "maxdet", "ahrens_beylkin": "ahrens_beylkin"}
EXPECTED_COUNTS = {"lebedev": 32, "spherical": 163, "maxdet": 199, "ahrens_beylkin": 56}
SCALE_4PI = {"lebedev": True, "spherical": True, "maxdet": False, "ahrens_beylkin": False}


def data_dir(method):
    return os.path.join(core.GRIDDIR, "data", DIRS[method])


@functools.lru_cache(None)
def file_rows(method):
    """Sorted list of (degree, size) found in the data directory's file names."""
    rows = []
    for fn in os.listdir(data_dir(method)):
        mt = re.fullmatch(rf"{method}_(\d+)_(\d+)\.npz", fn)
        if mt:
            rows.append((int(mt.group(1)), int(mt.group(2))))
    rows.sort()
    return rows


CODE_TABLES = {"lebedev": "LEBEDEV", "spherical": "SPHERICAL", "maxdet": "MAX_DET", "ahrens_beylkin": "AHRENS_BEYLKIN"}


def code_dicts(method):
    """The library's public tables (size->degree, degree->size) - the definition of 'supported'."""
    import grid.angular as ga

    return getattr(ga, CODE_TABLES[method] + "_NPOINTS"), getattr(ga, CODE_TABLES[method] + "_DEGREES")


@functools.lru_cache(None)
def table(method):
    """Supported (degree, size) rows: the library's public size->degree table, sorted by degree.

    Some unadvertised extra files exist in the data directory (lebedev_3_8, lebedev_3_12,
    lebedev_5_14, maxdet_200_40401), so file names alone do not define the supported set.
    """
    npoints, _ = code_dicts(method)
    return sorted((int(d), int(s)) for s, d in npoints.items())


def self_test():
    for m, n in EXPECTED_COUNTS.items():
        if len(file_rows(m)) < n:
            raise RuntimeError(f"datafiles: {m} has {len(file_rows(m))} files, expected at least {n}")


def pristine_sphere(method, degree, size, scaled=True):
    """(points, weights) read straight from the file; weights x4pi where the class applies it."""
    with np.load(os.path.join(data_dir(method), f"{method}_{degree}_{size}.npz")) as d:
        pts = np.array(d["points"], dtype=float)
        w = np.array(d["weights"], dtype=float)
    if len(w) == 1:
        w = np.ones(len(pts)) * w
    if scaled and SCALE_4PI[method]:
        w = w * 4 * np.pi
    return pts, w


def resolve(method, degree=None, size=None):
    """Reference resolution rule: smallest advertised row with degree (size) >= request."""
    t = table(method)
    if degree is not None:
        for d, s in t:
            if d >= degree:
                return d, s
        return None
    for d, s in sorted(t, key=lambda r: r[1]):
        if s >= size:
            return d, s
    return None


@functools.lru_cache(None)
def gauss_params():
    with open(os.path.join(core.GRIDDIR, "data", "atomic_gauss_params.json")) as fh:
        return json.load(fh)
