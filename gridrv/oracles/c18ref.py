"""Independent reference for C18 (multi-domain integration): explicit nested sum over the product set.

The product set is enumerated with ``numpy.ndindex`` over the domain sizes (row-major: first domain slowest - the
documented "for each point of the first grid, for each point of the second grid ..." order), the weight of a tuple is
the left-to-right product of the domain weights, the integrand is evaluated point by point on the tuple, and the sum
is accumulated in long double together with sum |prod w * f| (scale of the tolerance).
"""

from __future__ import annotations

import numpy as np


def domain_arrays(grids):
    """Private copies of (points, weights) of every domain."""
    return [(np.array(g.points, dtype=float, copy=True), np.array(g.weights, dtype=float, copy=True)) for g in grids]


def product_indices(sizes):
    return list(np.ndindex(*[int(s) for s in sizes]))


def product_points(doms):
    """List of tuples (p_1, ..., p_D) in reference order."""
    return [tuple(doms[k][0][i] for k, i in enumerate(idx)) for idx in product_indices([len(d[1]) for d in doms])]


def product_weights(doms):
    out = []
    for idx in product_indices([len(d[1]) for d in doms]):
        w = 1.0
        for k, i in enumerate(idx):
            w = w * float(doms[k][1][i])
        out.append(w)
    return np.array(out)


def nested_sum(doms, func):
    """(S, A): S = sum over the product set of prod_k w_k * func(p_1..p_D) in long double, A = sum of magnitudes.

    A complex-valued integrand is summed through its real and imaginary parts (S is then a clongdouble)."""
    ld = np.longdouble
    re, im = [], []
    is_complex = False
    for idx in product_indices([len(d[1]) for d in doms]):
        w = ld(1.0)
        for k, i in enumerate(idx):
            w = w * ld(doms[k][1][i])
        v = func(*[doms[k][0][i] for k, i in enumerate(idx)])
        if np.iscomplexobj(v):
            is_complex = True
            v = complex(v)
            re.append(w * ld(v.real))
            im.append(w * ld(v.imag))
        else:
            re.append(w * ld(float(v)))
            im.append(ld(0.0))
    tr, ti = np.array(re, dtype=ld), np.array(im, dtype=ld)
    mag = np.sqrt(tr * tr + ti * ti).sum() if is_complex else np.abs(tr).sum()
    if is_complex:
        return np.clongdouble(tr.sum()) + np.clongdouble(1j) * np.clongdouble(ti.sum()), mag
    return tr.sum(), mag


def digest(doms):
    """Content digest of the domain arrays (the reference of a call is keyed on the CURRENT component grids)."""
    import hashlib

    h = hashlib.blake2b(digest_size=16)
    for p, w in doms:
        h.update(repr((p.shape, w.shape)).encode())
        h.update(np.ascontiguousarray(p).tobytes())
        h.update(np.ascontiguousarray(w).tobytes())
    return h.hexdigest()


def self_test():
    """Hand-computed two-domain example and ordering."""
    d1 = (np.array([0.0, 1.0]), np.array([0.5, 2.0]))
    d2 = (np.array([[1.0, 1.0], [2.0, 0.0], [0.0, 3.0]]), np.array([1.0, 10.0, 100.0]))
    f = lambda a, b: a + b[0] * b[1] + 1.0
    s, a = nested_sum([d1, d2], f)
    # by hand: a=0: 0.5*(1*2 + 10*1 + 100*1) = 56 ; a=1: 2*(1*3 + 10*2 + 100*2) = 446
    if abs(float(s) - 502.0) > 1e-12 or abs(float(a) - 502.0) > 1e-12:
        raise RuntimeError(f"c18ref.nested_sum self-test failed: {s}")
    w = product_weights([d1, d2])
    if not np.array_equal(w, [0.5, 5.0, 50.0, 2.0, 20.0, 200.0]):
        raise RuntimeError("c18ref.product_weights order wrong")
    p = product_points([d1, d2])
    if not (p[1][0] == 0.0 and np.array_equal(p[1][1], [2.0, 0.0]) and p[3][0] == 1.0 and np.array_equal(p[3][1], [1.0, 1.0])):
        raise RuntimeError("c18ref.product_points order wrong")
    zs, za = nested_sum([d1, d2], lambda a, b: complex(a + 1.0, b[0]))
    # real part: 0.5*111*1 + 2*111*2 = 499.5 ; imaginary: (0.5+2)*(1*1 + 10*2 + 100*0) = 52.5
    if abs(complex(zs) - complex(499.5, 52.5)) > 1e-12:
        raise RuntimeError(f"c18ref.nested_sum complex self-test failed: {zs}")
    return True
