"""Own reader of the shipped preset tables ``data/prune_grid/prune_grid_<preset>.npz`` (C05, reusable by C07).

Nothing here goes through grid.atomgrid: the files are opened with numpy, the *kind* of a row is taken from the
dtype of its ``<Z>_rad`` array (integer = number of radial shells per sector, i.e. the table prescribes the size
of the radial grid; float = sector edge radii in bohr), never from the preset name.
"""

from __future__ import annotations

import functools
import os
import re

import numpy as np

from gridrv import core

EXPECTED_PRESETS = 17


def preset_dir():
    return os.path.join(core.GRIDDIR, "data", "prune_grid")


@functools.lru_cache(None)
def preset_names():
    out = []
    for fn in sorted(os.listdir(preset_dir())):
        mt = re.fullmatch(r"prune_grid_(\w+)\.npz", fn)
        if mt:
            out.append(mt.group(1))
    return out


@functools.lru_cache(None)
def table(preset):
    """dict Z -> {"kind": "counts"|"sectors", "rad": array, "npt": int array}; plus key "_extra" (other arrays)."""
    path = os.path.join(preset_dir(), f"prune_grid_{preset}.npz")
    rows, extra = {}, {}
    with np.load(path, allow_pickle=True) as d:
        keys = list(d.keys())
        for k in keys:
            mt = re.fullmatch(r"(\d+)_rad", k)
            if mt:
                z = int(mt.group(1))
                rad = np.array(d[k])
                npt = np.array(d[f"{z}_npt"])
                kind = "counts" if rad.dtype.kind in "iu" else "sectors"
                rows[z] = {"kind": kind, "rad": rad, "npt": npt.astype(int)}
            elif not re.fullmatch(r"\d+_npt", k):
                extra[k] = np.array(d[k])
    rows["_extra"] = extra
    return rows


def elements(preset):
    return sorted(z for z in table(preset) if z != "_extra")


def all_pairs():
    return [(p, z) for p in preset_names() for z in elements(p)]


def prescribed_size(preset, z):
    """Number of radial shells the table prescribes (None for a sector-radius table)."""
    row = table(preset)[z]
    if row["kind"] != "counts":
        return None
    return int(np.sum(row["rad"]))


def tabulated_sizes_by_shell(preset, z):
    """For a shell-count table: list (one entry per radial shell, in shell order) of the tabulated angular size.

    Returns None when the row is inconsistent (more sector counts than sizes): then no grid is defined by the table.
    Extra sizes beyond the sector counts are ignored (recorded by the caller, not decided).
    """
    row = table(preset)[z]
    rad, npt = row["rad"], row["npt"]
    if len(npt) < len(rad):
        return None
    out = []
    for k, c in enumerate(rad):
        out += [int(npt[k])] * int(c)
    return out


def self_test():
    names = preset_names()
    if len(names) != EXPECTED_PRESETS:
        raise RuntimeError(f"presets_c05: found {len(names)} preset files, expected {EXPECTED_PRESETS}")
    n = len(all_pairs())
    if n < 1300:
        raise RuntimeError(f"presets_c05: only {n} (preset, element) rows found")
    return n
