"""Documented constructor signatures of grid.rtransform / grid.onedgrid as LITERAL tables (pinned from the class
docstrings of the tree the checks were written against - deliberately NOT read with ``inspect`` at run time, so that a
parameter inserted, removed or reordered in the library shows up as a difference).

``compare_construction`` builds one object with ALL documented parameters passed POSITIONALLY in the documented order and
one with the same values by KEYWORD and requires: construction succeeds, every documented public attribute of the
positional object equals the value that was passed for it (clause ``positional-binds-documented-order``), and both objects
have identical attributes, domain/codomain and method outputs (clause ``positional-equals-keyword``).
Used by C03 (all method outputs) and C04 (transformed grids).
"""

from __future__ import annotations

import numpy as np

# class name -> documented parameter names in documented order
TRANSFORM_ORDER = {
    "BeckeRTransform": ("rmin", "R", "trim_inf"),
    "LinearFiniteRTransform": ("rmin", "rmax"),
    "IdentityRTransform": (),
    "LinearInfiniteRTransform": ("rmin", "rmax", "b"),
    "ExpRTransform": ("rmin", "rmax", "b"),
    "PowerRTransform": ("rmin", "rmax", "b"),
    "HyperbolicRTransform": ("a", "b"),
    "MultiExpRTransform": ("rmin", "R", "trim_inf"),
    "KnowlesRTransform": ("rmin", "R", "k", "trim_inf"),
    "HandyRTransform": ("rmin", "R", "m", "trim_inf"),
    "HandyModRTransform": ("rmin", "rmax", "m", "trim_inf"),
    "InverseRTransform": ("transform",),
}
# every documented parameter is also a public attribute / property of the same name, except InverseRTransform's
TRANSFORM_ATTRS = {k: tuple(n for n in v if n != "transform") for k, v in TRANSFORM_ORDER.items()}

QUADRATURE_ORDER = {
    "GaussLaguerre": ("npoints", "alpha"),
    "GaussLegendre": ("npoints",),
    "GaussChebyshev": ("npoints",),
    "UniformInteger": ("npoints",),
    "GaussChebyshevType2": ("npoints",),
    "GaussChebyshevLobatto": ("npoints",),
    "Trapezoidal": ("npoints",),
    "RectangleRuleSineEndPoints": ("npoints",),
    "TanhSinh": ("npoints", "delta"),
    "Simpson": ("npoints",),
    "MidPoint": ("npoints",),
    "ClenshawCurtis": ("npoints",),
    "FejerFirst": ("npoints",),
    "FejerSecond": ("npoints",),
    "TrefethenCC": ("npoints", "d"),
    "TrefethenGC2": ("npoints", "d"),
    "TrefethenGeneral": ("npoints", "quadrature", "d"),
    "TrefethenStripCC": ("npoints", "rho"),
    "TrefethenStripGC2": ("npoints", "rho"),
    "TrefethenStripGeneral": ("npoints", "quadrature", "rho"),
    "ExpSinh": ("npoints", "h"),
    "LogExpSinh": ("npoints", "h"),
    "ExpExp": ("npoints", "h"),
    "SingleTanh": ("npoints", "h"),
    "SingleExp": ("npoints", "h"),
    "SingleArcSinhExp": ("npoints", "h"),
    "OneDGrid": ("points", "weights", "domain"),
}
FIND_PARAMETER_ORDER = ("array", "rmin", "radius")  # BeckeRTransform.find_parameter (static)

METHODS_X = ("transform", "deriv", "deriv2", "deriv3")
METHODS_R = ("inverse", "deriv_inverse", "deriv2_inverse", "deriv3_inverse")


def positional(cls, order, values):
    return cls(*[values[n] for n in order])


def _same_value(a, b):
    if a is None or b is None:
        return a is None and b is None
    if isinstance(a, (bool, np.bool_)) or isinstance(b, (bool, np.bool_)):
        return isinstance(a, (bool, np.bool_)) and isinstance(b, (bool, np.bool_)) and bool(a) == bool(b)
    try:
        return bool(np.all(np.asarray(a) == np.asarray(b)))
    except Exception:  # noqa: BLE001
        return a is b


def _same_array(a, b):
    a, b = np.asarray(a), np.asarray(b)
    return a.shape == b.shape and bool(np.array_equal(a, b, equal_nan=True))


def construct_both(ctx, cls, order, values, subject):
    """Build the positional and the keyword object under the exception guard; returns (pos, kw) (None when it raised)."""
    out = {}
    with ctx.guard("positional-equals-keyword", subject):
        out["kw"] = cls(**{n: values[n] for n in order})
    with ctx.guard("positional-binds-documented-order", subject):
        out["pos"] = positional(cls, order, values)
    return out.get("pos"), out.get("kw")


def compare_transforms(ctx, subject, pos, kw, attrs, values, x, methods=METHODS_X + METHODS_R):
    """Attributes bound in documented order; attributes, domains and method outputs identical to the keyword object."""
    bad = [n for n in attrs if not _same_value(getattr(pos, n, "<missing>"), values[n])]
    ctx.check("positional-binds-documented-order", subject, not bad, sig="attribute!=value-passed-at-its-documented-position:" + ",".join(bad), detail={"attributes": {n: repr(getattr(pos, n, "<missing>"))[:40] for n in bad}, "passed": {n: repr(values[n])[:40] for n in bad}})
    diff = [n for n in attrs if not _same_value(getattr(pos, n, "<missing>"), getattr(kw, n, "<missing2>"))]
    for n in ("domain", "codomain"):
        if not _same_array(np.asarray(getattr(pos, n), dtype=float), np.asarray(getattr(kw, n), dtype=float)):
            diff.append(n)
    ctx.check("positional-equals-keyword", subject, not diff, sig="attributes-differ:" + ",".join(diff))
    differing = []
    with np.errstate(all="ignore"):
        r = None
        for name in methods:
            arg = x if name in METHODS_X else r
            if arg is None:
                continue
            res = {}
            with ctx.guard("positional-equals-keyword", subject + "." + name):
                res["k"] = np.asarray(getattr(kw, name)(np.array(arg, dtype=float)), dtype=float)
                res["p"] = np.asarray(getattr(pos, name)(np.array(arg, dtype=float)), dtype=float)
            if "p" not in res:
                continue
            if name == "transform":
                r = res["k"].reshape(-1)
                r = r[np.isfinite(r)]
            if not _same_array(res["p"], res["k"]):
                differing.append(name)
    ctx.check("positional-equals-keyword", subject + ":outputs", not differing, sig="outputs-differ:" + ",".join(differing))
    ctx.hit("decided:construction")


def compare_grids(ctx, subject, gp, gk):
    same = _same_array(gp.points, gk.points) and _same_array(gp.weights, gk.weights) and repr(gp.domain) == repr(gk.domain)
    ctx.check("positional-equals-keyword", subject, same, sig="grids-differ")
    ctx.hit("decided:construction")
