"""Helpers for the C08 monitors (real spherical harmonics, derivatives, solid harmonics, cart->sph).

Everything here is independent of ``grid.utils``:

* ``numdiff``        derivative of an IMPLEMENTED function by a Chebyshev fit in ``np.longdouble``
                     (the implemented harmonics are evaluated in extended precision when they are
                     handed extended-precision angles, so the fit is good to ~1e-15 relative);
* ``legendre_ld``    Legendre polynomials by the Bonnet recursion in longdouble (addition theorem);
* ``addition_residual``  sum_m Y_lm(a) Y_lm(b) * 4pi/(2l+1) - P_l(cos gamma), per l;
* ``solid_scale``    sqrt(4pi/(2l+1)) r^l by repeated multiplication in longdouble;
* ``classify_polar`` which polar angles are in the decided domain (principal value in [0, pi] mod 2pi),
                     which are poles;
* ``cart_to_sph_ref`` / ``sph_to_unit``  the spherical parametrisation in longdouble.

theta = azimuth, phi = polar (grid's convention); rows in Horton-2 order (m = 0, +1, -1, +2, -2, ...).
"""

from __future__ import annotations

import functools
import math

import numpy as np

LD = np.longdouble
PI_LD = LD(4) * np.arctan(LD(1))
EPS = float(np.finfo(float).eps)
POLE_SIN = 1e-9  # |sin(phi)| below this: "at the pole" (polar derivative is convention, not decided)


# ------------------------------------------------------------------ row bookkeeping
@functools.lru_cache(None)
def row_lm(lmax):
    """(l, m) of every row of a ((lmax+1)^2, N) array in Horton-2 order."""
    ls, ms = [], []
    for l in range(lmax + 1):
        ls.append(l)
        ms.append(0)
        for m in range(1, l + 1):
            ls += [l, l]
            ms += [m, -m]
    return np.array(ls), np.array(ms)


def row_of(l, m):
    return l * l + (0 if m == 0 else (2 * m - 1 if m > 0 else -2 * m))


def describe_row(row):
    l = math.isqrt(int(row))
    j = int(row) - l * l
    m = 0 if j == 0 else ((j + 1) // 2 if j % 2 else -(j // 2))
    return l, m


@functools.lru_cache(None)
def partner_rows(lmax):
    """Index array q with q[row(l,m)] = row(l,-m) and the array of m per row."""
    ls, ms = row_lm(lmax)
    q = np.array([row_of(int(l), int(-m)) for l, m in zip(ls, ms)])
    return q, ms


@functools.lru_cache(None)
def lowering_rows(lmax):
    """For sin(phi) dY_lm/dphi = l cos(phi) Y_lm - c_lm Y_(l-1),m: row of (l-1, m) (-1 when |m| = l) and
    c_lm = sqrt((2l+1)(l^2-m^2)/(2l-1))."""
    ls, ms = row_lm(lmax)
    lower = np.array([row_of(int(l) - 1, int(m)) if abs(int(m)) <= int(l) - 1 else -1 for l, m in zip(ls, ms)])
    lf, mf = ls.astype(float), ms.astype(float)
    coef = np.where(lower >= 0, np.sqrt((2 * lf + 1) * (lf * lf - mf * mf) / np.maximum(2 * lf - 1, 1)), 0.0)
    return lower, coef


# ------------------------------------------------------------------ numerical differentiation
@functools.lru_cache(None)
def _cheb(n):
    """Chebyshev nodes t_k in (-1, 1) and weights w_k with p'(0) = sum_k w_k p(t_k) for deg p < n."""
    k = np.arange(n, dtype=LD)
    ang = PI_LD * (k + LD(0.5)) / n
    t = np.cos(ang)
    j = np.arange(n, dtype=LD)
    T = np.cos(np.outer(j, ang))  # T_j(t_k)
    dT0 = j * np.sin(j * PI_LD / 2)  # T_j'(0) = j U_{j-1}(0)
    scale = np.full(n, LD(2) / n)
    scale[0] = LD(1) / n
    w = (dT0 * scale) @ T
    return t, w


def numdiff_nodes(x0, rho, n=24):
    """Evaluation points (len(x0)*n,) in longdouble for ``numdiff_apply``."""
    t, _ = _cheb(n)
    x0 = np.asarray(x0, dtype=LD)
    return (x0[:, None] + LD(rho) * t[None, :]).ravel()


def numdiff_apply(ys, npts, rho, n=24):
    """ys: (R, npts*n) values at ``numdiff_nodes``; returns d/dx at x0: (R, npts) longdouble."""
    _, w = _cheb(n)
    ys = np.asarray(ys, dtype=LD).reshape(ys.shape[0], npts, n)
    return (ys @ w) / LD(rho)


def numdiff(f, x0, rho, n=24):
    """Derivative at x0 of f: (M,) longdouble -> (R, M)."""
    xs = numdiff_nodes(x0, rho, n)
    return numdiff_apply(f(xs), len(np.atleast_1d(x0)), rho, n)


def numdiff_radius(lmax):
    """Radius of the fit: a degree-l trigonometric polynomial has Chebyshev coefficients J_k(l*rho);
    l*rho <= 2 and n = 24 nodes put the truncation below 1e-20 relative."""
    return min(0.5, 2.0 / (lmax + 1.0))


# ------------------------------------------------------------------ addition theorem
def legendre_ld(lmax, x):
    x = np.asarray(x, dtype=LD)
    P = np.empty((lmax + 1,) + x.shape, dtype=LD)
    P[0] = 1
    if lmax > 0:
        P[1] = x
    for l in range(2, lmax + 1):
        P[l] = ((2 * l - 1) * x * P[l - 1] - (l - 1) * P[l - 2]) / l
    return P


def cos_gamma(theta, phi, perm):
    th = np.asarray(theta, dtype=LD)
    ph = np.asarray(phi, dtype=LD)
    return np.cos(ph) * np.cos(ph[perm]) + np.sin(ph) * np.sin(ph[perm]) * np.cos(th - th[perm])


def addition_residual(Y, lmax, theta, phi, perm):
    """max over the pairs (i, perm[i]) of |4pi/(2l+1) sum_m Y_lm(i) Y_lm(perm i) - P_l(cos gamma)|, per l."""
    P = legendre_ld(lmax, cos_gamma(theta, phi, perm))
    prod = Y * Y[:, perm]
    S = np.add.reduceat(prod, np.arange(lmax + 1) ** 2, axis=0)
    l = np.arange(lmax + 1, dtype=LD)[:, None]
    res = np.abs(S * (4 * PI_LD / (2 * l + 1)) - P)
    if res.shape[1] == 0:
        return np.zeros(lmax + 1)
    return np.asarray(res.max(axis=1), dtype=float)


# ------------------------------------------------------------------ domain classification
def classify_polar(phi):
    """decided: polar angle congruent mod 2pi to a value in [0, pi]; pole: |sin phi| < POLE_SIN."""
    phi = np.asarray(phi, dtype=float)
    p = np.mod(phi, 2 * np.pi)
    slack = 8 * EPS * (1 + np.abs(phi))
    decided = (p <= np.pi + slack) | (p >= 2 * np.pi - slack)
    pole = np.abs(np.sin(phi)) < POLE_SIN
    return decided, pole


# ------------------------------------------------------------------ solid harmonics
def solid_scale(lmax, r):
    """((lmax+1)^2, N) longdouble array sqrt(4pi/(2l+1)) r^l (repeated multiplication)."""
    r = np.asarray(r, dtype=LD)
    out = np.empty(((lmax + 1) ** 2, len(r)), dtype=LD)
    rl = np.ones(len(r), dtype=LD)
    for l in range(lmax + 1):
        if l > 0:
            rl = rl * r
        out[l * l : (l + 1) ** 2] = np.sqrt(4 * PI_LD / (2 * l + 1)) * rl
    return out


# ------------------------------------------------------------------ spherical parametrisation
def sph_to_unit(theta, phi):
    th = np.asarray(theta, dtype=LD)
    ph = np.asarray(phi, dtype=LD)
    return np.stack([np.sin(ph) * np.cos(th), np.sin(ph) * np.sin(th), np.cos(ph)], axis=1)


def wrap_pi(a):
    """Angle difference reduced to [-pi, pi)."""
    a = np.asarray(a, dtype=float)
    return (a + np.pi) % (2 * np.pi) - np.pi


# ------------------------------------------------------------------ self test
def self_test():
    import mpmath as mp

    rng = np.random.default_rng(808)
    x0 = rng.uniform(-3, 3, 7)
    xl = x0.astype(LD)
    d = numdiff(lambda x: np.array([np.sin(7 * x), np.exp(x), 1 / (4 + x)]), x0, 0.1)
    e = [np.abs(d[0] - 7 * np.cos(7 * xl)).max(), np.abs(d[1] - np.exp(xl)).max(), np.abs(d[2] + 1 / (4 + xl) ** 2).max()]
    worst = float(max(e))
    if not worst < 1e-13:
        raise RuntimeError(f"sph_c08.numdiff self-test failed: {e}")
    # a degree-250 trigonometric polynomial at the radius used for lmax = 250
    rho = numdiff_radius(250)
    d = numdiff(lambda x: np.array([np.cos(250 * x)]), x0, rho)
    e2 = float(np.abs(d[0] + 250 * np.sin(250 * xl)).max())
    if not e2 < 1e-12:
        raise RuntimeError(f"sph_c08.numdiff self-test (l=250) failed: {e2}")
    mp.mp.dps = 30
    xs = [-1.0, -0.3, 0.0, 0.77, 1.0]
    P = legendre_ld(60, np.array(xs))
    e3 = max(abs(float(P[l, i]) - float(mp.legendre(l, x))) for l in (0, 1, 2, 17, 60) for i, x in enumerate(xs))
    if not e3 < 1e-14:
        raise RuntimeError(f"sph_c08.legendre_ld self-test failed: {e3}")
    if abs(float(PI_LD) - np.pi) > 1e-15 or np.finfo(LD).eps > 1e-18:
        raise RuntimeError("sph_c08: np.longdouble is not extended precision on this machine")
    s = solid_scale(3, np.array([2.0, 0.0]))
    if abs(float(s[4, 0]) - np.sqrt(4 * np.pi / 5) * 4) > 1e-14 or s[0, 1] != np.sqrt(4 * PI_LD) or s[1, 1] != 0:
        raise RuntimeError("sph_c08.solid_scale self-test failed")
    return {"numdiff": worst, "numdiff250": e2, "legendre": e3}
