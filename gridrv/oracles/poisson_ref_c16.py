"""Independent reference potentials for C16 (Poisson solvers).

Nothing here imports ``grid``.  Three ingredients:

* normalised s-type Gaussians  rho = c (a/pi)^{3/2} exp(-a |r-d|^2),  V = c erf(sqrt(a)|r-d|)/|r-d|
  (closed form, textbook; the r->0 limit 2 sqrt(a/pi) is used below 1e-9);
* anisotropic components  rho = r^l exp(-a r^2) Y_lm(theta, phi)  (Y_lm from gridrv.oracles.sph, the
  monitor's own recursion): the potential is  G_{l,a}(r) Y_lm  with the radial Green's function

      G(r) = 4 pi/(2l+1) [ r^-(l+1) int_0^r s^(2l+2) e^(-a s^2) ds  +  r^l int_r^inf s e^(-a s^2) ds ]

  evaluated by scipy.integrate.quad (both integrals, no closed forms);
* the shipped per-element core model read directly from atomic_gauss_params.json.

``self_test`` validates G against the erf formula (l=0) and, for l>0, checks with mpmath (20 digits) that G
satisfies the radial Poisson equation  G'' + 2G'/r - l(l+1)G/r^2 = -4 pi r^l e^{-a r^2},  is regular at 0 and
decays like r^-(l+1).
"""

from __future__ import annotations

import json
import os

import numpy as np
from scipy.integrate import quad
from scipy.special import erf

from gridrv import core
from gridrv.oracles import sph

SQRT4PI = np.sqrt(4.0 * np.pi)


# ------------------------------------------------------------------ s-type Gaussians
def gauss_density(points, coeffs, alphas, centers):
    points = np.asarray(points, dtype=float)
    out = np.zeros(len(points))
    for c, a, d in zip(coeffs, alphas, centers):
        r2 = np.sum((points - np.asarray(d, dtype=float)) ** 2, axis=1)
        out += c * (a / np.pi) ** 1.5 * np.exp(-a * r2)
    return out


def gauss_potential(points, coeffs, alphas, centers):
    points = np.asarray(points, dtype=float)
    out = np.zeros(len(points))
    for c, a, d in zip(coeffs, alphas, centers):
        r = np.sqrt(np.sum((points - np.asarray(d, dtype=float)) ** 2, axis=1))
        small = r < 1e-9
        rs = np.where(small, 1.0, r)
        v = erf(np.sqrt(a) * rs) / rs
        v = np.where(small, 2.0 * np.sqrt(a / np.pi), v)
        out += c * v
    return out


# ------------------------------------------------------------------ anisotropic components
def ylm(l, m, rel):
    """Real Y_lm (sph.ref_Y_cart, Horton-2 rows) at the directions of ``rel`` (N,3); direction of a zero
    vector is taken as +z (irrelevant: every use multiplies by r^l with l>0 or is spherical)."""
    rel = np.asarray(rel, dtype=float)
    r = np.sqrt(np.sum(rel**2, axis=1))
    u = np.where(r[:, None] > 0, rel / np.where(r > 0, r, 1.0)[:, None], np.array([0.0, 0.0, 1.0])[None, :])
    Y = sph.ref_Y_cart(l, u[:, 0], u[:, 1], u[:, 2])
    row = l * l + (0 if m == 0 else (2 * m - 1 if m > 0 else -2 * m))
    return Y[row]


def green_radial(l, a, r):
    """G_{l,a}(r) for an array of radii (>0) by adaptive quadrature, accumulated over the sorted radii."""
    r = np.asarray(r, dtype=float)
    ru, inv = np.unique(r, return_inverse=True)
    if ru.size and ru[0] <= 0:
        raise core.MonitorError("green_radial needs r > 0")
    f1 = lambda s: s ** (2 * l + 2) * np.exp(-a * s * s)  # noqa: E731
    f2 = lambda s: s * np.exp(-a * s * s)  # noqa: E731
    inner = np.zeros(len(ru))
    acc, prev = 0.0, 0.0
    for i, x in enumerate(ru):
        acc += quad(f1, prev, x, epsabs=0.0, epsrel=1e-13, limit=200)[0]
        inner[i] = acc
        prev = x
    outer = np.zeros(len(ru))
    cut = max(ru[-1], 0.0) + 12.0 / np.sqrt(a)  # e^{-a s^2} < 1e-60 beyond
    acc, prev = quad(f2, ru[-1], cut, epsabs=0.0, epsrel=1e-13, limit=200)[0], ru[-1]
    outer[-1] = acc
    for i in range(len(ru) - 2, -1, -1):
        acc += quad(f2, ru[i], prev, epsabs=0.0, epsrel=1e-13, limit=200)[0]
        outer[i] = acc
        prev = ru[i]
    g = 4.0 * np.pi / (2 * l + 1) * (inner / ru ** (l + 1) + ru**l * outer)
    return g[inv]


_peak_memo = {}


def green_peak(l, a):
    """max_r G_{l,a}(r)  (uses the scaling G_{l,a}(r) = a^{-(l+2)/2} G_{l,1}(sqrt(a) r))."""
    if l not in _peak_memo:
        x = np.linspace(0.02, 8.0, 400)
        _peak_memo[l] = float(np.max(green_radial(l, 1.0, x)))
    return _peak_memo[l] * a ** (-(l + 2) / 2.0)


def component_norm(l, a):
    """Factor N such that the potential of N r^l e^{-a r^2} Y_lm has peak magnitude about 1
    (peak of the radial part times the maximum sqrt((2l+1)/4pi) of |Y_l0|)."""
    return 1.0 / (green_peak(l, a) * np.sqrt((2 * l + 1) / (4.0 * np.pi)))


def aniso_density(points, comps, center=(0.0, 0.0, 0.0)):
    """comps: list of (c, l, m, a); density sum c N(l,a) r^l e^{-a r^2} Y_lm about ``center``."""
    rel = np.asarray(points, dtype=float) - np.asarray(center, dtype=float)
    r = np.sqrt(np.sum(rel**2, axis=1))
    out = np.zeros(len(rel))
    for c, l, m, a in comps:
        out += c * component_norm(l, a) * r**l * np.exp(-a * r * r) * ylm(l, m, rel)
    return out


def aniso_potential(points, comps, center=(0.0, 0.0, 0.0)):
    rel = np.asarray(points, dtype=float) - np.asarray(center, dtype=float)
    r = np.sqrt(np.sum(rel**2, axis=1))
    out = np.zeros(len(rel))
    for c, l, m, a in comps:
        out += c * component_norm(l, a) * green_radial(l, a, r) * ylm(l, m, rel)
    return out


# ------------------------------------------------------------------ shipped core model (own reader)
_params = None
# own periodic table (symbols of Z = 1..54); the SUPPORTED elements are whatever keys the shipped JSON has
_PT = ("H He Li Be B C N O F Ne Na Mg Al Si P S Cl Ar K Ca Sc Ti V Cr Mn Fe Co Ni Cu Zn Ga Ge As Se Br Kr "
       "Rb Sr Y Zr Nb Mo Tc Ru Rh Pd Ag Cd In Sn Sb Te I Xe").split()
_Z = {sym: i + 1 for i, sym in enumerate(_PT)}


def _load():
    global _params
    if _params is None:
        with open(os.path.join(core.GRIDDIR, "data", "atomic_gauss_params.json")) as fh:
            _params = json.load(fh)
    return _params


def elements():
    """Atomic numbers of every element the shipped core-model file has, ascending (unknown symbol -> MonitorError)."""
    out = []
    for sym in _load():
        if sym not in _Z:
            raise core.MonitorError(f"core-model file has an element the monitor's table does not know: {sym}")
        out.append(_Z[sym])
    return sorted(out)


class _Symbols(dict):
    """Z -> symbol for the supported elements (kept under the old name SYMBOL)."""

    def _fill(self):
        if not self:
            for z in elements():
                self[z] = _PT[z - 1]
        return self

    def __iter__(self):
        return iter(dict(self._fill()))

    def __getitem__(self, z):
        self._fill()
        return dict.__getitem__(self, z)


SYMBOL = _Symbols()


def core_params(atnum):
    d = _load()[SYMBOL[int(atnum)]]
    extra = [k for k in d if k not in ("coeffs_s", "alphas_s")]
    return np.array(d["coeffs_s"], dtype=float), np.array(d["alphas_s"], dtype=float), extra


def core_density_at_nucleus(atnum):
    c, a, _ = core_params(atnum)
    return float(np.sum(c * (a / np.pi) ** 1.5))


def core_density(points, atnums, atcoords):
    out = np.zeros(len(points))
    for z, d in zip(atnums, atcoords):
        c, a, _ = core_params(z)
        out += gauss_density(points, c, a, [d] * len(c))
    return out


def core_potential(points, atnums, atcoords):
    out = np.zeros(len(points))
    for z, d in zip(atnums, atcoords):
        c, a, _ = core_params(z)
        out += gauss_potential(points, c, a, [d] * len(c))
    return out


def core_charge(atnums):
    return float(sum(np.sum(np.abs(core_params(z)[0])) for z in atnums))


# ------------------------------------------------------------------ self test
def self_test():
    """Raises when the reference itself is inconsistent; returns the worst discrepancy seen."""
    import mpmath as mp

    worst = 0.0
    # l = 0: 4pi[...] == (pi/a)^{3/2} erf(sqrt(a) r)/r
    rng = np.random.default_rng(16)
    for a in (0.07, 0.9, 6.0):
        r = np.exp(rng.uniform(np.log(0.03), np.log(12.0), 20))
        got = green_radial(0, a, r)
        want = (np.pi / a) ** 1.5 * erf(np.sqrt(a) * r) / r
        worst = max(worst, float(np.max(np.abs(got - want) / np.abs(want))))
    if worst > 1e-11:
        raise RuntimeError(f"poisson_ref: l=0 Green's function differs from erf formula: {worst}")
    # l > 0: radial Poisson equation in 30-digit arithmetic + agreement of the float64 quad version
    mp.mp.dps = 20
    for l, a, xode in ((1, 0.8, 1.3), (3, 0.35, 0.6)):
        am = mp.mpf(a)

        def G(x, l=l, am=am):
            i1 = mp.quad(lambda s: s ** (2 * l + 2) * mp.e ** (-am * s * s), [0, x])
            i2 = mp.quad(lambda s: s * mp.e ** (-am * s * s), [x, x + 6, mp.inf])
            return 4 * mp.pi / (2 * l + 1) * (i1 / x ** (l + 1) + x**l * i2)

        xm = mp.mpf(xode)
        lhs = mp.diff(G, xm, 2) + 2 * mp.diff(G, xm, 1) / xm - l * (l + 1) * G(xm) / xm**2
        rhs = -4 * mp.pi * xm**l * mp.e ** (-am * xm * xm)
        res = abs(lhs - rhs) / (abs(rhs) + 1)
        if res > 1e-12:
            raise RuntimeError(f"poisson_ref: Green's function violates the radial equation l={l}: {res}")
        for x in (0.21, 1.3, 3.7):
            xm = mp.mpf(x)
            d = abs(float(G(xm)) - float(green_radial(l, a, np.array([x]))[0])) / abs(float(G(xm)))
            worst = max(worst, d)
            if d > 1e-10:
                raise RuntimeError(f"poisson_ref: float quad differs from mpmath l={l} r={x}: {d}")
        # far field: G r^(l+1) -> 4pi/(2l+1) int_0^inf s^(2l+2) e^{-a s^2} ds ; regular at 0: G/r^l finite
        far = float(G(mp.mpf(40)) * mp.mpf(40) ** (l + 1))
        mom = float(4 * mp.pi / (2 * l + 1) * mp.quad(lambda s: s ** (2 * l + 2) * mp.e ** (-am * s * s), [0, 5, mp.inf]))
        if abs(far - mom) > 1e-10 * abs(mom):
            raise RuntimeError("poisson_ref: far-field multipole limit wrong")
    # scaling law used by green_peak
    g1 = green_radial(3, 2.5, np.array([0.7]))[0]
    g2 = 2.5 ** (-2.5) * green_radial(3, 1.0, np.array([0.7 * np.sqrt(2.5)]))[0]
    if abs(g1 - g2) > 1e-11 * abs(g1):
        raise RuntimeError("poisson_ref: scaling law of the Green's function violated")
    # Y_lm rows really are the (l,m) the name says: orthonormal against sph on a product grid
    x, w = np.polynomial.legendre.leggauss(24)
    az = (np.arange(48) + 0.5) * 2 * np.pi / 48
    ct, aa = np.meshgrid(x, az, indexing="ij")
    st = np.sqrt(1 - ct**2)
    pts = np.stack([st * np.cos(aa), st * np.sin(aa), ct], axis=-1).reshape(-1, 3)
    ww = (w[:, None] * np.full(48, 2 * np.pi / 48)[None, :]).ravel()
    lm = [(0, 0), (1, 0), (1, 1), (1, -1), (2, -2), (3, 2), (5, -4)]
    M = np.array([[np.sum(ww * ylm(*p, pts) * ylm(*q, pts)) for q in lm] for p in lm])
    if np.max(np.abs(M - np.eye(len(lm)))) > 1e-12:
        raise RuntimeError("poisson_ref: Y_lm selection not orthonormal")
    # core model file: s functions only, positive exponents
    for z in SYMBOL:
        c, a, extra = core_params(z)
        if len(c) != len(a) or np.any(a <= 0) or len(c) == 0:
            raise RuntimeError(f"poisson_ref: malformed core parameters for Z={z}")
    return worst
