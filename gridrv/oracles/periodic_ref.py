"""Brute-force reference models for local grids (C10) and periodic local grids (C11).

Nothing here uses a k-d tree or any routine of ``grid``: membership is decided by a plain
Euclidean distance on the points handed in, periodic images are enumerated over an integer box
that rigorously contains every image that can lie in the sphere.

Decision boundary.  ``distance == radius`` is a "don't care": every reference returns two sets,

    must : distance <= radius - band      (has to be in the local grid)
    may  : distance <= radius + band      (is allowed to be in the local grid)

with ``band = REL_BAND * radius + ABS_EPS * scale`` where ``scale`` is the largest coordinate
magnitude entering the subtraction (points, centre, lattice translation); the absolute part only
covers the rounding of ``x + jA - c`` against ``x - (c - jA)``.
"""

from __future__ import annotations

import itertools

import numpy as np

REL_BAND = 1e-9
ABS_EPS = 64 * np.finfo(float).eps


def as2d(points):
    points = np.asarray(points, dtype=float)
    if points.ndim == 1:
        return points.reshape(-1, 1)
    if len(points) == 0:
        return points.reshape(0, int(np.prod(points.shape[1:])) if points.ndim > 1 else 1)
    return points.reshape(len(points), -1)


def band(radius, scale):
    if not np.isfinite(radius):
        return 0.0
    return REL_BAND * radius + ABS_EPS * scale


def ball(points, center, radius):
    """Plain cutoff sphere.  Returns (must, may, dist): boolean masks over the points and distances."""
    pts = as2d(points)
    c = np.atleast_1d(np.asarray(center, dtype=float)).reshape(-1)
    diff = pts - c
    d = np.sqrt(np.sum(diff * diff, axis=1))
    if radius == np.inf:
        ok = ~np.isnan(d)
        return ok, ok.copy(), d
    scale = max(float(np.abs(pts).max()) if pts.size else 0.0, float(np.abs(c).max()) if c.size else 0.0)
    b = band(radius, scale)
    return d <= radius - b, d <= radius + b, d


def lattice_rows(realvecs, dim):
    """Lattice vectors as an (nl, dim) array (accepts the 1-D form used for 1-D points)."""
    a = np.asarray(realvecs, dtype=float)
    if a.size == 0:
        return np.zeros((0, dim))
    return a.reshape(-1, dim)


def dual_rows(A):
    """Rows b_k with b_k . a_l = delta_kl lying in span(A): solve (A A^T) B = A (no SVD, no pinv)."""
    if A.shape[0] == 0:
        return np.zeros_like(A)
    return np.linalg.solve(A @ A.T, A)


def plane_spacings(A):
    """Distance between adjacent lattice planes of vector k = distance of a_k from span(other vectors)."""
    nl = A.shape[0]
    out = np.zeros(nl)
    for k in range(nl):
        others = np.delete(A, k, axis=0)
        v = A[k].copy()
        if others.shape[0]:
            q, _ = np.linalg.qr(others.T)  # orthonormal basis of the span of the others
            v = v - q @ (q.T @ v)
        out[k] = np.linalg.norm(v)
    return out


def image_box(points, A, center, radius):
    """Integer box [lo, hi] per lattice vector containing every translation j with
    |x_i + j.A - c| <= radius for some i.

    With B = rows dual to A in span(A):  (v . b_k) for v = x_i + jA - c equals f_k(x_i - c) + j_k and
    |v . b_k| <= |v| |b_k| <= radius |b_k|,  so  j_k in [-f_k - radius|b_k|, -f_k + radius|b_k|];
    one extra cell on both sides absorbs rounding.
    """
    pts = as2d(points)
    c = np.atleast_1d(np.asarray(center, dtype=float)).reshape(-1)
    B = dual_rows(A)
    fx = (pts - c) @ B.T  # (N, nl)
    bn = np.linalg.norm(B, axis=1)
    lo = np.floor(-fx.max(axis=0) - radius * bn).astype(np.int64) - 1
    hi = np.ceil(-fx.min(axis=0) + radius * bn).astype(np.int64) + 1
    return lo, hi


def image_count(points, A, center, radius):
    if A.shape[0] == 0 or len(points) == 0:
        return 1
    lo, hi = image_box(points, A, center, radius)
    return int(np.prod((hi - lo + 1).astype(float)))


def images(points, realvecs, center, radius, chunk=4096):
    """Brute-force periodic reference.

    Returns (must, may): two dicts {(parent index, translation tuple j): distance} where the image is
    x_i + sum_k j_k a_k.  ``may`` is a superset of ``must`` (tie band, see module docstring).
    """
    pts = as2d(points)
    n, dim = pts.shape
    A = lattice_rows(realvecs, dim)
    nl = A.shape[0]
    c = np.atleast_1d(np.asarray(center, dtype=float)).reshape(-1)
    must, may = {}, {}
    if n == 0:
        return must, may
    if nl == 0:
        m, y, d = ball(pts, c, radius)
        for i in np.where(y)[0]:
            may[(int(i), ())] = float(d[i])
            if m[i]:
                must[(int(i), ())] = float(d[i])
        return must, may
    lo, hi = image_box(pts, A, c, radius)
    ranges = [range(int(l), int(h) + 1) for l, h in zip(lo, hi)]
    base_scale = max(float(np.abs(pts).max()), float(np.abs(c).max()))
    it = itertools.product(*ranges)
    while True:
        js = list(itertools.islice(it, chunk))
        if not js:
            break
        J = np.array(js, dtype=np.int64).reshape(len(js), nl)
        sh = J @ A  # (T, dim)
        scale = max(base_scale, float(np.abs(sh).max()))
        b = band(radius, scale)
        diff = pts[None, :, :] + sh[:, None, :] - c[None, None, :]
        d = np.sqrt(np.sum(diff * diff, axis=2))  # (T, N)
        tt, ii = np.where(d <= radius + b)
        for t, i in zip(tt, ii):
            key = (int(i), tuple(int(v) for v in J[t]))
            dv = float(d[t, i])
            may[key] = dv
            if dv <= radius - b:
                must[key] = dv
    return must, may


def _req(cond, info=None):
    """Explicit check (not ``assert``: must also work under ``python -O``)."""
    if not cond:
        raise AssertionError(f"periodic_ref self-test failed: {info!r}")


def self_test():
    """Hand-computed examples; raises AssertionError when the reference itself is wrong."""
    # 1-D: points 0.1, 0.5, period 1, sphere [-0.55, 0.55]: images 0.1 (j=0), 0.5 (j=0), -0.5 (j=-1)
    must, may = images(np.array([0.1, 0.5]), np.array([1.0]), 0.0, 0.55)
    want = {(0, (0,)), (1, (0,)), (1, (-1,))}
    _req(set(must) == want and set(may) == want, (must, may))
    # same with a negative lattice vector: translations change sign
    must, may = images(np.array([0.1, 0.5]), np.array([-1.0]), 0.0, 0.55)
    _req(set(must) == {(0, (0,)), (1, (0,)), (1, (1,))}, must)
    # 1-D far centre: c = 7.3, r = 0.25 -> images in [7.05, 7.55]: 7.1 (i=0, j=7), 7.5 (i=1, j=7)
    must, _ = images(np.array([0.1, 0.5]), np.array([1.0]), 7.3, 0.25)
    _req(set(must) == {(0, (7,)), (1, (7,))}, must)
    # 2-D skewed cell a1=(1,0), a2=(0.5,1), one point at origin, centre (0.2,0.1), r=1.0:
    # images j1*a1+j2*a2: (0,0) d=.2236; (1,0) d=.806; (-1,0) d=1.204 no; (0,1)=(.5,1) d=.9487; (-1,1)=(-.5,1) d=1.14 no;
    # (0,-1)=(-.5,-1) d=1.30 no; (1,-1)=(.5,-1) d=1.14 no; (1,1)=(1.5,1) d=1.58 no
    A = np.array([[1.0, 0.0], [0.5, 1.0]])
    must, may = images(np.zeros((1, 2)), A, np.array([0.2, 0.1]), 1.0)
    _req(set(must) == {(0, (0, 0)), (0, (1, 0)), (0, (0, 1))} and set(may) == set(must), must)
    # partial lattice: 2-D points, one lattice vector (0,2): point (0.3,0.5), centre (0,4.4), r=0.35 -> image j=2: (0.3,4.5) d=.316
    must, _ = images(np.array([[0.3, 0.5]]), np.array([[0.0, 2.0]]), np.array([0.0, 4.4]), 0.35)
    _req(set(must) == {(0, (2,))}, must)
    # tie band: point exactly on the sphere is in may but not in must
    must, may = images(np.array([0.25]), np.array([1.0]), 0.0, 0.25)
    _req((0, (0,)) in may and (0, (0,)) not in must)
    # empty
    must, may = images(np.array([0.5]), np.array([1.0]), 0.0, 0.1)
    _req(not must and not may)
    # plain ball
    m, y, d = ball(np.array([[0.0, 0.0], [3.0, 4.0]]), np.array([0.0, 0.0]), 5.0)
    _req(list(y) == [True, True] and list(m) == [True, False] and abs(d[1] - 5.0) < 1e-15)
    m, y, _ = ball(np.array([1.0, 2.0, 3.0]), 0.0, np.inf)
    _req(m.all() and y.all())
    # dual rows / spacings: hexagonal 2-D cell a=1, gamma=60deg: spacing = sin(60deg)
    A = np.array([[1.0, 0.0], [0.5, np.sqrt(3) / 2]])
    _req(np.allclose(dual_rows(A) @ A.T, np.eye(2), atol=1e-14))
    _req(np.allclose(plane_spacings(A), [np.sqrt(3) / 2, np.sqrt(3) / 2], atol=1e-14))
    A = np.array([[2.0, 0.0, 0.0], [0.0, 0.0, -3.0]])  # partial lattice in 3-D
    _req(np.allclose(plane_spacings(A), [2.0, 3.0]) and np.allclose(dual_rows(A), [[0.5, 0, 0], [0, 0, -1 / 3]]))
    return True
