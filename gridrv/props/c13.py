"""C13 - rectilinear grids: lexicographic tensor layout, invertible index maps, weights, molecule enclosure,
nearest node, cube-file round trip, cubic / logarithmic / linear interpolation."""

from __future__ import annotations

import itertools
import os
import tempfile

import numpy as np

from gridrv import core, instrument
from gridrv.monitors import roundtrip
from gridrv.oracles import cubic_ref_c13 as ref

PROP = "C13"
TITLE = "Rectilinear grids keep a lexicographic tensor layout with invertible index maps"
REQUIRED_HOOKS = [
    "UniformGrid.__init__",
    "Tensor1DGrids.__init__",
    "coordinates_to_index",
    "index_to_coordinates",
    "UniformGrid.closest_point",
    "UniformGrid.from_molecule",
    "interpolate",
    "generate_cube",
    "from_cube",
    "clone:copy",
    "clone:deepcopy",
    "clone:pickle",
    "clone:pickle2",
    "clone-through-postconditions",
]
REQUIRED_FAMILIES = [
    "uniform-layout",
    "tensor-layout",
    "weight-schemes",
    "from-molecule",
    "closest-point",
    "cube-roundtrip",
    "interp-cubic",
    "interp-log",
    "interp-linear",
    "interp-batch",
]
BUDGET = {"quick": 300, "thorough": 3000}
RULE = (
    "Monitors attached to the real API fire on every call in the process: Tensor1DGrids/UniformGrid.__init__ (point(i,j,k) = "
    "origin + i a1 + j a2 + k a3 resp. tuple of 1-D nodes, last index fastest; tensor weights = outer product; weight-scheme sum "
    "|sum(w)/V-1| <= sum 1/M_i), coordinates_to_index / index_to_coordinates (against plain mixed-radix arithmetic), "
    "UniformGrid.closest_point (brute-force arg-min over grid.points, ties and points outside the box excluded), "
    "UniformGrid.from_molecule (every nucleus at least extension - spacing inside the first/last grid plane), interpolate "
    "(exact tri-cubic / exp(cubic) / trilinear truth registered by the workload). One case = one seeded grid configuration "
    "(dimension 2/3, shape, origin, diagonal / negative / rotated / skewed / left-handed axes, weight scheme, 1-D rules) on which "
    "EVERY flat index and EVERY integer coordinate is round-tripped, separable integrands are integrated, and the family-specific "
    "calls are made (molecule kinds single/centro-symmetric/principal-frame/asymmetric x rotate on/off; 40 query points x 2 modes; "
    "cube write/read in bohr and in two spellings of the Angstrom convention; up to 64 derivative orders nu<=3 per axis at "
    "interior points of grids with >=7 increasing nodes per axis). A case is non-trivial when at least one oracle was evaluated; "
    "cases are distinct by their generator parameters (family, kind, dimension, k) and draw their numbers from (VERIF_SEED, case id); "
    "the weight-scheme family is a deterministic cross product (5 schemes x 2-D/3-D x 4 axis kinds x structured shape list). "
    "Clones: in every family the grid object (built directly, by from_molecule, by from_cube, with integer-dtype origin/axes, 2-D and 3-D, "
    "UniformGrid and Tensor1DGrids) is also passed through copy.copy / copy.deepcopy / pickle (default and protocol 2; one kind per case in "
    "quick, two in thorough, drawn by the case generator): the clone must equal the original in every public property, leave the original "
    "unchanged, and - for a seed-rotated half of the cases - goes through the same post-conditions as a fresh grid (layout against the "
    "construction arguments, weights, all-index round trip, separable integral, axis nodes, enclosure margins, closest_point queries, "
    "interpolation, cube writing). Batch size: family interp-batch sweeps the NUMBER of query points of one interpolate call over "
    "1, 2, 1023, 1024, 1025, 2048 (cubic and logarithmic variant; thorough also 4097 - the library's cubic evaluation needs O(n^2) memory, "
    "so 10^4 points are not attempted there) and additionally 4097, 10007 (thorough 100003) for 'linear' and 'nearest', on UniformGrid and "
    "Tensor1DGrids, with nu=(0,0,0) and a drawn derivative order per case (single-axis orders for the logarithmic variant); every call is "
    "decided by the attached exactness monitor ('nearest': value of the brute-force nearest node, ties excluded) and the result of a point "
    "must not depend on the batch it is in (sub-batch and single-point re-evaluation, 1e-13 of the value scale)."
)
ASSUMPTIONS = [
    "box volume V = |det(diag(M) axes)| (M_i steps of length |a_i| per axis, as the library documents it)",
    "cubic interpolation is decided on axis-aligned grids with >= 7 strictly increasing nodes per axis (the method fits splines "
    "through interior nodes 1..M-3 only; skewed axes are not supported by the method)",
    "closest_point is decided for diagonal axes and query points inside the box, ties (1e-9 band) excluded; which='origin' on a "
    "negative axis is only required to return a corner of the enclosing cell",
    "cube files: three-dimensional grids, printed precision 6 decimals for lengths/charges and 6 significant digits for data",
]
LEVEL_TEXT = "Seeded exploration of shapes, axes, schemes, molecules, query points and polynomials with independent oracles attached to the real API; no exhaustive claim."
TECHNIQUE = "runtime monitoring: post-conditions on constructors, index maps, closest_point, from_molecule and interpolate with explicit-formula / brute-force oracles; write-read round trip of cube files"

SCHEMES = ["Rectangle", "Trapezoid", "Fourier1", "Fourier2", "Alternative"]
WORKING = ["Rectangle", "Trapezoid", "Fourier1", "Alternative"]
AXKINDS = ["diag", "negdiag", "rot", "skew"]
TOL_LAYOUT = 1e-13
TOL_W = 1e-14
TOL_SEP = 1e-11
TOL_CUBIC = 1e-8
TOL_LOG = 1e-8
TOL_LIN = 1e-11

BATCH_SIZES_HEAVY = [1, 2, 1023, 1024, 1025, 2048, 4097]
BATCH_SIZES_LIGHT = [1, 2, 1023, 1024, 1025, 2048, 4097, 10007, 100003]
TOL_BATCH = 1e-13
_SEEN = {}
_TRUTH = {}  # id(values array) -> dict describing the exact function (registered by the workload)


# ------------------------------------------------------------------------------------------------ cases
def cases(tier, seed):
    q = tier == "quick"
    out = []
    # pinned witnesses of the open known findings (run first, never skipped)
    for what in ["fourier2-2d", "fourier2-3d", "frommol-offcentre", "frommol-outside", "frommol-transposed", "interp-negaxis"]:
        out.append(("pinned", {"what": what}, 1e9))
    for dim in (2, 3):
        for kind in AXKINDS:
            for k in range(10 if q else 400):
                out.append(("uniform-layout", {"dim": dim, "axes": kind, "k": k, "big": (not q) and k % 10 == 9}, 3.0 if q else 6.0))
        for k in range(16 if q else 600):
            out.append(("tensor-layout", {"dim": dim, "k": k}, 2.0))
        # deterministic cross product: schemes x dims x axis kinds (x structured shape list inside the case)
        for scheme in SCHEMES:
            for kind in AXKINDS:
                out.append(("weight-schemes", {"scheme": scheme, "dim": dim, "axes": kind}, 4.0))
                for k in range(1 if q else 40):
                    out.append(("weight-schemes", {"scheme": scheme, "dim": dim, "axes": kind, "k": k}, 2.0))
        for kind in ("pos", "neg", "mixed"):
            for k in range(5 if q else 250):
                out.append(("closest-point", {"dim": dim, "signs": kind, "k": k}, 2.0))
    for kind in ("single", "centro", "centro-principal", "asym", "asym-heavy-end"):
        for rotate in (False, True):
            for k in range(5 if q else 250):
                out.append(("from-molecule", {"kind": kind, "rotate": rotate, "k": k}, 5.0))
    for kind in AXKINDS:
        for k in range(5 if q else 250):
            out.append(("cube-roundtrip", {"axes": kind, "k": k}, 3.0))
    for gk in ("uniform", "tensor"):
        for k in range(16 if q else 500):
            out.append(("interp-cubic", {"grid": gk, "k": k, "all_nu": not q, "big": (not q) and k % 5 == 4}, 8.0 if q else 50.0))
        for k in range(5 if q else 200):
            out.append(("interp-log", {"grid": gk, "k": k}, 10.0))
        for k in range(8 if q else 400):
            out.append(("interp-linear", {"grid": gk, "k": k}, 2.0))
        # number of query points handed over in ONE call, swept across the sizes where a block-wise / chunked evaluation
        # would switch paths (deterministic cross product: method x size x grid class; nu and data drawn per case)
        for method in ("cubic", "log", "linear", "nearest"):
            heavy = method in ("cubic", "log")  # the library's cubic evaluation needs O(n^2) memory: 4097 points ~ 0.65 GB
            sizes = BATCH_SIZES_HEAVY[: 6 if q else 7] if heavy else BATCH_SIZES_LIGHT[: 8 if q else 9]
            for n in sizes:
                for k in range(1 if q else (6 if heavy else 4)):
                    out.append(("interp-batch", {"grid": gk, "method": method, "n": n, "k": k}, 20.0 + n / 100.0 if heavy else 4.0))
    return out


# ------------------------------------------------------------------------------------------------ helpers
def _bind(args, kwargs, names, defaults):
    vals = dict(defaults)
    for n, v in zip(names, args):
        vals[n] = v
    for n, v in kwargs.items():
        vals[n] = v
    if any(n not in vals for n in names):
        return None
    return [vals[n] for n in names]


def _axes_class(axes):
    a = np.asarray(axes, float)
    if np.count_nonzero(a - np.diag(np.diagonal(a))) == 0:
        return "diag" if np.all(np.diagonal(a) > 0) else "negdiag"
    g = a @ a.T
    if np.abs(g - np.diag(np.diagonal(g))).max() <= 1e-10 * np.abs(g).max():
        return "orth"
    return "skew"


def _defining_class(cls, name):
    for c in cls.__mro__:
        if name in c.__dict__:
            return c
    raise core.MonitorError(f"{cls.__name__}.{name} not found")


def _lib_call(ctx, fn):
    """Run a library constructor whose failure is decided by the attached monitor: swallow library exceptions."""
    try:
        return fn()
    except Exception as exc:  # noqa: BLE001
        if not core.is_library_exception(exc):
            raise
        ctx.count("library-exception-seen-by-monitor:" + type(exc).__name__)
        return None


def _rotation(rng):
    qm, r = np.linalg.qr(rng.normal(size=(3, 3)))
    qm = qm * np.sign(np.diagonal(r))
    if np.linalg.det(qm) < 0:
        qm[:, 0] = -qm[:, 0]
    return qm


def _make_axes(rng, dim, kind):
    steps = rng.uniform(0.1, 1.2, dim)
    if kind == "diag":
        return np.diag(steps)
    if kind == "negdiag":
        s = rng.choice([-1.0, 1.0], dim)
        if np.all(s > 0):
            s[rng.integers(dim)] = -1.0
        return np.diag(steps * s)
    if kind == "rot":
        if dim == 3:
            r = _rotation(rng)
        else:
            t = rng.uniform(0, 2 * np.pi)
            r = np.array([[np.cos(t), np.sin(t)], [-np.sin(t), np.cos(t)]])
        return steps[:, None] * r
    while True:  # skewed, either handedness, conditioning bounded
        a = rng.normal(size=(dim, dim)) * steps[:, None]
        if np.linalg.cond(a) < 30 and abs(np.linalg.det(a)) > 1e-4:
            return a


# ------------------------------------------------------------------------------------------------ post-conditions
# (module level so that the workload can hand CLONES of grid objects - which never pass through __init__ - to the same oracles)
def _decide_uniform(ctx, g, origin, axes, shape, weight, tag=""):
    """Layout and weight post-condition of a UniformGrid that is claimed to be UniformGrid(origin, axes, shape, weight)."""
    dim = origin.size
    subj_w = f"UniformGrid:{weight}:{dim}D{tag}"
    n = int(np.prod(shape))
    subj = f"UniformGrid:{dim}D:{_axes_class(axes)}{tag}"
    try:
        good_shape = tuple(int(v) for v in g.shape) == tuple(int(v) for v in shape) and g.points.shape == (n, dim) and g.weights.shape == (n,) and g.size == n
        seen = {"points": list(np.shape(g.points)), "shape": shape}
    except Exception as exc:  # noqa: BLE001  (a clone that lost part of its state)
        if not core.is_library_exception(exc) and not isinstance(exc, AttributeError):
            raise
        good_shape, seen = False, {"error": f"{type(exc).__name__}: {exc}"[:200]}
    ctx.check("layout-lexicographic", subj + ":shape", good_shape, sig="wrong-array-shapes", detail=seen)
    if not good_shape:
        return
    want = ref.uniform_points(origin, axes, shape)
    scale = float(np.abs(origin).max() + np.sum((shape - 1) * np.abs(axes).max(axis=1))) or 1.0
    err = np.abs(g.points - want).max(axis=1)
    worst = int(np.argmax(err))
    ctx.check("layout-lexicographic", subj, float(err[worst]) / scale, TOL_LAYOUT, sig="point(i,j,k)!=origin+i*a1+j*a2+k*a3", detail={"flat_index": worst, "coords": ref.unravel_index(worst, shape), "got": g.points[worst], "want": want[worst], "shape": shape})
    # weights
    vol = abs(float(np.linalg.det(np.diag(shape.astype(float)) @ axes)))
    w = g.weights
    if not np.all(np.isfinite(w)):
        ctx.fail("weight-scheme", subj_w, "non-finite-weights", detail={"shape": shape})
        return
    ratio = float(np.sum(w)) / vol
    bound = float(np.sum(1.0 / shape))
    if abs(ratio) < 0.01:
        sig = "sum~0"
    else:
        sig = f"sum/V~{ratio:.1f}"
    ctx.check("weight-scheme", subj_w, abs(ratio - 1.0) / bound, 1.0 + 1e-12, sig=sig, detail={"sum_over_V": ratio, "bound": bound, "shape": shape, "wmin": float(w.min()), "wmax": float(w.max())})
    if bound < 1.0:
        ctx.count("weight-scheme:non-vacuous-bound")


def _decide_tensor(ctx, g, ones, tag=""):
    """Layout and weight post-condition of a Tensor1DGrids that is claimed to be the tensor product of ``ones``."""
    dim = len(ones)
    subj = f"Tensor1DGrids:{dim}D{tag}"
    shape = tuple(int(o.size) for o in ones)
    n = int(np.prod(shape))
    try:
        good_shape = tuple(int(v) for v in g.shape) == shape and g.points.shape == (n, dim) and g.weights.shape == (n,)
        seen = {"points": list(np.shape(g.points)), "shape": shape}
    except Exception as exc:  # noqa: BLE001
        if not core.is_library_exception(exc) and not isinstance(exc, AttributeError):
            raise
        good_shape, seen = False, {"error": f"{type(exc).__name__}: {exc}"[:200]}
    ctx.check("layout-lexicographic", subj + ":shape", good_shape, sig="wrong-array-shapes", detail=seen)
    if not good_shape:
        return
    want = ref.tensor_points([o.points for o in ones])
    err = np.abs(g.points - want).max(axis=1)
    worst = int(np.argmax(err))
    ctx.check("layout-lexicographic", subj, float(err[worst]), 0.0, sig="point(i,j,k)!=(x_i,y_j,z_k)", detail={"flat_index": worst, "coords": ref.unravel_index(worst, shape), "got": g.points[worst], "want": want[worst], "shape": shape})
    ww = ref.tensor_weights([o.weights for o in ones])
    rel = np.abs(g.weights - ww) / (np.abs(ww) + 1e-300)
    worst = int(np.argmax(rel))
    ctx.check("tensor-weights-product", subj, float(rel[worst]), TOL_W, sig="w(i,j,k)!=wx_i*wy_j*wz_k", detail={"flat_index": worst, "got": float(g.weights[worst]), "want": float(ww[worst]), "shape": shape})


def _margin_verdict(ctx, g, nums, coords, spacing, ext, subj):
    """(ok, signature, detail) of the enclosure clause for grid ``g`` built around the molecule; also checks the axes."""
    lo, hi, steps, _ = ref.molecule_margins(g.origin, g.axes, g.shape, coords)
    gram = np.asarray(g.axes) @ np.asarray(g.axes).T
    ctx.check("from-molecule-margin", subj + ":orthogonal-axes-of-length-spacing", float(np.abs(gram - spacing**2 * np.eye(3)).max()) / spacing**2, 1e-9, sig="axes-not-spacing*orthonormal", detail={"axes": g.axes})
    need = ext - spacing
    worst = float(min(lo.min(), hi.min()))
    detail = {"margin_first_plane": lo, "margin_last_plane": hi, "required": need, "worst": worst, "spacing": spacing, "extension": ext, "shape": g.shape, "natom": int(nums.size)}
    if worst >= need - 1e-9 * (1.0 + abs(ext)):
        return True, None, detail
    how = ref.classify_enclosure_failure(g.origin, g.axes, g.shape, coords, nums, ext)
    head = "nucleus-outside" if worst < -1e-9 else "margin<ext-spacing"
    return False, f"{head};{how}", detail


def _shape_of(ctx, obj, exc, clause, what):
    """Shape of the grid a monitored method was called on; an object that lost its state (a defective clone) has none:
    the failed call is then recorded here and the monitor stops (never raises)."""
    try:
        return tuple(int(v) for v in obj.shape)
    except Exception as err:  # noqa: BLE001
        if exc is not None:
            ctx.fail(clause, f"{type(obj).__name__}.{what}:object-without-shape", f"raised:{type(exc).__name__}", detail={"error": str(exc)[:200], "reading-shape": f"{type(err).__name__}: {err}"[:200]})
        else:
            ctx.count(f"{what}:object-without-shape-not-decided")
        return None


def _clone(ctx, subject, g, n=None):
    """Clones of ``g`` (1 kind in quick, 2 in thorough, drawn by the case generator), each compared with the original in every
    public property.  Returns [(tag, clone)] of the clones that exist."""
    n = n or (1 if ctx.tier == "quick" else 2)
    out = []
    for kind in roundtrip.pick(ctx.rng, n):
        c = roundtrip.check_clone(ctx, subject, g, kind)
        if c is not None:
            out.append((f":clone({kind})", c))
    return out


def _through(ctx, p):
    """Seed-rotated half of the cases: the clone also goes through the post-conditions of a fresh grid."""
    go = (int(p.get("k", 0)) + int(ctx.seed)) % 2 == 0
    if go:
        ctx.hit("clone-through-postconditions")
    return go


# ------------------------------------------------------------------------------------------------ monitors
def setup(ctx):
    ref.self_test()
    from grid.cubic import Tensor1DGrids, UniformGrid

    # ---------------------------------------------------------------- UniformGrid.__init__
    def post_uniform(res, exc, args, kwargs):
        b = _bind(args, kwargs, ["self", "origin", "axes", "shape", "weight"], {"weight": "Trapezoid"})
        if b is None:
            return
        self, origin, axes, shape, weight = b
        ok_types = isinstance(origin, np.ndarray) and isinstance(axes, np.ndarray) and isinstance(shape, np.ndarray)
        if not (ok_types and origin.ndim == 1 and origin.size in (2, 3) and axes.shape == (origin.size, origin.size) and shape.shape == (origin.size,)):
            ctx.count("UniformGrid.__init__:inadmissible-arguments")
            return
        if not (np.issubdtype(shape.dtype, np.integer) and np.all(shape >= 2) and abs(np.linalg.det(axes)) >= 1e-10 and np.all(np.isfinite(axes)) and np.all(np.isfinite(origin))):
            ctx.count("UniformGrid.__init__:inadmissible-arguments")
            return
        dim = origin.size
        subj_w = f"UniformGrid:{weight}:{dim}D"
        if exc is not None:
            if weight in SCHEMES:
                ctx.fail("weight-scheme", subj_w, f"raised:{type(exc).__name__}", detail={"error": str(exc)[:200], "shape": shape, "tb": core.short_tb(exc)})
            else:
                ctx.count("UniformGrid.__init__:undocumented-weight-rejected")
            return
        _decide_uniform(ctx, self, origin, axes, shape, weight)

    instrument.wrap_method(ctx, UniformGrid, "__init__", post_uniform, hook="UniformGrid.__init__")

    # ---------------------------------------------------------------- Tensor1DGrids.__init__
    def post_tensor(res, exc, args, kwargs):
        from grid.basegrid import OneDGrid

        b = _bind(args, kwargs, ["self", "oned_x", "oned_y", "oned_z"], {"oned_z": None})
        if b is None:
            return
        self, gx, gy, gz = b
        ones = [gx, gy] + ([gz] if gz is not None else [])
        if not all(isinstance(g, OneDGrid) for g in ones) or any(g.size < 2 for g in ones):
            ctx.count("Tensor1DGrids.__init__:inadmissible-arguments")
            return
        dim = len(ones)
        subj = f"Tensor1DGrids:{dim}D"
        if exc is not None:
            ctx.fail("layout-lexicographic", subj, f"raised:{type(exc).__name__}", detail={"error": str(exc)[:200]})
            return
        _decide_tensor(ctx, self, ones)

    instrument.wrap_method(ctx, Tensor1DGrids, "__init__", post_tensor, hook="Tensor1DGrids.__init__")

    # ---------------------------------------------------------------- index maps
    def post_c2i(res, exc, args, kwargs):
        b = _bind(args, kwargs, ["self", "indices"], {})
        if b is None:
            return
        self, indices = b
        try:
            arr = np.asarray(indices, dtype=float)
        except (TypeError, ValueError):
            ctx.count("coordinates_to_index:non-numeric-input")
            return
        shape = _shape_of(ctx, self, exc, "index-maps-inverse", "coordinates_to_index")
        if shape is None:
            return
        if arr.shape != (len(shape),) or not np.all(np.isfinite(arr)) or not np.all(arr == np.round(arr)) or np.any(arr < 0) or np.any(arr >= np.array(shape)):
            ctx.count("coordinates_to_index:outside-domain-not-decided")
            return
        subj = f"{type(self).__name__}.coordinates_to_index:{len(shape)}D"
        if exc is not None:
            ctx.fail("index-maps-inverse", subj, f"raised:{type(exc).__name__}", detail={"indices": arr, "shape": shape})
            return
        want = ref.ravel_index([int(v) for v in arr], shape)
        ok = np.ndim(res) == 0 and float(res) == float(want)
        ctx.check("index-maps-inverse", subj, bool(ok), sig="wrong-flat-index", detail={"indices": arr, "shape": shape, "got": res, "want": want})

    def post_i2c(res, exc, args, kwargs):
        b = _bind(args, kwargs, ["self", "index"], {})
        if b is None:
            return
        self, index = b
        shape = _shape_of(ctx, self, exc, "index-maps-inverse", "index_to_coordinates")
        if shape is None:
            return
        if not isinstance(index, (int, np.integer)) or isinstance(index, bool) or index < 0 or index >= int(np.prod(shape)):
            ctx.count("index_to_coordinates:outside-domain-not-decided")
            return
        subj = f"{type(self).__name__}.index_to_coordinates:{len(shape)}D"
        if exc is not None:
            ctx.fail("index-maps-inverse", subj, f"raised:{type(exc).__name__}", detail={"index": int(index), "shape": shape})
            return
        want = ref.unravel_index(index, shape)
        try:
            ok = len(res) == len(shape) and all(int(a) == b and float(a) == float(b) for a, b in zip(res, want))
        except (TypeError, ValueError):
            ok = False
        ctx.check("index-maps-inverse", subj, bool(ok), sig="wrong-coordinates", detail={"index": int(index), "shape": shape, "got": res, "want": want})

    instrument.wrap_method(ctx, _defining_class(UniformGrid, "coordinates_to_index"), "coordinates_to_index", post_c2i, hook="coordinates_to_index")
    instrument.wrap_method(ctx, _defining_class(UniformGrid, "index_to_coordinates"), "index_to_coordinates", post_i2c, hook="index_to_coordinates")

    # ---------------------------------------------------------------- closest_point
    def post_closest(res, exc, args, kwargs):
        b = _bind(args, kwargs, ["self", "point", "which"], {"which": "closest"})
        if b is None:
            return
        self, point, which = b
        if _shape_of(ctx, self, exc, "closest-point-nearest", "closest_point") is None:
            return
        axes = np.asarray(self.axes, float)
        dim = self.ndim
        if which not in ("closest", "origin") or np.count_nonzero(axes - np.diag(np.diagonal(axes))) != 0:
            ctx.count("closest_point:rejection-path-not-decided")
            return
        p = np.asarray(point, float)
        if p.shape != (dim,) or not np.all(np.isfinite(p)):
            ctx.count("closest_point:inadmissible-point")
            return
        steps = np.diagonal(axes)
        shape = np.array([int(v) for v in self.shape])
        t = (p - np.asarray(self.origin, float)) / steps
        if np.any(t < 0) or np.any(t > shape - 1):
            ctx.count("closest_point:outside-box-not-decided")
            return
        negative = bool(np.any(steps < 0))
        subj = f"UniformGrid.closest_point:{which}:{dim}D:{'negative-axis' if negative else 'positive-axes'}"
        if exc is not None:
            ctx.fail("closest-point-nearest", subj, f"raised:{type(exc).__name__}", detail={"error": str(exc)[:200], "point": p})
            return
        if not (np.ndim(res) == 0 and float(res) == int(res) and 0 <= int(res) < self.size):
            ctx.fail("closest-point-nearest", subj, "not-a-valid-index", detail={"got": res, "point": p, "shape": shape})
            return
        if not isinstance(res, (int, np.integer)):
            ctx.count("closest_point:returned-index-is-float-typed")
        got = int(res)
        pts = self.points
        if which == "closest":
            best, d1, d2 = ref.brute_closest(pts, p)
            if d2 - d1 <= 1e-9 * np.abs(steps).max():
                ctx.count("closest_point:tie-not-decided")
                return
            dgot = float(np.linalg.norm(pts[got] - p))
            ctx.check("closest-point-nearest", subj, got == best, sig="not-the-nearest-node", detail={"point": p, "got": got, "want": best, "dist_got": dgot, "dist_min": d1, "axes_diag": steps, "origin": self.origin, "shape": shape})
        else:
            if np.any(np.abs(t - np.round(t)) <= 1e-9):
                ctx.count("closest_point:cell-boundary-not-decided")
                return
            off = (p - pts[got]) / steps  # offsets in units of the (signed) steps
            if negative:
                ok = bool(np.all(np.abs(off) < 1.0))
                ctx.check("closest-point-nearest", subj, ok, sig="not-a-corner-of-the-enclosing-cell", detail={"point": p, "got": got, "offset_in_steps": off})
            else:
                d = p[None, :] - pts
                inside = np.all((d >= 0) & (d < steps[None, :]), axis=1)
                cand = np.where(inside)[0]
                ok = len(cand) == 1 and int(cand[0]) == got
                ctx.check("closest-point-nearest", subj, bool(ok), sig="not-the-lower-corner-of-the-enclosing-cell", detail={"point": p, "got": got, "want": cand[:3], "axes_diag": steps, "origin": self.origin, "shape": shape})

    instrument.wrap_method(ctx, UniformGrid, "closest_point", post_closest, hook="UniformGrid.closest_point")

    # ---------------------------------------------------------------- from_molecule
    def post_frommol(res, exc, args, kwargs):
        b = _bind(args, kwargs, ["cls", "atcorenums", "atcoords", "spacing", "extension", "rotate", "weight"], {"spacing": 0.2, "extension": 5.0, "rotate": True, "weight": "Trapezoid"})
        if b is None:
            return
        _, nums, coords, spacing, ext, rotate, weight = b
        subj = f"UniformGrid.from_molecule:rotate={bool(rotate)}"
        if not (isinstance(nums, np.ndarray) and isinstance(coords, np.ndarray) and coords.ndim == 2 and coords.shape == (nums.size, 3) and np.all(nums > 0) and spacing > 0 and ext >= 0):
            ctx.count("from_molecule:inadmissible-arguments")
            return
        if exc is not None:
            if ext < spacing:
                # (extent + 2 ext) may be shorter than two spacings: a box with < 2 planes cannot be built
                ctx.count("from_molecule:degenerate-box-request-not-decided")
            elif weight in WORKING:
                ctx.fail("from-molecule-margin", subj, f"raised:{type(exc).__name__}", detail={"error": str(exc)[:200]})
            return
        g = res
        ok, sig, detail = _margin_verdict(ctx, g, nums, coords, spacing, ext, subj)
        _SEEN["last-from-molecule-verdict"] = (ok, sig)
        if ok:
            ctx.check("from-molecule-margin", subj, True)
        else:
            ctx.fail("from-molecule-margin", subj, sig, measure=detail["worst"], tol=detail["required"], detail=detail)

    instrument.wrap_method(ctx, UniformGrid, "from_molecule", post_frommol, hook="UniformGrid.from_molecule")

    # ---------------------------------------------------------------- interpolate
    def post_interp(res, exc, args, kwargs):
        b = _bind(args, kwargs, ["self", "points", "values", "use_log", "nu_x", "nu_y", "nu_z", "method"], {"use_log": False, "nu_x": 0, "nu_y": 0, "nu_z": 0, "method": "cubic"})
        if b is None:
            return
        self, points, values, use_log, nx, ny, nz, method = b
        if _shape_of(ctx, self, exc, "interp-cubic-exact", "interpolate") is None:
            return
        tr = _TRUTH.get(id(values))
        if tr is None or tr["values"] is not values:
            ctx.count("interpolate:call-without-registered-truth(inner/incidental)")
            return
        nu = (int(nx), int(ny), int(nz))
        kind = "log" if use_log else method
        subj = f"{type(self).__name__}.interpolate:{kind}:nu={nu[0]}{nu[1]}{nu[2]}" + tr.get("stag", "")
        clause = {"cubic": "interp-cubic-exact", "log": "interp-log-exact", "linear": "interp-linear-exact", "nearest": "interp-nearest-node"}.get(kind)
        if clause is None or (use_log and method != "cubic") or (kind == "nearest" and "nodes" not in tr):
            ctx.count("interpolate:combination-not-decided")
            return
        if exc is not None:
            ctx.fail(clause, subj + tr.get("tag", ""), f"raised:{type(exc).__name__}", detail={"error": str(exc)[:200], "shape": self.shape})
            return
        pts = np.asarray(points, float)
        h = tr["h"]
        keep = None
        if kind == "nearest":
            idx = []
            keep = np.ones(len(pts), dtype=bool)
            for d in range(3):
                dist = np.abs(np.asarray(tr["nodes"][d], float)[None, :] - pts[:, d : d + 1])
                o = np.argsort(dist, axis=1)[:, :2]
                d1, d2 = np.take_along_axis(dist, o[:, :1], 1)[:, 0], np.take_along_axis(dist, o[:, 1:2], 1)[:, 0]
                keep &= (d2 - d1) > 1e-9 * h[d]  # equidistant nodes: don't care
                idx.append(o[:, 0])
            shape3 = tuple(len(nd) for nd in tr["nodes"])
            want = np.asarray(values, float).reshape(shape3)[idx[0], idx[1], idx[2]]
            scale, tol = tr["fmax"], 0.0
        elif kind == "log":
            axis = [d for d in range(3) if nu[d] > 0]
            order = sum(nu)
            want = ref.exp_poly3(tr["c"], pts, axis[0] if axis else None, order)
            # f = exp(p): a rounding error delta in the interpolated logarithm (which has size pmax) shows as f * delta,
            # so the value scale carries one factor (1 + pmax) even without derivatives
            scale = tr["fmax"] * (1.0 + tr["pmax"]) * ((1.0 + tr["pmax"]) / (h[axis[0]] if axis else 1.0)) ** order
            tol = TOL_LOG
        else:
            want = ref.poly3(tr["c"], pts, nu)
            scale = tr["fmax"] * float(np.prod([h[d] ** (-nu[d]) for d in range(3)]))
            tol = TOL_CUBIC if kind == "cubic" else TOL_LIN
        got = np.asarray(res, float)
        if got.shape != want.shape:
            ctx.fail(clause, subj, "wrong-result-shape", detail={"got": list(got.shape), "want": list(want.shape)})
            return
        err = np.abs(got - want)
        if keep is not None:
            err = np.where(keep, err, 0.0)
        worst = int(np.argmax(err))
        ctx.check(clause, subj, float(err[worst]) / scale, tol, sig="interpolant!=polynomial" if kind != "nearest" else "value!=value-at-nearest-node", detail={"point": pts[worst], "got": float(got[worst]), "want": float(want[worst]), "scale": scale, "shape": self.shape, "grid": type(self).__name__})

    instrument.wrap_method(ctx, _defining_class(UniformGrid, "interpolate"), "interpolate", post_interp, hook="interpolate")


# ------------------------------------------------------------------------------------------------ workload pieces
def _as_int(x):
    try:
        if np.ndim(x) == 0 and float(x) == int(x):
            return int(x)
    except (TypeError, ValueError):
        pass
    return None


def _as_tuple(c):
    try:
        return tuple(_as_int(v) for v in c)
    except TypeError:
        return None


def _roundtrip_all(ctx, g, tag=""):
    """Every flat index -> coordinates -> flat index and every coordinate -> flat -> coordinate (monitors decide the values)."""
    shape = tuple(int(v) for v in g.shape)
    dim = len(shape)
    n = int(np.prod(shape))
    subj = f"{type(g).__name__}:{dim}D{tag}"
    bad_a = bad_b = bad_p = 0
    first = None
    with ctx.guard("index-maps-inverse", subj):
        for idx in range(n):
            arg = idx if idx % 3 else np.int64(idx)
            c = g.index_to_coordinates(arg)
            back = g.coordinates_to_index(c if idx % 2 else tuple(int(v) for v in c))
            if _as_int(back) != idx:
                bad_a += 1
                first = first or {"index": idx, "coords": c, "back": back}
        for flat, c in enumerate(itertools.product(*[range(m) for m in shape])):
            arg = c if flat % 3 == 0 else (list(c) if flat % 3 == 1 else np.array(c))
            idx = g.coordinates_to_index(arg)
            if _as_int(idx) is None:
                bad_b += 1
                bad_p += 1
                first = first or {"coords": c, "index": idx}
                continue
            c2 = g.index_to_coordinates(_as_int(idx))
            if _as_tuple(c2) != c:
                bad_b += 1
                first = first or {"coords": c, "index": idx, "back": c2}
            if _as_int(idx) != flat:
                bad_p += 1
        ctx.check("index-maps-inverse", subj + ":index->coords->index", bad_a == 0, sig="not-identity", detail={"bad": bad_a, "of": n, "first": first, "shape": shape})
        ctx.check("index-maps-inverse", subj + ":coords->index->coords", bad_b == 0, sig="not-identity", detail={"bad": bad_b, "of": n, "first": first, "shape": shape})
        try:
            many = g.coordinates_to_index(np.array(list(itertools.product(*[range(m) for m in shape]))))
        except Exception as exc:  # noqa: BLE001  (an (N, D) array is beyond the documented "tuple of int": a rejection is not decided)
            if not core.is_library_exception(exc):
                raise
            ctx.count("coordinates_to_index:many-at-once-rejected-not-decided")
        else:
            ctx.check("index-maps-inverse", subj + ":all-coordinates-in-one-call", bool(np.shape(many) == (n,) and np.array_equal(np.asarray(many), np.arange(n))), sig="wrong-flat-indices-for-an-(N,D)-array")
        ctx.check("layout-lexicographic", subj + ":last-index-fastest", bad_p == 0, sig="lexicographic-enumeration-differs-from-flat-order", detail={"bad": bad_p, "of": n, "shape": shape})
    ctx.count("indices-round-tripped", 2 * n)


def _random_shape(rng, dim, lo=2, hi=9, cap=None):
    while True:
        s = rng.integers(lo, hi + 1, dim)
        if cap is None or np.prod(s) <= cap:
            return np.array(s, dtype=int)


def _uniform_layout(ctx, p):
    from grid.cubic import UniformGrid

    rng = ctx.rng
    dim = p["dim"]
    shape = _random_shape(rng, dim, 2, 30 if p.get("big") else 9, cap=30000)
    if rng.random() < 0.3:
        shape[rng.integers(dim)] = 2
    if rng.random() < 0.3:
        shape = shape.astype(np.int32)
    axes = _make_axes(rng, dim, p["axes"])
    origin = rng.normal(size=dim) * rng.choice([0.0, 1.0, 10.0, 1e4])
    weight = str(rng.choice(WORKING))
    g = _lib_call(ctx, lambda: UniformGrid(origin, axes, shape, weight=weight))
    ctx.case_note("shape", shape)
    if g is None:
        return
    _exercise_uniform(ctx, g, origin, axes, shape, "")
    for tag, c in _clone(ctx, f"UniformGrid:{dim}D", g):
        if _through(ctx, p):
            with ctx.guard("clone-equals-original", f"UniformGrid:{dim}D{tag}", sig_prefix="raised-using-clone"):
                _decide_uniform(ctx, c, origin, axes, shape, weight, tag)
                _exercise_uniform(ctx, c, origin, axes, shape, tag)


def _exercise_uniform(ctx, g, origin, axes, shape, tag):
    rng = ctx.rng
    dim = len(shape)
    _roundtrip_all(ctx, g, tag)
    subj = f"UniformGrid:{dim}D:{_axes_class(axes)}{tag}"
    # points through the index map: ties the layout to coordinates_to_index
    with ctx.guard("layout-lexicographic", subj):
        scale = float(np.abs(origin).max() + np.sum((shape - 1) * np.abs(axes).max(axis=1))) or 1.0
        worst = 0.0
        for _ in range(min(200, g.size)):
            c = tuple(int(rng.integers(0, m)) for m in shape)
            want = origin + sum(c[k] * axes[k] for k in range(dim))
            worst = max(worst, float(np.abs(g.points[int(g.coordinates_to_index(c))] - want).max()) / scale)
        ctx.check("layout-lexicographic", subj + ":points[coordinates_to_index(c)]", worst, TOL_LAYOUT, sig="point(i,j,k)!=origin+i*a1+j*a2+k*a3")
    if _axes_class(axes) not in ("diag", "negdiag"):
        # documented rejection (not decided): closest_point only supports diagonal axes
        try:
            g.closest_point(g.points[g.size // 2] + 0.1 * axes[0])
            ctx.count("closest_point:non-diagonal-axes-accepted")
        except ValueError:
            ctx.count("closest_point:non-diagonal-axes-rejected-with-ValueError")
    else:
        with ctx.guard("points-along-axes", subj):
            got = g.get_points_along_axes()
            ok = len(got) == dim
            err = 0.0
            for k in range(dim):
                want = origin[k] + np.arange(shape[k]) * axes[k, k]
                ok = ok and np.shape(got[k]) == want.shape
                if ok:
                    err = max(err, float(np.abs(np.asarray(got[k]) - want).max()) / scale)
            ctx.check("points-along-axes", subj, err if ok else float("inf"), TOL_LAYOUT, sig="axis-nodes!=origin_k+i*a_kk")


_RULES = ["GaussLegendre", "GaussChebyshev", "Trapezoidal", "MidPoint", "Simpson", "ClenshawCurtis", "GaussChebyshevLobatto", "raw", "raw-unsorted"]


def _oned(rng, n, increasing=False):
    from grid import onedgrid
    from grid.basegrid import OneDGrid

    name = str(rng.choice(_RULES[:-1] if increasing else _RULES))
    if name.startswith("raw"):
        pts = np.cumsum(rng.uniform(0.1, 1.0, n)) + rng.normal()
        if name == "raw-unsorted":
            pts = rng.permutation(pts)
        w = rng.normal(size=n)
        return OneDGrid(pts, w), name
    if name == "Simpson" and n % 2 == 0:
        n += 1
    g = getattr(onedgrid, name)(n)
    if increasing and not np.all(np.diff(g.points) > 0):
        o = np.argsort(g.points)
        g = OneDGrid(g.points[o], g.weights[o])
    return g, name


def _sep_functions(rng):
    a, b, c = rng.uniform(0.3, 2.0, 3)
    return [
        lambda x: np.cos(a * x + b),
        lambda x: np.exp(-c * x**2) * (1 + 0.3 * x),
        lambda x: 1.0 + b * x - a * x**2 + 0.1 * x**3,
    ]


def _tensor_layout(ctx, p):
    from grid.cubic import Tensor1DGrids

    rng = ctx.rng
    dim = p["dim"]
    sizes = _random_shape(rng, dim, 2, 12)
    ones, names = [], []
    for k in range(dim):
        g, nm = _oned(rng, int(sizes[k]))
        ones.append(g)
        names.append(nm)
    ctx.case_note("rules", names)
    ctx.case_note("shape", [g.size for g in ones])
    tg = _lib_call(ctx, lambda: Tensor1DGrids(*ones))
    if tg is None:
        return
    _exercise_tensor(ctx, tg, ones, "")
    for tag, c in _clone(ctx, f"Tensor1DGrids:{dim}D", tg):
        if _through(ctx, p):
            with ctx.guard("clone-equals-original", f"Tensor1DGrids:{dim}D{tag}", sig_prefix="raised-using-clone"):
                _decide_tensor(ctx, c, ones, tag)
                _exercise_tensor(ctx, c, ones, tag)


def _exercise_tensor(ctx, tg, ones, tag):
    rng = ctx.rng
    dim = len(ones)
    _roundtrip_all(ctx, tg, tag)
    subj = f"Tensor1DGrids:{dim}D{tag}"
    with ctx.guard("separable-integral", subj):
        fs = _sep_functions(rng)
        rng.shuffle(fs)
        vals = np.ones(tg.size)
        prod, mag = 1.0, 1.0
        for k in range(dim):
            vals = vals * fs[k](tg.points[:, k])
            f1 = fs[k](ones[k].points)
            prod *= float(np.sum(ones[k].weights * f1))
            mag *= float(np.sum(np.abs(ones[k].weights * f1)))
        got = float(tg.integrate(vals))
        ctx.check("separable-integral", subj, abs(got - prod) / (mag or 1.0), TOL_SEP, sig="integral!=product-of-1D-integrals", detail={"got": got, "want": prod})
    with ctx.guard("points-along-axes", subj):
        got = tg.get_points_along_axes()
        ok = len(got) == dim and all(np.array_equal(np.asarray(got[k]), ones[k].points) for k in range(dim))
        ctx.check("points-along-axes", subj, bool(ok), sig="axis-nodes!=1D-grid-points")
        ctx.check("layout-lexicographic", subj + ":origin", bool(np.array_equal(tg.origin, [g.points[0] for g in ones])), sig="origin!=first-nodes")


_STRUCTURED_SHAPES = {
    2: [(2, 2), (2, 3), (3, 2), (5, 6), (4, 4), (7, 3), (2, 17), (9, 10), (16, 16), (25, 4), (31, 32), (50, 51)],
    3: [(2, 2, 2), (2, 3, 4), (3, 3, 3), (4, 4, 4), (5, 6, 7), (7, 6, 5), (4, 5, 6), (2, 9, 5), (9, 9, 9), (10, 4, 13), (16, 16, 16), (20, 21, 23)],
}


def _weight_schemes(ctx, p):
    from grid.cubic import UniformGrid

    rng = ctx.rng
    dim, scheme = p["dim"], p["scheme"]
    if "k" in p:
        shapes = [tuple(_random_shape(rng, dim, 2, 26, cap=20000)) for _ in range(4)]
    else:
        shapes = _STRUCTURED_SHAPES[dim]
    pick = int(rng.integers(len(shapes)))
    for i, shape in enumerate(shapes):
        axes = _make_axes(rng, dim, p["axes"])
        origin = rng.normal(size=dim)
        shp = np.array(shape, dtype=int)
        # decided by the monitor on UniformGrid.__init__ (constructs + |sum(w)/V - 1| <= sum 1/M_i)
        g = _lib_call(ctx, lambda: UniformGrid(origin, axes, shp, weight=scheme))
        if g is not None and i == pick and scheme in WORKING:
            for tag, c in _clone(ctx, f"UniformGrid:{scheme}:{dim}D", g):
                with ctx.guard("clone-equals-original", f"UniformGrid:{scheme}:{dim}D{tag}", sig_prefix="raised-using-clone"):
                    _decide_uniform(ctx, c, origin, axes, shp, scheme, tag)


# ---------------------------------------------------------------- molecules
_ELEMENTS = [1.0, 1.0, 1.0, 6.0, 7.0, 8.0, 9.0, 16.0, 17.0, 35.0, 53.0]


def _molecule(rng, kind):
    if kind == "single":
        return np.array([float(rng.choice(_ELEMENTS))]), rng.normal(size=(1, 3)) * 3
    if kind in ("centro", "centro-principal"):
        while True:
            n = int(rng.integers(1, 5))
            half = rng.normal(size=(n, 3)) * rng.uniform(0.8, 3.0)
            z = rng.choice(_ELEMENTS, n)
            coords = np.vstack([half, -half])
            nums = np.concatenate([z, z])
            if rng.random() < 0.5:
                coords = np.vstack([coords, np.zeros((1, 3))])
                nums = np.concatenate([nums, [float(rng.choice(_ELEMENTS))]])
            if kind == "centro":
                return nums, coords @ _rotation(rng).T + rng.normal(size=3) * 2
            frame, ev = ref.inertia_frame(coords, nums)
            if n >= 2 and ev[0] > 0 and np.min(np.diff(ev)) > 0.1 * ev[2]:
                return nums, frame + rng.normal(size=3) * 2
    n = int(rng.integers(2, 8))
    coords = rng.normal(size=(n, 3)) * rng.uniform(0.8, 3.0)
    nums = rng.choice(_ELEMENTS[:7], n)
    if kind == "asym-heavy-end":
        far = int(np.argmax(np.linalg.norm(coords - coords.mean(axis=0), axis=1)))
        nums[far] = float(rng.choice([17.0, 35.0, 53.0]))
        if rng.random() < 0.5:  # elongated along one Cartesian axis
            coords = coords * np.array([0.3, 0.3, 1.0]) + np.outer(np.arange(n) - 0.0, [0.0, 0.0, 1.5])
    return nums, coords + rng.normal(size=3) * 2


def _from_molecule(ctx, p):
    from grid.cubic import UniformGrid

    rng = ctx.rng
    nums, coords = _molecule(rng, p["kind"])
    ext = float(rng.choice([0.0, rng.uniform(0.3, 1.5), rng.uniform(1.5, 4.0), 5.0]))
    span = np.ptp(coords, axis=0).max() + 2 * ext + 1.0
    smin = span / 55.0  # keep the grid below ~170 000 points
    spacing = float(max(smin, rng.uniform(0.2, 1.2)))
    if nums.size < 4 or p["kind"].startswith("centro"):  # possibly linear / planar: keep the requested box at least two planes thick
        ext = max(ext, 1.05 * spacing)
    ctx.case_note("natom", int(nums.size))
    ctx.case_note("spacing_extension", [spacing, ext])
    kw = {"spacing": spacing, "extension": ext, "rotate": p["rotate"]}
    if rng.random() < 0.3:
        kw["weight"] = str(rng.choice(WORKING))
    _SEEN.pop("last-from-molecule-verdict", None)
    g = _lib_call(ctx, lambda: UniformGrid.from_molecule(nums, coords, **kw))  # decided by the attached monitor
    verdict = _SEEN.get("last-from-molecule-verdict")
    if g is None or verdict is None:
        return
    o0, a0, s0 = np.array(g.origin, dtype=float), np.array(g.axes, dtype=float), np.array([int(v) for v in g.shape])
    subj = f"UniformGrid.from_molecule:rotate={bool(p['rotate'])}"
    for tag, c in _clone(ctx, subj, g):
        if _through(ctx, p):
            with ctx.guard("clone-equals-original", subj + tag, sig_prefix="raised-using-clone"):
                _decide_uniform(ctx, c, o0, a0, s0, kw.get("weight", "Trapezoid"), tag)
                # same enclosure post-condition; a known enclosure defect of the original is the same defect in its clone,
                # so what is decided for the clone is that it encloses the molecule exactly as (well or badly as) the original
                ok, sig, detail = _margin_verdict(ctx, c, nums, coords, spacing, ext, subj + tag)
                ctx.check("from-molecule-margin", subj + tag, (ok, sig) == verdict, sig="clone-encloses-differently:" + str(sig), detail={"original": verdict, "clone": [ok, sig], "worst": detail["worst"]})


# ---------------------------------------------------------------- closest point
def _closest_point(ctx, p):
    from grid.cubic import UniformGrid

    rng = ctx.rng
    dim = p["dim"]
    shape = _random_shape(rng, dim, 2, 9)
    steps = rng.uniform(0.1, 1.5, dim)
    if p["signs"] == "neg":
        steps = -steps
    elif p["signs"] == "mixed":
        s = rng.choice([-1.0, 1.0], dim)
        s[rng.integers(dim)] = -1.0
        if dim > 1 and np.all(s < 0):
            s[rng.integers(dim)] = 1.0
        steps = steps * s
    origin = rng.normal(size=dim) * 2
    form = int(p.get("k", 0)) % 4
    if form == 3:
        # integer-valued grid handed over in INTEGER-dtype arrays (np.array([0, 0, 0]), integer axes): a lattice
        steps = np.sign(steps) * rng.integers(1, 4, dim)
        origin_arg, axes_arg = np.rint(origin * 3).astype(np.int64), np.diag(steps).astype(np.int64 if rng.random() < 0.5 else np.int32)
        origin = origin_arg.astype(float)
        ctx.count("closest-point:integer-dtype-origin-and-axes")
    elif form == 2:
        # integer-dtype origin with float axes (origin given as np.array([0, 0, 0]))
        origin_arg, axes_arg = np.rint(origin * 3).astype(np.int64), np.diag(steps)
        origin = origin_arg.astype(float)
        ctx.count("closest-point:integer-dtype-origin")
    else:
        origin_arg, axes_arg = origin, np.diag(steps)
    g = _lib_call(ctx, lambda: UniformGrid(origin_arg, axes_arg, shape))
    if g is None:
        return
    subj = f"UniformGrid.closest_point:{dim}D"
    targets = [g]
    for tag, c in _clone(ctx, f"UniformGrid:{dim}D:form{form}", g):
        if _through(ctx, p):
            with ctx.guard("clone-equals-original", f"UniformGrid:{dim}D{tag}", sig_prefix="raised-using-clone"):
                _decide_uniform(ctx, c, origin_arg, axes_arg, shape, "Trapezoid", tag)
            targets.append(c)
    for i in range(40):
        g = targets[i % len(targets)]  # queries alternate between the original and its clones (same monitor decides)
        t = rng.uniform(0, 1, dim) * (shape - 1)
        if i % 8 == 5:  # exactly on a node
            t = np.round(t)
        elif i % 8 == 6:  # close to a cell face / the middle of an edge
            t = np.floor(t) + rng.choice([0.49, 0.51, 0.02, 0.98], dim)
            t = np.minimum(t, shape - 1.0)
        pt = origin + t * steps
        for which in ("closest", "origin"):
            with ctx.guard("closest-point-nearest", subj):
                g.closest_point(pt, which)  # decided by the attached monitor
    for g in targets:
        with ctx.guard("closest-point-nearest", subj):
            g.closest_point(origin + 0.3 * steps)  # default mode


# ---------------------------------------------------------------- cube files
def _cube_roundtrip(ctx, p):
    from grid.cubic import UniformGrid

    rng = ctx.rng
    shape = _random_shape(rng, 3, 2, 8)
    axes = _make_axes(rng, 3, p["axes"])
    origin = rng.normal(size=3) * rng.choice([1.0, 10.0])
    _weight_of_case = str(rng.choice(WORKING))
    g = _lib_call(ctx, lambda: UniformGrid(origin, axes, shape, weight=_weight_of_case))
    if g is None:
        return
    natom = int(rng.integers(1, 6))
    atnums = rng.integers(1, 90, natom)
    atcoords = rng.normal(size=(natom, 3)) * 4
    pseudo = None if rng.random() < 0.4 else (atnums - rng.integers(0, 2, natom) * np.minimum(atnums - 1, 10) * 1.0 + rng.choice([0.0, 0.25]))
    mode = int(rng.integers(0, 4))
    data = rng.normal(size=g.size)
    if mode == 1:
        data = data * 10.0 ** rng.integers(-12, 12, g.size)
    elif mode == 2:
        data = np.exp(-np.linalg.norm(g.points, axis=1))
        data[rng.integers(g.size)] = 0.0
    elif mode == 3:
        data = data * 1e-120
    want_pseudo = atnums.astype(float) if pseudo is None else np.asarray(pseudo, float)
    lmax = float(max(np.abs(origin).max(), np.abs(axes).max(), np.abs(atcoords).max()))
    tmp = tempfile.mkdtemp(prefix="gridrv-c13-")
    try:
        f0 = os.path.join(tmp, "a.cube")
        writer = g
        for tag, c in _clone(ctx, "UniformGrid:3D:cube-writer", g):
            if _through(ctx, p):
                with ctx.guard("clone-equals-original", "UniformGrid:3D" + tag, sig_prefix="raised-using-clone"):
                    _decide_uniform(ctx, c, origin, axes, shape, _weight_of_case, tag)
                writer = c  # the file is written by the clone: everything below is decided for it
                ctx.count("generate_cube:called-on-a-clone")
        with ctx.guard("cube-roundtrip-grid", "generate_cube") as written:
            writer.generate_cube(f0, data, atcoords, atnums, pseudo_numbers=pseudo)
            ctx.hit("generate_cube")
        if not written.ok or not os.path.exists(f0):
            return  # the writer raised (recorded above); a partial file is not read back
        parsed = ref.parse_cube(f0)
        files = [("bohr", f0, 5e-7 + 1e-12)]
        for neg in ("first", "all"):
            fa = os.path.join(tmp, f"ang_{neg}.cube")
            ref.write_cube_angstrom(parsed, fa, negative=neg)
            files.append((f"angstrom({neg}-count-negative)", fa, 5e-7 + 2e-9 * (1.0 + lmax)))
        for conv, path, tol in files:
            with ctx.guard("cube-roundtrip-grid", f"from_cube:{conv}"):
                g2, cube = UniformGrid.from_cube(path, return_data=True)
                g3 = UniformGrid.from_cube(path)
                ctx.hit("from_cube")
                if conv == "bohr":  # the grid object that from_cube built, cloned
                    o2, a2 = np.array(g2.origin, dtype=float), np.array(g2.axes, dtype=float)
                    for tag, c in _clone(ctx, "UniformGrid:3D:from_cube", g2, 1):
                        if _through(ctx, p):
                            _decide_uniform(ctx, c, o2, a2, np.array([int(v) for v in shape]), "Trapezoid", ":from_cube" + tag)
                same = tuple(int(v) for v in g2.shape) == tuple(int(v) for v in shape) == tuple(int(v) for v in g3.shape)
                ctx.check("cube-roundtrip-grid", f"{conv}:shape", same, sig="shape-differs", detail={"got": g2.shape, "want": shape})
                ctx.check("cube-roundtrip-grid", f"{conv}:origin", float(np.abs(g2.origin - origin).max()), tol, sig="origin-beyond-printed-precision", detail={"got": g2.origin, "want": origin})
                ctx.check("cube-roundtrip-grid", f"{conv}:axes", float(np.abs(g2.axes - axes).max()), tol, sig="axes-beyond-printed-precision", detail={"got": g2.axes, "want": axes})
                ctx.check("cube-roundtrip-grid", f"{conv}:grid-only-call", bool(np.array_equal(g3.origin, g2.origin) and np.array_equal(g3.axes, g2.axes)), sig="return_data=False-differs")
                if same:
                    ctx.check("cube-roundtrip-grid", f"{conv}:points", float(np.abs(g2.points - g.points).max()), tol * (1.0 + float(np.sum(shape - 1))), sig="points-beyond-printed-precision")
                ok_n = np.array_equal(np.asarray(cube["atnums"]), atnums)
                ctx.check("cube-roundtrip-atoms", f"{conv}:atnums", bool(ok_n), sig="atomic-numbers-differ", detail={"got": cube["atnums"], "want": atnums})
                if ok_n:
                    ctx.check("cube-roundtrip-atoms", f"{conv}:atcorenums", float(np.abs(cube["atcorenums"] - want_pseudo).max()), 5e-7 + 1e-12, sig="charges-beyond-printed-precision", detail={"got": cube["atcorenums"], "want": want_pseudo})
                    ctx.check("cube-roundtrip-atoms", f"{conv}:atcoords", float(np.abs(cube["atcoords"] - atcoords).max()), tol, sig="coordinates-beyond-printed-precision", detail={"got": cube["atcoords"], "want": atcoords})
                d2 = np.asarray(cube["data"], float)
                if d2.shape != data.shape:
                    ctx.fail("cube-roundtrip-data", conv, "data-length-differs", detail={"got": list(d2.shape), "want": list(data.shape)})
                else:
                    nz = data != 0
                    rel = np.zeros(data.size)
                    rel[nz] = np.abs(d2[nz] - data[nz]) / np.abs(data[nz])
                    rel[~nz] = np.where(d2[~nz] == 0, 0.0, np.inf)
                    worst = int(np.argmax(rel))
                    ctx.check("cube-roundtrip-data", conv, float(rel[worst]), 5e-6 * (1 + 1e-9), sig="data-beyond-printed-precision", detail={"flat_index": worst, "got": float(d2[worst]), "want": float(data[worst]), "n": int(data.size)})
    finally:
        for fn in os.listdir(tmp):
            os.remove(os.path.join(tmp, fn))
        os.rmdir(tmp)


# ---------------------------------------------------------------- interpolation
def _interp_grid(ctx, kind, lo=7, hi=10, negative=False):
    from grid.cubic import Tensor1DGrids, UniformGrid

    rng = ctx.rng
    while True:
        shape = _random_shape(rng, 3, lo, hi)
        if len(set(shape.tolist())) >= 2:
            break
    if kind == "uniform":
        steps = rng.uniform(0.1, 1.0, 3)
        if negative:
            steps[rng.integers(3)] *= -1.0
        origin = rng.normal(size=3)
        g = UniformGrid(origin, np.diag(steps), shape, weight=str(rng.choice(WORKING)))
        nodes = [origin[k] + np.arange(shape[k]) * steps[k] for k in range(3)]
    else:
        ones = [_oned(rng, int(m), increasing=True)[0] for m in shape]
        g = Tensor1DGrids(*ones)
        nodes = [o.points for o in ones]
        shape = np.array([o.size for o in ones])
    h = [float(np.min(np.abs(np.diff(n)))) for n in nodes]
    ctx.case_note("shape", shape)
    return g, nodes, h


def _interior_points(rng, nodes, n):
    lo = np.array([min(nd[0], nd[-1]) for nd in nodes])
    hi = np.array([max(nd[0], nd[-1]) for nd in nodes])
    q = lo + (hi - lo) * rng.uniform(0.0, 1.0, (n, 3))
    # one query exactly on an interior node, one in the first and one in the last cell
    q[0] = [nd[len(nd) // 2] for nd in nodes]
    q[1] = [nd[0] + 0.3 * (nd[1] - nd[0]) for nd in nodes]
    q[2] = [nd[-1] - 0.3 * (nd[-1] - nd[-2]) for nd in nodes]
    return q


def _register(values, **kw):
    _TRUTH.clear()
    _TRUTH[id(values)] = {"values": values, **kw}


def _interp_cubic(ctx, p, negative=False):
    rng = ctx.rng
    negative = negative or (p["grid"] == "uniform" and p.get("k", 0) % 4 == 3)
    g, nodes, h = _interp_grid(ctx, p["grid"], 7, 14 if p.get("big") else 10, negative=negative)
    c = rng.normal(size=(4, 4, 4)) * rng.choice([1.0, 1.0, 1e-3, 1e3])
    if rng.random() < 0.2:  # sparse polynomial: a single top-degree monomial plus a constant
        c = np.zeros((4, 4, 4))
        c[3, 3, 3], c[0, 0, 0] = rng.normal(), rng.normal()
    values = ref.poly3(c, g.points)
    _register(values, c=c, h=h, fmax=float(np.abs(values).max()), tag=":negative-axis" if negative else "")
    q = _interior_points(rng, nodes, 9)
    allnu = list(itertools.product(range(4), repeat=3))
    if p.get("all_nu"):
        nus = allnu
    else:
        pick = rng.choice(len(allnu), 7, replace=False)
        nus = [(0, 0, 0), (3, 3, 3), (1, 0, 0), (0, 1, 0), (0, 0, 1)] + [allnu[i] for i in pick]
    subj = f"{type(g).__name__}.interpolate:cubic"
    for i, nu in enumerate(nus):
        pts = q[:1] if i % 5 == 4 else q  # single-point calls too (the documented form)
        try:
            if i % 2:
                g.interpolate(pts, values, False, nu[0], nu[1], nu[2])
            else:
                g.interpolate(pts, values, nu_x=nu[0], nu_y=nu[1], nu_z=nu[2], method="cubic")
        except Exception as exc:  # noqa: BLE001  (recorded by the attached monitor)
            if not core.is_library_exception(exc):
                raise
            if negative:
                break
    if not negative:
        c2 = rng.normal(size=(4, 4, 4))
        values2 = ref.poly3(c2, g.points)
        _register(values2, c=c2, h=h, fmax=float(np.abs(values2).max()), tag=":same-grid-new-data")
        with ctx.guard("interp-cubic-exact", subj + ":same-grid-new-data"):
            g.interpolate(q, values2, nu_x=0, nu_y=0, nu_z=0, method="cubic")
            g.interpolate(q, values2, nu_x=1, nu_y=0, nu_z=2, method="cubic")
            ctx.count("interpolate:same-grid-object-new-data")
    for tag, cg in _clone(ctx, f"{type(g).__name__}:3D:interp-cubic", g):
        if _through(ctx, p):
            c3 = rng.normal(size=(4, 4, 4))
            values3 = ref.poly3(c3, g.points)
            _register(values3, c=c3, h=h, fmax=float(np.abs(values3).max()), stag=tag)
            with ctx.guard("interp-cubic-exact", subj + tag, sig_prefix="raised-using-clone"):
                cg.interpolate(q, values3, nu_x=0, nu_y=0, nu_z=0, method="cubic")
                cg.interpolate(q, values3, False, 1, 2, 0)
                cg.interpolate(q[:1], values3, nu_x=0, nu_y=1, nu_z=3)
    _TRUTH.clear()


def _interp_log(ctx, p):
    rng = ctx.rng
    g, nodes, h = _interp_grid(ctx, p["grid"], 7, 9)
    c = rng.normal(size=(4, 4, 4))
    pv = ref.poly3(c, g.points)
    c = c * (rng.uniform(0.5, 2.5) / np.abs(pv).max())
    # positive functions of every magnitude: exp(p - U) with U up to 650 gives values down to 1e-283 (still normal
    # floating-point numbers); the logarithmic variant must not care about the overall scale
    U = float([0.0, 0.0, 80.0, 300.0, 650.0, -300.0][int(p.get("k", 0)) % 6])
    c[0, 0, 0] -= U
    if U:
        ctx.count("interp-log:extreme-magnitude")
    values = ref.exp_poly3(c, g.points)
    _register(values, c=c, h=h, fmax=float(values.max()), pmax=float(np.abs(ref.poly3(c, g.points)).max()))
    q = _interior_points(rng, nodes, 5)
    subj = f"{type(g).__name__}.interpolate:log"
    with ctx.guard("interp-log-exact", subj):
        g.interpolate(q, values, use_log=True)
        for axis in range(3):
            for order in (1, 2, 3):
                nu = [0, 0, 0]
                nu[axis] = order
                g.interpolate(q, values, use_log=True, nu_x=nu[0], nu_y=nu[1], nu_z=nu[2])
        c2 = rng.normal(size=(4, 4, 4))
        c2 = c2 * (rng.uniform(0.5, 2.5) / np.abs(ref.poly3(c2, g.points)).max())
        values2 = ref.exp_poly3(c2, g.points)
        _register(values2, c=c2, h=h, fmax=float(values2.max()), pmax=float(np.abs(ref.poly3(c2, g.points)).max()), tag=":same-grid-new-data")
        g.interpolate(q, values2, use_log=True)
        ctx.count("interpolate:same-grid-object-new-data")
    for tag, cg in _clone(ctx, f"{type(g).__name__}:3D:interp-log", g):
        if _through(ctx, p):
            _register(values2, c=c2, h=h, fmax=float(values2.max()), pmax=float(np.abs(ref.poly3(c2, g.points)).max()), stag=tag)
            with ctx.guard("interp-log-exact", subj + tag, sig_prefix="raised-using-clone"):
                cg.interpolate(q, values2, use_log=True)
                cg.interpolate(q, values2, use_log=True, nu_y=2)
    _TRUTH.clear()


def _interp_batch(ctx, p):
    """n query points in ONE call; every call is decided by the attached monitor, plus batch independence."""
    rng = ctx.rng
    method, n = p["method"], int(p["n"])
    g, nodes, h = _interp_grid(ctx, p["grid"], 7, 9, negative=p["grid"] == "uniform" and rng.random() < 0.25)
    q = _interior_points(rng, nodes, max(n, 3))[:n]
    through_zero = (int(p.get("k", 0)) + BATCH_SIZES_LIGHT.index(n)) % 2 == 0
    drawn = tuple(int(v) for v in (rng.integers(1, 4, 3) if through_zero else rng.integers(0, 4, 3)))
    if method == "log":
        c = rng.normal(size=(4, 4, 4))
        c = c * (rng.uniform(0.5, 2.5) / np.abs(ref.poly3(c, g.points)).max())
        values = ref.exp_poly3(c, g.points)
        pmax = float(np.abs(ref.poly3(c, g.points)).max())
        _register(values, c=c, h=h, fmax=float(values.max()), pmax=pmax, stag=f":n={n}")
        axis = int(rng.integers(3))
        one = [0, 0, 0]
        one[axis] = drawn[axis] if drawn[axis] else 1
        calls = [((0, 0, 0), float(values.max()) * (1.0 + pmax))]
        if n <= 2048:  # the Bell-polynomial loop of the library costs ~1 ms per point and order
            calls.append((tuple(one), float(values.max()) * (1.0 + pmax) * ((1.0 + pmax) / h[axis]) ** one[axis]))
        kw = {"use_log": True}
    else:
        c = rng.normal(size=(4, 4, 4))
        if method in ("linear", "nearest"):
            c[2:, :, :] = 0.0
            c[:, 2:, :] = 0.0
            c[:, :, 2:] = 0.0
        values = ref.poly3(c, g.points)
        fmax = float(np.abs(values).max()) or 1.0
        _register(values, c=c, h=h, fmax=fmax, nodes=[np.asarray(nd, float) for nd in nodes], stag=f":n={n}")
        calls = [((0, 0, 0), fmax)]
        if method == "cubic":
            calls.append((drawn, fmax * float(np.prod([h[d] ** (-drawn[d]) for d in range(3)]))))
        kw = {"method": method}
    subj = f"{type(g).__name__}.interpolate:{method}:n={n}"
    clause = {"cubic": "interp-cubic-exact", "log": "interp-log-exact", "linear": "interp-linear-exact", "nearest": "interp-nearest-node"}[method]
    ctx.case_note("n_query_points", n)
    for nu, scale in calls:
        with ctx.guard(clause, subj):
            full = np.asarray(g.interpolate(q, values, nu_x=nu[0], nu_y=nu[1], nu_z=nu[2], **kw), float)
            ctx.count(f"interpolate:{method}:points-in-one-call={n}")
            if full.shape != (n,):
                continue  # recorded by the monitor (wrong-result-shape)
            # a point's result does not depend on the batch it is evaluated in
            pick = sorted({0, n // 2, n - 1, *[int(i) for i in rng.integers(0, n, 3)]})
            sub = np.asarray(g.interpolate(q[pick], values, nu_x=nu[0], nu_y=nu[1], nu_z=nu[2], **kw), float)
            single = np.array([float(np.asarray(g.interpolate(q[i : i + 1], values, nu_x=nu[0], nu_y=nu[1], nu_z=nu[2], **kw), float)[0]) for i in pick[:3]])
            dev = max(float(np.abs(sub - full[pick]).max()), float(np.abs(single - full[pick[:3]]).max())) / scale
            ctx.check("interp-batch-independent", subj, dev, 0.0 if method == "nearest" else TOL_BATCH, sig="result-depends-on-batch", detail={"n": n, "nu": nu, "indices": pick, "in_batch": full[pick], "alone": sub})
    _TRUTH.clear()
    if n == 1 and p.get("k", 0) == 0:  # documented: interpolation exists in three dimensions only (recorded, not decided)
        from grid.cubic import UniformGrid

        g2 = UniformGrid(np.zeros(2), np.eye(2), np.array([7, 8]))
        try:
            g2.interpolate(np.zeros((2, 2)), np.ones(56), method="linear")
            ctx.count("interpolate:2-D-grid-accepted")
        except NotImplementedError:
            ctx.count("interpolate:2-D-grid-rejected-with-NotImplementedError")


def _interp_linear(ctx, p):
    rng = ctx.rng
    g, nodes, h = _interp_grid(ctx, p["grid"], 2 if rng.random() < 0.3 else 4, 9, negative=p["grid"] == "uniform" and rng.random() < 0.3)
    c = np.zeros((4, 4, 4))
    c[:2, :2, :2] = rng.normal(size=(2, 2, 2))
    values = ref.poly3(c, g.points)
    _register(values, c=c, h=h, fmax=float(np.abs(values).max()) or 1.0)
    q = _interior_points(rng, nodes, 25)
    with ctx.guard("interp-linear-exact", f"{type(g).__name__}.interpolate:linear"):
        g.interpolate(q, values, method="linear")
        g.interpolate(q[:1], values, False, 0, 0, 0, "linear")
        # the same grid object interpolates OTHER data afterwards (answers must follow the data passed in)
        for _ in range(2):
            c2 = np.zeros((4, 4, 4))
            c2[:2, :2, :2] = rng.normal(size=(2, 2, 2)) * 3.0
            values2 = ref.poly3(c2, g.points)
            _register(values2, c=c2, h=h, fmax=float(np.abs(values2).max()) or 1.0, tag=":same-grid-new-data")
            g.interpolate(q, values2, method="linear")
            ctx.count("interpolate:same-grid-object-new-data")
        for tag, cg in _clone(ctx, f"{type(g).__name__}:3D:interp-linear", g):
            if _through(ctx, p):
                _register(values, c=c, h=h, fmax=float(np.abs(values).max()) or 1.0, stag=tag)
                cg.interpolate(q, values, method="linear")
        # ... and after its points were REASSIGNED (rigid translation through the public setter): the axis nodes and the
        # interpolant must follow the current points
        shift = rng.normal(size=3) * 2.0
        g.points = np.asarray(g.points, dtype=float) + shift
        axes_now = g.get_points_along_axes()
        want_axes = [np.asarray(nd, dtype=float) + shift[i] for i, nd in enumerate(nodes)]
        ok = len(axes_now) == 3 and all(np.allclose(np.asarray(a_, dtype=float), w_, rtol=0, atol=1e-12) for a_, w_ in zip(axes_now, want_axes))
        ctx.check("points-along-axes", f"{type(g).__name__}:after-points-reassigned", ok, sig="axis-nodes-not-those-of-current-points")
        c3 = np.zeros((4, 4, 4))
        c3[:2, :2, :2] = rng.normal(size=(2, 2, 2))
        values3 = ref.poly3(c3, g.points)
        _register(values3, c=c3, h=h, fmax=float(np.abs(values3).max()) or 1.0, tag=":after-points-reassigned")
        g.interpolate(q + shift, values3, method="linear")
        ctx.count("interpolate:after-points-reassigned")
    _TRUTH.clear()
    # recorded, not decided: 'linear' with use_log=True hands back the interpolated logarithm
    if not _SEEN.get("linear-log"):
        try:
            lin = 0.1 * values / (np.abs(values).max() or 1.0)
            r = np.asarray(g.interpolate(q[:3], np.exp(lin), use_log=True, method="linear"), float)
            want_log = 0.1 * ref.poly3(c, q[:3]) / (np.abs(values).max() or 1.0)
            if np.abs(r - want_log).max() < 1e-9 and np.abs(r - np.exp(want_log)).max() > 0.5:
                _SEEN["linear-log"] = True
                ctx.observe("interpolate(method='linear', use_log=True) returns the interpolated log-values, not exp of them", sample=r[:2], log_truth=want_log[:2])
        except Exception as exc:  # noqa: BLE001
            if not core.is_library_exception(exc):
                raise


# ---------------------------------------------------------------- pinned witnesses
def _pinned(ctx, p):
    from grid.cubic import UniformGrid

    what = p["what"]
    if what == "fourier2-2d":
        _lib_call(ctx, lambda: UniformGrid(np.zeros(2), np.eye(2), np.array([5, 6]), weight="Fourier2"))
    elif what == "fourier2-3d":
        _lib_call(ctx, lambda: UniformGrid(np.zeros(3), np.eye(3), np.array([5, 6, 7]), weight="Fourier2"))
    elif what == "frommol-offcentre":  # HCl along z: centre of charge 0.13 bohr from Cl, extent mid-point 1.2 bohr
        nums, coords = np.array([17.0, 1.0]), np.array([[0.0, 0.0, 0.0], [0.0, 0.0, 2.4]])
        _lib_call(ctx, lambda: UniformGrid.from_molecule(nums, coords, spacing=0.3, extension=3.0, rotate=False))
    elif what == "frommol-outside":
        nums, coords = np.array([17.0, 1.0]), np.array([[0.0, 0.0, 0.0], [0.0, 0.0, 2.4]])
        _lib_call(ctx, lambda: UniformGrid.from_molecule(nums, coords, spacing=0.5, extension=1.0, rotate=False))
    elif what == "frommol-transposed":  # ethylene (centro-symmetric), turned out of its principal frame
        nums = np.array([6.0, 6.0, 1.0, 1.0, 1.0, 1.0])
        base = 1.8897 * np.array([[0.66, 0, 0], [-0.66, 0, 0], [1.23, 0.93, 0], [-1.23, -0.93, 0], [1.23, -0.93, 0], [-1.23, 0.93, 0]])
        a, b, c = 0.7, 0.4, 0.2
        rz = np.array([[np.cos(a), -np.sin(a), 0], [np.sin(a), np.cos(a), 0], [0, 0, 1]])
        ry = np.array([[np.cos(b), 0, np.sin(b)], [0, 1, 0], [-np.sin(b), 0, np.cos(b)]])
        rx = np.array([[1, 0, 0], [0, np.cos(c), -np.sin(c)], [0, np.sin(c), np.cos(c)]])
        coords = base @ (rz @ ry @ rx).T
        _lib_call(ctx, lambda: UniformGrid.from_molecule(nums, coords, spacing=0.3, extension=3.0, rotate=True))
    elif what == "interp-negaxis":
        _interp_cubic(ctx, {"grid": "uniform"}, negative=True)
    else:
        raise ValueError(what)


def run_case(ctx, family, params):
    if family == "pinned":
        _pinned(ctx, params)
    elif family == "uniform-layout":
        _uniform_layout(ctx, params)
    elif family == "tensor-layout":
        _tensor_layout(ctx, params)
    elif family == "weight-schemes":
        _weight_schemes(ctx, params)
    elif family == "from-molecule":
        _from_molecule(ctx, params)
    elif family == "closest-point":
        _closest_point(ctx, params)
    elif family == "cube-roundtrip":
        _cube_roundtrip(ctx, params)
    elif family == "interp-cubic":
        _interp_cubic(ctx, params)
    elif family == "interp-log":
        _interp_log(ctx, params)
    elif family == "interp-linear":
        _interp_linear(ctx, params)
    elif family == "interp-batch":
        _interp_batch(ctx, params)
    else:
        raise ValueError(family)
