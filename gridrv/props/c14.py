"""C14 - multipole moments equal direct quadrature of their defining integrands."""

from __future__ import annotations

import numpy as np

from gridrv import instrument
from gridrv.monitors import roundtrip
from gridrv.oracles import c14ref, sph

PROP = "C14"
TITLE = "Multipole moments equal direct quadrature of their defining integrands"
REQUIRED_HOOKS = ["Grid.moments", "utils.generate_orders_horton_order", "utils.dipole_moment_of_molecule"] + [f"clone:{k}" for k in roundtrip.KINDS]
REQUIRED_FAMILIES = ["random-grid", "real-grid", "dipole", "generator", "hostile", "centre-list"]
BUDGET = {"quick": 300, "thorough": 2400}
TOL = 1e-10
# Rows of the harmonic types that vanish (or nearly vanish) for the given geometry - e.g. m != 0 rows for points on the z axis -
# cannot be reproduced relative to their own magnitude by ANY float64 evaluation through angles (sin(fl(pi)) = 1.2e-16): the
# scale of a row is sum|w f B_row| + FLOOR * sum|w f| |d|^deg.  For Cartesian and radial rows the second term is zero-effect
# (B_row IS the envelope), so those stay strictly row-relative.
FLOOR = 1e-3
COND = 20.0
UNDERFLOW = 1e-290
RULE = (
    "Post-conditions attached to Grid.moments (inherited by every grid class), utils.generate_orders_horton_order and "
    "utils.dipole_moment_of_molecule fire on EVERY call (also the incidental ones): every returned row and centre is compared with "
    "sum_i w_i f_i B_row(p_i - R_c) accumulated in long double, with B from independent references (monomials by repeated "
    "multiplication, |d|^n, sqrt(4pi/(2l+1))|d|^l Y_lm from an own normalised recursion validated against mpmath/closed forms/"
    "addition theorem, |d|^n x solid harmonic), relative to sum|w f B| (tol 1e-10; harmonic types: plus COND*eps*(l+1)^2*sum|w f||d|^deg/sin(phi_i), the conditioning of a polar angle taken as arccos(z/r), so that a grid point near the polar axis of a centre cannot alarm); the returned order list is compared with an own "
    "enumeration of the documented Horton order; shape must be (rows, centres). Cases: random-grid = every (type, order 0..8, "
    "1..5 centres, dimension: Cartesian and radial 1-D (flat (N,) and (N,1) points)/2-D/3-D, pure and pure-radial 3-D) with seeded random points/weights "
    "(signed, zero)/f, order passed as int/np.int64/np.int32; real-grid = AtomGrid, MolGrid, UniformGrid 2-D/3-D, Tensor1DGrids, "
    "AngularGrid, PeriodicGrid, LocalGrid, OneDGrid rules and transformed radial grids (flat (N,) points) x types x orders; dipole = random molecules (1-5 atoms) on random/Mol/Uniform "
    "grids against sum Z(R-Rcm) - sum w rho (p-Rcm); generator = all types x orders 0..12 x dim; hostile = centre on a grid "
    "point, points on / near (cone 0.1-0.5 rad) the z axis, narrow cones 1e-6..1e-1 rad (loss of digits relative to the row recorded; decided with the condition-aware tolerance), duplicate centres, huge dynamic range, integer-typed inputs, non-contiguous views. "
    "dipole grids: the molecule's own MolGrid/AtomGrid, plain/uniform grids, and MolGrids/AtomGrids built on a permuted atom order, "
    "displaced positions or another molecule than the coords/charges arguments (the helper must use its arguments). centre-list = one "
    "call whose centre list mixes distant centres (1e3..1e11 x extent) before/between/after ordinary ones, all types and dimensions: "
    "every column == the same call with that centre alone == the reversed list (1e-12 of the row scale), caller arrays unchanged. "
    "clones: in a rotating subset of the random-grid / real-grid cases the grid goes through copy.copy / copy.deepcopy / pickle "
    "(protocol default and 2): public state of the clone == original, original unchanged, and the same moments call on the clone is "
    "decided by the post-condition and must equal the original's result (1e-12 of the row scale; bit-identity is counted - NumPy's summation order depends on buffer alignment). "
    "A case is non-trivial when at least one monitored call returned and was compared."
)
ASSUMPTIONS = [
    "pure-radial rows are (n, l<n, m) with integrand |r-R|^n x regular solid harmonic (the property statement; the method docstring's exponent n+1 is not what is claimed)",
    "isotopic masses are read from the library's own table (data, not logic)",
    "orders <= 8 (conditioning of r^l beyond that is not explored); order arguments of type int, np.int32, np.int64 are the admissible ones, other NumPy integer types rejected by the documented type check are recorded, not decided",
]
LEVEL_TEXT = "Every call of Grid.moments / the order generator / the dipole helper made by the workload is decided against an independent long-double quadrature of independently evaluated basis functions; all four types, orders 0..8, 1-5 centres, 1-D/2-D/3-D, eight grid classes."
TECHNIQUE = "runtime monitoring: post-conditions on Grid.moments, generate_orders_horton_order and dipole_moment_of_molecule with independent basis-function and order-enumeration oracles"

TYPES = c14ref.TYPES
REAL_GRIDS = ["atomgrid", "atomgrid-offcentre", "molgrid", "uniform3d", "uniform2d", "tensor3d", "tensor2d", "angular", "periodic", "localgrid", "grid-col1d", "onedgrid-rule", "onedgrid-transformed"]
HOSTILE = ["centre-on-point", "z-axis", "near-axis", "narrow-cone", "duplicate-centres", "dynamic-range", "integer-inputs", "views", "single-point", "zero-weights", "rejected-orders", "flat-centres"]
# the grid handed to the dipole helper vs. the molecule described by its coords/charges arguments: the same molecule, or a grid
# object that carries atom positions of its own (MolGrid.atcoords, AtomGrid.center) which differ from the arguments
DIPOLE_GRIDS = ["random", "molgrid", "uniform", "atomgrid", "molgrid-permuted", "molgrid-displaced", "molgrid-other-molecule", "atomgrid-elsewhere"]
_state = {"ctx": None, "narrow": None}


# ----------------------------------------------------------------------------- cases
def cases(tier, seed):
    out = []
    reps = 2 if tier == "quick" else 30
    for k in range(reps):
        for t in TYPES:
            dims = (1, 2, 3) if t in ("cartesian", "radial") else (3,)
            for dim in dims:
                for L in range(0 if t != "pure-radial" else 1, 9):
                    for m in range(1, 6):
                        out.append(("random-grid", {"type": t, "order": L, "ncent": m, "dim": dim, "k": k}, 1.0 + L * m / 8.0))
    rreps = 2 if tier == "quick" else 20
    for k in range(rreps):
        for g in REAL_GRIDS:
            for t in TYPES:
                if g in ("uniform2d", "tensor2d", "grid-col1d", "onedgrid-rule", "onedgrid-transformed") and t not in ("cartesian", "radial"):
                    continue
                for L in ((1, 4, 8) if tier == "quick" else (0, 1, 2, 3, 5, 6, 8)):
                    if t == "pure-radial" and L == 0:
                        continue
                    out.append(("real-grid", {"grid": g, "type": t, "order": L, "k": k}, 4.0 + L))
    for k in range(64 if tier == "quick" else 1200):
        out.append(("dipole", {"grid": DIPOLE_GRIDS[k % len(DIPOLE_GRIDS)], "natoms": 1 + (k // len(DIPOLE_GRIDS)) % 5, "k": k}, 3.0))
    for k in range(3 if tier == "quick" else 40):
        for t in TYPES:
            for dim in ((1, 2, 3) if t in ("cartesian", "radial") else (3,)):
                for g in ("random", "real"):
                    if g == "real" and dim != 3:
                        continue
                    out.append(("centre-list", {"type": t, "dim": dim, "grid": g, "k": k}, 5.0))
    for t in TYPES:
        out.append(("generator", {"type": t}, 1.0))
    for k in range(3 if tier == "quick" else 40):
        for h in HOSTILE:
            for t in TYPES:
                out.append(("hostile", {"what": h, "type": t, "k": k}, 2.0))
    return out


# ----------------------------------------------------------------------------- monitors
def _bind(names, defaults, args, kwargs):
    vals = dict(defaults)
    for n, a in zip(names, args):
        vals[n] = a
    vals.update(kwargs)
    return vals


def _is_order_int(o):
    return isinstance(o, (int, np.int32, np.int64)) and not isinstance(o, (bool, np.bool_))


def _post_moments(res, exc, args, kwargs):
    ctx = _state["ctx"]
    self = args[0]
    a = _bind(["orders", "centers", "func_vals", "type_mom", "return_orders"], {"type_mom": "cartesian", "return_orders": False}, args[1:], kwargs)
    if not all(k in a for k in ("orders", "centers", "func_vals")):
        ctx.count("moments:call-with-missing-arguments")
        return
    t, L, cent, f = a["type_mom"], a["orders"], a["centers"], a["func_vals"]
    cls = type(self).__name__
    pts = np.asarray(self.points)
    w = np.asarray(self.weights)
    flat = pts.ndim == 1
    dim = 1 if flat else (pts.shape[1] if pts.ndim == 2 else None)
    admissible = (
        isinstance(t, str) and t in TYPES
        and _is_order_int(L) and L >= (1 if t == "pure-radial" else 0) and L <= 12
        and isinstance(cent, np.ndarray) and cent.ndim == 2 and dim is not None and cent.shape[1] == dim
        and isinstance(f, np.ndarray) and f.ndim == 1 and len(f) == len(pts)
        and (dim == 3 if t in ("pure", "pure-radial") else dim in (1, 2, 3))
    )  # fmt: skip
    subj = f"Grid.moments[{t},{dim}D{',flat' if flat else ''},{cls}]"
    if not admissible:
        ctx.count("moments:inadmissible-call:" + ("raised" if exc is not None else "returned"))
        return
    if flat:
        ctx.count("moments:1-D grid with flat (N,) points (the layout of every OneDGrid)")
    if exc is not None:
        ctx.fail("no-exception", subj, f"raised:{type(exc).__name__}", detail={"error": str(exc)[:300], "order": int(L), "ncent": len(cent), "N": len(pts)})
        return
    L = int(L)
    cplx = np.iscomplexobj(f)
    if cplx:  # complex function values: quadrature is linear, decide real and imaginary parts separately
        S1, A1, E1, orders = c14ref.ref_moments(t, L, pts, w, np.ascontiguousarray(f.real), cent)
        amp1 = c14ref.ref_moments.last_amp
        S2, A2, E2, _ = c14ref.ref_moments(t, L, pts, w, np.ascontiguousarray(f.imag), cent)
        S, A, E, AMP = S1 + 1j * S2, A1 + A2, E1 + E2, amp1 + c14ref.ref_moments.last_amp
        ctx.count("moments:complex function values")
    else:
        S, A, E, orders = c14ref.ref_moments(t, L, pts, w, f, cent)
        AMP = c14ref.ref_moments.last_amp
    A = A + FLOOR * E  # conditioning floor for rows that (nearly) vanish by symmetry, see FLOOR
    # condition-aware part (harmonic types only): a grid point whose polar angle about the centre is close to 0 or pi is evaluated
    # by ANY arccos(z/r) route with an error eps/sin(phi) in phi, i.e. (l+1)^2 eps/sin(phi) |w f| |d|^deg in the row.  The admissible
    # error of an entry is TOL * (sum|w f B| + FLOOR * envelope) + COND * that sum (model/observed ratio <= 0.16 for cones 0.3 .. 1e-10
    # rad, COND = 20); for ordinary geometry the second term is below 1e-2 of the envelope, so 1e-10 of the row is kept.
    A_row = A  # strictly row-relative scale (used to RECORD the loss of digits in narrow cones)
    A = A + (COND / TOL) * AMP
    A = A + np.where(A > 0, UNDERFLOW, 0.0)  # subnormal products carry fewer digits: absolute errors below 1e-300 are not counted
    if a["return_orders"]:
        ok_tuple = isinstance(res, tuple) and len(res) == 2
        ctx.check("returns-values-and-orders", subj, ok_tuple, sig="not-a-pair")
        if not ok_tuple:
            return
        vals, got_orders = res
        try:
            go = np.asarray(got_orders)
            rows = [tuple(int(v) for v in np.atleast_1d(r)) for r in go] if go.ndim >= 1 else None
            integer = np.issubdtype(go.dtype, np.integer)
        except Exception:
            rows, integer = None, False
        good = rows == [tuple(o) for o in orders] and integer
        sig = None
        if not good:
            if rows is None or len(rows) != len(orders):
                sig = "length"
            elif not integer:
                sig = "not-integer"
            else:
                i = next(i for i, (x, y) in enumerate(zip(rows, orders)) if x != tuple(y))
                sig = f"first-bad-row={i}:want={tuple(orders[i])}"
        ctx.check("order-list-horton", subj, good, sig=sig, detail={"got": rows[:12] if rows else None, "want": orders[:12]})
        if go.ndim == 1 and len(orders) and len(orders[0]) == 1 and t == "radial":
            ctx.count("observed:radial order list returned 1-D (orders=0) instead of (L,1)")
    else:
        vals = res
    vals = np.asarray(vals)
    shape_ok = vals.shape == (len(orders), len(cent))
    ctx.check("shape-rows-by-centres", subj, shape_ok, sig=f"shape-rows={'ok' if vals.ndim == 2 and vals.shape[0] == len(orders) else 'bad'}", detail={"got": list(vals.shape), "want": [len(orders), len(cent)]})
    if not shape_ok:
        return
    if vals.size == 0:
        return
    if _state.get("narrow") is not None and t in ("pure", "pure-radial"):
        # workload announced a cone narrower than 0.1 rad about the polar axis: the arccos route of the library loses digits
        # relative to the row (conditioning, recorded) - decided only against the envelope of the row
        with np.errstate(all="ignore"):
            diff = np.abs(vals.astype(np.clongdouble if (cplx or np.iscomplexobj(vals)) else np.longdouble) - S)
            envrel = float(np.max(np.where(E > 0, diff / np.where(E > 0, E, 1), np.where(diff == 0, 0.0, np.inf))))
            rowrel = float(np.max(np.where(A_row > 0, diff / np.where(A_row > 0, A_row, 1), 0.0)))
        ctx.check("narrow-cone-within-envelope", subj, envrel if not np.isnan(vals).any() else float("nan"), 1e-6, sig="envelope-relative", detail={"cone": _state["narrow"], "L": L})
        if rowrel > TOL:
            ctx.observe("pure moments in a narrow cone about the polar axis lose digits relative to the row (arccos polar angle)", cone=_state["narrow"], row_relative_error=rowrel, envelope_relative_error=envrel, type=t, L=L)
        # ... and decided like every other call with the condition-aware entry tolerance below
    with np.errstate(all="ignore"):
        diff = np.abs(vals.astype(np.clongdouble if (cplx or np.iscomplexobj(vals)) else np.longdouble) - S)
        rel = np.where(A > 0, diff / np.where(A > 0, A, 1), np.where(diff == 0, 0.0, np.inf))
        rel = np.where(np.isnan(vals), np.nan, rel)
    worst = float(np.nanmax(rel)) if not np.isnan(rel).all() else float("nan")
    if np.isnan(rel).any():
        worst = float("nan")
    sig = detail = None
    if not worst <= TOL:
        bad = np.argwhere(~(rel <= TOL))
        i, c = int(bad[0][0]), int(bad[0][1])
        sig = f"first-bad-row={tuple(orders[i])}" + (";complex-f" if cplx else "")
        detail = {"row": i, "order": list(orders[i]), "centre": c, "got": repr(complex(vals[i, c])) if cplx else float(vals[i, c]), "want": repr(complex(S[i, c])) if cplx else float(S[i, c]), "scale": float(A[i, c]), "nbad": int(len(bad)), "N": len(pts), "L": L}
    ctx.check("entry-equals-quadrature", subj, worst, TOL, sig=sig, detail=detail)
    ctx.count(f"moments-decided:{t}:{dim}D")
    ctx.count(f"moments-decided:order-type:{type(a['orders']).__name__}")
    ctx.count(f"moments-decided:class:{cls}")


def _post_generator(res, exc, args, kwargs):
    ctx = _state["ctx"]
    a = _bind(["order", "type_ord", "dim"], {"dim": 3}, args, kwargs)
    if "order" not in a or "type_ord" not in a:
        return
    l, t, dim = a["order"], a["type_ord"], a["dim"]
    admissible = isinstance(l, int) and not isinstance(l, bool) and 0 <= l <= 40 and t in TYPES and isinstance(dim, (int, np.integer)) and (dim in (1, 2, 3) or t != "cartesian")
    if not admissible:
        ctx.count("generator:inadmissible-call:" + ("raised" if exc is not None else "returned"))
        return
    subj = f"generate_orders_horton_order[{t},dim={int(dim) if t == 'cartesian' else '-'}]"
    if exc is not None:
        ctx.fail("generator-horton-order", subj, f"raised:{type(exc).__name__}", detail={"error": str(exc)[:200], "order": l})
        return
    want = c14ref.ref_orders_single(t, l, int(dim) if t == "cartesian" else 3)
    try:
        go = np.asarray(res)
        rows = [tuple(int(v) for v in np.atleast_1d(r)) for r in go]
        integer = np.issubdtype(go.dtype, np.integer) or len(rows) == 0
    except Exception:
        rows, integer = None, False
    good = rows == want and integer
    sig = None
    if not good:
        if rows is None or len(rows) != len(want):
            sig = "length"
        elif not integer:
            sig = "not-integer"
        else:
            i = next(i for i, (x, y) in enumerate(zip(rows, want)) if x != y)
            sig = f"first-bad-row={i}"
    ctx.check("generator-horton-order", subj, good, sig=sig, detail={"order": l, "got": rows[:10] if rows else None, "want": want[:10]})


def _post_dipole(res, exc, args, kwargs):
    ctx = _state["ctx"]
    a = _bind(["grid", "density", "coords", "charges"], {}, args, kwargs)
    if len(a) < 4:
        return
    import grid.utils as gu

    g, rho, coords, charges = a["grid"], a["density"], np.asarray(a["coords"], dtype=float), np.asarray(a["charges"])
    pts = np.asarray(g.points)
    admissible = pts.ndim == 2 and pts.shape[1] == 3 and coords.ndim == 2 and coords.shape[1] == 3 and len(coords) == len(charges) >= 1 and np.asarray(rho).shape == (len(pts),) and all(int(z) == z and int(z) in gu.isotopic_masses for z in charges)
    if not admissible:
        ctx.count("dipole:inadmissible-call")
        return
    subj = f"dipole_moment_of_molecule[{type(g).__name__}]"
    own = getattr(g, "atcoords", None)
    if own is not None and not (np.shape(own) == coords.shape and np.array_equal(np.asarray(own, dtype=float), coords)):
        subj = f"dipole_moment_of_molecule[{type(g).__name__}, grid built on other atom order/positions than the coords argument]"
        ctx.count("dipole-decided:grid.atcoords differ from coords argument")
    _check_mass_table(ctx, gu)
    if exc is not None:
        ctx.fail("dipole-nuclear-minus-electronic", subj, f"raised:{type(exc).__name__}", detail={"error": str(exc)[:300]})
        return
    ld = np.longdouble
    masses = np.array([gu.isotopic_masses[int(z)] for z in charges], dtype=ld)
    rcm = (coords.astype(ld) * masses[:, None]).sum(axis=0) / masses.sum()
    z = charges.astype(ld)
    wr = np.asarray(g.weights, dtype=ld) * np.asarray(rho, dtype=ld)
    nuc = ((coords.astype(ld) - rcm) * z[:, None]).sum(axis=0)
    ele = ((pts.astype(ld) - rcm) * wr[:, None]).sum(axis=0)
    scale = (np.abs(coords.astype(ld) - rcm) * np.abs(z)[:, None]).sum(axis=0) + (np.abs(pts.astype(ld) - rcm) * np.abs(wr)[:, None]).sum(axis=0)
    got = np.asarray(res)
    ok_shape = got.shape == (3,)
    ctx.check("dipole-shape", subj, ok_shape, detail={"got": list(got.shape)})
    if not ok_shape:
        return
    want = nuc - ele
    with np.errstate(all="ignore"):
        rel = np.abs(got.astype(ld) - want) / np.where(scale > 0, scale, 1)
    worst = float(np.max(rel))
    sig = None
    if not worst <= TOL:
        # quantised description: which simple wrong formula matches
        alts = {"nuclear+electronic": nuc + ele, "electronic-nuclear": ele - nuc, "about-origin": (coords.astype(ld) * z[:, None]).sum(axis=0) - (pts.astype(ld) * wr[:, None]).sum(axis=0)}
        own = getattr(g, "atcoords", None)
        if own is not None and np.shape(own) == coords.shape:  # positions stored on the grid object used instead of the argument
            oc = np.asarray(own, dtype=ld)
            ocm = (oc * masses[:, None]).sum(axis=0) / masses.sum()
            alts["uses-positions-stored-on-the-grid"] = ((oc - ocm) * z[:, None]).sum(axis=0) - ((pts.astype(ld) - ocm) * wr[:, None]).sum(axis=0)
        sig = "other"
        for name, alt in alts.items():
            if float(np.max(np.abs(got.astype(ld) - alt) / np.where(scale > 0, scale, 1))) <= TOL:
                sig = "equals:" + name
    ctx.check("dipole-nuclear-minus-electronic", subj, worst, TOL, sig=sig, detail={"got": got.tolist(), "want": [float(v) for v in want], "natoms": len(charges)})


# Mass number of the most abundant (for Tc, Pm: the longest-lived) isotope of each element, typed from general knowledge
# (independent of the library). Dy: 164Dy (28.3 %) and 162Dy (25.5 %) are both accepted.
MOST_ABUNDANT_A = {1: {1}, 2: {4}, 3: {7}, 4: {9}, 5: {11}, 6: {12}, 7: {14}, 8: {16}, 9: {19}, 10: {20}, 11: {23}, 12: {24}, 13: {27},
                   14: {28}, 15: {31}, 16: {32}, 17: {35}, 18: {40}, 19: {39}, 20: {40}, 21: {45}, 22: {48}, 23: {51}, 24: {52}, 25: {55},
                   26: {56}, 27: {59}, 28: {58}, 29: {63}, 30: {64}, 31: {69}, 32: {74}, 33: {75}, 34: {80}, 35: {79}, 36: {84}, 37: {85},
                   38: {88}, 39: {89}, 40: {90}, 41: {93}, 42: {98}, 43: {98}, 44: {102}, 45: {103}, 46: {106}, 47: {107}, 48: {114},
                   49: {115}, 50: {120}, 51: {121}, 52: {130}, 53: {127}, 54: {132}, 55: {133}, 56: {138}, 57: {139}, 58: {140}, 59: {141},
                   60: {142}, 61: {145}, 62: {152}, 63: {153}, 64: {158}, 65: {159}, 66: {164, 162}, 67: {165}, 68: {166}, 69: {169},
                   70: {174}, 71: {175}, 72: {180}, 73: {181}, 74: {184}, 75: {187}, 76: {192}, 77: {193}, 78: {195}, 79: {197}, 80: {202},
                   81: {205}, 82: {208}}  # fmt: skip


def _check_mass_table(ctx, gu):
    """The centre of mass is only right if the mass table is: every entry must be the mass of the element's most abundant
    isotope (|m - A| < 0.12 u, the largest mass defect in this range is 0.098 u) and no two elements may share a value."""
    if _state.get("mass-table-checked"):
        return
    _state["mass-table-checked"] = True
    table = dict(gu.isotopic_masses)
    seen = {}
    for z, m in sorted(table.items()):
        if int(z) not in MOST_ABUNDANT_A:
            ctx.count("mass-table:element-without-reference")
            continue
        a = int(round(float(m)))
        ok = a in MOST_ABUNDANT_A[int(z)] and abs(float(m) - a) < 0.12
        ctx.check("dipole-centre-of-mass-table", f"isotopic_masses[Z={int(z)}]", ok, sig="not-the-most-abundant-isotope" if a not in MOST_ABUNDANT_A[int(z)] else "not-an-isotope-mass", detail={"mass": float(m), "expected_A": sorted(MOST_ABUNDANT_A[int(z)])})
        if float(m) in seen:
            ctx.fail("dipole-centre-of-mass-table", f"isotopic_masses[Z={int(z)}]", "duplicate-of-another-element", detail={"mass": float(m), "other": seen[float(m)]})
        seen[float(m)] = int(z)


def setup(ctx):
    _state["ctx"] = ctx
    sph.self_test()
    c14ref.self_test()
    import grid.utils as gu
    from grid.basegrid import Grid

    instrument.wrap_method(ctx, Grid, "moments", _post_moments, hook="Grid.moments")
    instrument.wrap_function(ctx, gu, "generate_orders_horton_order", _post_generator, hook="utils.generate_orders_horton_order")
    instrument.wrap_function(ctx, gu, "dipole_moment_of_molecule", _post_dipole, hook="utils.dipole_moment_of_molecule")


# ----------------------------------------------------------------------------- workload helpers
def _random_points(rng, n, dim):
    kind = int(rng.integers(0, 5))
    scale = 10.0 ** rng.uniform(-2, 1.5)
    if kind == 0:
        p = rng.normal(size=(n, dim))
    elif kind == 1:
        p = rng.uniform(-1, 1, size=(n, dim))
    elif kind == 2:  # clustered + far outliers
        p = rng.normal(size=(n, dim)) * np.where(rng.random((n, 1)) < 0.1, 30.0, 1.0)
    elif kind == 3:  # shifted cloud (centres far from origin)
        p = rng.normal(size=(n, dim)) + rng.normal(size=(1, dim)) * 20
    else:  # lattice-like with repeated coordinates and zeros
        p = rng.integers(-3, 4, size=(n, dim)).astype(float)
    return p * scale, scale


def _random_weights(rng, n):
    kind = int(rng.integers(0, 4))
    if kind == 0:
        return rng.uniform(0.0, 1.0, n)
    if kind == 1:
        return rng.normal(size=n)  # signed weights are admissible for a bare Grid
    if kind == 2:
        w = rng.uniform(0.0, 1.0, n)
        w[rng.random(n) < 0.3] = 0.0
        return w
    return 10.0 ** rng.uniform(-8, 2, n)


def _random_f(rng, pts, scale):
    n = len(pts)
    kind = int(rng.integers(0, 4))
    if kind == 0:
        return rng.normal(size=n)
    if kind == 1:
        return np.exp(-np.sum((pts / scale) ** 2, axis=1) * rng.uniform(0.1, 2)) * (1 + 0.3 * rng.normal(size=n))
    if kind == 2:
        return np.ones(n)
    return rng.normal(size=n) * 10.0 ** rng.uniform(-6, 6, n)


def _order_arg(L, sel):
    return [int(L), np.int64(L), np.int32(L)][sel % 3]


def _centres(rng, pts, m, scale):
    dim = pts.shape[1]
    c = rng.normal(size=(m, dim)) * scale * 2
    u = rng.random()
    if u < 0.3:
        c[int(rng.integers(0, m))] = pts[int(rng.integers(0, len(pts)))]
    elif u < 0.45:
        c[int(rng.integers(0, m))] *= 100.0
    elif u < 0.55 and m > 1:
        c[-1] = c[0]
    elif u < 0.65:
        c[0] = 0.0
    return c


def _call_moments(ctx, g, L, c, f, t, sel):
    """Call the real method in one of several calling styles; the attached post-condition decides."""
    style = sel % 4
    subj = f"Grid.moments[{t},{type(g).__name__}]"
    with ctx.guard("no-exception", subj):
        if style == 0:
            return g.moments(L, c, f, t, True)
        if style == 1:
            return g.moments(orders=L, centers=c, func_vals=f, type_mom=t, return_orders=True)
        if style == 2:
            return g.moments(L, c, f, type_mom=t)
        if t == "cartesian":
            return g.moments(L, c, f, return_orders=True)  # default type
        return g.moments(L, c, f, t, return_orders=True)
    return None


def _clone_moments(ctx, g, res0, L, c, f, t, sel, kind):
    """The grid goes through copy.copy / copy.deepcopy / pickle: the clone is still 'the grid with these points and weights' -
    same public state, and the same moments call on it (decided by the attached post-condition like any other call) must return
    bit-for-bit what the original returned."""
    clone = roundtrip.check_clone(ctx, f"{type(g).__name__}", g, kind)
    if clone is None or res0 is None:
        return
    res1 = _call_moments(ctx, clone, L, c, f, t, sel)
    if res1 is None:
        return
    v0 = np.asarray(res0[0] if isinstance(res0, tuple) else res0)
    v1 = np.asarray(res1[0] if isinstance(res1, tuple) else res1)
    # identical public arrays give identical sums up to the summation order NumPy picks for the buffers' alignment (an
    # unpickled array may be aligned differently): compared at 1e-12 of the row scale sum|w f B|, bit-identity is counted
    if v0.shape != v1.shape or v0.dtype != v1.dtype:
        ctx.check("clone-moments-equal-original", f"Grid.moments[{t},{type(g).__name__}]:{kind}", False, sig="shape-or-dtype-differs")
        return
    if v0.tobytes() == v1.tobytes():
        ctx.count("moments:on-clone:bit-identical")
    pts = np.asarray(g.points)
    fr = np.abs(f) if np.iscomplexobj(f) else f
    _, A, E, _ = c14ref.ref_moments(t, int(L), pts, np.asarray(g.weights), fr, c)
    with np.errstate(all="ignore"):
        d = float(np.max(np.abs(v0 - v1) / (A + FLOOR * E + UNDERFLOW))) if v0.size else 0.0
    ctx.check("clone-moments-equal-original", f"Grid.moments[{t},{type(g).__name__}]:{kind}", d, 1e-12, sig="moments-on-clone-differ", detail={"max_abs_diff": float(np.max(np.abs(v0 - v1))) if v0.size else None})
    ctx.count("moments:on-clone:" + kind)


def _gauss_density(rng, pts, centres, noise=0.2):
    rho = np.zeros(len(pts))
    for c in centres:
        a = rng.uniform(0.3, 2.0)
        rho += rng.uniform(0.5, 3.0) * np.exp(-a * np.sum((pts - c) ** 2, axis=1))
    return rho * (1 + noise * rng.uniform(-1, 1, len(pts)))


def _radial_grid(rng, n):
    from grid.onedgrid import GaussLegendre, GaussChebyshev
    from grid.rtransform import BeckeRTransform, LinearFiniteRTransform

    oned = GaussLegendre(n) if rng.random() < 0.5 else GaussChebyshev(n)
    if rng.random() < 0.5:
        return BeckeRTransform(1e-3 * rng.uniform(0.5, 5), rng.uniform(0.8, 2.0)).transform_1d_grid(oned)
    return LinearFiniteRTransform(rng.uniform(0.0, 0.1), rng.uniform(2.0, 8.0)).transform_1d_grid(oned)


def _atomgrid(rng, center=None, nrad=None):
    from grid.atomgrid import AtomGrid

    nrad = nrad or int(rng.integers(4, 14))
    rg = _radial_grid(rng, nrad)
    if rng.random() < 0.5:
        degs = [int(rng.choice([3, 5, 7, 9, 11]))]
    else:
        degs = [int(v) for v in rng.choice([3, 5, 7, 9, 11, 13], nrad)]
    method = str(rng.choice(["lebedev", "lebedev", "spherical"]))
    if method == "spherical":
        degs = [min(d, 7) for d in degs]
    return AtomGrid(rg, degrees=degs, center=center, rotate=int(rng.integers(0, 3)) * 7, method=method)


def _molgrid(rng, atnums, coords):
    from grid.becke import BeckeWeights
    from grid.molgrid import MolGrid

    ats = [_atomgrid(rng, center=np.array(c, dtype=float), nrad=int(rng.integers(4, 9))) for c in coords]
    return MolGrid(np.asarray(atnums), ats, BeckeWeights(order=3), store=bool(rng.random() < 0.5))


def _build_real_grid(rng, kind):
    """(grid, dim)"""
    from grid.angular import AngularGrid
    from grid.basegrid import Grid
    from grid.cubic import Tensor1DGrids, UniformGrid
    from grid.onedgrid import GaussLegendre, Trapezoidal
    from grid.periodicgrid import PeriodicGrid

    if kind == "atomgrid":
        return _atomgrid(rng), 3
    if kind == "atomgrid-offcentre":
        return _atomgrid(rng, center=rng.normal(size=3) * 3), 3
    if kind == "molgrid":
        n = int(rng.integers(1, 4))
        coords = rng.normal(size=(n, 3)) * 1.5 + np.arange(n)[:, None] * 1.2
        return _molgrid(rng, rng.integers(1, 18, n), coords), 3
    if kind in ("uniform3d", "uniform2d"):
        d = 3 if kind == "uniform3d" else 2
        axes = np.diag(rng.uniform(0.1, 0.8, d)) + rng.uniform(-0.1, 0.1, (d, d))
        shape = rng.integers(2, 8, d)
        weight = "Trapezoid" if d == 2 else str(rng.choice(["Trapezoid", "Rectangle", "Fourier1", "Alternative"]))
        return UniformGrid(rng.normal(size=d), axes, shape, weight=weight), d
    if kind in ("tensor3d", "tensor2d"):
        gl = [GaussLegendre(int(rng.integers(2, 8))), Trapezoidal(int(rng.integers(2, 8))), GaussLegendre(int(rng.integers(2, 8)))]
        return (Tensor1DGrids(*gl), 3) if kind == "tensor3d" else (Tensor1DGrids(gl[0], gl[1]), 2)
    if kind == "angular":
        return AngularGrid(degree=int(rng.choice([3, 7, 11, 17])), method=str(rng.choice(["lebedev", "spherical"]))), 3
    if kind == "periodic":
        n = int(rng.integers(5, 200))
        vecs = np.eye(3) * rng.uniform(1, 3) + rng.uniform(-0.2, 0.2, (3, 3))
        return PeriodicGrid(rng.uniform(0, 1, (n, 3)) @ vecs, rng.uniform(0, 1, n), vecs), 3
    if kind == "localgrid":
        n = int(rng.integers(50, 400))
        g = Grid(rng.normal(size=(n, 3)), rng.uniform(0, 1, n))
        return g.get_localgrid(rng.normal(size=3) * 0.3, 1.5), 3
    if kind == "onedgrid-rule":
        from grid import onedgrid

        cls = [onedgrid.GaussLegendre, onedgrid.GaussChebyshev, onedgrid.GaussLaguerre, onedgrid.Trapezoidal, onedgrid.ClenshawCurtis, onedgrid.MidPoint, onedgrid.Simpson, onedgrid.TanhSinh][int(rng.integers(0, 8))]
        n = int(rng.integers(3, 30)) * 2 + 1
        return cls(n), 1
    if kind == "onedgrid-transformed":
        return _radial_grid(rng, int(rng.integers(3, 40))), 1
    if kind == "grid-col1d":
        n = int(rng.integers(2, 40))
        gl = GaussLegendre(n)
        return Grid(gl.points[:, None] * rng.uniform(0.5, 5), gl.weights.copy()), 1
    raise ValueError(kind)


# ----------------------------------------------------------------------------- run
def run_case(ctx, family, params):
    from grid.basegrid import Grid
    from grid.utils import dipole_moment_of_molecule, generate_orders_horton_order

    rng = ctx.rng
    if family == "random-grid":
        t, L, m, dim, k = params["type"], params["order"], params["ncent"], params["dim"], params["k"]
        n = int(rng.integers(1, 300)) if ctx.tier == "quick" else int(rng.integers(1, 1500))
        pts, scale = _random_points(rng, n, dim)
        # 1-D grids: flat (N,) points (the library's own 1-D layout) for every other case, (N,1) otherwise
        g = Grid(pts[:, 0].copy() if (dim == 1 and (L + m + k) % 2 == 0) else pts, _random_weights(rng, n))
        f = _random_f(rng, pts, scale)
        if (L + 2 * m + k) % 6 == 0:  # complex-valued function (e.g. a density times a plane wave)
            f = f * np.exp(1j * (pts @ rng.normal(size=dim)) / scale) + 0.3j * _random_f(rng, pts, scale)
            ctx.case_note("complex_f", True)
        c = _centres(rng, pts, m, scale)
        sel = L + m + k + dim
        res0 = _call_moments(ctx, g, _order_arg(L, sel), c, f, t, sel // 3)
        if (L + 2 * m + k + dim) % 3 == 1:
            _clone_moments(ctx, g, res0, _order_arg(L, sel), c, f, t, sel // 3, roundtrip.KINDS[(L + m + k) % 4])
        ctx.case_note("N", n)
        if (L + m + 3 * k) % 3 == 0:
            # history on ONE grid object: same call again after the points (and weights) were reassigned through the public
            # setters - every entry must be the quadrature over the grid AS IT STANDS at call time (the post-condition reads
            # the current public points/weights)
            new_pts = np.asarray(g.points, dtype=float) * float(rng.choice([-1.0, 0.5, 2.0])) + (rng.normal(size=np.asarray(g.points).shape[1:]) if rng.random() < 0.7 else 0.0)
            g.points = np.ascontiguousarray(new_pts)
            if rng.random() < 0.5:
                g.weights = _random_weights(rng, n)
            f2 = f if rng.random() < 0.5 else _random_f(rng, pts, scale)
            _call_moments(ctx, g, _order_arg(L, sel), c, f2, t, sel // 3)
            ctx.count("moments:same-call-after-points-reassigned")
    elif family == "real-grid":
        t, L, k = params["type"], params["order"], params["k"]
        with ctx.guard("no-exception", f"build:{params['grid']}"):
            g, dim = _build_real_grid(rng, params["grid"])
        if g.size == 0:
            ctx.discard("empty local grid")
            return
        pts = np.asarray(g.points)
        if pts.ndim == 1:
            pts = pts[:, None]
        m = int(rng.integers(1, 6))
        ext = float(np.max(np.abs(pts))) + 1e-3
        cents = [pts[int(rng.integers(0, len(pts)))] for _ in range(2)]
        f = _gauss_density(rng, pts, cents) if rng.random() < 0.7 else rng.normal(size=len(pts))
        c = _centres(rng, pts, m, ext / 4)
        if params["grid"] in ("atomgrid", "atomgrid-offcentre") and rng.random() < 0.5:
            c[0] = g.center  # expansion about the grid's own centre
        sel = L + k + len(params["grid"])
        res0 = _call_moments(ctx, g, _order_arg(L, sel), c, f, t, sel // 3)
        if (L + k + len(params["grid"])) % 2 == 0:
            _clone_moments(ctx, g, res0, _order_arg(L, sel), c, f, t, sel // 3, roundtrip.KINDS[(L // 2 + k + REAL_GRIDS.index(params["grid"])) % 4])
        ctx.case_note("N", int(g.size))
        ctx.case_note("class", type(g).__name__)
    elif family == "dipole":
        nat, kind = params["natoms"], params["grid"]
        atnums = rng.integers(1, 55, nat)
        coords = rng.normal(size=(nat, 3)) * 1.5 + np.arange(nat)[:, None] * 1.0 + rng.normal(size=3) * (5 if rng.random() < 0.3 else 0)
        if kind == "random":
            n = int(rng.integers(5, 800))
            pts = rng.normal(size=(n, 3)) * 2 + coords.mean(axis=0)
            g = Grid(pts, rng.uniform(0, 1, n))
        elif kind == "molgrid":
            g = _molgrid(rng, atnums, coords)
        elif kind == "molgrid-permuted" and nat >= 2:
            perm = np.roll(np.arange(nat), int(rng.integers(1, nat))) if rng.random() < 0.5 else np.arange(nat)[::-1]
            g = _molgrid(rng, atnums[perm], coords[perm])  # same molecule, atomic grids listed in another order
        elif kind in ("molgrid-displaced", "molgrid-permuted"):
            g = _molgrid(rng, atnums, coords + rng.normal(size=coords.shape) * 0.4)  # grid centred on (slightly) other positions
        elif kind == "molgrid-other-molecule":
            n2 = int(rng.integers(1, 5))
            g = _molgrid(rng, rng.integers(1, 55, n2), coords.mean(axis=0) + rng.normal(size=(n2, 3)) * 1.5)
        elif kind == "atomgrid":
            g = _atomgrid(rng, center=coords[0].copy())
        elif kind == "atomgrid-elsewhere":
            g = _atomgrid(rng, center=coords.mean(axis=0) + rng.normal(size=3))
        else:
            from grid.cubic import UniformGrid

            shape = rng.integers(3, 9, 3)
            axes = np.diag(6.0 / shape) + rng.uniform(-0.05, 0.05, (3, 3))
            g = UniformGrid(coords.mean(axis=0) - 3.0, axes, shape)
        rho = _gauss_density(rng, np.asarray(g.points), coords, noise=0.5)
        charges = atnums.astype(float) if params["k"] % 5 == 4 else atnums
        with ctx.guard("dipole-nuclear-minus-electronic", f"dipole_moment_of_molecule[{type(g).__name__}]"):
            if params["k"] % 2:
                dipole_moment_of_molecule(g, rho, coords, charges)
            else:
                dipole_moment_of_molecule(grid=g, density=rho, coords=coords, charges=charges)
        ctx.case_note("N", int(g.size))
    elif family == "centre-list":
        _centre_list(ctx, params)
    elif family == "generator":
        t = params["type"]
        for l in range(0, 13):
            dims = (1, 2, 3, np.int64(2), np.int32(3)) if t == "cartesian" else (3, 1)
            for dim in dims:
                with ctx.guard("generator-horton-order", f"generate_orders_horton_order[{t}]"):
                    if dim == 3 and l % 2:
                        generate_orders_horton_order(l, t)
                    elif l % 3 == 0:
                        generate_orders_horton_order(order=l, type_ord=t, dim=dim)
                    else:
                        generate_orders_horton_order(l, t, dim)
        # documented type check: NumPy integers are refused by the generator itself (recorded, not decided)
        try:
            generate_orders_horton_order(np.int64(2), t)
            ctx.count("generator:np.int64 order accepted")
        except TypeError:
            ctx.count("generator:np.int64 order rejected (TypeError, documented type is int)")
    elif family == "hostile":
        _hostile(ctx, params)
    else:
        raise ValueError(family)


def _digest(*arrays):
    import hashlib

    h = hashlib.blake2b(digest_size=16)
    for a in arrays:
        a = np.asarray(a)
        h.update(repr((a.shape, a.dtype.str)).encode())
        h.update(np.ascontiguousarray(a).tobytes())
    return h.hexdigest()


def _centre_list(ctx, params):
    """ONE moments call with centres of very unequal magnitude (1e3 .. 1e11 times the grid extent) before, between and after
    ordinary centres.  Every column is decided by the attached post-condition against the reference about THAT centre; in
    addition every column must equal the same call with that centre alone and the call with the centres in reverse order
    (no carry-over between the entries of the centre list), and the caller's arrays must be unchanged."""
    from grid.basegrid import Grid

    rng = ctx.rng
    t, dim, k = params["type"], params["dim"], params["k"]
    L = int(rng.integers(1 if t == "pure-radial" else 0, 9))
    if params["grid"] == "real":
        g, _ = _build_real_grid(rng, str(rng.choice(["atomgrid", "atomgrid-offcentre", "molgrid", "uniform3d", "periodic"])))
        pts = np.asarray(g.points)
        scale = float(np.max(np.abs(pts))) + 1e-3
    else:
        n = int(rng.integers(2, 300))
        pts, scale = _random_points(rng, n, dim)
        g = Grid(pts[:, 0].copy() if (dim == 1 and k % 2 == 0) else pts, _random_weights(rng, n))
        pts = np.asarray(g.points).reshape(n, -1)
    f = _random_f(rng, pts, scale) if rng.random() < 0.6 else _gauss_density(rng, pts, pts[:1])
    m = int(rng.integers(2, 7))
    c = rng.normal(size=(m, dim)) * scale
    nfar = int(rng.integers(1, max(2, m // 2 + 1)))
    where = rng.choice(m, size=nfar, replace=False)
    if rng.random() < 0.5:
        where[0] = 0  # a distant centre FIRST
    ext = float(np.max(np.linalg.norm(pts, axis=1))) + scale
    for j in where:
        mag = ext * 10.0 ** (rng.uniform(8, 11) if rng.random() < 0.7 else rng.uniform(3, 8))
        while True:
            u = rng.normal(size=dim)
            u /= np.linalg.norm(u)
            # harmonic types: keep the direction to the distant centre away from the polar axis (narrow-cone conditioning of
            # the polar angle is a separate, recorded observation)
            if t in ("cartesian", "radial") or abs(u[-1]) < 0.9:
                break
        c[j] = u * mag
    subj = f"Grid.moments[{t},{dim}D,{type(g).__name__}]"
    before = _digest(g.points, g.weights, f, c)
    with ctx.guard("no-exception", subj):
        full = np.asarray(g.moments(_order_arg(L, k), c, f, t))
        S, A, E, _ = c14ref.ref_moments(t, L, pts, g.weights, f, c)
        scale_rc = A + FLOOR * E + UNDERFLOW + (COND / TOL) * c14ref.ref_moments.last_amp
        worst, wj = 0.0, None
        for j in range(m):
            alone = np.asarray(g.moments(L, c[j : j + 1].copy(), f, t))
            d = float(np.max(np.abs(full[:, j] - alone[:, 0]) / scale_rc[:, j])) if alone.shape == (full.shape[0], 1) else float("inf")
            if d > worst or d != d:
                worst, wj = d, j
        ctx.check("column-equals-call-with-that-centre-alone", subj, worst, 1e-12, sig="distant-centre-earlier-in-the-list" if (wj is not None and any(i < wj for i in where)) else "other", detail={"centre": wj, "distant": sorted(int(i) for i in where), "L": L, "centres": c.tolist()})
        rev = np.asarray(g.moments(L, c[::-1].copy(), f, t))
        d = float(np.max(np.abs(full - rev[:, ::-1]) / scale_rc)) if rev.shape == full.shape else float("inf")
        ctx.check("columns-independent-of-centre-order", subj, d, 1e-12, sig="reversed-list-differs", detail={"distant": sorted(int(i) for i in where), "L": L})
    ctx.check("arguments-unchanged", subj, _digest(g.points, g.weights, f, c) == before, sig="points/weights/func_vals/centers modified")
    ctx.case_note("distant_positions", sorted(int(i) for i in where))
    ctx.case_note("ncent", m)


def _hostile(ctx, params):
    from grid.basegrid import Grid

    rng = ctx.rng
    what, t, k = params["what"], params["type"], params["k"]
    L = int(rng.integers(1, 9))
    dim = 3 if t in ("pure", "pure-radial") else int(rng.integers(1, 4))
    n = int(rng.integers(2, 200))
    pts, scale = _random_points(rng, n, dim)
    w = rng.uniform(0, 1, n)
    f = rng.normal(size=n)
    c = rng.normal(size=(int(rng.integers(1, 5)), dim)) * scale
    if what == "centre-on-point":
        for i in range(len(c)):
            c[i] = pts[int(rng.integers(0, n))]
    elif what == "z-axis":
        pts[:, : dim - 1] = 0.0  # all points on the last axis through the origin
        c[:, : dim - 1] = 0.0
    elif what == "near-axis":
        # a cone of opening 0.1..0.5 around the last axis as seen from the centre (polar-angle conditioning)
        eps = 10.0 ** rng.uniform(-1.0, -0.3)
        pts[:, : dim - 1] *= eps
        c[:, : dim - 1] *= eps
    elif what == "narrow-cone":
        eps = 10.0 ** rng.uniform(-6, -1)
        pts[:, : dim - 1] *= eps
        c[:, : dim - 1] *= eps
        _state["narrow"] = eps
    elif what == "duplicate-centres":
        c = np.repeat(c[:1], 3, axis=0)
    elif what == "dynamic-range":
        pts = pts * 10.0 ** rng.uniform(-3, 3, (n, 1))
        f = f * 10.0 ** rng.uniform(-10, 10, n)
    elif what == "integer-inputs":
        pts = rng.integers(-4, 5, (n, dim)).astype(float)
        f = rng.integers(-3, 4, n)  # integer-typed function values
        c = rng.integers(-2, 3, c.shape)  # integer-typed centres
    elif what == "views":
        big = rng.normal(size=(2 * n, dim + 2))
        pts = big[::2, 1 : dim + 1] * scale  # non-contiguous
        f = rng.normal(size=3 * n)[::3]
        c = np.asfortranarray(c)
    elif what == "single-point":
        pts, w, f = pts[:1], w[:1], f[:1]
    elif what == "zero-weights":
        w = np.zeros(n)
    elif what == "flat-centres":
        # one centre given as (1, dim) built from a grid point slice; many centres (more than points)
        c = np.vstack([pts[:1], rng.normal(size=(7, dim)) * scale])
    elif what == "rejected-orders":
        g = Grid(pts, w)
        for bad in (np.int16(2), np.uint8(2), 2.0, [0, 1]):
            try:
                g.moments(bad, c, f, t)
                ctx.count(f"moments:order of type {type(bad).__name__} accepted")
            except TypeError:
                ctx.count(f"moments:order of type {type(bad).__name__} rejected (TypeError)")
            except Exception as exc:
                ctx.count(f"moments:order of type {type(bad).__name__} raised {type(exc).__name__}")
        if t == "pure-radial":
            try:
                g.moments(0, c, f, t)
                ctx.fail("pure-radial-order-zero-rejected", "Grid.moments[pure-radial]", "accepted")
            except ValueError:
                ctx.check("pure-radial-order-zero-rejected", "Grid.moments[pure-radial]", True)
        # and a regular call so that the case decides something
    if dim == 1 and k % 2 == 0:
        pts = pts[:, 0]  # flat (N,) layout; for "views" a strided 1-D view
    g = Grid(np.ascontiguousarray(pts) if what != "views" else pts, w)
    try:
        _call_moments(ctx, g, _order_arg(L, k), c, f, t, k + L)
    finally:
        _state["narrow"] = None
