"""C03 - radial transforms are analytically self-consistent for all parameters.

Primary (deciding) oracle: ``gridrv.oracles.numdiff`` - long-double Chebyshev differentiation of the IMPLEMENTED
``tf.transform`` / ``tf.inverse`` (no documented formula is involved: the statement is checked literally, "the
derivative methods equal the true derivatives of the forward map").  Tolerances are conditioning-scaled: every
numerical derivative comes with an error estimate (rounding-noise bound measured by running the same code in
float64 and long double + disagreement of nested fits); a point is decided only when 100 x that estimate is below
1e-3 of the natural scale of the derivative, otherwise it is counted as ``undecided`` (this is what happens within
~1e-2 of a singular end point for third derivatives, and where the implementation itself cancels catastrophically,
e.g. 1 - 2^-k (1+x)^k for large k next to x = -1).
Secondary oracle (sharpens, cannot false-alarm): ``gridrv.oracles.transforms_ref`` mpmath maps typed from the class
docstrings; used only for instances whose implemented forward map agrees with the reference to 1e-12.
"""

from __future__ import annotations

import math

import numpy as np

from gridrv.oracles import numdiff as nd
from gridrv.oracles import signatures_c0304 as sig
from gridrv.monitors import roundtrip

PROP = "C03"
TITLE = "Radial transforms are analytically self-consistent for all parameters"
KINDS = ["Becke", "LinearFinite", "Identity", "LinearInfinite", "Exp", "Power", "Hyperbolic", "MultiExp", "Knowles", "Handy", "HandyMod"]
CLS = {k: k + "RTransform" for k in KINDS}
REQUIRED_FAMILIES = [CLS[k] for k in KINDS] + ["InverseRTransform", "pinned", "boundary", "construction", "clones", "warnings-as-errors", "option-values", "nested"]
REQUIRED_HOOKS = [f"decided:{c}:{m}" for c in list(CLS.values()) + ["InverseRTransform"] for m in ("deriv", "deriv2", "deriv3", "deriv_inverse", "deriv2_inverse", "deriv3_inverse", "roundtrip", "endpoint")]
BUDGET = {"quick": 900, "thorough": 7200}  # per-worker seconds; expected on 16 idle cores: quick ~10 s, thorough ~3-4 min
MAX_DISCARD_FRACTION = 0.02
NPTS = 40
TOL_REL = 1e-5  # relative tolerance of a derivative (defects are O(1))
DECIDE = 1e-3  # a point is decided only when its whole tolerance is below DECIDE x natural scale
KM = [1, 2, 3, 4, 5, 1.5, 2.5, 3.7]
RMINS = [0.0, 1e-8, 1e-3, 0.1, 1.0, 30.0, 1e3]  # rmin/R from 0 over 5e-10 to 2e4: cancellation against rmin must show
RULE = (
    "One case = one transform instance (class, discrete parameters k/m in {1,2,3,4,5,1.5,2.5,3.7}, rmin in {0,1e-8,1e-3,0.1,1,30,1e3}, "
    "trim_inf on/off, b explicit or learned; continuous parameters R in [0.05,20], rmax-rmin in [1,1e3], a, b log-uniform drawn "
    "from the case RNG) evaluated on 40 interior points clustered towards both ends (|x| <= 1-1e-3, 0.98 for non-integer k/m; "
    "(0,3b] for b-scaled maps; (0,1/b) for Hyperbolic), as float64 array and as np.float64 scalars. InverseRTransform wraps an "
    "instance of each of the 11 other classes. A case is non-trivial when at least one derivative clause was decided on at least "
    "one point. Input classes per instance: float64 array, np.float64 scalars, the same array object refilled in place, integer-dtype "
    "(int64/int32) arrays of the integer values in the domain (0..n for the b-scaled maps / Identity / Hyperbolic - their documented use; "
    "{0} and {-1,0,1} minus singular ends for the [-1,1] maps, where a loud ValueError/TypeError is counted as rejected), float32 arrays. "
    "Family 'boundary': exactly-on-threshold and round parameter values (HandyMod rmax-rmin = 2^m, 2^m +- ulp, 2^m(1 +- 1e-13), 2^m-1+small; "
    "R, rmin, rmax, a, b at 0, 1, 2, powers of two; k, m = 1, 2) passed as Python int, Python float, np.float64, np.int64. Admissible sets: Exp/Power rmin>0; HandyMod rmax-rmin >= 2^m-1+0.1 (else pole inside (-1,1)); Hyperbolic "
    "b*(40-1)<1; k,m>=1."
)
ASSUMPTIONS = [
    "np.longdouble is 80-bit extended and every transform propagates it (checked at start-up and per instance)",
    "derivative tolerance: 1e-5 relative + 100 x estimated error of the numerical derivative; points whose tolerance would exceed 1e-3 of the natural scale are left undecided and counted",
    "round-trip tolerance: 100 x (float64 rounding of forward and inverse evaluation measured against the long-double run of the same code at x and three neighbouring doubles, mapped to x); decided only when below 1e-6 of the x scale",
    "end points: finite images to 1e-10 relative; infinite images are inf (trim off) or exactly 1e16 (trim on)",
]
LEVEL_TEXT = "Held on every explored instance of all 12 classes; interior points within 1e-3 of a singular end point and ill-conditioned evaluations are not decided."
TECHNIQUE = "runtime monitoring: reference-model monitor (long-double Chebyshev differentiation of the implemented map, mpmath second layer) on every derivative/inverse method, seeded parameter sweeps"


# ------------------------------------------------------------------------------------------------ cases
def _structured():
    """Seed-independent discrete grid of instances: list of (family, params)."""
    out = []
    for trim in (True, False):
        for rmin in RMINS:
            out.append(("Becke", {"rmin": rmin, "trim": trim}))
            out.append(("MultiExp", {"rmin": rmin, "trim": trim}))
            for km in KM:
                out.append(("Knowles", {"rmin": rmin, "k": km, "trim": trim}))
                out.append(("Handy", {"rmin": rmin, "m": km, "trim": trim}))
                out.append(("HandyMod", {"rmin": rmin, "m": km, "trim": trim}))
    for rmin in RMINS + [-1.5]:
        out.append(("LinearFinite", {"rmin": rmin}))
    out.append(("Identity", {}))
    for bmode in ("explicit", "learned"):
        for rmin in RMINS:
            out.append(("LinearInfinite", {"rmin": rmin, "bmode": bmode}))
            if rmin > 0:
                out.append(("Exp", {"rmin": rmin, "bmode": bmode}))
                out.append(("Power", {"rmin": rmin, "bmode": bmode}))
    for i in range(4):
        out.append(("Hyperbolic", {"v": i}))
    return out


def cases(tier, seed):
    base = _structured()
    reps = 6 if tier == "quick" else 50
    out = []
    for rep in range(reps):
        for kind, p in base:
            cost = 2.0 if kind == "Hyperbolic" else 1.0
            pos = {"pos": True} if rep % 2 else {}  # every second repetition constructs the object positionally
            fsp = FLAG_CYCLE[(rep + rep // 2) % 4]
            if fsp and "trim" in p:
                pos["flagspell"] = fsp  # the trimming flag as np.bool_ / int / np.int64 instead of the literal bool
            if rep % 3 == 2:
                pos["clone"] = roundtrip.KINDS[(rep // 3) % 4]  # the object goes through copy / deepcopy / pickle first
            out.append((CLS[kind], {"kind": kind, **p, "rep": rep, **pos}, cost))
            if tier == "thorough" or rep == 0 or p.get("trim", True):
                out.append(("InverseRTransform", {"kind": kind, **p, "rep": rep, "inv": True, **pos}, cost * 1.2))
    # structured boundary parameter values x spellings (both tiers; forward and wrapped)
    for j, (kind, p) in enumerate(_boundary()):
        pos = {"pos": True} if j % 2 else {}
        out.append(("boundary", {"kind": kind, **p, **pos}, 1.5))
        out.append(("boundary", {"kind": kind, **p, "inv": True, **pos}, 1.5))
    # positional vs keyword construction of every class, both values of every boolean flag, b given / learned
    # transforms built from transforms: InverseRTransform nested to depth 2 (behaves like T) and 3 (behaves like Inverse(T)),
    # treated as ordinary transform objects by every clause
    nest = [(k, p) for k, p in construction_sets()]
    if tier == "thorough":
        nest += [(k, {**p, "rep": r}) for r in range(2) for k, p in _structured()]
    for j, (kind, p) in enumerate(nest):
        for depth in (2, 3):
            extra = {"clone": roundtrip.KINDS[j % 4]} if j % 3 == 2 else {}
            out.append(("nested", {"kind": kind, **p, "nest": depth, **extra}, 1.5))
    for kind, p in construction_sets():
        out.append(("construction", {"kind": kind, **p}, 1.0))
        out.append(("clones", {"kind": kind, **p}, 1.0))
        out.append(("warnings-as-errors", {"kind": kind, **p}, 1.0))
        if "trim" in p:
            out.append(("option-values", {"kind": kind, **p}, 1.0))
    # pinned deterministic witnesses (fixed parameters, both tiers, run first)
    out.append(("pinned", {"kind": "HandyMod", "rmin": 0.0, "m": 3, "trim": True, "fixed": {"rmax": 12.0}}, 1e9))
    out.append(("pinned", {"kind": "HandyMod", "rmin": 0.1, "m": 2.5, "trim": True, "fixed": {"rmax": 9.1}}, 1e9))
    out.append(("pinned", {"kind": "Knowles", "rmin": 0.0, "k": 3, "trim": True, "fixed": {"R": 1.5}}, 1e9))
    out.append(("pinned", {"kind": "Knowles", "rmin": 0.1, "k": 2.5, "trim": True, "fixed": {"R": 1.3}}, 1e9))
    out.append(("pinned", {"kind": "Knowles", "rmin": 0.1, "k": 3.7, "trim": True, "fixed": {"R": 1.3}}, 1e9))
    out.append(("pinned", {"kind": "Knowles", "rmin": 0.1, "k": 3.7, "trim": False, "fixed": {"R": 1.3}}, 1e9))
    return out


# ------------------------------------------------------------------------------------------------ instances
class Inst:
    """One transform instance + what the workload knows about it (sampling interval, analytic bounds, end points)."""


def _is_int(v):
    return float(v).is_integer()


def build(params, rng):
    """Create the real library object from the discrete params + continuous draws from ``rng``."""
    import grid.rtransform as rt

    kind = params["kind"]
    fixed = params.get("fixed", {})
    I = Inst()
    I.kind = kind
    I.args = {}
    I.tag = ""
    I.trim = None
    I.chunk = None
    lu = lambda a, b: float(10 ** rng.uniform(math.log10(a), math.log10(b)))  # noqa: E731
    frac = 0.5
    smax = 1 - 1e-3
    if kind in ("Becke", "MultiExp", "Knowles", "Handy"):
        rmin, R = params["rmin"], fixed.get("R", lu(0.05, 20))
        I.args = {"rmin": rmin, "R": R}
        if kind == "Knowles":
            I.args["k"] = params["k"]
        if kind == "Handy":
            I.args["m"] = params["m"]
        I.args["trim_inf"] = params["trim"]
        I.trim = params["trim"]
        I.fb, I.gb = (-1.0, 1.0), (rmin, np.inf)
        I.xscale = 1.0
    elif kind == "HandyMod":
        rmin, m = params["rmin"], params["m"]
        size = fixed["rmax"] - rmin if "rmax" in fixed else (2.0**m - 1) + lu(0.1, 1e3)
        I.args = {"rmin": rmin, "rmax": rmin + size, "m": m, "trim_inf": params["trim"]}
        I.trim = params["trim"]
        I.fb, I.gb = (-1.0, 1.0), (rmin, rmin + size)
        I.xscale = 1.0
    elif kind == "LinearFinite":
        rmin = params["rmin"]
        I.args = {"rmin": rmin, "rmax": fixed.get("rmax", rmin + lu(1, 1e3))}
        I.fb, I.gb = (-1.0, 1.0), (rmin, I.args["rmax"])
        I.xscale = 1.0
    elif kind == "Identity":
        I.fb, I.gb = (0.0, np.inf), (0.0, np.inf)
        I.xscale = lu(0.1, 100)
    elif kind in ("LinearInfinite", "Exp", "Power"):
        rmin = params["rmin"]
        b = fixed.get("b", lu(0.5, 200))
        I.args = {"rmin": rmin, "rmax": fixed.get("rmax", rmin + lu(1, 1e3)), "b": b if params["bmode"] == "explicit" else None}
        I.fb = (0.0, np.inf)
        I.gb = (rmin, np.inf) if kind == "LinearInfinite" else (0.0, np.inf)  # log / power of r: singular at r = 0
        if kind == "Power":
            I.fb = (-1.0, np.inf)  # (x+1)^p
        I.xscale = b
        I.tag = ":b-learned" if params["bmode"] == "learned" else ""
    elif kind == "Hyperbolic":
        b = fixed.get("b", lu(1e-5, 0.9 / (NPTS - 1)))
        I.args = {"a": fixed.get("a", lu(1e-2, 1e2)), "b": b}
        I.fb, I.gb = (0.0, 1.0 / b), (0.0, np.inf)
        I.xscale = 1.0 / b
        I.chunk = max(1, int(0.95 / b))
    else:
        raise ValueError(kind)
    km = params.get("k", params.get("m"))
    I.nonint = km is not None and not _is_int(km)
    if I.nonint:
        frac, smax = 0.25, 0.98
        I.tag += ":noninteger-k" if kind == "Knowles" else ":noninteger-m"
    I.frac = frac
    I.spell = params.get("spell")
    if I.spell:
        I.args = spelled(I.args, I.spell)
        I.tag += ":" + I.spell
    # the inverse maps of these classes contain a 1/k-th (1/m-th, 1/power-th) root: branch point at the lower end
    I.gfrac = 0.25 if kind in ("Knowles", "Handy", "HandyMod", "Power") else 0.5
    fs = params.get("flagspell")
    if fs and "trim_inf" in I.args:
        # equal-but-not-identical option value: np.bool_(True) / 1 / np.int64(1) must behave exactly as True (same for False)
        I.args["trim_inf"] = FLAG_SPELLINGS[fs](I.args["trim_inf"])
    I.positional = bool(params.get("pos"))
    if I.positional:
        # ALL documented parameters passed positionally in the documented order (literal table, not inspect)
        I.tf = sig.positional(getattr(rt, CLS[kind]), sig.TRANSFORM_ORDER[CLS[kind]], I.args)
    else:
        I.tf = getattr(rt, CLS[kind])(**I.args)
    if params.get("clone") and not params.get("nest"):
        # a copy / deep copy / pickle round trip is still "the transform that was built with these arguments"
        I.tf = roundtrip.clone(I.tf, params["clone"])
    I.name = CLS[kind] + I.tag
    # interior sample, clustered towards both ends
    u = np.sort(np.cos(np.pi * rng.uniform(0, 1, NPTS)))  # in (-1, 1)
    if I.fb == (-1.0, 1.0):
        I.x = smax * u
        if not I.nonint:
            # a few points much closer to both ends (the conditioning test decides which of them count): nodes of large rules
            # sit there (GaussChebyshev(1000): 1 - |x| = 1.2e-6)
            e = np.array([1e-4, 1e-5, 1e-6])
            I.x = np.sort(np.concatenate([I.x, -1 + e, 1 - e]))
    elif kind == "Hyperbolic":
        I.x = (1e-3 + (1 - 2e-3) * (u + 1) / 2) / I.args["b"]
    elif kind == "Identity":
        I.x = I.xscale * (1e-3 + (3 - 1e-3) * (u + 1) / 2)
    else:
        top = 3.0 if params["bmode"] == "explicit" else 1.0
        I.x = I.xscale * (1e-3 + (top - 1e-3) * (u + 1) / 2)
    return I


SPELLINGS = ("pyint", "pyfloat", "npfloat64", "npint64")
FLAG_SPELLINGS = {"npbool": np.bool_, "int": int, "npint64": np.int64, "npint8": np.int8}
FLAG_CYCLE = (None, "npbool", "int", "npint64")
GUARDED_UNDER_W_ERROR = {"BeckeRTransform": ("transform", "deriv", "deriv2")}  # methods that carry their own catch_warnings / errstate guard


def spelled(args, how):
    """The same parameter VALUES passed as another numeric type: Python int / np.int64 for integral values (other
    values stay Python floats), Python float, np.float64.  bool / None untouched."""
    conv = {"pyint": int, "pyfloat": float, "npfloat64": np.float64, "npint64": np.int64}[how]
    out = {}
    for k, v in args.items():
        if isinstance(v, bool) or v is None:
            out[k] = v
        elif how in ("pyint", "npint64"):
            out[k] = conv(v) if float(v).is_integer() else float(v)
        else:
            out[k] = conv(v)
    return out


def _boundary():
    """Structured BOUNDARY parameter sets (seed independent): exactly-on-threshold and round values, each with a spelling.
    HandyMod: rmax-rmin in {2^m, 2^m +- 1 ulp, 2^m (1 +- 1e-13), 2^m-1+1e-3, 2^m-1+0.1} (2^m is where the coefficient of
    (1+x)^m in the denominator vanishes; 2^m-1 is the edge of the admissible set); R, rmin, rmax, a, b at 0, 1, 2,
    powers of two; k, m exactly 1 and 2."""
    out = []
    i = 0
    for m in (1, 2, 3, 2.5):
        t = 2.0**m
        sizes = [("2^m", t), ("2^m+ulp", float(np.nextafter(t, np.inf))), ("2^m-ulp", float(np.nextafter(t, -np.inf))), ("2^m(1+1e-13)", t * (1 + 1e-13)), ("2^m(1-1e-13)", t * (1 - 1e-13)), ("2^m-1+1e-3", t - 1 + 1e-3), ("2^m-1+0.1", t - 1 + 0.1)]
        for label, size in sizes:
            for rmin in (0.0, 1.0, 0.5) if label == "2^m" else (0.0,):
                spells = SPELLINGS if label == "2^m" else (SPELLINGS[i % 4],)
                for sp in spells:
                    i += 1
                    out.append(("HandyMod", {"rmin": rmin, "m": m, "trim": bool(i % 2), "fixed": {"rmax": rmin + size}, "spell": sp, "edge": label}))
    for kind in ("Becke", "MultiExp", "Knowles", "Handy"):
        for rmin, R in ((0, 1), (0, 2), (1, 1), (1, 2), (0, 0.5), (2, 8)):
            for km in (1, 2) if kind in ("Knowles", "Handy") else (None,):
                i += 1
                p = {"rmin": float(rmin), "trim": bool(i % 2), "fixed": {"R": float(R)}, "spell": SPELLINGS[i % 4], "edge": "round"}
                if km:
                    p["k" if kind == "Knowles" else "m"] = km
                out.append((kind, p))
    for rmin, rmax in ((0, 1), (-1, 1), (0, 2), (1, 2), (-2, 2)):
        i += 1
        out.append(("LinearFinite", {"rmin": float(rmin), "fixed": {"rmax": float(rmax)}, "spell": SPELLINGS[i % 4], "edge": "round"}))
    for kind in ("LinearInfinite", "Exp", "Power"):
        for rmin, rmax, b in ((1, 2, 1), (1, 16, 4), (2, 8, 2), (1, 1024, 8), (0, 8, 4)):
            if rmin == 0 and kind != "LinearInfinite":
                continue
            i += 1
            out.append((kind, {"rmin": float(rmin), "bmode": "explicit", "fixed": {"rmax": float(rmax), "b": float(b)}, "spell": SPELLINGS[i % 4], "edge": "round"}))
    for a, b in ((1, 2.0**-6), (2, 2.0**-7), (1, 2.0**-10)):
        i += 1
        out.append(("Hyperbolic", {"v": 0, "fixed": {"a": float(a), "b": b}, "spell": SPELLINGS[i % 4], "edge": "round"}))
    return out


def construction_sets():
    """Parameter sets of the construction family (seed independent discrete part; continuous values from the case RNG)."""
    out = []
    for trim in (True, False):
        for rmin in (0.0, 0.1):
            out.append(("Becke", {"rmin": rmin, "trim": trim}))
            out.append(("MultiExp", {"rmin": rmin, "trim": trim}))
            for km in (1, 2, 2.5):
                out.append(("Knowles", {"rmin": rmin, "k": km, "trim": trim}))
                out.append(("Handy", {"rmin": rmin, "m": km, "trim": trim}))
                out.append(("HandyMod", {"rmin": rmin, "m": km, "trim": trim}))
    for rmin in (0.0, -1.5, 1.0):
        out.append(("LinearFinite", {"rmin": rmin}))
    out.append(("Identity", {}))
    for bmode in ("explicit", "learned"):
        for kind in ("LinearInfinite", "Exp", "Power"):
            for rmin in (0.1, 1.0):
                out.append((kind, {"rmin": rmin, "bmode": bmode}))
    out.append(("Hyperbolic", {"v": 0}))
    out.append(("Hyperbolic", {"v": 1}))
    return out


def endpoints(I):
    """Reference end points of the forward map and their required images: list of (x_ref, expected, label)."""
    k, a = I.kind, I.args
    big = 1e16 if I.trim else np.inf
    if k in ("Becke", "Knowles", "Handy"):
        return [(-1.0, a["rmin"], "lower"), (1.0, big, "upper")]
    if k == "MultiExp":
        return [(-1.0, big, "lower"), (1.0, a["rmin"], "upper")]
    if k in ("HandyMod", "LinearFinite"):
        return [(-1.0, a["rmin"], "lower"), (1.0, a["rmax"], "upper")]
    if k == "Identity":
        return [(0.0, 0.0, "lower"), (np.inf, np.inf, "upper")]
    if k in ("LinearInfinite", "Exp", "Power"):
        return [(0.0, a["rmin"], "lower"), (float(I.tf.b), a["rmax"], "upper")]
    if k == "Hyperbolic":
        return [(0.0, 0.0, "lower")]
    raise ValueError(k)


# ------------------------------------------------------------------------------------------------ helpers
def _numder(f, x, bounds, frac, chunk):
    """Numerical derivatives 1..3 of f at x with error estimates.  Symmetric fits of radius frac x distance to the
    nearest finite analytic bound (an asymmetric / one-sided family was tried and rejected: next to a branch-point end
    its nested fits agree with each other while both are wrong, i.e. the error estimate becomes optimistic)."""
    lo, hi = bounds
    xl = np.asarray(x, dtype=nd.LD)
    d = None
    if np.isfinite(lo):
        d = xl - nd.LD(lo)
    if np.isfinite(hi):
        d = nd.LD(hi) - xl if d is None else np.minimum(d, nd.LD(hi) - xl)
    est, err = nd.derivs_with_error(f, xl, frac * d, frac * d, chunk=chunk)
    return est.astype(float), err, np.asarray(d, dtype=float)


def _scales(est, ell):
    """Scale of the o-th derivative: max(|d_o|, 1e-3 * |d_j| / ell^(o-j) for j<o), ell = distance to the nearest bound
    (the second term keeps identically-zero / sign-changing derivatives decidable)."""
    a = np.abs(est)
    s1 = a[0]
    s2 = np.maximum(a[1], 1e-3 * a[0] / ell)
    s3 = np.maximum(a[2], 1e-3 * np.maximum(a[1] / ell, a[0] / ell**2))
    return np.array([s1, s2, s3])


def _flat(v, n):
    v = np.asarray(v, dtype=float)
    if v.ndim == 0:
        return np.full(n, float(v))
    return v.reshape(-1)


def _dist(x, bounds):
    """Distance of x to the nearest finite bound (|x| when there is none)."""
    lo, hi = bounds
    d = np.abs(x) + 1e-300
    if np.isfinite(lo):
        d = np.abs(x - lo)
    if np.isfinite(hi):
        d = np.minimum(d, np.abs(hi - x)) if np.isfinite(lo) else np.abs(hi - x)
    return d


def _robust_noise(f, x, bounds, n):
    """Float64 rounding noise of f around x: max of |f(float64) - f(long double)| over x and four points displaced by
    +-1e-7, +-3e-7 of the distance to the nearest bound (same conditioning, different rounding pattern).
    One sample can be 'lucky' (1 - t within 1e-20 of a double: float64 and long double then agree to 1e-25 although both
    are off by cond*eps_ld - seen once in 1.2e6 points); five different rounding patterns are not."""
    out = np.zeros(n)
    d = _dist(x, bounds)
    with np.errstate(all="ignore"):
        for s in (0.0, 1e-7, -1e-7, 3e-7, -3e-7):
            xx = x + s * d
            a = _flat(f(xx), n)
            b = np.asarray(f(xx.astype(nd.LD)))
            b = np.full(n, b, dtype=nd.LD) if b.ndim == 0 else b.reshape(-1)
            e = np.abs(a - b.astype(float))
            e[~np.isfinite(e)] = np.inf
            out = np.maximum(out, e)
    return out


def _f64_noise(method, x, lib64):
    """Measured float64 rounding error of a library method on this input: 10 x |method(float64 x) - method(long double x)|
    (same code, wider type).  It enters the tolerance because the property is about the formulas, not about the
    conditioning of their float64 evaluation (e.g. 1 - exp(-1e-12) inside Knowles.inverse)."""
    with np.errstate(all="ignore"):
        try:
            ld = np.asarray(method(x.astype(nd.LD)))
        except Exception:  # noqa: BLE001 - the float64 call is the monitored one; no long double result => no extra slack
            return np.zeros(x.size)
        ld = np.full(x.size, ld, dtype=nd.LD) if ld.ndim == 0 else ld.reshape(-1)
        out = 10 * np.abs(lib64 - ld.astype(float))
    out[~np.isfinite(out)] = 0.0
    return out


def _judge(ctx, clause, subject, hookname, lib, est, tol, scale, x, extra=None):
    """Compare lib with est on the decided points (tol <= DECIDE*scale); one ctx.check with the max ratio."""
    with np.errstate(all="ignore"):
        decided = np.isfinite(tol) & (tol <= DECIDE * scale) & np.isfinite(est)
        nd_ = int(decided.sum())
        ctx.count(f"points-decided:{clause}", nd_)
        ctx.count(f"points-undecided:{clause}", int(decided.size - nd_))
        if nd_ == 0:
            return False
        diff = np.abs(lib - est)
        ratio = np.where(decided, diff / tol, 0.0)
        ratio[decided & ~np.isfinite(lib)] = np.inf
    i = int(np.argmax(ratio))
    rel = float(diff[i] / scale[i]) if scale[i] > 0 else float("nan")
    sig = "mismatch" if np.isfinite(lib[i]) else "non-finite"
    if ratio[i] > 1:
        sig += f":rel~1e{int(math.floor(math.log10(rel))) if rel > 0 and np.isfinite(rel) else 0:+d}"
    detail = {"x": float(x[i]), "lib": float(lib[i]), "oracle": float(est[i]), "tol_abs": float(tol[i]), "rel_to_scale": rel, "n_decided": nd_}
    if extra:
        detail.update(extra)
    ctx.check(clause, subject, float(ratio[i]), 1.0, sig=sig, detail=detail)
    ctx.hit(hookname)
    return True


# ------------------------------------------------------------------------------------------------ one map
def check_map(ctx, subject, hookcls, tf, x, fb, gb, frac, gfrac, xscale, chunk, args_note):
    """All interior clauses for one object ``tf`` whose forward map is analytic on ``fb`` and inverse on ``gb``."""
    n = x.size
    F, G = tf.transform, tf.inverse
    with ctx.guard("forward-evaluates", subject):
        r = _flat(F(x), n)
    if "r" not in locals():
        return None
    ok = bool(np.all(np.isfinite(r)))
    ctx.check("forward-evaluates", subject, ok, sig="non-finite-interior", detail={"args": args_note})
    if not ok:
        return None
    # long double support (needed by the oracle)
    rl = np.asarray(F(x.astype(nd.LD)))
    if rl.dtype != nd.LD:
        ctx.discard("transform does not propagate long double")
        return None
    rl = rl.reshape(-1)

    # ---------------- monotone on the sample + direction
    dr_ = np.diff(r)
    direction = 1.0 if r[-1] > r[0] else -1.0
    slack = 8 * np.finfo(float).eps * np.maximum(np.abs(r[1:]), np.abs(r[:-1])) + 4 * np.abs(r - rl.astype(float)).max()
    worst = float(np.max(-direction * dr_ - slack))
    ctx.check("monotone", subject, worst <= 0, sig="non-monotone-sample", detail={"args": args_note, "worst_step": worst})

    # ---------------- derivatives of the forward map
    est, err, ell = _numder(F, x, fb, frac, chunk)
    scale = _scales(est, ell)
    tol = TOL_REL * np.abs(est) + 100 * err + 1e-10 * scale
    any_decided = False
    libd = {}
    for o, name in enumerate(("deriv", "deriv2", "deriv3")):
        with ctx.guard(name, subject):
            libd[name] = _flat(getattr(tf, name)(x), n)
        if name not in libd:
            continue
        if hookcls == "InverseRTransform":
            # the wrapper evaluates through x = T.inverse(r): rounding of that intermediate is inherent to its architecture;
            # measured from the float64 and long-double runs of the same code
            slack = _f64_noise(getattr(tf, name), x, libd[name])
        else:
            # closed-form classes: only the inherent conditioning with respect to the (exact) float64 argument, power-law
            # bound 100 eps |d_o| (1 + 10 |x| / distance to the nearest bound).  NOT the library's own float64-vs-long-double
            # difference: a rewrite that cancels (e.g. deriv = 2m (transform(x) - rmin)/(1 - x^2)) must not widen its own tolerance
            with np.errstate(all="ignore"):
                slack = 100 * np.finfo(float).eps * np.abs(est[o]) * (1 + 10 * np.abs(x) / ell)
                slack = np.where(np.isfinite(slack), slack, 0.0)
        any_decided |= _judge(ctx, name, subject, f"decided:{hookcls}:{name}", libd[name], est[o], tol[o] + slack, scale[o], x, {"args": args_note})
    # sign of the first derivative agrees with the direction of the sample
    if "deriv" in libd:
        ctx.check("monotone", subject + ":deriv-sign", bool(np.all(np.sign(libd["deriv"]) == direction)), sig="deriv-sign-vs-direction", detail={"args": args_note})

    fwd_abs = _robust_noise(F, x, fb, n)  # float64 rounding noise of the forward evaluation (absolute, in r)

    # ---------------- round trip
    with ctx.guard("roundtrip", subject):
        xb = _flat(G(r), n)
    if "xb" in locals():
        with np.errstate(all="ignore"):
            d1 = np.abs(est[0])
            fwd_noise = fwd_abs / d1
            inv_noise = _robust_noise(G, r, gb, n)
            e64 = np.finfo(float).eps
            tol_rt = 100 * (e64 * (np.abs(x) + np.abs(r) / d1) + fwd_noise + inv_noise) + 1e-13 * xscale
            dec = np.isfinite(tol_rt) & (tol_rt <= 1e-6 * xscale) & (100 * err[0] <= 0.1 * d1)
            ratio = np.where(dec, np.abs(xb - x) / tol_rt, 0.0)
            ratio[dec & ~np.isfinite(xb)] = np.inf
        ctx.count("points-decided:roundtrip", int(dec.sum()))
        ctx.count("points-undecided:roundtrip", int(n - dec.sum()))
        if dec.any():
            i = int(np.argmax(ratio))
            ctx.check("roundtrip", subject, float(ratio[i]), 1.0, sig="inverse-does-not-undo-forward", detail={"x": float(x[i]), "r": float(r[i]), "back": float(xb[i]), "tol_abs": float(tol_rt[i]), "args": args_note})
            ctx.hit(f"decided:{hookcls}:roundtrip")

    # ---------------- derivatives of the inverse map at r = F(x)
    # admissible arguments: images strictly inside the codomain (where the forward evaluation has collapsed onto an end
    # point - e.g. r - rmin below the resolution of r - the argument is the end point itself, where the derivative of
    # the inverse is infinite and the documented behaviour is ZeroDivisionError)
    vi = (r > gb[0]) & (r < gb[1])
    ctx.count("points-image-on-codomain-end", int(n - vi.sum()))
    if vi.sum() < 2:
        return {"r": r, "direction": direction, "any": any_decided, "libd": libd, "vi": vi}
    rv, xv = r[vi], x[vi]
    est_i, err_i, ell_i = _numder(G, rv, gb, gfrac, chunk)
    scale_i = _scales(est_i, ell_i)
    tol_i = TOL_REL * np.abs(est_i) + 100 * err_i + 1e-10 * scale_i
    # inverse-function-theorem values from the numerical derivatives of the FORWARD map (second, independent oracle);
    # the library is evaluated at the float64-rounded image, the theorem at the exact one: power-law sensitivity
    # <= 50 * |dx| / (distance to the nearest bound) is added to the tolerance
    with np.errstate(all="ignore"):
        d1, d2, d3 = est[:, vi]
        e1, e2, e3 = err[:, vi]
        ift = np.array([1 / d1, -d2 / d1**3, (3 * d2**2 - d1 * d3) / d1**5])
        ift_err = np.array(
            [
                e1 / d1**2,
                e2 / np.abs(d1) ** 3 + 3 * np.abs(d2) * e1 / d1**4,
                (6 * np.abs(d2) * e2 + np.abs(d3) * e1 + np.abs(d1) * e3) / np.abs(d1) ** 5 + 5 * np.abs(ift[2]) * e1 / np.abs(d1),
            ]
        )
        # displacement of the argument: actual float64 rounding of the image + the long-double image's own error
        # (~ float64 noise / 2048, from the robust estimate) + one ulp
        dx_round = (np.abs(r - rl.astype(float))[vi] + 0.01 * fwd_abs[vi] + np.finfo(float).eps * np.abs(rv)) / np.abs(d1)
        scale_f = _scales(ift, np.abs(d1) * ell[vi])  # ell in r units ~ |r'| * ell_x
        tol_f = TOL_REL * np.abs(ift) + 100 * ift_err + 1e-9 * scale_f + 50 * (dx_round / ell[vi]) * scale_f
    for o, name in enumerate(("deriv_inverse", "deriv2_inverse", "deriv3_inverse")):
        res = {}
        with ctx.guard(name, subject):
            res["v"] = _flat(getattr(tf, name)(rv), rv.size)
        if "v" not in res:
            continue
        noise = _f64_noise(getattr(tf, name), rv, res["v"])
        any_decided |= _judge(ctx, name, subject, f"decided:{hookcls}:{name}", res["v"], est_i[o], tol_i[o] + noise, scale_i[o], rv, {"args": args_note, "oracle_kind": "numdiff of tf.inverse", "point_is": "r"})
        _judge(ctx, name + "-ift", subject, f"decided:{hookcls}:{name}-ift", res["v"], ift[o], tol_f[o] + noise, scale_f[o], xv, {"args": args_note, "oracle_kind": "inverse function theorem on numdiff of tf.transform"})
    return {"r": r, "direction": direction, "any": any_decided, "libd": libd, "vi": vi}


def _noise_max(fn, arg, v64):
    """max |f(float64) - f(long double)| over the array (0 when the method has no long-double path)."""
    with np.errstate(all="ignore"):
        try:
            ld = np.asarray(fn(np.asarray(arg).astype(nd.LD)))
        except Exception:  # noqa: BLE001
            return 0.0
        ld = np.full(len(v64), ld, dtype=nd.LD) if ld.ndim == 0 else ld.reshape(-1)
        d = np.abs(np.asarray(v64, dtype=float) - ld.astype(float))
    d = d[np.isfinite(d)]
    return float(d.max()) if d.size else 0.0


def check_scalars(ctx, subject, tf, x, r):
    """np.float64 scalars give the same values as the array path, for every method."""
    idx = [0, len(x) // 3, len(x) // 2, len(x) - 1]
    worst, wname = 0.0, None
    for name, arg in (("transform", x), ("deriv", x), ("deriv2", x), ("deriv3", x), ("inverse", r), ("deriv_inverse", r), ("deriv2_inverse", r), ("deriv3_inverse", r)):
        fn = getattr(tf, name)
        res = {}
        with ctx.guard("scalar-equals-array", subject + "." + name):
            res["a"] = _flat(fn(arg), len(arg))
            res["s"] = [fn(np.float64(arg[i])) for i in idx]
        if "s" not in res:
            continue
        for j, i in enumerate(idx):
            s = np.asarray(res["s"][j], dtype=float)
            if s.size != 1:
                ctx.fail("scalar-equals-array", subject + "." + name, "scalar-input-gives-size!=1", detail={"shape": list(s.shape)})
                continue
            s = float(s.reshape(-1)[0])
            a = float(res["a"][i])
            floor = 1e-3 * float(np.max(np.abs(res["a"][np.isfinite(res["a"])]))) if np.any(np.isfinite(res["a"])) else 0.0
            # 1-ulp differences of scalar and vectorised pow() are amplified exactly like float64 rounding: allow 100 x the
            # measured float64 noise of the method (an identically-zero derivative obtained by cancellation is ALL noise)
            slack = 100 * _noise_max(fn, arg, res["a"]) / 1e-6
            dev = abs(s - a) / max(abs(a), floor, slack, 1e-300) if np.isfinite(a) and np.isfinite(s) else (0.0 if (s == a or (np.isnan(s) and np.isnan(a))) else np.inf)
            if dev > worst:
                worst, wname = dev, name
    ctx.check("scalar-equals-array", subject, worst, 1e-6,  # largest seen 6.8e-10 (deriv3_inverse: 1-ulp pow differences amplified by 3*d2^2 - d1*d3)
               sig=f"scalar!=array:{wname}", detail={"method": wname, "rel": worst})


def check_buffer_reuse(ctx, subject, tf, x, r):
    """Every method answers for the CURRENT contents of its argument: the same array object is passed twice,
    refilled in place in between (a caller reusing a buffer); the second answer must equal the answer for a
    fresh array with the same contents, bit for bit."""
    worst, wname = 0.0, None
    for name, arg in (("transform", x), ("deriv", x), ("deriv2", x), ("deriv3", x), ("inverse", r), ("deriv_inverse", r), ("deriv2_inverse", r), ("deriv3_inverse", r)):
        if len(arg) < 2:
            continue
        fn = getattr(tf, name)
        out = {}
        with ctx.guard("answers-for-current-argument-values", subject + "." + name):
            with np.errstate(all="ignore"):
                buf = np.array(arg, dtype=float)
                fn(buf)
                buf[:] = arg[::-1]
                out["second"] = _flat(fn(buf), len(arg))
                out["fresh"] = _flat(fn(np.array(arg[::-1], dtype=float)), len(arg))
        if "fresh" not in out:
            continue
        same = np.array_equal(out["second"], out["fresh"], equal_nan=True)
        if not same:
            fin = np.isfinite(out["fresh"]) & np.isfinite(out["second"])
            dev = float(np.max(np.abs(out["second"][fin] - out["fresh"][fin]) / (np.abs(out["fresh"][fin]) + 1e-300))) if fin.any() else np.inf
            if dev > worst or wname is None:
                worst, wname = max(dev, 1e-300), name
    ctx.check("answers-for-current-argument-values", subject, worst, 0.0, sig=f"stale-result-for-reused-array:{wname}", detail={"method": wname, "rel": worst})


METHODS_X = ("transform", "deriv", "deriv2", "deriv3")
METHODS_R = ("inverse", "deriv_inverse", "deriv2_inverse", "deriv3_inverse")
SING_END = {"Becke": ("hi",), "Knowles": ("hi",), "Handy": ("hi",), "MultiExp": ("lo",)}
EPS32 = float(np.finfo(np.float32).eps)
TOL_F32 = 1e5  # float32 eps units of the scale (see check_dtypes); largest seen on decided points ~1e3


def _outcome(fn, arg, n):
    """(values, None) or (None, exception) of one library call; harness errors propagate."""
    from gridrv import core

    try:
        with np.errstate(all="ignore"):
            return _flat(fn(arg), n), None
    except Exception as exc:  # noqa: BLE001
        if not core.is_library_exception(exc):
            raise
        return None, exc


def _int_args(lo, hi, m11, sing, include_lo):
    """Integer VALUES lying in [lo, hi]: for [-1,1] maps the subsets [0] and [-1,0,1] minus singular ends; otherwise up to
    12 consecutive-ish integers of the interval (0 included when it is a regular domain end)."""
    if m11:
        full = [v for v in (-1, 0, 1) if not ((v == -1 and "lo" in sing) or (v == 1 and "hi" in sing))]
        return [np.array([0]), np.array(full)]
    hi = min(hi, 2.0**31 - 1)  # representable as int32 as well
    if not (np.isfinite(lo) and np.isfinite(hi)) or hi < lo:
        return []
    a = int(math.ceil(lo)) if not include_lo else int(math.floor(lo))
    b = int(math.floor(hi))
    if b < a:
        return []
    vals = np.unique(np.linspace(a, b, min(12, b - a + 1)).round().astype(np.int64))
    return [vals]


def check_dtypes(ctx, subject, tf, xs, rs, xint, rint, documented_int, kind_note):
    """Input-class clause: every method gives the same VALUES for an integer-dtype (int64/int32) or float32 array as for
    the float64 copy of the same points.

    * integer arrays: equality to 1e-12 relative (integer powers vs pow()), same inf/NaN pattern, same exception type.
      ``documented_int``: integer point arrays are the documented use (b-scaled maps, Identity, Hyperbolic on 0..n-1):
      an exception there is a violation.  For the other maps an integer array is an accidental input class: a LOUD
      ValueError/TypeError is counted as ``rejected`` and observed, a silently different value is still a violation.
    * float32 arrays (mid part of the sample): |f32 - f64| <= eps32 x (1e5 x scale + 3000 x measured sensitivity to the
      argument + 3000 x measured size of internally cancelling terms); points whose tolerance exceeds 5 % of the scale are undecided; a mismatch coinciding with a float32
      overflow/underflow flag is counted, not decided.  A dtype-dependent code path gives O(1) differences.
    """
    worst, wname = 0.0, None
    n_cmp = 0
    for names, ints in ((METHODS_X, xint), (METHODS_R, rint)):
        for vals in ints:
            if vals.size == 0:
                continue
            for dt in (np.int64, np.int32):
                ai = vals.astype(dt)
                af = vals.astype(np.float64)
                for name in names:
                    fn = getattr(tf, name)
                    vf, ef = _outcome(fn, af, af.size)
                    vi, ei = _outcome(fn, ai, ai.size)
                    sub = f"{subject}.{name}"
                    if ei is not None and ef is None:
                        loud = isinstance(ei, (ValueError, TypeError))
                        if loud and not documented_int(names):
                            ctx.count("rejected:int-dtype-array:" + type(ei).__name__)
                            ctx.observe("integer-dtype point array rejected loudly by a map whose documented inputs are float nodes (numpy: integers to negative integer powers)", method=sub, error=str(ei)[:80], values=vals.tolist(), note=kind_note)
                            continue
                        ctx.fail("dtype-equals-float64", sub, f"raised-for-{dt.__name__}:{type(ei).__name__}", detail={"error": str(ei)[:200], "values": vals.tolist(), "args": kind_note})
                        continue
                    if ef is not None:
                        # float64 path raises too (e.g. ZeroDivisionError at an end where T'=0): same behaviour required
                        ctx.check("dtype-equals-float64", sub, ei is not None and type(ei) is type(ef), sig=f"{dt.__name__}-accepted-where-float64-raises", detail={"float64_error": str(ef)[:100]})
                        continue
                    with np.errstate(all="ignore"):
                        same = (vi == vf) | (np.isnan(vi) & np.isnan(vf))
                        fin = vf[np.isfinite(vf)]
                        floor = 1e-3 * float(np.abs(fin).max()) if fin.size else 0.0
                        slack = 100 * _noise_max(fn, af, vf) / 1e-12  # integer power vs pow(): ulp differences x conditioning
                        dev = np.abs(vi - vf) / np.maximum(np.maximum(np.abs(vf), floor), max(slack, 1e-300))
                        dev[same] = 0.0
                        dev[~np.isfinite(dev)] = np.inf
                    d = float(dev.max())
                    n_cmp += 1
                    if d > worst or wname is None:
                        worst, wname = d, f"{name}[{dt.__name__}]"
                    if d > 1e-12:
                        j = int(np.argmax(dev))
                        ctx.check("dtype-equals-float64", sub, d, 1e-12, sig=f"{dt.__name__}-array!=float64-array", detail={"value": int(vals[j]), "int_result": float(vi[j]), "float64_result": float(vf[j]), "args": kind_note})
    if n_cmp:
        ctx.check("dtype-equals-float64", subject, worst if worst <= 1e-12 else 0.0, 1e-12, detail={"worst_method": wname, "comparisons": n_cmp})
        ctx.hit("decided:dtype-int")
    # ---- float32
    worst32, w32 = 0.0, None
    for names, arr in ((METHODS_X, xs), (METHODS_R, rs)):
        if arr.size < 4:
            continue
        a32 = arr[arr.size // 4 : 3 * arr.size // 4].astype(np.float32)
        a64 = a32.astype(np.float64)
        for name in names:
            fn = getattr(tf, name)
            v64, e64 = _outcome(fn, a64, a64.size)
            v32, e32 = _outcome(fn, a32, a32.size)
            sub = f"{subject}.{name}"
            if e64 is not None or e32 is not None:
                if e64 is None and isinstance(e32, ZeroDivisionError):
                    # in float32 arithmetic the argument is indistinguishable from the end where T' = 0 (r - float32(rmin) == 0):
                    # the documented ZeroDivisionError of that end point; not an admissible float32 argument
                    ctx.count("float32-argument-collapses-onto-singular-end:" + name)
                    continue
                if (e64 is None) != (e32 is None):
                    ctx.fail("float32-equals-float64", sub, "raised-for-one-dtype-only:" + type(e32 or e64).__name__, detail={"error": str(e32 or e64)[:200], "args": kind_note})
                continue
            vk, ek = _outcome(fn, a64 * (1 + 1e-6), a64.size)
            with np.errstate(all="ignore"):
                # float32 arithmetic also rounds the PARAMETERS and derived constants (r - rmin with rmin cast to float32,
                # 1 - 2^m + (rmax - rmin)): observed up to ~1e3 eps32 of the scale on well-conditioned points. The
                # sensitivity to the argument is measured (kappa = |f(a(1+1e-6)) - f(a)| / 1e-6) and added; a point is
                # decided only while its tolerance stays below 5 % of the scale (a dtype-dependent code path is an O(1) error).
                scale = np.maximum(np.abs(v64), 0.1 * np.nanmax(np.abs(v64)))
                kappa = np.abs((vk if ek is None else np.full(a64.size, np.nan)) - v64) / 1e-6
                # internal cancellation (1 - exp(-t), 3 d2^2 - d1 d3 == 0): size of the cancelling terms measured from the
                # float64 rounding error of the same code against its long-double run, largest over this part of the sample
                cabs = _noise_max(fn, a64, v64) / np.finfo(float).eps
                tol = EPS32 * (TOL_F32 * scale + 3000 * kappa + 3000 * cabs)  # largest ratio seen with 300: 0.49 (thorough, Knowles)
                dec = np.isfinite(tol) & (tol <= 0.05 * scale) & np.isfinite(v64)
                dev = np.where(dec, np.abs(v32 - v64) / (tol + 1e-300), 0.0)
                dev[dec & ((v32 == v64) | (np.isnan(v32) & np.isnan(v64)))] = 0.0
                dev[dec & ~np.isfinite(dev)] = np.inf
            ctx.count("float32-points-decided", int(dec.sum()))
            ctx.count("float32-points-undecided", int(dec.size - dec.sum()))
            if not dec.any():
                continue
            d = float(dev.max())
            if d > worst32 or w32 is None:
                worst32, w32 = d, name
            if d > 1.0:
                # float32 has 8 bits of exponent: (3 d2^2 - d1 d3)/d1^5 and friends leave its range for ordinary parameters.
                # A mismatch that coincides with a float32 overflow / underflow / invalid flag is the number format, not the
                # library: counted, not decided.
                try:
                    with np.errstate(over="raise", under="raise", invalid="raise", divide="ignore"):
                        fn(a32)
                    flagged = False
                except FloatingPointError:
                    flagged = True
                except Exception:  # noqa: BLE001
                    flagged = False
                if flagged:
                    ctx.count("float32-range-exceeded:" + name)
                    d = 0.0
                    continue
                j = int(np.argmax(dev))
                ctx.check("float32-equals-float64", sub, d, 1.0, sig="float32-array!=float64-array", detail={"x": float(a64[j]), "float32_result": float(v32[j]), "float64_result": float(v64[j]), "args": kind_note})
    if w32 is not None:
        ctx.check("float32-equals-float64", subject, worst32 if worst32 <= 1.0 else 0.0, 1.0, detail={"worst_method": w32})
        ctx.hit("decided:dtype-float32")


def check_endpoints(ctx, subject, hookcls, I, tf, ends):
    """transform(reference end point) == required image (array and scalar path)."""
    for x_ref, want, label in ends:
        for mode in ("array", "array-last", "array-middle", "scalar"):
            got = {}
            with ctx.guard("endpoint", subject):
                if mode == "scalar":
                    v = tf.transform(np.float64(x_ref))
                    got["v"] = float(np.asarray(v, dtype=float).reshape(-1)[0])
                else:
                    # the end point at the first, the last or a middle position of an array that also holds interior
                    # points in no particular order (arrays need not be sorted, the end point may occur anywhere / twice)
                    xi = np.asarray(I.x, dtype=float)
                    a_, b_ = float(xi[len(xi) // 3]), float(xi[(2 * len(xi)) // 3])
                    arr, pos = {"array": ([x_ref, x_ref, b_, a_], 0), "array-last": ([b_, a_, x_ref], 2), "array-middle": ([b_, x_ref, a_, x_ref], 1)}[mode]
                    v = np.asarray(tf.transform(np.array(arr, dtype=float)), dtype=float).reshape(-1)
                    got["v"] = float(v[pos])
                    if mode == "array-middle":  # both occurrences must agree
                        if not (v[1] == v[3] or (np.isnan(v[1]) and np.isnan(v[3]))):
                            got["v"] = float(v[3])
            if "v" not in got:
                continue
            v = got["v"]
            if np.isinf(want):
                ok = v == want
                sig = f"{label}-end:" + ("nan" if np.isnan(v) else ("finite" if np.isfinite(v) else "wrong-sign-inf"))
                meas = ok
                tolv = 0.0
            elif want == 1e16:
                ok = v == 1e16
                sig = f"{label}-end:" + ("nan" if np.isnan(v) else ("inf-not-trimmed" if np.isinf(v) else "finite"))
                meas, tolv = ok, 0.0
            else:
                sc = max(abs(want), abs(I.args.get("rmax", 0) or 0), abs(I.args.get("rmin", 0) or 0), I.args.get("R", 0) or 0, 1e-300)
                meas = abs(v - want) / sc if np.isfinite(v) else np.inf
                tolv = 1e-10  # HandyMod(1) cancels terms of size 2^m (rmax-rmin) to 2^m: observed up to 2e-13
                sig = f"{label}-end:" + ("nan" if np.isnan(v) else "wrong-value")
            ctx.check("endpoint", subject, meas, tolv, sig=sig, detail={"x_ref": x_ref, "got": v, "want": want, "mode": mode, "args": _note(I)})
            ctx.hit(f"decided:{hookcls}:endpoint")


def check_endpoints_inverse(ctx, subject, I, inv, T):
    """InverseRTransform(T): images of T's codomain ends (infinity represented by 1e16) are T's reference end points."""
    ends = endpoints(I)
    for x_ref, r_ref, label in ends:
        if I.kind == "Identity" and np.isinf(r_ref):
            r_use = np.inf
        else:
            r_use = 1e16 if np.isinf(r_ref) else r_ref
        if np.isinf(x_ref) and not np.isinf(r_use):
            continue
        for mode in ("array", "scalar"):
            got = {}
            with ctx.guard("endpoint", subject):
                v = inv.transform(np.array([r_use, r_use]) if mode == "array" else np.float64(r_use))
                got["v"] = float(np.asarray(v, dtype=float).reshape(-1)[0])
            if "v" not in got:
                continue
            y = got["v"]
            detail = {"r_ref": r_use, "got": y, "want": x_ref, "mode": mode, "args": _note(I)}
            if r_use == 1e16 and I.kind != "Identity":
                # pre-image of the large finite number: either the end point itself or bracketed by the forward map
                if y == x_ref:
                    ok = True
                elif not np.isfinite(y) or abs(y) > 1:
                    ok = False
                else:
                    e = 8 * np.finfo(float).eps
                    with np.errstate(all="ignore"):
                        t = np.asarray(T.transform(np.array([max(-1.0, y - e), min(1.0, y + e)])), dtype=float)
                    lo_, hi_ = min(t), max(t)
                    ok = bool(lo_ <= 1e16 * (1 + 1e-9) and hi_ >= 1e16 * (1 - 1e-9))
                    detail["bracket"] = [float(lo_), float(hi_)]
                ctx.check("endpoint", subject, ok, sig=f"{label}-end:not-preimage-of-1e16", detail=detail)
            elif np.isinf(x_ref):
                ctx.check("endpoint", subject, y == x_ref, sig=f"{label}-end:not-inf", detail=detail)
            else:
                sc = max(abs(x_ref), I.xscale)
                ctx.check("endpoint", subject, abs(y - x_ref) / sc if np.isfinite(y) else np.inf, 1e-10, sig=f"{label}-end:" + ("nan" if np.isnan(y) else "wrong-value"), detail=detail)
            ctx.hit("decided:InverseRTransform:endpoint")
        # value at a true infinity: decided when the implementation yields a number, observed when it is inf/inf
        if np.isinf(r_ref) and I.kind != "Identity":
            with np.errstate(all="ignore"):
                try:
                    y = float(np.asarray(inv.transform(np.array([np.inf])), dtype=float)[0])
                except Exception as exc:  # noqa: BLE001 - observed only
                    y = None
                    ctx.observe(f"{subject}.transform(inf) raises {type(exc).__name__}")
            if y is not None:
                if np.isnan(y):
                    ctx.observe(f"{subject}.transform(inf) is NaN (inf/inf); the end point is decided at r=1e16 instead")
                else:
                    ctx.check("endpoint", subject + ":at-inf", y == x_ref, sig=f"{label}-end:at-inf-wrong", detail={"got": y, "want": x_ref})


def _note(I):
    return {k: (v if v is None or isinstance(v, (bool, int)) else float(v)) for k, v in I.args.items()}


# ------------------------------------------------------------------------------------------------ run
def setup(ctx):
    nd.self_test()
    try:
        from gridrv.oracles import transforms_ref
    except ImportError:
        return
    transforms_ref.self_test()


def run_case(ctx, family, params):
    import grid.rtransform as rt

    I = build(params, ctx.rng)
    note = _note(I)
    if I.positional:
        note["_constructed"] = "positional"
    ctx.case_note("args", note)
    tf = I.tf
    if family == "nested":
        _nested(ctx, I, params)
        return
    if family == "construction":
        _construction(ctx, I)
        return
    if family == "clones":
        _clones(ctx, I, params)
        return
    if family == "warnings-as-errors":
        _warnings_as_errors(ctx, I)
        return
    if family == "option-values":
        _option_values(ctx, I)
        return
    if params.get("bmode") == "learned":
        # the scale point b is learned from the first array the object sees: show it the sample first
        with ctx.guard("forward-evaluates", I.name):
            tf.transform(I.x)
        if tf.b is None or float(tf.b) != float(I.x.max()):
            ctx.fail("endpoint", I.name, "b-not-learned-as-max-of-first-array", detail={"b": tf.b, "max": float(I.x.max())})
            return
        ctx.count("b-learned-instances")
    if not params.get("inv"):
        res = check_map(ctx, I.name, CLS[I.kind], tf, I.x, I.fb, I.gb, I.frac, I.gfrac, I.xscale, I.chunk, note)
        if res is None:
            return
        check_scalars(ctx, I.name, tf, I.x[res["vi"]], res["r"][res["vi"]])
        check_buffer_reuse(ctx, I.name, tf, I.x[res["vi"]], res["r"][res["vi"]])
        check_endpoints(ctx, I.name, CLS[I.kind], I, tf, endpoints(I))
        m11 = I.fb == (-1.0, 1.0)
        half = I.kind in ("Identity", "LinearInfinite", "Exp", "Power", "Hyperbolic")  # integer nodes 0..n-1 are the documented use
        rr = res["r"][res["vi"]]
        xint = _int_args(0.0 if half else -1.0, float(I.x.max()), m11, SING_END.get(I.kind, ()), half)
        rint = _int_args(float(rr.min()), float(rr.max()), False, (), False) if rr.size else []
        check_dtypes(ctx, I.name, tf, I.x[res["vi"]], rr, xint, rint, lambda names, half=half: half and names is METHODS_X, note)
        # range: images of the reference interval lie in the codomain
        lo, hi = tf.codomain
        ref_hi = float(tf.b) if I.kind in ("LinearInfinite", "Exp", "Power") else np.inf
        inside = I.x <= ref_hi
        r = res["r"][inside]
        if r.size:
            sl = 1e-12 * max(abs(lo), abs(hi) if np.isfinite(hi) else 0, 1.0)
            ctx.check("range", I.name, bool(np.all(r >= lo - sl) and np.all(r <= hi + sl)), sig="image-outside-codomain", detail={"args": note, "min": float(r.min()), "max": float(r.max()), "codomain": [float(lo), float(hi)]})
        if I.kind == "Hyperbolic":
            with np.errstate(all="ignore"):
                v = float(np.asarray(tf.transform(np.array([np.inf])))[0])
            if np.isnan(v):
                ctx.observe("HyperbolicRTransform.transform(inf) is NaN (its upper reference point is the pole x=1/b, not a domain end); see C04")
        _secondary(ctx, I, res)
        if not res["any"]:
            ctx.trivial()
    else:
        # InverseRTransform wrapping the instance: forward = T.inverse on T's codomain, inverse = T.transform
        with np.errstate(all="ignore"):
            r = np.asarray(tf.transform(I.x), dtype=float).reshape(-1)
        if I.kind in ("LinearInfinite", "Exp", "Power"):
            r = r[I.x <= float(tf.b)] if np.any(I.x <= float(tf.b)) else r
        if not np.all(np.isfinite(r)):
            ctx.discard("wrapped forward map not finite on the sample")
            return
        # interior of the wrapper's domain only (images that collapsed onto a codomain end of T are end points)
        r = np.unique(r[(r > I.gb[0]) & (r < I.gb[1])])
        if r.size < 5:
            ctx.discard("fewer than 5 interior images")
            return
        with ctx.guard("constructible", "InverseRTransform(" + CLS[I.kind] + ")"):
            inv = rt.InverseRTransform(tf)
        name = "InverseRTransform(" + I.name + ")"
        dom_ok = tuple(inv.domain) == tuple(tf.codomain) and tuple(inv.codomain) == tuple(tf.domain)
        ctx.check("inverse-wrapper-domains", name, dom_ok, sig="domain/codomain-not-swapped")
        # scale of the r sample for absolute floors
        rscale = float(np.max(np.abs(r))) or 1.0
        res = check_map(ctx, name, "InverseRTransform", inv, r, I.gb, I.fb, I.gfrac, I.frac, rscale, I.chunk, note)
        if res is None:
            return
        check_scalars(ctx, name, inv, r[res["vi"]], res["r"][res["vi"]])
        check_buffer_reuse(ctx, name, inv, r[res["vi"]], res["r"][res["vi"]])
        check_endpoints_inverse(ctx, name, I, inv, tf)
        m11 = I.fb == (-1.0, 1.0)
        half = I.kind in ("Identity", "LinearInfinite", "Exp", "Power", "Hyperbolic")
        xx = res["r"][res["vi"]]  # the wrapper's inverse direction lives on T's domain
        xint = _int_args(float(r.min()), float(r.max()), False, (), False)
        rint = _int_args(0.0 if half else -1.0, float(xx.max()) if xx.size else 0.0, m11, SING_END.get(I.kind, ()), half)
        check_dtypes(ctx, name, inv, r[res["vi"]], xx, xint, rint, lambda names: False, note)
        if not res["any"]:
            ctx.trivial()


def _construction(ctx, I):
    """Positional (documented order) vs keyword construction: same attributes, same outputs of all 8 methods; wrapper too."""
    import grid.rtransform as rt

    cname = CLS[I.kind]
    cls = getattr(rt, cname)
    order = sig.TRANSFORM_ORDER[cname]
    pos, kw = sig.construct_both(ctx, cls, order, I.args, cname)
    if pos is None or kw is None:
        return
    sig.compare_transforms(ctx, cname, pos, kw, sig.TRANSFORM_ATTRS[cname], I.args, I.x)
    # the wrapper: InverseRTransform(transform)
    wp, wk = sig.construct_both(ctx, rt.InverseRTransform, ("transform",), {"transform": kw}, f"InverseRTransform({cname})")
    if wp is not None and wk is not None:
        with np.errstate(all="ignore"):
            r = np.asarray(kw.transform(I.x), dtype=float).reshape(-1)
        r = r[np.isfinite(r) & (r > I.gb[0]) & (r < I.gb[1])]
        if r.size:
            sig.compare_transforms(ctx, f"InverseRTransform({cname})", wp, wk, (), {}, r)
    if I.kind == "Becke":
        # static helper BeckeRTransform.find_parameter(array, rmin, radius)
        arr = np.sort(ctx.rng.uniform(-1, 1, 7))
        rmin, radius = 0.1, 1.7
        res = {}
        with ctx.guard("positional-equals-keyword", "BeckeRTransform.find_parameter"):
            res["p"] = cls.find_parameter(arr, rmin, radius)
            res["k"] = cls.find_parameter(array=arr, rmin=rmin, radius=radius)
        if "k" in res:
            mid = arr[3]
            ctx.check("positional-equals-keyword", "BeckeRTransform.find_parameter", res["p"] == res["k"], sig="outputs-differ:find_parameter")
            ctx.check("positional-binds-documented-order", "BeckeRTransform.find_parameter", abs(res["p"] - (radius - rmin) * (1 - mid) / (1 + mid)) <= 1e-12 * abs(res["p"]), sig="find_parameter!=(radius-rmin)(1-x_mid)/(1+x_mid)")


def _nested(ctx, I, params):
    """InverseRTransform(InverseRTransform(T)) (depth 2: the map T itself) and one more level (depth 3: the inverse map), as
    ordinary transform objects: all interior clauses against numdiff, end points, scalars, buffer reuse, and pointwise equality
    (values and all derivative methods) with T resp. InverseRTransform(T)."""
    import grid.rtransform as rt

    depth = params["nest"]
    T = I.tf
    note = _note(I)
    note["_nested_depth"] = depth
    if params.get("bmode") == "learned" and params.get("clone"):
        with np.errstate(all="ignore"):
            T.transform(I.x)  # a clone carries its own copy of the base: let the base learn b before it is copied
    W = T
    with ctx.guard("constructible", f"InverseRTransform^{depth}({CLS[I.kind]})"):
        for _ in range(depth):
            W = rt.InverseRTransform(W)
    if W is T:
        return
    if params.get("clone"):
        W = roundtrip.clone(W, params["clone"])
    like_T = depth % 2 == 0
    name = "InverseRTransform(" * depth + I.name + ")" * depth

    def admissible_base_points(xb):
        """The nested wrapper evaluates 1/(1/T'(.)) through x -> T(x) -> T.inverse(...): base points whose image collapses onto a
        codomain end (r - rmin below the resolution of r), or where T' is 0 / inf, hit the documented ZeroDivisionError of the inner
        wrapper; they are end points in float64, not interior points."""
        ok = np.ones(xb.size, dtype=bool)
        with np.errstate(all="ignore"):
            cur = np.asarray(xb, dtype=float)
            for _ in range(2):
                rr = np.asarray(T.transform(cur), dtype=float).reshape(-1)
                ok &= np.isfinite(rr) & (rr > I.gb[0]) & (rr < I.gb[1])
                cur = np.asarray(T.inverse(rr), dtype=float).reshape(-1)
                d = _flat(T.deriv(cur), cur.size)
                ok &= np.isfinite(d) & (d != 0) & np.isfinite(cur)
        return ok
    # declared domain / codomain
    dom, cod = (T.domain, T.codomain) if like_T else (T.codomain, T.domain)
    ok = tuple(map(float, W.domain)) == tuple(map(float, dom)) and tuple(map(float, W.codomain)) == tuple(map(float, cod))
    ctx.check("inverse-wrapper-domains", name, ok, sig="nested-wrapper-domain/codomain-not-those-of-the-reduced-map", detail={"domain": [float(v) for v in W.domain], "codomain": [float(v) for v in W.codomain], "expected_domain": [float(v) for v in dom]})
    if like_T:
        if params.get("bmode") == "learned":
            with ctx.guard("forward-evaluates", name):
                W.transform(I.x)  # the base learns b from the first array that reaches it
        x = I.x[admissible_base_points(I.x)]
        ctx.count("nested:sample-points-collapsing-onto-an-end", int(I.x.size - x.size))
        if x.size < 5:
            ctx.discard("fewer than 5 admissible interior points")
            return
        res = check_map(ctx, name, "InverseRTransform", W, x, I.fb, I.gb, I.frac, I.gfrac, I.xscale, I.chunk, note)
        ref = T
    else:
        with np.errstate(all="ignore"):
            r = np.asarray(T.transform(I.x), dtype=float).reshape(-1)
        if I.kind in ("LinearInfinite", "Exp", "Power"):
            r = r[I.x <= float(T.b)] if np.any(I.x <= float(T.b)) else r
        r = np.unique(r[np.isfinite(r) & (r > I.gb[0]) & (r < I.gb[1])])
        if r.size:
            with np.errstate(all="ignore"):
                r = r[admissible_base_points(np.asarray(T.inverse(r), dtype=float).reshape(-1))]
        if r.size < 5:
            ctx.discard("fewer than 5 interior images")
            return
        x = r
        res = check_map(ctx, name, "InverseRTransform", W, x, I.gb, I.fb, I.gfrac, I.frac, float(np.max(np.abs(r))) or 1.0, I.chunk, note)
        ref = rt.InverseRTransform(T)
    if res is None:
        return
    xv, rv = x[res["vi"]], res["r"][res["vi"]]
    check_scalars(ctx, name, W, xv, rv)
    check_buffer_reuse(ctx, name, W, xv, rv)
    if like_T:
        check_endpoints(ctx, name, "InverseRTransform", I, W, endpoints(I))
    else:
        check_endpoints_inverse(ctx, name, I, W, T)
    # pointwise equal to the reduced map: values and every derivative / inverse-derivative method
    worst, wname = 0.0, None
    for names, arg in ((METHODS_X, xv), (METHODS_R, rv)):
        for mname in names:
            a, ea = _outcome(getattr(W, mname), arg, arg.size)
            b, eb = _outcome(getattr(ref, mname), arg, arg.size)
            if ea is not None or eb is not None:
                ctx.check("nested-equals-reduced-map", f"{name}.{mname}", ea is not None and eb is not None and type(ea) is type(eb), sig="raises-differently-from-the-reduced-map", detail={"nested": repr(ea)[:80], "reduced": repr(eb)[:80]})
                continue
            with np.errstate(all="ignore"):
                fin = b[np.isfinite(b)]
                floor = 1e-3 * float(np.abs(fin).max()) if fin.size else 0.0
                slack = 100 * max(_noise_max(getattr(W, mname), arg, a), _noise_max(getattr(ref, mname), arg, b))
                dev = np.abs(a - b) / (1e-8 * np.maximum(np.abs(b), floor) + slack + 1e-300)
                dev[(a == b) | (np.isnan(a) & np.isnan(b))] = 0.0
                dev[~np.isfinite(dev)] = np.inf
            d = float(dev.max()) if dev.size else 0.0
            if d > 1:
                j = int(np.argmax(dev))
                ctx.check("nested-equals-reduced-map", f"{name}.{mname}", d, 1.0, sig="differs-from-the-reduced-map", detail={"x": float(arg[j]), "nested": float(a[j]), "reduced": float(b[j]), "args": note})
            if d > worst or wname is None:
                worst, wname = d, mname
    ctx.check("nested-equals-reduced-map", name, worst if worst <= 1 else 0.0, 1.0, detail={"worst_method": wname})
    ctx.hit("decided:nested")
    if not res["any"]:
        ctx.trivial()


def _outputs(tf, x, ends, grids=()):
    """Every observable of one transform object: 8 methods on the interior sample + reference end points (array and scalar),
    and transformed grids.  Exceptions are part of the outcome.  Returns {label: array | ('raised', type name)}."""
    from gridrv import core

    out = {}
    xs = np.concatenate([x, np.asarray(ends, dtype=float)]) if len(ends) else x
    with np.errstate(all="ignore"):
        r = None
        for name in sig.METHODS_X + sig.METHODS_R:
            arg = xs if name in sig.METHODS_X else r
            if arg is None:
                continue
            for mode in ("array", "scalar"):
                try:
                    if mode == "array":
                        v = np.asarray(getattr(tf, name)(np.array(arg, dtype=float)), dtype=float).reshape(-1)
                    else:
                        v = np.array([float(np.asarray(getattr(tf, name)(np.float64(a)), dtype=float).reshape(-1)[0]) for a in arg[-4:]])
                except Exception as exc:  # noqa: BLE001
                    if not core.is_library_exception(exc):
                        raise
                    v = ("raised", type(exc).__name__)
                out[f"{name}[{mode}]"] = v
                if name == "transform" and mode == "array" and not isinstance(v, tuple):
                    r = v[np.isfinite(v)]
        for label, g in grids:
            try:
                ng = tf.transform_1d_grid(g)
                out[f"transform_1d_grid[{label}]"] = np.concatenate([np.asarray(ng.points, dtype=float), np.asarray(ng.weights, dtype=float), np.asarray(ng.domain, dtype=float)])
            except Exception as exc:  # noqa: BLE001
                if not core.is_library_exception(exc):
                    raise
                out[f"transform_1d_grid[{label}]"] = ("raised", type(exc).__name__)
    return out


def _diff_outputs(a, b):
    bad = []
    for k in a:
        va, vb = a[k], b.get(k)
        if isinstance(va, tuple) or isinstance(vb, tuple):
            if va != vb:
                bad.append(k)
        elif vb is None or va.shape != vb.shape or not np.array_equal(va, vb, equal_nan=True):
            bad.append(k)
    return bad


def _ref_ends(I):
    if I.kind in ("LinearInfinite", "Exp", "Power"):
        b = I.args.get("b")
        return [0.0, float(b) if b is not None else float(I.x.max())]  # learned b = max of the first array = max(I.x)
    return [e for e, _, _ in endpoints(I) if np.isfinite(e)]


def _test_grids(I):
    import grid.onedgrid as og

    if I.fb == (-1.0, 1.0):
        return [("GaussLegendre", og.GaussLegendre(6)), ("Trapezoidal-closed", og.Trapezoidal(5))]
    if I.kind == "Power":
        return [("UniformInteger", og.UniformInteger(6))]
    return [("UniformInteger", og.UniformInteger(6)), ("GaussLaguerre", og.GaussLaguerre(5))]


def _fresh(I, **override):
    import grid.rtransform as rt

    return getattr(rt, CLS[I.kind])(**{**I.args, **override})


def _option_values(ctx, I):
    """trim_inf passed as np.bool_, np.True_/np.False_, 0/1, np.int64, np.int8: every output identical to the literal bool."""
    cname = CLS[I.kind]
    flag = bool(I.args["trim_inf"])
    ref = _outputs(_fresh(I, trim_inf=flag), I.x, _ref_ends(I), _test_grids(I))
    spell = {"np.bool_": np.bool_(flag), "np.True_/np.False_": (np.True_ if flag else np.False_), "int": int(flag), "np.int64": np.int64(flag), "np.int8": np.int8(flag), "np.uint8": np.uint8(flag)}
    for label, val in spell.items():
        res = {}
        with ctx.guard("option-value-equals-literal-bool", cname):
            res["tf"] = _fresh(I, trim_inf=val)
        if "tf" not in res:
            continue
        got = _outputs(res["tf"], I.x, _ref_ends(I), _test_grids(I))
        bad = _diff_outputs(ref, got)
        ctx.check("option-value-equals-literal-bool", cname, not bad, sig=f"trim_inf={'on' if flag else 'off'}-as-{label}:differs-from-literal:" + ",".join(sorted({b.split('[')[0] for b in bad})), detail={"outputs": bad[:8], "args": _note(I)})
    ctx.hit("decided:option-values")


def _clones(ctx, I, params):
    """copy.copy / copy.deepcopy / pickle round trips behave identically, including a learned / remembered scale point b."""
    cname = CLS[I.kind]
    ends, grids = _ref_ends(I), _test_grids(I)
    learned = params.get("bmode") == "learned"
    x2 = I.x * 1.7 if I.fb != (-1.0, 1.0) else I.x
    for kind in roundtrip.KINDS:
        for when in ("fresh", "used"):
            orig = _fresh(I)
            res = {}
            with ctx.guard("clone-equals-original", f"{cname}:{kind}"):
                if when == "used":
                    orig.transform(I.x)  # b learned (b-scaled maps with b=None) before cloning
                res["c"] = roundtrip.clone(orig, kind)
            if "c" not in res:
                continue
            c = res["c"]
            if when == "used" and learned:
                ctx.check("clone-equals-original", f"{cname}:{kind}", c.b is not None and float(c.b) == float(orig.b), sig="learned-b-not-carried-by-the-clone", detail={"b_orig": orig.b, "b_clone": c.b})
            a = _outputs(orig, I.x, ends, grids)
            b = _outputs(c, I.x, ends, grids)
            bad = _diff_outputs(a, b)
            # second, larger array: a remembered b must be kept by both (no re-learning)
            a2 = _outputs(orig, x2, (), ())
            b2 = _outputs(c, x2, (), ())
            bad += ["second-array:" + k for k in _diff_outputs(a2, b2)]
            attrs = [n for n in sig.TRANSFORM_ATTRS[cname] if not sig._same_value(getattr(orig, n), getattr(c, n))]
            ctx.check("clone-equals-original", f"{cname}:{kind}", not bad and not attrs, sig=f"{when}-object:" + ("attributes-differ:" + ",".join(attrs) if attrs else "outputs-differ:" + ",".join(sorted({k.split('[')[0] for k in bad}))), detail={"outputs": bad[:8], "args": _note(I)})
    # the wrapper
    import grid.rtransform as rt

    inner = _fresh(I)
    inner.transform(I.x)
    w = rt.InverseRTransform(inner)
    with np.errstate(all="ignore"):
        r = np.asarray(inner.transform(I.x), dtype=float).reshape(-1)
    r = r[np.isfinite(r) & (r > I.gb[0]) & (r < I.gb[1])]
    if r.size:
        for kind in roundtrip.KINDS:
            res = {}
            with ctx.guard("clone-equals-original", f"InverseRTransform({cname}):{kind}"):
                res["c"] = roundtrip.clone(w, kind)
            if "c" in res:
                bad = _diff_outputs(_outputs(w, r, (), ()), _outputs(res["c"], r, (), ()))
                ctx.check("clone-equals-original", f"InverseRTransform({cname}):{kind}", not bad, sig="outputs-differ:" + ",".join(sorted({k.split('[')[0] for k in bad})))
    ctx.hit("decided:clones")


def _warnings_as_errors(ctx, I):
    """With warnings turned into errors the methods that carry their own guard (literal table GUARDED_UNDER_W_ERROR) still return the
    documented values at the reference end points; everything else that raises there is COUNTED (observation), not decided."""
    import warnings

    cname = CLS[I.kind]
    tf = _fresh(I)
    if I.args.get("b", 0) is None:
        tf.transform(I.x)
    ends = _ref_ends(I)
    guarded = GUARDED_UNDER_W_ERROR.get(cname, ())
    calls = []
    for name in sig.METHODS_X:
        for e in ends:
            calls.append((name, e, "array", lambda n=name, e=e: np.asarray(getattr(tf, n)(np.array([e, e])), dtype=float).reshape(-1)))
            calls.append((name, e, "scalar", lambda n=name, e=e: np.asarray(getattr(tf, n)(np.float64(e)), dtype=float).reshape(-1)))
    for label, g in _test_grids(I):
        def run(g=g):
            ng = tf.transform_1d_grid(g)
            return np.concatenate([np.asarray(ng.points, dtype=float), np.asarray(ng.weights, dtype=float), np.asarray(ng.domain, dtype=float)])

        calls.append(("transform_1d_grid", label, "grid", run))
    for name, e, mode, fn in calls:
        decide = name in guarded or (name == "transform_1d_grid" and guarded)
        with warnings.catch_warnings():
            warnings.simplefilter("ignore")
            with np.errstate(all="warn"):
                try:
                    quiet = fn()
                except Exception as exc:  # noqa: BLE001 - e.g. ZeroDivisionError of the wrapper: same under both filters
                    quiet = ("raised", type(exc).__name__)
        with warnings.catch_warnings():  # restores the worker's filters on exit
            warnings.simplefilter("error")
            with np.errstate(all="warn"):
                try:
                    loud = fn()
                except Warning as wexc:
                    loud = ("warning", type(wexc).__name__, str(wexc)[:60])
                except Exception as exc:  # noqa: BLE001
                    loud = ("raised", type(exc).__name__)
        where = f"{cname}.{name}"
        if isinstance(loud, tuple) and loud[0] == "warning":
            if decide:
                ctx.check("guarded-under-W-error", where, False, sig=f"raises-{loud[1]}-under-W-error-at-{'grid' if mode == 'grid' else 'end-point'}", detail={"point": e if mode != "grid" else str(e), "mode": mode, "warning": loud[2], "args": _note(I)})
            else:
                ctx.count(f"raises-under-W-error(not-guarded-by-the-library):{where}")
            continue
        if decide:
            same = (isinstance(quiet, tuple) and quiet == loud) or (not isinstance(quiet, tuple) and not isinstance(loud, tuple) and np.array_equal(quiet, loud, equal_nan=True))
            ctx.check("guarded-under-W-error", where, same, sig="value-under-W-error-differs-from-default-filters", detail={"point": e if mode != "grid" else str(e), "mode": mode})
            ctx.hit("decided:warnings-as-errors")
    if not guarded:
        ctx.trivial()


def _secondary(ctx, I, res):
    """mpmath layer: only when the implemented forward map agrees with the documented formula to 1e-12."""
    try:
        from gridrv.oracles import transforms_ref
    except ImportError:
        return
    transforms_ref.compare(ctx, I, res)
