"""C11 - periodic local grids contain every periodic image inside the sphere exactly once."""

from __future__ import annotations

import math
import weakref

import numpy as np

from gridrv import core, instrument
from gridrv.oracles import periodic_ref as pref
from gridrv.monitors import roundtrip
from gridrv.props import c10 as c10mod

PROP = "C11"
TITLE = "Periodic local grids contain every periodic image inside the sphere exactly once"
REQUIRED_HOOKS = ["PeriodicGrid.__init__", "PeriodicGrid.get_localgrid"]
REQUIRED_FAMILIES = ["witness", "lattice", "nolattice", "history", "select"]
BUDGET = {"quick": 300, "thorough": 3000}
RULE = (
    "Post-conditions attached to PeriodicGrid.__init__ and PeriodicGrid.get_localgrid fire on every call in the process. "
    "get_localgrid: the multiset of (parent index, integer lattice translation) recovered from lg.indices and "
    "lg.points - parent.points[lg.indices] (must be an integer combination of the lattice vectors to 1e-8) equals the brute-force "
    "enumeration over a rigorously bounded integer box with a plain distance test (no k-d tree), outside a 1e-9 relative tie band; no "
    "pair twice; weights == parent weights; centre kept; empty sphere => size-0 LocalGrid. __init__: recivecs.realvecs^T = I and equal to "
    "the dual basis from a linear solve, spacings = distance of a_k from the span of the other vectors, wrapped points have fractional "
    "coordinates in [0,1) and differ from the input by lattice vectors, frac_intvls = min/max fractional coordinate. One case of family "
    "'lattice' = one random cell (dim 1-3 x 1..dim lattice vectors; cubic, orthorhombic, skewed down to 20 deg, left-handed, negative, "
    "aspect 1:50, random rotation) x point placement (inside the cell, +-5 cells outside, one point) x wrap on/off, then 9-14 queries "
    "(centres in the cell, on a grid point, on a far image of a grid point, +-10 cells away; radii 0, tiny (empty), fractions and multiples "
    "of the smallest/largest plane spacing, near-tie radii d_k(1+-1e-8), exact ties). Family 'nolattice': dim 1-3 without lattice "
    "vectors (None or empty array; every lattice case with even k also ends with a clone step: copy/deepcopy/pickle clone, same query to both, "
    "one mutated, both queried again; history cases keep up to three live clones; selections are cloned too), every finite-radius query mirrored on a plain Grid; r=inf recorded only. Family 'history': lattice "
    "grids whose points/weights are reassigned through the public setters between queries. Family 'select': __getitem__ on lattice "
    "grids followed by queries on the selection. Weight vectors of every family by class (uniform, positive, negative, some/mostly/all exact "
    "zeros of both signs, denormal/1e-300, 1e300, int64, int32): membership must depend on geometry only, weights are exact copies. Brute-force cost is bounded by shrinking the radius until <= 20000 translations."
)
ASSUMPTIONS = [
    "distance == radius is a don't-care inside a relative band of 1e-9 (plus 64 eps x coordinate magnitude)",
    "lattice condition number <= 1e6, dimensions 1..3",
    "r = inf without lattice vectors is recorded, not decided (the repository's tests require a ValueError there)",
]
LEVEL_TEXT = "Held on the explored cells, point sets, centres and radii (random, structured and hostile families) against an exhaustive image enumeration."
TECHNIQUE = "runtime monitoring: post-conditions on PeriodicGrid.__init__/get_localgrid with a brute-force periodic image reference model"

TOL_LATTICE = 1e-9  # constructor attributes (largest value seen 2e-12)
TOL_TRANSLATION = 1e-8  # recovered translation must be an integer lattice combination (largest value seen 7e-12 with 1:50 cells +-10 cells away; a wrong image is off by >= 1)
TOL_COPY = 1e-12
MAX_MONITOR_WORK = 4e7  # translations x points the monitor is willing to enumerate for one call
MAX_TRANSLATIONS = 20000  # workload: shrink the radius until the reference box has at most this many translations

_INIT_POINTS = weakref.WeakKeyDictionary()  # instance -> points array it was constructed with (detects reassignment)


# ---------------------------------------------------------------------------------------------- monitors
def _dimcode(p):
    return "1d-flat" if p.ndim == 1 else f"{p.shape[1]}d"


def _nl(rv):
    return 0 if rv.size == 0 else (1 if rv.ndim == 1 else rv.shape[0])


def _subject(g):
    return f"PeriodicGrid/{_dimcode(g.points)}/nl{_nl(g.realvecs)}"


def check_init(ctx, g, points, weights, realvecs, wrap, exc):
    try:
        adm = isinstance(points, np.ndarray) and isinstance(weights, np.ndarray) and points.ndim in (1, 2) and weights.ndim == 1 and len(points) == len(weights) and len(points) > 0
        adm = adm and points.dtype.kind == "f" and bool(np.all(np.isfinite(points)))
        if adm and realvecs is not None:
            adm = isinstance(realvecs, np.ndarray) and realvecs.ndim == points.ndim and realvecs.shape[1:] == points.shape[1:] and bool(np.all(np.isfinite(realvecs)))
        dim = 1 if (adm and points.ndim == 1) else (points.shape[1] if adm else 0)
        A = pref.lattice_rows(realvecs if realvecs is not None else np.zeros(0), dim) if adm else None
        if adm:
            nl = A.shape[0]
            adm = nl <= dim
            if adm and nl:
                s = np.linalg.svd(A, compute_uv=False)
                adm = s.min() > 1e-6 * s.max()
    except Exception:
        adm = False
    if not adm:
        ctx.count("init:inadmissible-" + ("rejected" if exc is not None else "accepted"))
        return
    subj = f"PeriodicGrid.__init__/{_dimcode(points)}/nl{nl}" + ("/wrap" if wrap else "")
    if exc is not None:
        if isinstance(exc, Exception):
            ctx.fail("constructible", subj, f"raised:{type(exc).__name__}", detail={"error": str(exc)[:200], "tb": core.short_tb(exc), "realvecs": realvecs})
        return
    ctx.check("constructible", subj, True)
    _INIT_POINTS[g] = g.points
    P = pref.as2d(g.points)
    P_in = pref.as2d(points)
    ctx.check("attributes-kept", subj, bool(np.array_equal(np.asarray(g.weights), weights)), sig="weights")
    ctx.check("attributes-kept", subj, _nl(g.realvecs) == nl and bool(np.array_equal(pref.lattice_rows(g.realvecs, dim), A)), sig="realvecs")
    if nl == 0:
        ctx.check("attributes-kept", subj, g.points.shape == points.shape and bool(np.array_equal(g.points, points)), sig="points-changed-without-lattice")
        ctx.check("frac-intervals", subj, np.asarray(g.frac_intvls).size == 0 and np.asarray(g.spacings).size == 0 and np.asarray(g.recivecs).size == 0, sig="not-empty-without-lattice")
        return
    Bref = pref.dual_rows(A)
    R = pref.lattice_rows(np.asarray(g.recivecs), dim)
    if ctx.check("reciprocal-dual", subj, R.shape == A.shape, sig="shape"):
        ctx.check("reciprocal-dual", subj, float(np.abs(R @ A.T - np.eye(nl)).max()), TOL_LATTICE, sig="not-dual", detail={"R.A^T": R @ A.T})
        ctx.check("reciprocal-dual", subj, float(np.abs(R - Bref).max() / np.abs(Bref).max()), TOL_LATTICE, sig="not-in-span")
    sp = np.asarray(g.spacings, dtype=float).reshape(-1)
    sref = pref.plane_spacings(A)
    if ctx.check("plane-spacings", subj, sp.shape == sref.shape, sig="shape", detail={"shape": list(sp.shape)}):
        sig = "negative" if np.any(sp < 0) else ("too-large" if np.any(sp > sref * (1 + 1e-6)) else "too-small")
        ctx.check("plane-spacings", subj, float(np.abs(sp / sref - 1).max()), TOL_LATTICE, sig=sig, detail={"got": sp, "want": sref})
    frac = P @ Bref.T
    if wrap:
        lo, hi = float(frac.min()), float(frac.max())
        ctx.check("wrap-into-cell", subj, max(0.0, -lo, hi - 1.0), TOL_LATTICE, sig="fractional-outside-[0,1)", detail={"min": lo, "max": hi})
        d = P - P_in
        jf = d @ Bref.T
        j = np.rint(jf)
        scale = 1.0 + float(np.abs(P_in).max())
        ctx.check("wrap-into-cell", subj, max(float(np.abs(jf - j).max()), float(np.abs(d - j @ A).max()) / scale), TOL_LATTICE, sig="moved-by-non-lattice-vector")
    else:
        ctx.check("attributes-kept", subj, g.points.shape == points.shape and bool(np.array_equal(g.points, points)), sig="points-changed-without-wrap")
    fi = np.asarray(g.frac_intvls, dtype=float)
    if ctx.check("frac-intervals", subj, fi.shape == (nl, 2), sig="shape", detail={"shape": list(fi.shape)}):
        want = np.array([frac.min(axis=0), frac.max(axis=0)]).T
        ctx.check("frac-intervals", subj, float(np.abs(fi - want).max() / (1.0 + np.abs(want).max())), TOL_LATTICE, sig="value", detail={"got": fi, "want": want})


def check_periodic_localgrid(ctx, g, center, radius, lg, exc):
    from grid.basegrid import LocalGrid

    rv = np.asarray(g.realvecs)
    if rv.size == 0:
        if c10mod._is_real_number(radius) and radius == np.inf:
            key = "no-lattice-inf-radius:" + ("raised " + type(exc).__name__ if exc is not None else "returned " + type(lg).__name__)
            if key not in ctx.notes:
                ctx.observe("PeriodicGrid without lattice vectors, radius=inf (plain Grid returns the whole grid; the repository's tests require ValueError) - not decided", outcome=key)
            ctx.count(key)
            return
        c10mod.check_localgrid(ctx, g, center, radius, lg, exc)
        return
    subj = _subject(g)
    pts = np.asarray(g.points)
    w = np.asarray(g.weights)
    P = pref.as2d(pts)
    n, dim = P.shape
    A = pref.lattice_rows(rv, dim)
    try:
        c = np.asarray(center)
        adm = c.shape == pts.shape[1:] and c.dtype.kind in "fiu" and bool(np.all(np.isfinite(c)))
    except Exception:
        adm = False
    adm = adm and c10mod._is_real_number(radius) and math.isfinite(float(radius)) and radius >= 0 and bool(np.all(np.isfinite(P)))
    if not adm:
        ctx.count("localgrid:inadmissible-" + ("rejected" if exc is not None else "accepted"))
        return
    radius = float(radius)
    work = pref.image_count(P, A, c, radius) * float(n)
    if work > MAX_MONITOR_WORK:
        ctx.count("localgrid:reference-too-costly-skipped")
        return
    must, may = pref.images(P, A, c, radius)
    clause = "image-set-exact" if may else "empty-sphere-empty-grid"
    init_pts = _INIT_POINTS.get(g)
    tail = "@after-points-reassign" if (init_pts is not None and g.points is not init_pts) else ""
    if exc is not None:
        if isinstance(exc, Exception):
            ctx.fail(clause, subj, f"raised:{type(exc).__name__}{tail}", detail={"error": str(exc)[:200], "tb": core.short_tb(exc), "N": n, "radius": radius, "center": c, "realvecs": rv, "n_images": len(must)})
        return
    ctx.count("query:" + clause)
    if not ctx.check("returns-localgrid", subj, isinstance(lg, LocalGrid), sig=f"type:{type(lg).__name__}"):
        return
    idx = lg.indices
    if not (isinstance(idx, np.ndarray) and idx.ndim == 1 and idx.dtype.kind in "iu"):
        ctx.check("indices-valid", subj, False, sig="not-1d-integer-array" + tail, detail={"dtype": str(getattr(idx, "dtype", type(idx))), "shape": list(getattr(idx, "shape", []))})
        return
    if not ctx.check("indices-valid", subj, bool(np.all((idx >= 0) & (idx < n))) if idx.size else True, sig="out-of-range" + tail):
        return
    lp = np.asarray(lg.points)
    if not ctx.check("translation-is-lattice-vector", subj, lp.shape == (idx.size,) + pts.shape[1:], sig="shape" + tail, detail={"shape": list(lp.shape)}):
        return
    LP = lp.reshape(idx.size, dim)
    B = pref.dual_rows(A)
    t = LP - P[idx]
    jf = t @ B.T
    j = np.rint(jf)
    if idx.size:
        scale = 1.0 + max(float(np.abs(P).max()), float(np.abs(LP).max()))
        m = max(float(np.abs(jf - j).max()), float(np.abs(t - j @ A).max()) / scale)
    else:
        m = 0.0
    # rounding of "parent + translation" grows with the size of the translation: the integer part j is known to about
    # eps * |j| * cond(cell), so the tolerance scales with |j| beyond 100 cells (a wrong image is off by >= 1)
    jmax = float(np.abs(j).max()) if idx.size else 0.0
    ctx.check("translation-is-lattice-vector", subj, m / max(1.0, jmax / 100.0), TOL_TRANSLATION, sig="non-lattice-displacement" + tail)
    if not m <= 1e-3:
        return  # the pairs cannot be recovered
    pairs = [(int(i), tuple(int(v) for v in row)) for i, row in zip(idx, j)]
    got = set(pairs)
    ndup = len(pairs) - len(got)
    ctx.check("no-image-twice", subj, float(ndup), 0.0, sig="duplicate-images" + tail, detail={"duplicates": ndup})
    missing = [k for k in must if k not in got]
    extra = [k for k in got if k not in may]
    nm, ne = len(missing), len(extra)
    sig = ("missing-images" if nm else "") + ("+" if nm and ne else "") + ("extra-images" if ne else "")
    if nm and w.shape == (n,) and all(w[k[0]] == 0 for k in missing):
        sig += ":all-zero-weight"  # membership depends on the weights instead of geometry only
    det = None
    if nm or ne:
        det = {"N": n, "radius": radius, "center": c, "realvecs": rv, "n_expected": len(must), "n_got": len(pairs), "missing": nm, "extra": ne, "frac_intvls": np.asarray(g.frac_intvls)}
        if nm:
            k = max(missing, key=lambda q: -must[q])
            det["missing_example"] = {"index": k[0], "translation": list(k[1]), "dist_over_r": must[k] / radius if radius else must[k]}
        if ne:
            k = extra[0]
            x = P[k[0]] + np.array(k[1]) @ A
            det["extra_example"] = {"index": k[0], "translation": list(k[1]), "dist_over_r": float(np.linalg.norm(x - np.atleast_1d(c))) / radius if radius else None}
    ctx.check(clause, subj, float(nm + ne), 0.0, sig=sig + tail, detail=det)
    lw = np.asarray(lg.weights)
    if ctx.check("weights-match-parent", subj, lw.shape == (idx.size,), sig="shape" + tail):
        wscale = 1.0 + (float(np.abs(w).max()) if w.size else 0.0)
        dw = float(np.abs(lw - w[idx]).max()) / wscale if idx.size else 0.0
        exact = bool(np.array_equal(lw, w[idx]))  # weights are copies: exact, also for denormal / integer weights
        ctx.check("weights-match-parent", subj, 0.0 if exact else max(dw, 2 * TOL_COPY), TOL_COPY, sig="values" + tail, detail={"max_rel_diff": dw, "dtype": str(lw.dtype), "parent_dtype": str(w.dtype)})
    ctx.check("size-consistent", subj, int(lg.size) == int(idx.size), sig="size" + tail)
    try:
        lc = np.asarray(lg.center)
        okc = lc.shape == c.shape and bool(np.array_equal(lc, c))
    except Exception:
        okc = False
    ctx.check("center-kept", subj, okc, sig="center" + tail)


def install_monitors(ctx):
    from grid.periodicgrid import PeriodicGrid

    def post_init(res, exc, args, kwargs):
        g = args[0]
        names = ["points", "weights", "realvecs", "wrap"]
        vals = {"realvecs": None, "wrap": False}
        for k, v in zip(names, args[1:]):
            vals[k] = v
        vals.update({k: v for k, v in kwargs.items() if k in names})
        if "points" not in vals or "weights" not in vals:
            return
        check_init(ctx, g, vals["points"], vals["weights"], vals["realvecs"], bool(vals["wrap"]), exc)

    def post_lg(res, exc, args, kwargs):
        g, center, radius = c10mod._lg_args(args, kwargs)
        check_periodic_localgrid(ctx, g, center, radius, res, exc)

    instrument.wrap_method(ctx, PeriodicGrid, "__init__", post_init, hook="PeriodicGrid.__init__")
    instrument.wrap_method(ctx, PeriodicGrid, "get_localgrid", post_lg, hook="PeriodicGrid.get_localgrid")


def setup(ctx):
    pref.self_test()
    install_monitors(ctx)


# ---------------------------------------------------------------------------------------------- workload
CELL_KINDS = ["cubic", "ortho", "skew", "skew20", "lefthanded", "negative", "aspect50", "general"]
PLACEMENTS = ["inside", "outside", "mixed", "single"]
DIMCODES = ["1", "1c", "2", "3"]
WITNESSES = ["empty-sphere", "negative-1d", "one-d-no-lattice", "skewed-2d", "big-sphere-3d", "stale-intervals-after-points-setter", "zero-weights", "clones"]


def cases(tier, seed):
    out = [("witness", {"name": w}, 1e9) for w in WITNESSES]
    reps = 2 if tier == "quick" else 40
    for dc in DIMCODES:
        dim = int(dc[0])
        for nl in range(1, dim + 1):
            for kind in CELL_KINDS:
                if dim == 1 and kind in ("skew", "skew20", "lefthanded", "general", "ortho", "aspect50"):
                    continue
                for pl in PLACEMENTS:
                    for wrap in (False, True):
                        for k in range(reps):
                            cost = 1.0 + nl * nl + (2.0 if pl in ("outside", "mixed") and not wrap else 0.0)
                            out.append(("lattice", {"dim": dc, "nl": nl, "cell": kind, "place": pl, "wrap": wrap, "k": k}, cost))
    for dc in DIMCODES:
        for k in range(12 if tier == "quick" else 400):
            out.append(("nolattice", {"dim": dc, "k": k}, 1.0))
    for dc in DIMCODES:
        dim = int(dc[0])
        for nl in range(1, dim + 1):
            for k in range(4 if tier == "quick" else 80):
                out.append(("history", {"dim": dc, "nl": nl, "k": k}, 2.0 + nl))
                out.append(("select", {"dim": dc, "nl": nl, "k": k}, 2.0 + nl))
    return out


def _rotation(rng, dim):
    q, r = np.linalg.qr(rng.normal(size=(dim, dim)))
    return q * np.sign(np.diag(r))


def make_cell(rng, dim, kind):
    """Full dim x dim cell (rows); the first nl rows (after the caller's choice) are used as lattice vectors."""
    if dim == 1:
        a = float(np.exp(rng.uniform(-1.5, 1.5)))
        return np.array([[-a if kind == "negative" else a]])
    if kind == "cubic":
        L = np.full(dim, float(np.exp(rng.uniform(-1, 1.5))))
    elif kind == "aspect50":
        L = np.full(dim, float(np.exp(rng.uniform(-1, 0.5))))
        L[int(rng.integers(dim))] *= 50.0
        if dim == 3 and rng.random() < 0.3:
            L = L.max() / 50.0 * np.array([1.0, 50.0, 50.0])[rng.permutation(3)]
    else:
        L = np.exp(rng.uniform(-1, 1.5, dim))
    lo = 20.0 if kind == "skew20" else 35.0
    if kind in ("cubic", "ortho", "aspect50") and rng.random() < 0.7:
        ang = np.full(3, 90.0)
    else:
        while True:
            ang = rng.uniform(lo, 180.0 - lo, 3)
            if kind == "skew20":
                ang[int(rng.integers(3))] = float(rng.choice([20.0, 21.0, 159.0, 160.0]))
            ca = np.cos(np.radians(ang))
            vol2 = 1 - np.sum(ca**2) + 2 * np.prod(ca)
            if dim == 2 or vol2 > 0.01:
                break
    ca, cb, cg = np.cos(np.radians(ang))
    sg = np.sin(np.radians(ang[2]))
    if dim == 2:
        A = np.array([[L[0], 0.0], [L[1] * cg, L[1] * sg]])
    else:
        vol = math.sqrt(max(1 - ca * ca - cb * cb - cg * cg + 2 * ca * cb * cg, 0.0))
        A = np.array([[L[0], 0, 0], [L[1] * cg, L[1] * sg, 0], [L[2] * cb, L[2] * (ca - cb * cg) / sg, L[2] * vol / sg]])
    if kind not in ("cubic", "ortho") or rng.random() < 0.5:
        A = A @ _rotation(rng, dim).T
    if kind == "lefthanded":
        if rng.random() < 0.5:
            A = A[::-1].copy()
        else:
            A[int(rng.integers(dim))] *= -1.0
        if np.linalg.det(A) > 0:
            A[0] *= -1.0
    elif kind == "negative":
        A = -A
    elif kind == "general":
        A = A[rng.permutation(dim)] * rng.choice([-1.0, 1.0], (dim, 1))
    return A


def make_points(rng, full_cell, nl, place, n):
    dim = full_cell.shape[0]
    if place == "single":
        n = 1
    if place == "inside" or place == "single":
        f = rng.random((n, dim))
        if place == "single" and rng.random() < 0.5:
            f = f + rng.integers(-5, 6, (1, dim))
    elif place == "outside":
        f = rng.uniform(-5, 5, (n, dim))
    else:
        f = rng.random((n, dim))
        far = rng.random(n) < 0.3
        f[far] += rng.integers(-5, 6, (int(far.sum()), dim))
    if rng.random() < 0.2 and n > 3:
        f[0, :nl] = 0.0  # a point exactly on a cell face / corner (fractional coordinate 0)
    if rng.random() < 0.1 and n > 3:
        f[1] = f[0]  # two parent points at the same place: distinct indices, both must appear
        f[2, :nl] = f[0, :nl] + rng.integers(-2, 3, nl)  # a parent point that is (nearly) a periodic image of another one
    return f @ full_cell


def build_lattice_grid(ctx, p, n=None, wrap=None, place=None, cell=None):
    from grid.periodicgrid import PeriodicGrid

    rng = ctx.rng
    dc = str(p["dim"])
    dim = int(dc[0])
    nl = int(p["nl"])
    kind = cell or p.get("cell") or str(rng.choice(CELL_KINDS if dim > 1 else ["cubic", "negative"]))
    full = make_cell(rng, dim, kind)
    if dim > 1 and nl < dim and rng.random() < 0.5:
        full = full[rng.permutation(dim)]
    A = full[:nl].copy()
    n = n or int(rng.choice([1, 2, 5, 12, 30, 70], p=[0.05, 0.1, 0.2, 0.3, 0.25, 0.1]))
    pts = make_points(rng, full, nl, place or p.get("place", "inside"), n)
    n = len(pts)
    if rng.random() < 0.3:
        pts = pts + rng.normal(size=dim) * np.abs(full).max() * 3  # whole point set far from the origin cell
    w = c10mod.rand_weights(ctx, rng, n)
    wrap = bool(p.get("wrap", False)) if wrap is None else wrap
    if dc == "1":
        g = PeriodicGrid(np.ascontiguousarray(pts[:, 0]), w, A.reshape(nl), wrap=wrap)
    else:
        g = PeriodicGrid(np.ascontiguousarray(pts), w, np.ascontiguousarray(A), wrap=wrap)
    return g, A, full


def _call(ctx, fn):
    return c10mod._call(ctx, fn)


def pick_periodic_query(rng, g, A, full, mode):
    """Centre ((dim,) array) and radius for a query on the CURRENT points of a lattice grid."""
    P = pref.as2d(np.asarray(g.points))
    n, dim = P.shape
    nl = A.shape[0]
    sp = pref.plane_spacings(A)
    smin, smax = float(sp.min()), float(sp.max())
    u = rng.random()
    if u < 0.3:
        c = rng.random(dim) @ full
    elif u < 0.45:
        c = P[rng.integers(n)].copy()
    elif u < 0.65:
        c = P[rng.integers(n)] + rng.integers(-10, 11, nl) @ A  # far image of a grid point
        if rng.random() < 0.5:
            c = c + rng.normal(size=dim) * smin * float(rng.choice([1e-6, 0.05, 0.4]))
    elif u < 0.9:
        c = rng.uniform(-10, 10, dim) @ full
    else:
        # a centre thousands to millions of cells away from the stored points (the image enumeration is centred on the
        # query, so its cost does not grow with the distance); coordinates stay exactly representable to ~1e-9 of a cell
        c = P[rng.integers(n)] + (rng.integers(-1, 2, nl) * int(2 * 10 ** rng.integers(3, 6))) @ A
        if rng.random() < 0.5:
            c = c + rng.normal(size=dim) * smin * 0.3
    if mode == "zero":
        r = 0.0
    elif mode == "tiny":
        r = smin * float(rng.choice([1e-9, 1e-5, 1e-3]))
    elif mode == "small":
        r = smin * float(rng.uniform(0.1, 0.6))
    elif mode == "cell":
        r = float(rng.choice([smin, smax])) * float(rng.uniform(0.7, 1.3))
    elif mode == "cell3":
        r = float(rng.choice([smin, smax])) * float(rng.uniform(2.5, 3.5))
    else:  # "tie" / "neartie": radius taken from the actual image distances
        r = smin * float(rng.uniform(0.5, 1.5))
    # bounded brute-force cost: the box never shrinks below the span of the points themselves (r = 0), so allow twice that
    limit = max(MAX_TRANSLATIONS, 2 * pref.image_count(P, A, c, 0.0))
    for _ in range(40):
        if r <= 0 or pref.image_count(P, A, c, r) <= limit:
            break
        r *= 0.6
    if mode in ("tie", "neartie"):
        _, may = pref.images(P, A, c, r)
        if may:
            d = sorted(may.values())
            dk = d[int(rng.integers(len(d)))]
            r = dk if mode == "tie" else dk * (1 + float(rng.choice([-1.0, 1.0])) * float(rng.choice([1e-8, 1e-6, 1e-3])))
    return c, float(r)


def periodic_clone_step(ctx, g, A, full, mutate=True):
    """Clone the lattice grid (copy / deepcopy / pickle), send the same query to both, mutate one, query both again."""
    rng = ctx.rng

    def query_same(objs):
        do_periodic_query(ctx, objs[0], A, full, str(rng.choice(QUERY_MODES)), also=objs[1:])

    def query_each(o):
        do_periodic_query(ctx, o, A, full, str(rng.choice(["small", "cell", "cell3", "neartie"])))

    mutations = [
        ("weights-setter", lambda o: c10mod.do_set_weights(ctx, o), False),
        ("weights-in-place", c10mod._inplace_weights, True),
        ("points-setter", lambda o: do_set_points(ctx, o, A, full), False),
        ("points-in-place", c10mod._inplace_points_then_reseat, True),
    ]
    return c10mod.clone_step(ctx, g, _subject(g), query_same, query_each, mutations if mutate else [])


def do_periodic_query(ctx, g, A, full, mode, also=()):
    c, r = pick_periodic_query(ctx.rng, g, A, full, mode)
    if pref.image_count(pref.as2d(np.asarray(g.points)), A, c, r) > 10 * MAX_TRANSLATIONS:
        # the point set itself spans so many cells (non-lattice direction of a 1:50 cell) that even r -> 0 needs > 2e5 translations
        ctx.count("op:query-skipped-point-set-too-wide")
        return None
    flat = np.asarray(g.points).ndim == 1
    cc = c10mod._fmt_center(ctx.rng, c, flat)
    rr = c10mod._fmt_radius(ctx.rng, r)
    ctx.count("op:query-" + mode)
    for o in also:  # the same query on the clones of g
        _call(ctx, lambda: o.get_localgrid(cc, rr))
    return _call(ctx, lambda: g.get_localgrid(cc, rr))


QUERY_MODES = ["zero", "tiny", "small", "cell", "cell3", "neartie", "tie"]


def run_case(ctx, family, params):
    if family == "witness":
        return run_witness(ctx, params["name"])
    if family == "nolattice":
        return run_nolattice(ctx, params)
    rng = ctx.rng
    try:
        g, A, full = build_lattice_grid(ctx, params, place=None if family == "lattice" else str(rng.choice(PLACEMENTS)), wrap=None if family == "lattice" else bool(rng.integers(2)))
    except core.MonitorError:
        raise
    except Exception as exc:
        if core.is_library_exception(exc):
            return  # recorded by the monitor on __init__ (clause constructible)
        raise
    ctx.case_note("N", int(g.size))
    ctx.case_note("cond", float(np.linalg.cond(A)))
    ctx.case_note("spacings", pref.plane_spacings(A))
    if family == "lattice":
        modes = list(QUERY_MODES) + [str(m) for m in rng.choice(QUERY_MODES, int(rng.integers(2, 8)))]
        for m in modes:
            do_periodic_query(ctx, g, A, full, m)
        if int(params.get("k", 0)) % 2 == 0 or rng.random() < 0.3:
            periodic_clone_step(ctx, g, A, full)  # every cell kind / placement / wrap: clone after the tree was built and used
    elif family == "history":
        nops = int(rng.integers(5, 21))
        live = [g]
        for _ in range(nops):
            g = live[int(rng.integers(len(live)))]
            u = rng.random()
            if u < 0.2:
                do_set_points(ctx, g, A, full)
            elif u < 0.3:
                c10mod.do_set_weights(ctx, g)
            elif u < 0.42:
                c = periodic_clone_step(ctx, g, A, full)
                if c is not None:
                    if len(live) < 3:
                        live.append(c)
                    else:
                        live[int(rng.integers(len(live)))] = c
            else:
                do_periodic_query(ctx, g, A, full, str(rng.choice(QUERY_MODES)))
        for o in live:
            do_periodic_query(ctx, o, A, full, "cell")
    elif family == "select":
        for _ in range(int(rng.integers(2, 6))):
            kind = str(rng.choice(c10mod.SEL_KINDS))
            index = c10mod.make_index(rng, int(g.size), kind)
            sub = _call(ctx, lambda: g[index])
            if sub is None or getattr(sub, "size", 0) == 0:
                continue
            ok = type(sub).__name__ == "PeriodicGrid" and np.array_equal(np.asarray(sub.realvecs), np.asarray(g.realvecs))
            ctx.check("selection-keeps-lattice", _subject(g) + f"[{c10mod.index_kind(index)}]", bool(ok), sig="realvecs")
            if ok:
                for m in rng.choice(QUERY_MODES, 3):
                    do_periodic_query(ctx, sub, A, full, str(m))
                if rng.random() < 0.5:
                    periodic_clone_step(ctx, sub, A, full, mutate=bool(rng.integers(2)))  # clone of a selection
    else:
        raise core.MonitorError("unknown family " + family)


def do_set_points(ctx, g, A, full):
    """Reassign the points of a lattice grid through the public setter (same shape)."""
    rng = ctx.rng
    old = np.asarray(g.points)
    O = pref.as2d(old)
    n, dim = O.shape
    nl = A.shape[0]
    u = rng.integers(4)
    if u == 0:
        new = O + rng.integers(-4, 5, nl) @ A  # rigid lattice translation: same periodic structure, other cell
    elif u == 1:
        new = O[rng.permutation(n)]
    elif u == 2:
        new = rng.uniform(-3, 3, (n, dim)) @ full
    else:
        new = O + rng.normal(size=dim) * float(pref.plane_spacings(A).max())
    new = np.ascontiguousarray(new.reshape(old.shape))
    with ctx.guard("setter-accepts-same-shape", _subject(g) + ".points"):
        g.points = new
        ctx.count("op:set-points")
        ctx.check("setter-accepts-same-shape", _subject(g) + ".points", bool(np.array_equal(np.asarray(g.points), new)), sig="points-not-taken")


def run_nolattice(ctx, params):
    """Without lattice vectors the class must behave as the plain grid: mirror every finite-radius query."""
    from grid.basegrid import Grid
    from grid.periodicgrid import PeriodicGrid

    rng = ctx.rng
    dc = str(params["dim"])
    dim = int(dc[0])
    n = c10mod._rand_n(rng)
    pts = c10mod._shape_points(c10mod._rand_points(rng, n, dim), dc)
    w = c10mod.rand_weights(ctx, rng, n)
    mode = int(rng.integers(4))
    subj = f"PeriodicGrid/{_dimcode(pts)}/nl0"
    try:
        if mode == 0:
            pg = PeriodicGrid(pts, w)
        elif mode == 1:
            pg = PeriodicGrid(pts, w, None, True)
        elif mode == 2:
            pg = PeriodicGrid(pts, w, np.zeros((0,) + pts.shape[1:]))
        else:
            pg = PeriodicGrid(pts, w, realvecs=np.zeros((0,) + pts.shape[1:]), wrap=True)
    except Exception as exc:
        if core.is_library_exception(exc):
            return  # recorded by the monitor on __init__
        raise
    plain = Grid(pts.copy(), w.copy())
    ctx.case_note("N", n)
    for k in range(int(rng.integers(6, 14))):
        qm = str(rng.choice(["ball", "neartie", "tie", "empty", "huge", "inf"], p=[0.4, 0.2, 0.05, 0.2, 0.05, 0.1]))
        c, r = c10mod.pick_query(rng, pts, qm)
        cc = c10mod._fmt_center(rng, c, pts.ndim == 1)
        a = _call(ctx, lambda: pg.get_localgrid(cc, r))
        if qm == "inf":
            continue
        b = plain.get_localgrid(cc, r)
        if a is None:
            continue  # the monitor recorded the exception
        try:
            ia, ib = np.argsort(a.indices, kind="stable"), np.argsort(b.indices, kind="stable")
            same_idx = np.array_equal(np.asarray(a.indices)[ia], np.asarray(b.indices)[ib])
            if same_idx:
                same = np.array_equal(np.asarray(a.points)[ia], np.asarray(b.points)[ib]) and np.array_equal(np.asarray(a.weights)[ia], np.asarray(b.weights)[ib])
            else:
                # only members of the tie band may differ between the two classes
                must, may, _ = pref.ball(pts, c, r)
                diff = np.setxor1d(a.indices, b.indices)
                same = bool(np.all(may[diff] & ~must[diff]))
        except Exception:
            same = False
        ctx.check("no-lattice-equals-plain-grid", subj, bool(same), sig="differs-from-Grid", detail={"radius": r, "n_periodic": int(a.size), "n_plain": int(b.size)})
        if k == 3 and rng.random() < 0.5:
            new = pts[rng.permutation(n)] + 1.0
            pg.points = new
            plain.points = new.copy()
            pts = new


def run_witness(ctx, name):
    """Deterministic regressions (independent of the seed)."""
    from grid.basegrid import Grid
    from grid.periodicgrid import PeriodicGrid

    rng = np.random.default_rng(20250926)
    if name == "empty-sphere":
        p1 = np.array([0.1, 0.35, 0.6])
        g = PeriodicGrid(p1, np.ones(3), np.array([1.0]))
        for c, r in ((0.85, 0.05), (0.85, 0.0), (7.85, 0.1), (-3.2, 0.01), (0.225, 0.12)):
            _call(ctx, lambda: g.get_localgrid(c, r))
        p2 = rng.random((6, 2)) * 0.3 + 0.1
        g = PeriodicGrid(p2 @ np.array([[2.0, 0.0], [0.5, 1.5]]), np.ones(6), np.array([[2.0, 0.0], [0.5, 1.5]]))
        for c, r in ((np.array([1.9, 1.4]), 0.05), (np.array([1.9, 1.4]), 0.0), (np.array([21.9, -13.6]), 0.2)):
            _call(ctx, lambda: g.get_localgrid(c, r))
        g = PeriodicGrid(rng.random((5, 3)) * 0.2, np.ones(5), np.array([[3.0, 0, 0], [0, 3.0, 0]]))  # partial lattice
        for c, r in ((np.array([1.5, 1.5, 0.1]), 0.3), (np.array([0.1, 0.1, 5.0]), 1.0)):
            _call(ctx, lambda: g.get_localgrid(c, r))
    elif name == "negative-1d":
        p1 = np.array([0.1, 0.35, 0.6, 0.95])
        for a in (-1.0, -2.5, -0.3):
            for wrap in (False, True):
                g = _call(ctx, lambda: PeriodicGrid(p1, np.arange(1.0, 5.0), np.array([a]), wrap=wrap))
                if g is None:
                    continue
                for c, r in ((0.0, 0.2), (0.5, 0.5), (3.3, 1.7), (-7.1, 0.05), (0.0, 0.0)):
                    _call(ctx, lambda: g.get_localgrid(c, r))
            g = _call(ctx, lambda: PeriodicGrid(p1.reshape(-1, 1), np.arange(1.0, 5.0), np.array([[a]])))
            if g is not None:
                _call(ctx, lambda: g.get_localgrid(np.array([0.4]), 1.2))
    elif name == "one-d-no-lattice":
        p1 = np.array([0.1, 0.35, 0.6, 0.95, -2.0])
        for mk in (lambda: PeriodicGrid(p1, np.ones(5)), lambda: PeriodicGrid(p1, np.ones(5), np.zeros(0)), lambda: PeriodicGrid(p1, np.ones(5), None, True), lambda: PeriodicGrid(p1.reshape(-1, 1), np.ones(5))):
            g = _call(ctx, mk)
            if g is None:
                continue
            plain = Grid(np.asarray(g.points).copy(), np.ones(5))
            for c, r in ((0.2, 0.2), (0.5, 5.0), (10.0, 0.5), (0.35, 0.0)):
                cc = c if np.asarray(g.points).ndim == 1 else np.array([c])
                a = _call(ctx, lambda: g.get_localgrid(cc, r))
                b = plain.get_localgrid(cc, r)
                if a is not None:
                    ctx.check("no-lattice-equals-plain-grid", _subject(g), sorted(a.indices.tolist()) == sorted(b.indices.tolist()), sig="differs-from-Grid")
            _call(ctx, lambda: g.get_localgrid(0.2 if np.asarray(g.points).ndim == 1 else np.array([0.2]), np.inf))
    elif name == "skewed-2d":
        for gamma in (20.0, 60.0, 150.0, 160.0):
            A = np.array([[1.0, 0.0], [1.3 * math.cos(math.radians(gamma)), 1.3 * math.sin(math.radians(gamma))]])
            f = rng.random((15, 2))
            for wrap in (False, True):
                g = PeriodicGrid((f + np.array([3, -2])) @ A, np.ones(15), A, wrap=wrap)
                for c in (np.array([0.3, 0.2]), np.array([5.3, -7.2]), (f[0] @ A)):
                    for r in (0.0, 0.3, 1.0, 2.7):
                        _call(ctx, lambda: g.get_localgrid(c, r))
    elif name == "big-sphere-3d":
        A = np.array([[1.0, 0.2, 0.0], [0.0, 1.1, 0.3], [0.4, 0.0, 0.9]])
        f = rng.random((20, 3))
        for rows in (A, -A, A[[1, 0, 2]], A[:2], A[2:]):
            g = PeriodicGrid(f @ A, rng.random(20), rows.copy())
            for c in (np.array([0.5, 0.5, 0.5]), np.array([-9.5, 4.5, 7.5])):
                for r in (0.05, 1.0, 3.2):
                    _call(ctx, lambda: g.get_localgrid(c, r))
    elif name == "stale-intervals-after-points-setter":
        p = np.random.default_rng(0).uniform(0, 1, 20)
        g = PeriodicGrid(p.copy(), np.ones(20), np.array([1.0]))
        _call(ctx, lambda: g.get_localgrid(0.5, 0.3))
        g.points = p + 5.0  # same periodic structure, five cells further
        _call(ctx, lambda: g.get_localgrid(0.5, 0.3))
        _call(ctx, lambda: g.get_localgrid(5.5, 0.3))
        A = np.array([[1.0, 0.0], [0.3, 1.2]])
        q = np.random.default_rng(1).random((12, 2)) @ A
        g = PeriodicGrid(q.copy(), np.ones(12), A, wrap=True)
        _call(ctx, lambda: g.get_localgrid(np.array([0.6, 0.6]), 0.7))
        g.points = q + np.array([3, -2]) @ A + 0.05
        _call(ctx, lambda: g.get_localgrid(np.array([0.6, 0.6]), 0.7))
    elif name == "clones":
        # every way of cloning x lattice shapes, after the tree was built; then reassign the points of the original and the
        # weights of the clone: each object answers for its own current state
        f = rng.random((14, 2))
        A = np.array([[1.0, 0.0], [0.4, 1.1]])
        mk = [
            lambda: PeriodicGrid(f @ A, np.linspace(0.5, 1.5, 14), A.copy()),
            lambda: PeriodicGrid((f + np.array([4, -3])) @ A, np.linspace(0.5, 1.5, 14), A.copy(), wrap=True),
            lambda: PeriodicGrid(f @ A, np.linspace(0.5, 1.5, 14), A[1:].copy()),
            lambda: PeriodicGrid(f[:, 0].copy(), np.linspace(0.5, 1.5, 14), np.array([-0.7])),
            lambda: PeriodicGrid(f @ A, np.linspace(0.5, 1.5, 14)),
        ]
        for make in mk:
            for kind in roundtrip.KINDS:
                g = make()
                flat = np.asarray(g.points).ndim == 1
                cen = 0.45 if flat else np.array([0.45, 0.55])
                _call(ctx, lambda: g.get_localgrid(cen, 0.8))
                c = roundtrip.check_clone(ctx, _subject(g), g, kind)
                if c is None:
                    continue
                for o in (g, c):
                    _call(ctx, lambda: o.get_localgrid(cen, 0.8))
                before = roundtrip.public_state(c)
                g.points = np.asarray(g.points) + (3.0 if flat else np.array([3.0, -2.0]) @ A) + 0.05
                ctx.check("clone-independent", f"{_subject(g)}:{kind}", before == roundtrip.public_state(c), sig="clone-changed-by-points-setter-on-the-other:")
                c.weights = np.asarray(c.weights) * 2 + 1
                for o in (g, c):
                    for r in (0.3, 0.8, 2.1):
                        _call(ctx, lambda: o.get_localgrid(cen, r))
    elif name == "zero-weights":
        # membership must depend on geometry only: exact zeros of both signs, negative, denormal, integer weights
        n = 18
        f = rng.random((n, 2))
        A = np.array([[1.0, 0.0], [0.4, 1.1]])
        i = np.arange(n)
        wz = {
            "zeros": np.where(i % 3 == 0, 0.0, np.where(i % 3 == 1, -0.0, 1.5)),
            "all-zero": np.zeros(n),
            "negative": -np.linspace(0.5, 1.5, n),
            "tiny": np.where(i % 2 == 0, 5e-324, 1e-300),
            "int": (i % 3).astype(np.int64),
        }
        for wname, w in wz.items():
            grids = [
                PeriodicGrid(f @ A, w.copy(), A.copy()),
                PeriodicGrid((f + np.array([4, -3])) @ A, w.copy(), A.copy(), wrap=True),
                PeriodicGrid(f @ A, w.copy(), A[:1].copy()),
                PeriodicGrid(f[:, 0].copy(), w.copy(), np.array([1.0])),
                PeriodicGrid(f[:, 0].copy(), w.copy(), np.array([-0.7])),
            ]
            for g in grids:
                flat = np.asarray(g.points).ndim == 1
                for c in (np.array([0.5, 0.5]), np.array([-6.3, 8.2])):
                    for r in (0.25, 1.0, 2.6):
                        cc = float(c[0]) if flat else c
                        _call(ctx, lambda: g.get_localgrid(cc, r))
            # without lattice vectors: must equal the plain grid
            for pts in (f.copy(), f[:, 0].copy()):
                pg, plain = PeriodicGrid(pts, w.copy()), Grid(pts.copy(), w.copy())
                for r in (0.2, 0.6, 3.0):
                    cc = np.array([0.5, 0.5]) if pts.ndim == 2 else 0.5
                    a = _call(ctx, lambda: pg.get_localgrid(cc, r))
                    b = plain.get_localgrid(cc, r)
                    if a is not None:
                        ctx.check("no-lattice-equals-plain-grid", _subject(pg), sorted(a.indices.tolist()) == sorted(b.indices.tolist()), sig="differs-from-Grid", detail={"weights": wname, "n_periodic": int(a.size), "n_plain": int(b.size)})
    else:
        raise core.MonitorError("unknown witness " + name)
