"""C09 - harmonic decomposition / interpolation on atomic grids is exact when band-limited."""

from __future__ import annotations

import numpy as np

from gridrv import core, instrument
from gridrv.monitors import roundtrip
from gridrv.oracles import bandlimited_c09 as blo
from gridrv.oracles import sph

PROP = "C09"
TITLE = "Harmonic decomposition/interpolation on atomic grids is exact when band-limited"
REQUIRED_HOOKS = [
    "AtomGrid.integrate_angular_coordinates",
    "AtomGrid.radial_component_splines",
    "AtomGrid.spherical_average",
    "AtomGrid.interpolate",
    "MolGrid.interpolate",
    "interpolant-call:deriv=0",
    "interpolant-call:cartesian-gradient",
    "interpolant-call:spherical-derivs",
    "interpolant-call:radial-nu=1",
    "interpolant-call:radial-nu=2",
    "interpolant-call:radial-nu=3",
    "class:r0-node",
    "class:tiny-node",
    "class:no-r0",
    "class:mixed-degrees",
    "class:uniform-degrees",
    "class:rotated",
    "class:off-centre",
    "class:signed-zero-centre",
    "function:odd-l-nonzero-at-centre",
    "function:regular-at-centre",
    "point:signed-zero-centre",
    "point:signed-zero-axis",
    "molecule:natom=1",
    "molecule:weights=callable",
    "point:centre",
    "point:z-axis",
    "point:grid-point",
    "pair:r0",
    "pair:nodes",
    "pair:centre",
    "pair:weights",
    "pair:rotated",
    "clone:copy",
    "clone:deepcopy",
    "clone:pickle",
    "clone:pickle2",
    "clone:rotated",
    "clone:off-centre",
    "clone-variant:fresh",
    "clone-variant:used",
    "point-form:int64",
    "point-form:float32",
    "point-form:strided-rows",
    "point-form:fortran-order",
]
REQUIRED_FAMILIES = ["atom", "molecule", "paired"]
BUDGET = {"quick": 400, "thorough": 3600}
METHODS = ["lebedev", "spherical", "maxdet", "ahrens_beylkin"]
RADIAL = ["becke-gl", "becke-gc", "linear-cc0", "linear-trap0", "linear-simpson0", "linear-gl", "exp-ui", "power-ui", "knowles-gc2", "handy-gl", "lininf-ui", "explicit0", "tiny"]
DEGKIND = ["uniform", "mixed", "pruned", "sizes"]
TOL_VALUE = 1e-9
TOL_IDENT = 1e-10
TOL_AVG = 1e-6
TOL_RADIAL = 1e-6
TOL_ANGULAR = 1e-6
TOL_GRAD = 3e-6  # 100 x the largest value seen (1.8e-8, thorough seeds 0,1: truncation of the 4th-order stencil)
RULE = (
    "One 'atom' case = one AtomGrid built through the public constructors (method x radial-grid kind x degree kind are the "
    "structured axes: 4 methods x 13 radial kinds [transformed Gauss-Legendre/Chebyshev/Clenshaw-Curtis/trapezoid/Simpson/"
    "uniform-integer rules under Becke, LinearFinite, Exp, Power, Knowles, Handy, LinearInfinite transforms, three with an exact "
    "r=0 node, one hand-made grid with r=0 and one with a 1e-9 node] x 4 degree kinds [uniform, random per-shell, from_pruned "
    "sectors, sizes=]; shells 8-40, requested degrees 6-30, centre, rotation seed and the function are drawn from the case rng) "
    "plus one random band-limited function f = sum_{l<=L} g_lm(r) Y_lm, L = floor(min resolved degree / 2), g_lm ~ r^l at the "
    "origin (on grids without a shell at r<1e-6 half of the functions get l>=1 parts that do NOT vanish at r=0, so that the splines are O(1) "
    "at the centre for odd l), Y from the independent recursion. Evaluation points include the centre in all 8 signed-zero forms and axis/plane "
    "points with -0.0 components; centres include the origin given with -0.0 components. Decided per case: shell angular integrals, shell-sum = integrate, spline nodal "
    "values (and zeros above L), interpolant at all grid points, interpolant at 50-65 arbitrary points (centre, +-z axis, near-axis, "
    "node radii, extrapolation range) against sum spline x ref_Y, radial derivatives 1-3 / spherical derivatives / Cartesian "
    "gradient against numerical differentiation of the same returned callable, spherical average. One 'molecule' case = MolGrid of "
    "1-4 such atomic grids with Becke, arbitrary-array or custom-callable aim-weights (the latter two not partitions of unity); the molecular interpolant and its derivative outputs are "
    "compared with the sum of atomic interpolants of w_A f recomputed by the monitor. One 'paired' case = two or three AtomGrid "
    "objects in one process that agree in (method, rotation seed, per-shell degrees) and differ in exactly one other ingredient "
    "(r=0 node / no r=0 node / 1e-9 node, radial nodes, centre, radial weights), used alternately (X0, X1, [X2], X0 again, a "
    "freshly built twin of X1 and of X0), ALL clauses decided on every use with a fresh function. In atom and molecule cases the "
    "returned callable is additionally evaluated (values and all five derivative modes) at points given as int64/int32 lattice "
    "arrays, float32, row-/column-strided views, Fortran order and read-only arrays and compared with the float64 C-contiguous "
    "copy of the same numbers; func_vals is also passed as a strided view / read-only. In every atom case the grid is cloned once "
    "(copy.copy / copy.deepcopy / pickle / pickle protocol 2, drawn per case; half of the cases before its first use, half after) "
    "with gridrv.monitors.roundtrip.check_clone, ALL clauses are decided on the clone with a fresh function, and an interpolant "
    "built before cloning must return bitwise the same values/derivatives afterwards. A case is non-trivial when L >= 1 "
    "and all clauses were evaluated; distinct = distinct generator parameters (grids and functions differ by seed)."
)
ASSUMPTIONS = [
    "band limit L = floor(min_i d_i / 2) for the RESOLVED per-shell degrees; the two Ahrens-Beylkin data files recorded as inexact under C02 (degrees 39 and 127) are not used",
    "radial grids have strictly increasing nodes and non-zero weights (CubicSpline and the r^2 w division require it)",
    "between radial nodes only the library's own splines (public radial_component_splines) define the interpolant; exactness is claimed at nodal radii only",
    "Cartesian-gradient and spherical-derivative clauses are decided for r > 1e-6(1+|centre|) and |sin(phi)| >= 1e-4 (documented zero convention at the centre and on the z-axis is recorded, not decided); radial derivatives are decided everywhere incl. the centre and the z-axis, nu=3 not on a node sphere (one-sided)",
    "tolerances: values 1e-9 of max|f| (per shell relaxed by (K+1)*64eps|centre|/r_i: only matters for a 1e-9 node of an off-centre grid); interpolant at the points of the last shell additionally 128eps*sum|c_k|h^(3-k) of the returned splines (scipy evaluates the last node with the previous polynomial piece); identities 1e-10; derivatives 1e-6 (Cartesian gradient 3e-6) of the largest derivative over the point set plus the conditioning floor of the numerical differentiation (1e-9|F|/h^nu fit, 1e-11|F|/h stencil); spherical average back-integration 1e-6 plus the rounding of the spline's last-node evaluation times r_n^2 w_n",
    "array forms: integer and non-float64 (N,3) point arrays are admissible `ndarray(N, 3)` arguments; integer/strided/Fortran/read-only forms must reproduce the float64 result to 1e-10, float32 to 1e-5 (unchanged tree: bitwise equal)",
    "derivative oracle = numerical differentiation of the returned callable (cubic fit along the ray, DFT on circles, 4th-order central differences), self-tested at start-up",
]
LEVEL_TEXT = "Held on the executions listed: seeded band-limited functions on seeded atomic/molecular grids covering every method, radial-grid kind (with/without r=0) and degree kind; not a proof for all grids and functions."
TECHNIQUE = "runtime monitoring: post-conditions on AtomGrid.integrate_angular_coordinates/spherical_average/radial_component_splines (identities on every call) + manufactured band-limited solutions and numerical differentiation of the returned interpolant evaluated in the workload"


# ---------------------------------------------------------------------------------------------- cases
def cases(tier, seed):
    out = []
    rng = np.random.default_rng([seed, 9])
    reps = 3 if tier == "quick" else 40
    k = 0
    for rep in range(reps):
        for mi, m in enumerate(METHODS):
            for ri, rk in enumerate(RADIAL):
                # every (method, radial kind) with two degree kinds per repetition; all four over two repetitions / seeds
                for j in range(2):
                    dk = DEGKIND[(mi + ri + rep + seed + 2 * j) % 4]
                    big = bool(rng.random() < (0.2 if tier == "quick" else 0.4))
                    out.append(("atom", {"method": m, "radial": rk, "deg": dk, "big": big, "k": k}, 6.0 if big else 2.0))
                    k += 1
    npair = 3 if tier == "quick" else 30
    j = 0
    for rep in range(npair):
        for m in METHODS:
            for vary in ("r0", "nodes", "centre", "weights"):
                out.append(("paired", {"method": m, "vary": vary, "deg": ["uniform", "mixed"][(j + rep) % 2], "k": j}, 8.0))
                j += 1
    nmol = 64 if tier == "quick" else 640
    for i in range(nmol):
        out.append(("molecule", {"method": METHODS[i % 4], "weights": ["becke", "array", "callable"][(i // 4) % 3], "natom": 1 + (i // 12) % 4, "k": i}, 1.5))
    return out


# ---------------------------------------------------------------------------------------------- monitors on the real API
def setup(ctx):
    sph.self_test()
    blo.self_test()
    from grid.atomgrid import AtomGrid
    from grid.molgrid import MolGrid

    def post_iac(res, exc, args, kwargs):
        if exc is not None:
            return
        g = args[0]
        fv = np.asarray(args[1] if len(args) > 1 else kwargs["func_vals"], dtype=float)
        subj = "AtomGrid.integrate_angular_coordinates:" + str(g.method)
        ok_shape = res.shape == fv.shape[:-1] + (g.n_shells,)
        ctx.check("angular-integral-shape", subj, ok_shape, sig="shape", detail={"got": list(res.shape), "in": list(fv.shape)})
        if not ok_shape:
            return
        r, w = g.rgrid.points, g.rgrid.weights
        direct = np.sum(fv * g.weights, axis=-1)
        back = np.sum(res * (r**2 * w), axis=-1)
        scale = np.sum(np.abs(fv * g.weights), axis=-1) + 1e-300
        meas = np.max(np.abs(direct - back) / scale)
        ctx.check("shell-sum-equals-integral", subj, meas, TOL_IDENT, sig=_sig(meas), detail={"direct": direct.ravel()[:3], "back": back.ravel()[:3]})

    def post_avg(res, exc, args, kwargs):
        if exc is not None:
            return
        g = args[0]
        fv = np.asarray(args[1] if len(args) > 1 else kwargs["func_vals"], dtype=float)
        r, w = g.rgrid.points, g.rgrid.weights
        subj = "AtomGrid.spherical_average:" + str(g.method)
        vals = res(r)
        back = float(np.sum(4 * np.pi * r**2 * w * vals))
        direct = float(np.sum(fv * g.weights))
        # conditioning: a scipy PPoly returns y_i exactly at the nodes x_0..x_{n-2} (h = 0), but the LAST node is evaluated
        # with the previous polynomial piece at h = x_{n-1}-x_{n-2}; its rounding error eps*sum_k|c_k|h^(3-k) is then
        # multiplied by r_n^2 w_n (up to 1e21 on Handy/Becke tails).  That floor is computed from the returned spline.
        hlast = float(res.x[-1] - res.x[-2])
        terms = float(np.sum(np.abs(res.c[:, -1]) * hlast ** np.arange(res.c.shape[0] - 1, -1, -1)))
        floor = 256 * np.finfo(float).eps * terms * 4 * np.pi * float(r[-1] ** 2 * abs(w[-1]))
        scale = float(np.sum(np.abs(fv * g.weights))) + floor / TOL_AVG + 1e-300
        meas = abs(back - direct) / scale
        ctx.check("spherical-average-integrates-back", subj, meas, TOL_AVG, sig=_ratio_sig(back, direct), detail={"back": back, "integral": direct})

    def post_rcs(res, exc, args, kwargs):
        if exc is not None:
            return
        g = args[0]
        subj = "AtomGrid.radial_component_splines:" + str(g.method)
        want = (int(np.max(g.degrees)) // 2 + 1) ** 2
        ctx.check("spline-count", subj, len(res) == want, sig=f"count-{'more' if len(res) > want else 'less'}", detail={"got": len(res), "want": want, "l_max": int(np.max(g.degrees))})
        if len(res):
            ctx.check("spline-count", subj + ":knots", np.array_equal(res[0].x, g.rgrid.points), sig="knots")

    def nop(res, exc, args, kwargs):
        return

    instrument.wrap_method(ctx, AtomGrid, "integrate_angular_coordinates", post_iac)
    instrument.wrap_method(ctx, AtomGrid, "spherical_average", post_avg)
    instrument.wrap_method(ctx, AtomGrid, "radial_component_splines", post_rcs)
    instrument.wrap_method(ctx, AtomGrid, "interpolate", nop)
    instrument.wrap_method(ctx, MolGrid, "interpolate", nop)


def _sig(meas):
    return "nan" if not np.isfinite(meas) else "mismatch"


def _ratio_sig(got, want):
    if not (np.isfinite(got) and np.isfinite(want)):
        return "nan"
    if want != 0:
        q = got / want
        for name, val in (("4pi", 4 * np.pi), ("1/4pi", 1 / (4 * np.pi)), ("sqrt4pi", np.sqrt(4 * np.pi)), ("-1", -1.0), ("2", 2.0), ("0", 0.0)):
            if abs(q - val) < 1e-6 * max(1.0, abs(val)):
                return "ratio=" + name
    return "mismatch"


# ---------------------------------------------------------------------------------------------- generators
def _radial_grid(kind, n, rng):
    from grid.basegrid import OneDGrid
    from grid.onedgrid import ClenshawCurtis, GaussChebyshev, GaussChebyshevType2, GaussLegendre, Simpson, Trapezoidal, UniformInteger
    from grid.rtransform import BeckeRTransform, ExpRTransform, HandyRTransform, KnowlesRTransform, LinearFiniteRTransform, LinearInfiniteRTransform, PowerRTransform

    rmin = float(10 ** rng.uniform(-4, -1))
    R = float(rng.uniform(0.4, 2.0))
    rmax = float(rng.uniform(4.0, 15.0))
    if kind == "becke-gl":
        return BeckeRTransform(rmin, R).transform_1d_grid(GaussLegendre(n))
    if kind == "becke-gc":
        return BeckeRTransform(rmin, R).transform_1d_grid(GaussChebyshev(n))
    if kind == "linear-cc0":
        return LinearFiniteRTransform(0.0, rmax).transform_1d_grid(ClenshawCurtis(n))
    if kind == "linear-trap0":
        return LinearFiniteRTransform(0.0, rmax).transform_1d_grid(Trapezoidal(n))
    if kind == "linear-simpson0":
        return LinearFiniteRTransform(0.0, rmax).transform_1d_grid(Simpson(n | 1))
    if kind == "linear-gl":
        return LinearFiniteRTransform(rmin, rmax).transform_1d_grid(GaussLegendre(n))
    if kind == "exp-ui":
        return ExpRTransform(rmin, rmax).transform_1d_grid(UniformInteger(n))
    if kind == "power-ui":
        return PowerRTransform(rmin, rmax).transform_1d_grid(UniformInteger(n))
    if kind == "knowles-gc2":
        return KnowlesRTransform(rmin, R, int(rng.integers(1, 4))).transform_1d_grid(GaussChebyshevType2(n))
    if kind == "handy-gl":
        return HandyRTransform(rmin, R, int(rng.integers(1, 3))).transform_1d_grid(GaussLegendre(n))
    if kind == "lininf-ui":
        return LinearInfiniteRTransform(rmin, rmax).transform_1d_grid(UniformInteger(n))
    if kind in ("explicit0", "tiny"):
        first = 0.0 if kind == "explicit0" else 1e-9
        pts = np.concatenate([[first], np.sort(10 ** rng.uniform(-2.5, np.log10(rmax), n - 1))])
        pts[1:] += np.arange(n - 1) * 1e-3  # strictly increasing
        wts = rng.uniform(0.05, 1.0, n)
        return OneDGrid(pts, wts, (0, np.inf))
    raise ValueError(kind)


def _degree_pool(method):
    return {"lebedev": (6, 30), "spherical": (6, 30), "maxdet": (6, 28), "ahrens_beylkin": (6, 30)}[method]


def _build_atom(ctx, params, rng, small=False):
    """Returns (grid, info) built through the public constructors."""
    from grid.angular import AngularGrid
    from grid.atomgrid import AtomGrid

    m, dk = params["method"], params["deg"]
    big = params.get("big", False)
    nsh = int(rng.integers(8, 13)) if small else (int(rng.integers(24, 41)) if big else int(rng.integers(8, 24)))
    rgrid = _radial_grid(params["radial"], nsh, rng)
    nsh = rgrid.size
    lo, hi = _degree_pool(m)
    if small:
        hi = 14
    elif not big:
        hi = min(hi, 22)
    ckind = int(rng.integers(0, 4))  # origin (None), random, on the z-axis, origin given with signed zeros
    center = [None, rng.normal(size=3) * 2.0, np.array([0.0, 0.0, float(rng.uniform(-3, 3))]), np.copysign(0.0, rng.normal(size=3))][ckind]
    rotate = 0 if rng.random() < 0.4 else int(rng.integers(1, 2**31))
    kw = {"center": center, "rotate": rotate, "method": m}
    if dk == "uniform":
        g = AtomGrid(rgrid, degrees=[int(rng.integers(lo, hi + 1))], **kw)
    elif dk == "mixed":
        degs = [int(v) for v in rng.integers(lo, hi + 1, nsh)]
        g = AtomGrid(rgrid, degrees=degs if rng.random() < 0.5 else np.array(degs), **kw)
    elif dk == "pruned":
        nsec = int(rng.integers(1, 4))
        radius = float(rng.uniform(0.5, 2.0))
        r_sectors = np.sort(rng.choice(rgrid.points[1:-1], nsec, replace=False)) / radius
        d_sectors = [int(v) for v in rng.integers(lo, hi + 1, nsec + 1)]
        g = AtomGrid.from_pruned(rgrid, radius, r_sectors=r_sectors, d_sectors=d_sectors, **kw)
    elif dk == "sizes":
        degs = rng.integers(lo, hi + 1, nsh)
        sizes = [int(AngularGrid(degree=int(d), method=m).size) - int(rng.integers(0, 2)) for d in degs]
        g = AtomGrid(rgrid, sizes=sizes, **kw)
    else:
        raise ValueError(dk)
    return g, {"center": np.zeros(3) if center is None else np.asarray(center, float), "rotate": rotate, "centre_kind": ckind}


def _classes(ctx, g, info):
    r = g.rgrid.points
    r0 = "r0-node" if r[0] == 0.0 else ("tiny-node" if r[0] < 1e-8 else "no-r0")
    ctx.hit("class:" + r0)
    degs = np.asarray(g.degrees)
    mixed = len(set(degs.tolist())) > 1
    ctx.hit("class:mixed-degrees" if mixed else "class:uniform-degrees")
    if info["rotate"]:
        ctx.hit("class:rotated")
    if np.any(info["center"]):
        ctx.hit("class:off-centre")
    if np.any(np.signbit(info["center"]) & (info["center"] == 0)):
        ctx.hit("class:signed-zero-centre")
    ctx.count("method:" + g.method)
    return r0, mixed


def _eval_points(g, center, rng, n_generic):
    """Evaluation points with tags: generic, centre, z-axis (+/-), near-axis, node-radius, extrapolation, grid-point."""
    r = g.rgrid.points
    rpos = r[r > 1e-6]
    pts, tags = [], []

    def add(p, tag):
        pts.append(np.asarray(p, float) + center)
        tags.append(tag)

    def direction():
        v = rng.normal(size=3)
        return v / np.linalg.norm(v)

    rlo, rhi = rpos[0], rpos[-1]
    for _ in range(n_generic):
        add(direction() * float(np.exp(rng.uniform(np.log(rlo), np.log(rhi)))), "generic")
    for _ in range(4):
        add(direction() * float(rng.uniform(0.3, 1.0) * rlo), "inner")  # below the first positive node (extrapolated unless r=0 node)
    for _ in range(3):
        add(direction() * float(rhi * rng.uniform(1.01, 1.15)), "outer")  # extrapolation beyond the last node
    add([0.0, 0.0, 0.0], "centre")
    for s in (1.0, -1.0):
        add([0.0, 0.0, s * float(np.exp(rng.uniform(np.log(rlo), np.log(rhi))))], "z-axis")
    for _ in range(3):
        rr = float(np.exp(rng.uniform(np.log(rlo), np.log(rhi))))
        ph = float(rng.choice([2e-4, np.pi - 2e-4, 1e-2]))
        th = float(rng.uniform(-np.pi, np.pi))
        add([rr * np.sin(ph) * np.cos(th), rr * np.sin(ph) * np.sin(th), rr * np.cos(ph)], "near-axis")
    rr = float(np.exp(rng.uniform(np.log(rlo), np.log(rhi))))
    add([rr, 0.0, 0.0], "generic")  # theta = 0, phi = pi/2
    add([-rr, 0.0, 0.0], "generic")  # theta = pi (branch of arctan2)
    add([0.0, -rr, 0.0], "generic")
    for _ in range(4):
        add(direction() * float(rng.choice(rpos)), "node-radius")

    # signed zeros: the point IS the centre with every pattern of +0.0 / -0.0 displacement (x - c = -0.0 needs x = -0.0 and
    # c = +0.0, so the component of the point itself is set), and points on the axes / planes with -0.0 components
    def add_signed(d, tag):
        d = np.asarray(d, float)
        pts.append(np.where(center == 0, d, center + d))
        tags.append(tag)

    for sx in (0.0, -0.0):
        for sy in (0.0, -0.0):
            for sz in (0.0, -0.0):
                add_signed([sx, sy, sz], "signed-zero-centre")
    rr = float(np.exp(rng.uniform(np.log(rlo), np.log(rhi))))
    for d in ([-0.0, -0.0, rr], [-0.0, 0.0, -rr], [0.0, -0.0, -rr], [rr, -0.0, -0.0], [-0.0, rr, -0.0], [-rr, -0.0, 0.0], [-rr, 0.0, -0.0], [-0.0, -rr, rr]):
        add_signed(d, "signed-zero-axis")
    idx = rng.choice(g.size, size=min(5, g.size), replace=False)
    P = np.array(pts)
    G = g.points[idx]
    gt = ["grid-point"] * len(idx)
    return np.vstack([P, G]), np.array(tags + gt)


# ---------------------------------------------------------------------------------------------- the atom case
def run_case(ctx, family, params):
    if family == "atom":
        _run_atom(ctx, params)
    elif family == "molecule":
        _run_molecule(ctx, params)
    elif family == "paired":
        _run_paired(ctx, params)
    else:
        raise ValueError(family)


def _first_bad_l(err, tol, ls):
    bad = np.where(~(err <= tol))[0]
    return "ok" if len(bad) == 0 else f"first-bad-l={int(ls[bad].min())}"


def _run_atom(ctx, params):
    rng = ctx.rng
    g = None
    with ctx.guard("constructible", f"AtomGrid:{params['method']}:{params['deg']}:{params['radial']}"):
        g, info = _build_atom(ctx, params, rng)
    if g is None:
        return
    # a copy.copy / copy.deepcopy / pickle clone of the grid is still "the grid built with these arguments": the same
    # post-conditions are run on it.  Half of the cases clone the FRESH object (nothing cached yet), the other half clone it
    # after it has been used; an interpolant built before cloning must be unaffected by the cloning.
    kind = roundtrip.pick(rng, 1)[0]
    used_first = bool(rng.random() < 0.5)
    F0 = P0 = v0 = None
    if used_first:
        with ctx.guard("interpolant-unaffected-by-cloning", "AtomGrid.interpolate"):
            c0 = info["center"]
            f0 = blo.BandLimited(rng, int(np.min(g.degrees)) // 2, float(np.median(g.rgrid.points[g.rgrid.points > 1e-6])), c0)
            F0 = g.interpolate(f0(g.points))
            P0 = np.vstack([c0 + rng.normal(size=(10, 3)) * float(np.median(g.rgrid.points)), g.points[:: max(1, g.size // 10)]])
            v0 = [np.asarray(F0(P0)), np.asarray(F0(P0, deriv=1)), np.asarray(F0(P0, deriv=2, only_radial_deriv=True))]
    ctx.hit("clone-variant:" + ("used" if used_first else "fresh"))
    gc = roundtrip.check_clone(ctx, "AtomGrid", g, kind)
    if F0 is not None and v0 is not None:
        with ctx.guard("interpolant-unaffected-by-cloning", "AtomGrid.interpolate"):
            v1 = [np.asarray(F0(P0)), np.asarray(F0(P0, deriv=1)), np.asarray(F0(P0, deriv=2, only_radial_deriv=True))]
            same = all(a.shape == b.shape and np.array_equal(a, b, equal_nan=True) for a, b in zip(v0, v1))
            ctx.check("interpolant-unaffected-by-cloning", "AtomGrid.interpolate:" + kind, same, sig="values-changed")
    if gc is not None:
        if gc.rotate:
            ctx.hit("clone:rotated")
        if np.any(gc.center):
            ctx.hit("clone:off-centre")
        _check_grid(ctx, gc, info, rng, note="clone:", n_generic=8)
    _check_grid(ctx, g, info, rng, forms=True)


def _check_grid(ctx, g, info, rng, forms=False, note="", n_generic=None):
    """All clauses of the property for ONE use of one atomic grid with a fresh random band-limited function."""
    F = None
    c = info["center"]
    r0kind, mixed = _classes(ctx, g, info)
    degs = np.asarray(g.degrees).astype(int)
    if g.method == "ahrens_beylkin" and (39 in degs or 127 in degs):
        ctx.discard("resolved to an Ahrens-Beylkin file recorded as inexact under C02")
        return
    L = int(degs.min()) // 2
    K = int(degs.max()) // 2
    r, w = g.rgrid.points, g.rgrid.weights
    rpos = r[r > 1e-6]
    r_typ = float(np.exp(np.mean(np.log(rpos[: max(2, len(rpos) * 2 // 3)]))))
    irregular = bool(r[0] > 1e-6 and rng.random() < 0.5)  # only where r = 0 is never sampled (see BandLimited)
    ctx.hit("function:" + ("odd-l-nonzero-at-centre" if irregular else "regular-at-centre"))
    f = blo.BandLimited(rng, L, r_typ, c, sparse=bool(rng.random() < 0.3), irregular=irregular)
    fv = f(g.points)
    S = float(np.max(np.abs(fv)))
    gex = f.g(r)  # ((L+1)^2, nshell) exact nodal values of the radial components
    Sg = max(float(np.max(np.abs(gex))), np.sqrt(4 * np.pi) * S)
    tag = f"{g.method}:{'mixed' if mixed else 'uniform'}:{r0kind}"
    # conditioning: grid points are stored as centre + r*u, so the direction of a point of shell i is only known to
    # eps*|centre|/r_i; a projection onto Y_lm (l <= K) inherits (K+1) times that.  Negligible except for r_i ~ 1e-9.
    with np.errstate(divide="ignore"):
        delta = np.where(r > 0, 64 * np.finfo(float).eps * float(np.max(np.abs(c))) / np.where(r > 0, r, 1.0), 0.0)
    relax = 1.0 + (K + 1) * delta / TOL_VALUE  # per shell; == 1 to 1e-2 for every shell with r_i >= 1e-5 |centre|
    ctx.case_note(note + "max_conditioning_relaxation", float(relax.max()))
    ctx.case_note(note + "shells", int(g.n_shells))
    ctx.case_note(note + "points", int(g.size))
    ctx.case_note(note + "L", L)
    ctx.case_note(note + "l_max", int(degs.max()))
    ctx.case_note(note + "r_first_last", [float(r[0]), float(r[-1])])
    if L < 1:
        ctx.trivial()

    # (1) angular integral at every shell, also for a stack of functions
    subj = "AtomGrid.integrate_angular_coordinates:" + tag
    with ctx.guard("angular-integral-g00", subj):
        I1 = g.integrate_angular_coordinates(fv)
        want = np.sqrt(4 * np.pi) * gex[0]
        e = np.max(np.abs(I1 - want)) / (np.sqrt(4 * np.pi) * S)
        ctx.check("angular-integral-g00", subj, e, TOL_VALUE, sig=_sig(e), detail={"shell": int(np.nanargmax(np.abs(I1 - want))) if np.all(np.isfinite(I1)) else "nan", "got": I1[:3], "want": want[:3]})
        I2 = g.integrate_angular_coordinates(np.array([fv, -2.0 * fv]))
        e = np.max(np.abs(I2 - np.array([want, -2 * want]))) / (np.sqrt(4 * np.pi) * S)
        ctx.check("angular-integral-g00", subj + ":stack", e, TOL_VALUE, sig=_sig(e))
        # (2) re-weighted sum == grid.integrate(f)
        tot = float(g.integrate(fv))
        back = float(np.sum(I1 * r**2 * w))
        e = abs(tot - back) / (float(np.sum(np.abs(fv) * np.abs(g.weights))) + 1e-300)
        ctx.check("shell-sum-equals-integral", subj + ":integrate", e, TOL_IDENT, sig=_sig(e), detail={"integrate": tot, "shell_sum": back})

    # (3) splines at the nodes
    subj = "AtomGrid.radial_component_splines:" + tag
    splines = None
    with ctx.guard("spline-nodal-values", subj):
        splines = g.radial_component_splines(fv)
        nodal = np.array([s(r) for s in splines])  # (n_spl, nshell)
        ls_all, _ = blo.lm_rows(max(K, int(np.sqrt(len(splines))) - 1))
        ls_all = ls_all[: len(splines)]
        want = np.zeros_like(nodal)
        nb = min(len(splines), gex.shape[0])
        want[:nb] = gex[:nb]
        err = np.max(np.abs(nodal - want) / relax[None, :], axis=1) / Sg
        inb = ls_all <= L
        ctx.check("spline-nodal-values", subj, np.max(err[inb]) if nb == gex.shape[0] else np.inf, TOL_VALUE, sig=_first_bad_l(err[inb], TOL_VALUE, ls_all[inb]) if nb == gex.shape[0] else "components-missing", detail={"L": L, "max_err": float(np.nanmax(err[inb])), "n_splines": len(splines), "n_needed": int(gex.shape[0])})
        if np.any(~inb):
            ctx.check("spline-zero-above-band-limit", subj, np.max(err[~inb]), TOL_VALUE, sig=_first_bad_l(err[~inb], TOL_VALUE, ls_all[~inb]), detail={"L": L, "K": K})
    if splines is None:
        return

    # (7) spherical average
    subj = "AtomGrid.spherical_average:" + tag
    with ctx.guard("spherical-average-nodal", subj):
        avg = g.spherical_average(fv)
        got = avg(r)
        wantavg = gex[0] / np.sqrt(4 * np.pi)
        e = np.max(np.abs(got - wantavg)) / S
        j = int(np.argmax(np.abs(wantavg)))
        ctx.check("spherical-average-nodal", subj, e, TOL_VALUE, sig=_ratio_sig(float(got[j]), float(wantavg[j])), detail={"got": got[:3], "want": wantavg[:3]})

    # (4)-(6) the interpolant
    subj = "AtomGrid.interpolate:" + tag
    with ctx.guard("interpolant-at-grid-points", subj):
        F = g.interpolate(fv)
        ctx.hit("interpolant-call:deriv=0")
        at_grid = F(g.points)
        ok_shape = np.shape(at_grid) == (g.size,)
        ctx.check("interpolant-output-layout", subj + ":values", ok_shape, sig="shape", detail={"got": list(np.shape(at_grid))})
        if ok_shape:
            shell_of = np.repeat(np.arange(g.n_shells), np.diff(g.indices))
            # conditioning of scipy's PPoly at the LAST node (evaluated with the previous piece at h = x_n - x_{n-1}, up to
            # 1e4 on Handy/Becke tails): rounding eps * sum_k |c_k| h^(3-k) per spline, |Y_lm| <= 2
            hl = float(r[-1] - r[-2])
            last_terms = sum(float(np.sum(np.abs(sp.c[:, -1]) * hl ** np.arange(sp.c.shape[0] - 1, -1, -1))) for sp in splines)
            floor_pt = np.where(shell_of == g.n_shells - 1, 128 * np.finfo(float).eps * last_terms, 0.0)
            ctx.case_note(note + "last_node_spline_rounding_floor_rel", float(floor_pt.max() / S))
            e = np.max(np.abs(at_grid - fv) / (relax[shell_of] + floor_pt / (TOL_VALUE * S))) / S
            ctx.check("interpolant-at-grid-points", subj, e, TOL_VALUE, sig=_sig(e), detail={"worst_point": int(np.nanargmax(np.abs(at_grid - fv))) if np.all(np.isfinite(at_grid)) else "nan"})
    if F is None:
        return

    if n_generic is None:
        n_generic = 24 if ctx.tier == "quick" else 40
    P, tags = _eval_points(g, c, rng, n_generic)
    for t in ("centre", "z-axis", "grid-point", "signed-zero-centre", "signed-zero-axis"):
        ctx.hit("point:" + t, int(np.sum(tags == t)))
    rr, uu = blo.unit_and_radius(P, c)
    sinphi = np.sqrt(np.maximum(0.0, 1 - uu[:, 2] ** 2))
    Kspl = int(round(np.sqrt(len(splines)))) - 1

    with ctx.guard("interpolant-equals-spline-times-Y", subj):
        vals = np.asarray(F(P))
        Y = sph.ref_Y_cart(Kspl, uu[:, 0], uu[:, 1], uu[:, 2])
        sv = np.array([s(rr) for s in splines])
        ref = np.einsum("kn,kn->n", sv, Y)
        mag = S + np.einsum("kn,kn->n", np.abs(sv), np.abs(Y))
        en = np.abs(vals - ref) / mag
        e = np.max(en)
        ctx.check("interpolant-equals-spline-times-Y", subj, e, TOL_VALUE, sig=_sig(e) + ":" + str(tags[int(np.nanargmax(en))] if np.all(np.isfinite(en)) else "nan"), detail={"point": P[int(np.nanargmax(en))] if np.all(np.isfinite(en)) else None})
        # flags that must not change the values
        v2 = np.asarray(F(P, deriv=0, deriv_spherical=False, only_radial_deriv=True))
        ctx.check("interpolant-output-layout", subj + ":deriv=0,only_radial", np.shape(v2) == np.shape(vals) and np.allclose(v2, vals, rtol=0, atol=1e-12 * np.max(mag)), sig="values-changed")

    # documented centre convention of the public conversion routine: r = 0 -> theta = phi = 0, for every signed-zero form
    subjc = "AtomGrid.convert_cartesian_to_spherical:" + tag
    with ctx.guard("centre-convention-signed-zeros", subjc):
        Pz = P[tags == "signed-zero-centre"]
        sp3 = np.asarray(g.convert_cartesian_to_spherical(Pz), dtype=float)
        okc = sp3.shape == (len(Pz), 3) and bool(np.all(sp3[:, 0] == 0) and np.all(sp3[:, 2] == 0))
        ctx.check("centre-convention-signed-zeros", subjc, okc, sig="phi-nonzero-at-centre" if sp3.shape == (len(Pz), 3) and np.all(sp3[:, 0] == 0) else "r-nonzero", detail={"rows": sp3[:8]})
        if okc and np.any(sp3[:, 1] != 0):
            ctx.count("not-decided:theta-nonzero-at-centre-for-negative-zero-x (harmless: only m=0 survives at phi=0)")
        va = np.asarray(avg(np.array([0.0, -0.0, float(rpos[0])])), dtype=float)
        ctx.check("centre-convention-signed-zeros", "AtomGrid.spherical_average:" + tag, bool(va[0] == va[1]) or bool(np.isnan(va[0]) and np.isnan(va[1])), sig="avg(-0.0)!=avg(0.0)")

    # radial derivatives nu = 1, 2, 3: decided everywhere (nu=3 not on a node sphere)
    def Fv(p):
        return F(p)

    with np.errstate(over="ignore"):
        Fscale = np.abs(np.asarray(F(P))) + S
    D, resid, half, vmax_ray = blo.radial_derivs(Fv, P, c, r)
    vmax_ray = vmax_ray + S
    if np.max(resid / vmax_ray) > 1e-9:
        raise core.MonitorError(f"ray restriction of the interpolant is not cubic inside a node interval (residual {np.max(resid / vmax_ray):.2e}); differentiation oracle not applicable")
    on_node = np.min(np.abs(rr[:, None] - r[None, :]), axis=1) <= 1e-9 * (1 + rr)
    for nu in (1, 2, 3):
        with ctx.guard(f"deriv-radial-nu{nu}", subj):
            ctx.hit(f"interpolant-call:radial-nu={nu}")
            got = np.asarray(F(P, deriv=nu, only_radial_deriv=True), dtype=float)
            ok_shape = got.shape == (len(P),)
            ctx.check("interpolant-output-layout", subj + f":radial-nu={nu}", ok_shape, sig="shape", detail={"got": list(got.shape)})
            if not ok_shape:
                continue
            sel = ~on_node if nu == 3 else np.ones(len(P), bool)
            # allowed error: relative to the size of the derivative over the point set + conditioning of the fit
            floor = 1e-9 * vmax_ray / half**nu  # eps * |values on the stencil| / h^nu, with margin
            scale = np.max(np.abs(D[nu][sel])) + 1e-300
            en = np.abs(got - D[nu]) / (scale + floor / TOL_RADIAL)
            e = np.max(en[sel])
            j = int(np.nanargmax(np.where(sel, en, -1))) if np.all(np.isfinite(en)) else 0
            ctx.check(f"deriv-radial-nu{nu}", subj, e, TOL_RADIAL, sig=_ratio_sig(float(got[j]), float(D[nu][j])) + ":" + str(tags[j]), detail={"got": float(got[j]), "numdiff": float(D[nu][j]), "point": P[j]})

    # spherical derivatives and Cartesian gradient: decided for r > 0 and off the z-axis
    # (points closer than 1e-6(1+|centre|) to the centre - grid points of a 1e-9 shell - are excluded as well: their
    # direction is only known to eps*|centre|/r, numerical differentiation in the angles is ill-conditioned there)
    rmin_dec = 1e-6 * (1.0 + float(np.max(np.abs(c))))
    dec = (rr > rmin_dec) & (sinphi >= 1e-4)
    ctx.count("angular-derivs-not-decided:closer-than-1e-6-to-centre", int(np.sum((rr > 0) & (rr <= rmin_dec))))
    Pd = P[dec]
    with ctx.guard("deriv-spherical", subj):
        ctx.hit("interpolant-call:spherical-derivs")
        flat = np.asarray(F(P, deriv=1, deriv_spherical=True), dtype=float)
        ok_shape = flat.shape == (3 * len(P),)
        ctx.check("interpolant-output-layout", subj + ":spherical", ok_shape, sig="shape", detail={"got": list(flat.shape)})
        if ok_shape:
            sphd = flat.reshape(3, len(P))[:, dec]
            dth, dph, ny, vmax_c = blo.angular_derivs(Fv, Pd, c, Kspl)
            vmax_c = vmax_c + S
            if np.max(ny / vmax_c) > 1e-9:
                raise core.MonitorError(f"interpolant on a circle has content above degree {Kspl}: DFT oracle not applicable ({np.max(ny / vmax_c):.2e})")
            num = np.array([D[1][dec], dth, dph])
            names = ["d/dr", "d/dtheta", "d/dphi"]
            for a in range(3):
                scale = np.max(np.abs(num[a])) + 1e-300
                floor = 1e-9 * (vmax_ray[dec] / half[dec] if a == 0 else vmax_c * (Kspl + 1.0))
                en = np.abs(sphd[a] - num[a]) / (scale + floor / TOL_ANGULAR)
                j = int(np.nanargmax(en)) if np.all(np.isfinite(en)) else 0
                # which numerical derivative does the reported one look like?  (quantised signature)
                sig = "mismatch"
                for b in range(3):
                    if b != a and np.max(np.abs(sphd[a] - num[b])) <= 1e-6 * (np.max(np.abs(num[b])) + 1e-300):
                        sig = "equals-" + names[b]
                if not np.all(np.isfinite(en)):
                    sig = "nan"
                ctx.check("deriv-spherical", subj + ":" + names[a], np.max(en), TOL_ANGULAR, sig=sig, detail={"got": float(sphd[a][j]), "numdiff": float(num[a][j]), "point": Pd[j], "tag": str(tags[dec][j])})

    with ctx.guard("deriv-cartesian", subj):
        ctx.hit("interpolant-call:cartesian-gradient")
        grad = np.asarray(F(P, deriv=1), dtype=float)
        ok_shape = grad.shape == (len(P), 3)
        ctx.check("interpolant-output-layout", subj + ":cartesian", ok_shape, sig="shape", detail={"got": list(grad.shape)})
        if ok_shape:
            h, _ = blo.fd_step(Pd, c, r)
            num = blo.cartesian_gradient(Fv, Pd, h)
            gsc = np.max(np.linalg.norm(num, axis=1)) + 1e-300
            # conditioning of the stencil: value rounding eps*|F|/h and coordinate rounding eps*|P|/h relative
            floor = 1e-11 * Fscale[dec] / h + 32 * np.finfo(float).eps * np.max(np.abs(Pd), axis=1) / h * np.linalg.norm(num, axis=1)
            en = np.linalg.norm(grad[dec] - num, axis=1) / (gsc + floor / TOL_GRAD)
            j = int(np.nanargmax(en)) if np.all(np.isfinite(en)) else 0
            d = grad[dec][j] - num[j]
            comp = int(np.argmax(np.abs(d)))
            sig = "nan" if not np.all(np.isfinite(en)) else ("sign-flipped-" + "xyz"[comp] if abs(grad[dec][j][comp] + num[j][comp]) < 1e-4 * abs(num[j][comp]) else "mismatch")
            ctx.check("deriv-cartesian", subj, np.max(en), TOL_GRAD, sig=sig, detail={"got": grad[dec][j], "numdiff": num[j], "point": Pd[j], "tag": str(tags[dec][j])})
            # documented zero convention on the z-axis: recorded, not decided (at the centre the interpolant is in general
            # not differentiable, nothing to compare with)
            und = (~dec) & (rr > rmin_dec)
            ctx.count("gradient-not-decided:centre", int(np.sum(rr == 0)))
            ctx.count("gradient-not-decided:z-axis-or-closer-than-1e-4", int(np.sum(und)))
            if np.any(und):
                nu_ = blo.cartesian_gradient(Fv, P[und], blo.fd_step(P[und], c, r)[0])
                dev = np.linalg.norm(grad[und] - nu_, axis=1) / gsc
                if np.max(dev) > 1e-5:
                    jj = int(np.argmax(dev))
                    ctx.observe("reported Cartesian gradient ON the z-axis differs from the numerical gradient of the same callable (documented convention: d/dtheta set to zero at phi=0; not decided)", rel_dev=float(dev[jj]), reported=grad[und][jj], numdiff=nu_[jj], point_minus_centre=P[und][jj] - c)
                else:
                    ctx.count("z-axis-gradient-agrees")


    if forms:
        _check_point_forms(ctx, F, "AtomGrid.interpolate", c, rng, float(rpos[0]), float(r[-1]), S, "only_radial_deriv")
        with ctx.guard("function-values-array-form", "AtomGrid.interpolate"):
            big = np.zeros(2 * len(fv))
            big[::2] = fv
            ro = fv.copy()
            ro.setflags(write=False)
            Pq = P[:12]
            ref = np.asarray(F(Pq))
            for name, arr in (("strided", big[::2]), ("readonly", ro)):
                got = np.asarray(g.interpolate(arr)(Pq))
                e = np.max(np.abs(got - ref)) / (np.max(np.abs(ref)) + S)
                ctx.check("function-values-array-form", "AtomGrid.interpolate:" + name, e, 1e-12, sig=_sig(e))


# ---------------------------------------------------------------------------------------------- array forms of the points
MODES = [("values", {}), ("cartesian", {"deriv": 1}), ("spherical", {"deriv": 1, "deriv_spherical": True}), ("radial-nu=1", {"deriv": 1, "RADIAL": True}), ("radial-nu=2", {"deriv": 2, "RADIAL": True}), ("radial-nu=3", {"deriv": 3, "RADIAL": True})]


def _check_point_forms(ctx, call, api, c, rng, rlo, rhi, S, radial_kw):
    """The returned callable must not depend on HOW the (N, 3) evaluation points are stored: integer dtype (lattice
    points), float32, strided views, Fortran order, read-only - compared with the float64 C-contiguous copy of the
    same numbers, for values and every derivative mode (also at the centre / on the z-axis: same code path)."""
    R = int(np.clip(np.floor(rhi), 2, 6))
    lat = np.vstack([rng.integers(-R, R + 1, size=(10, 3)), [[0, 0, 0], [0, 0, 1], [0, 0, -2], [1, 0, 0], [-1, 2, 0]], np.rint(c).astype(int)[None, :]]).astype(np.int64)
    d = rng.normal(size=(12, 3))
    d /= np.linalg.norm(d, axis=1)[:, None]
    Pf = c + d * np.exp(rng.uniform(np.log(rlo), np.log(rhi), 12))[:, None]
    P32 = Pf.astype(np.float32)
    rows = np.zeros((2 * len(Pf), 3))
    rows[::2] = Pf
    cols = np.zeros((len(Pf), 5))
    cols[:, 1:4] = Pf
    ro = Pf.copy()
    ro.setflags(write=False)
    latf, P32f = lat.astype(float), P32.astype(float)
    refs = {}
    forms = [
        ("int64", lat, latf, 1e-10),
        ("int32", lat.astype(np.int32), latf, 1e-10),
        ("float32", P32, P32f, 1e-5),
        ("strided-rows", rows[::2], Pf, 1e-10),
        ("strided-cols", cols[:, 1:4], Pf, 1e-10),
        ("fortran-order", np.asfortranarray(Pf), Pf, 1e-10),
        ("read-only", ro, Pf, 1e-10),
    ]
    for fname, arr, ref_pts, tol in forms:
        subj = f"{api}:{fname}"
        ctx.hit("point-form:" + fname)
        for mode, kw in MODES:
            kw = dict(kw)
            if kw.pop("RADIAL", False):
                kw[radial_kw] = True
            with ctx.guard("evaluation-point-array-form", subj):
                if (id(ref_pts), mode) not in refs:
                    refs[(id(ref_pts), mode)] = np.asarray(call(np.ascontiguousarray(ref_pts, dtype=float), **kw), dtype=float)
                ref = refs[(id(ref_pts), mode)]
                got = np.asarray(call(arr, **kw), dtype=float)
                if got.shape != ref.shape:
                    ctx.check("evaluation-point-array-form", subj, False, sig=mode + ":shape", detail={"got": list(got.shape), "want": list(ref.shape)})
                    continue
                fin = np.isfinite(ref)
                same_nan = bool(np.array_equal(fin, np.isfinite(got)))
                scale = (np.max(np.abs(ref[fin])) if np.any(fin) else 0.0) + S
                e = (np.max(np.abs(got[fin] - ref[fin])) / scale) if (same_nan and np.any(fin)) else (0.0 if same_nan else np.inf)
                ctx.check("evaluation-point-array-form", subj, e, tol, sig=mode + ":differs", detail={"max_abs_diff": float(np.max(np.abs(got[fin] - ref[fin]))) if same_nan and np.any(fin) else "nan-pattern", "scale": float(scale)})


# ---------------------------------------------------------------------------------------------- sequenced grids
NO_R0 = ["becke-gl", "linear-gl", "exp-ui", "power-ui", "knowles-gc2", "lininf-ui", "becke-gc", "handy-gl"]
WITH_R0 = ["linear-cc0", "linear-trap0", "explicit0"]


def _run_paired(ctx, params):
    """Two or three AtomGrid objects that agree in (method, rotate, per-shell degrees) and differ in exactly ONE other
    ingredient, used alternately in one process: every clause on each, after the other one has been used
    (X0, X1, [X2], X0 again, a freshly built twin of X1, a freshly built twin of X0)."""
    from grid.atomgrid import AtomGrid
    from grid.basegrid import OneDGrid

    rng = ctx.rng
    m, vary = params["method"], params["vary"]
    n = int(rng.integers(8, 15))
    lo, hi = _degree_pool(m)
    hi = min(hi, 18)
    if params["deg"] == "uniform":
        degrees = [int(rng.integers(lo, hi + 1))]
    else:
        degrees = [int(v) for v in rng.integers(lo, hi + 1, n)]
    rotate = 0 if rng.random() < 0.2 else int(rng.integers(1, 2**31))
    centre = [np.zeros(3), rng.normal(size=3) * 2.0][int(rng.integers(0, 2))]
    nvar = 2 + int(rng.random() < 0.5)
    specs = []  # (rgrid, centre)
    if vary == "r0":
        kinds = [str(rng.choice(NO_R0)), str(rng.choice(WITH_R0)), "tiny"][:nvar]
        specs = [(_radial_grid(k, n, rng), centre) for k in kinds]
    elif vary == "nodes":
        k0 = str(rng.choice(NO_R0 + WITH_R0))
        kinds = [k0, k0, str(rng.choice(NO_R0))][:nvar]  # same rule with other parameters, then another rule
        specs = [(_radial_grid(k, n, rng), centre) for k in kinds]
    elif vary == "centre":
        rg = _radial_grid(str(rng.choice(NO_R0 + WITH_R0)), n, rng)
        specs = [(rg, centre), (rg, centre + rng.normal(size=3)), (rg, np.zeros(3) if np.any(centre) else np.array([0.0, 0.0, 1.5]))][:nvar]
    elif vary == "weights":
        rg = _radial_grid(str(rng.choice(NO_R0 + WITH_R0)), n, rng)
        specs = [(rg, centre)] + [(OneDGrid(rg.points.copy(), rg.weights * rng.uniform(0.3, 3.0, rg.size), rg.domain), centre) for _ in range(nvar - 1)]
    else:
        raise ValueError(vary)
    order = rng.permutation(len(specs))
    specs = [specs[i] for i in order]

    def build(i):
        rg, cen = specs[i]
        return AtomGrid(rg, degrees=list(degrees), center=np.array(cen, float), rotate=rotate, method=m), {"center": np.array(cen, float), "rotate": rotate, "centre_kind": int(np.any(cen))}

    grids = []
    with ctx.guard("constructible", f"AtomGrid:{m}:paired:{vary}"):
        grids = [build(i) for i in range(len(specs))]
    if not grids:
        return
    if len({tuple(int(d) for d in g.degrees) for g, _ in grids}) != 1:
        raise core.MonitorError("paired grids do not share their degree sequence")
    ctx.hit("pair:" + vary)
    ctx.hit("pair:rotated" if rotate else "pair:unrotated")
    ctx.case_note("n_grids", len(grids))
    ctx.case_note("rotate", rotate)
    seq = list(range(len(grids))) + [0]
    for step, i in enumerate(seq):
        g, info = grids[i]
        _check_grid(ctx, g, info, rng, note=f"use{step}:", n_generic=8)
    for step, i in ((len(seq), 1), (len(seq) + 1, 0)):  # brand-new objects with the ingredients of X1, X0
        with ctx.guard("constructible", f"AtomGrid:{m}:paired:{vary}"):
            g, info = build(i)
            _check_grid(ctx, g, info, rng, note=f"use{step}(twin):", n_generic=8)


# ---------------------------------------------------------------------------------------------- molecules
def _run_molecule(ctx, params):
    from grid.becke import BeckeWeights
    from grid.molgrid import MolGrid

    rng = ctx.rng
    m = params["method"]
    nat = int(params["natom"])
    atgrids, centers = [], []
    base = rng.normal(size=3)
    for a in range(nat):
        p = {"method": m, "radial": str(rng.choice(["becke-gl", "linear-cc0", "power-ui", "explicit0", "knowles-gc2"])), "deg": str(rng.choice(["uniform", "mixed"]))}
        with ctx.guard("constructible", f"AtomGrid:{m}"):
            g, info = _build_atom(ctx, p, rng, small=True)
        # place the atoms on a chain 1.2 - 2.5 bohr apart (AtomGrid centre is fixed at construction: rebuild with the centre)
        from grid.atomgrid import AtomGrid

        cen = base + np.array([1.0, 0.3, -0.2]) * a * float(rng.uniform(1.2, 2.5)) + rng.normal(size=3) * 0.2
        g = AtomGrid(g.rgrid, degrees=[int(d) for d in g.degrees], center=cen, rotate=info["rotate"], method=m)
        atgrids.append(g)
        centers.append(cen)
    atnums = np.array([int(v) for v in rng.choice([1, 6, 7, 8], nat)])
    size = sum(g.size for g in atgrids)
    subj = f"MolGrid.interpolate:{m}:{params['weights']}"
    mol = None
    with ctx.guard("molecular-sum-of-atomic", subj):
        ctx.hit(f"molecule:natom={nat}")
        ctx.hit("molecule:weights=" + params["weights"])
        if params["weights"] == "becke":
            mol = MolGrid(atnums, atgrids, BeckeWeights(order=3), store=True)
        elif params["weights"] == "array":  # arbitrary array, not a partition of unity
            mol = MolGrid(atnums, atgrids, rng.uniform(0.1, 1.0, size), store=True)
        else:  # custom callable with the documented signature, smooth, not a partition of unity
            a0, b0, g0 = float(rng.uniform(0.2, 0.6)), float(rng.uniform(0.3, 0.9)), float(rng.uniform(0.2, 1.0))

            def custom_weights(points, atcoords, atnums_, indices):
                wts = np.zeros(len(points))
                for a in range(len(atcoords)):
                    seg = slice(int(indices[a]), int(indices[a + 1]))
                    wts[seg] = a0 + b0 * np.exp(-g0 * np.sum((points[seg] - atcoords[a]) ** 2, axis=1)) / (1.0 + a)
                return wts

            mol = MolGrid(atnums, atgrids, custom_weights, store=True)
    if mol is None:
        return
    # a smooth molecular function: sum of low-order band-limited pieces around each atom
    pieces = [blo.BandLimited(rng, 2, 0.8, cen) for cen in centers]
    fv = sum(p(mol.points) for p in pieces)
    S = float(np.max(np.abs(fv)))
    w = np.asarray(mol.aim_weights, dtype=float)
    ctx.case_note("atoms", nat)
    ctx.case_note("points", int(mol.size))
    with ctx.guard("molecular-sum-of-atomic", subj):
        Fm = mol.interpolate(fv)
        # evaluation points: random, atom centres, a few grid points
        P = np.vstack([np.array(centers), base + rng.normal(size=(25, 3)) * 2.5, mol.points[rng.choice(mol.size, 8, replace=False)]])
        got = np.asarray(Fm(P), dtype=float)
        ref = np.zeros(len(P))
        mag = np.zeros(len(P)) + S
        atom_funcs = []
        for a, g in enumerate(atgrids):
            seg = slice(int(mol.indices[a]), int(mol.indices[a + 1]))
            wf = w[seg] * fv[seg]
            spl = g.radial_component_splines(wf)
            Ka = int(round(np.sqrt(len(spl)))) - 1
            ra, ua = blo.unit_and_radius(P, centers[a])
            Y = sph.ref_Y_cart(Ka, ua[:, 0], ua[:, 1], ua[:, 2])
            sv = np.array([s(ra) for s in spl])
            ref += np.einsum("kn,kn->n", sv, Y)
            mag += np.einsum("kn,kn->n", np.abs(sv), np.abs(Y))
            atom_funcs.append(g.interpolate(wf))
        ok_shape = got.shape == (len(P),)
        ctx.check("interpolant-output-layout", subj + ":values", ok_shape, sig="shape")
        if ok_shape:
            en = np.abs(got - ref) / mag
            ctx.check("molecular-sum-of-atomic", subj + ":values", np.max(en), TOL_VALUE, sig=_sig(np.max(en)), detail={"point": P[int(np.nanargmax(en))] if np.all(np.isfinite(en)) else None})
        # derivative outputs are the sums of the atomic ones (recomputed by the monitor from its own atomic interpolants)
        Pg = P[nat:]  # away from the atom centres
        modes = [("cartesian", dict(deriv=1), dict(deriv=1)), ("spherical", dict(deriv=1, deriv_spherical=True), dict(deriv=1, deriv_spherical=True)), ("radial-nu=2", dict(deriv=2, only_radial_derivs=True), dict(deriv=2, only_radial_deriv=True))]
        for name, kwm, kwa in modes:
            gm = np.asarray(Fm(Pg, **kwm), dtype=float)
            ga = sum(np.asarray(af(Pg, **kwa), dtype=float) for af in atom_funcs)
            if gm.shape != ga.shape:
                ctx.check("interpolant-output-layout", subj + ":" + name, False, sig="shape", detail={"got": list(gm.shape), "want": list(ga.shape)})
                continue
            sc = sum(np.max(np.abs(np.asarray(af(Pg, **kwa), dtype=float))) for af in atom_funcs) + 1e-300
            e = np.max(np.abs(gm - ga)) / sc
            ctx.check("molecular-sum-of-atomic", subj + ":" + name, e, 1e-11, sig=_sig(e))
        _check_point_forms(ctx, Fm, "MolGrid.interpolate", base, rng, 0.2, 4.0, S, "only_radial_derivs")
        # the molecular interpolant reproduces f at the grid points of an atom only as well as the other atoms'
        # splines allow: recorded, not decided
        ctx.case_note("max_rel_dev_at_grid_points", float(np.max(np.abs(np.asarray(Fm(mol.points[:: max(1, mol.size // 200)])) - fv[:: max(1, mol.size // 200)])) / S))
