"""C07 - a molecular grid is the weighted concatenation of its atomic grids."""

from __future__ import annotations

import numpy as np

from gridrv import instrument
from gridrv.monitors import roundtrip

_CLONES = {"n": 0}

PROP = "C07"
TITLE = "A molecular grid is the weighted concatenation of its atomic grids"
REQUIRED_HOOKS = ["MolGrid.__init__"]
REQUIRED_FAMILIES = ["direct-store-pair", "from_size", "from_preset", "from_pruned", "end-to-end-default-rgrid", "end-to-end-shellcount-presets", "end-to-end-element-sweep"]
BUDGET = {"quick": 400, "thorough": 3600}
RULE = (
    "Post-condition attached to MolGrid.__init__ (every molecular grid built anywhere): points == concatenation of the "
    "atomic grids' public points, indices cumulative, atweights == concatenated atomic weights, weights == atweights x aim "
    "weights (callable weights re-evaluated by the monitor), integrate(f) == sum_A atgrid_A.integrate(w_A f). Workload: "
    "one case = one random molecule (1-5 atoms, seeded) with (a) store on/off pairs compared field by field incl. "
    "get_atomic_grid(i), (b) from_size / from_preset / from_pruned against the grid assembled by hand from "
    "AtomGrid(...), AtomGrid.from_preset, AtomGrid.from_pruned with the same arguments in every accepted argument form "
    "(str/list/dict presets, OneDGrid/list/dict/None radial grids, float/list radius, int/list sectors, degrees vs sizes), "
    "(c) end-to-end charge of random Gaussian sums for every preset. A case is non-trivial when at least one MolGrid was "
    "built and compared; distinct = distinct (family, generator parameters)."
)
ASSUMPTIONS = [
    "hand-assembled reference uses the library's AtomGrid constructors (their correctness is property C05) and BeckeWeights (C06)",
    "end-to-end clause: Gaussian exponents log-uniform in [0.3,30], atoms >= 1.2 bohr apart, elements with default radial grids; error measured relative to sum |q_A|",
]
LEVEL_TEXT = "Structural post-condition evaluated on every MolGrid construction plus paired-constructor and store on/off metamorphic comparisons over seeded random molecules and all argument forms; end-to-end charge accuracy over all 17 presets."
TECHNIQUE = "runtime monitoring: post-condition on MolGrid.__init__ + paired-execution (metamorphic) monitors over seeded molecules"

PRESETS_SECTOR = ["coarse", "medium", "fine", "veryfine", "ultrafine", "insane"]
PRESETS_COUNT = ["sg_0", "sg_2", "sg_3", "g1", "g2", "g3", "g4", "g5", "g6", "g7"]
ALL_PRESETS = PRESETS_SECTOR + ["sg_1"] + PRESETS_COUNT
LIGHT = [1, 2, 3, 4, 5, 6, 7, 8, 9, 10, 11, 12, 13, 15, 16, 17, 18]  # 14 (Si) left out: sg_3 table row is a known C05 finding


def _draw_rot(ctx, rng):
    """`rotate` is documented as "bool or int": integer seeds in every integer form (NumPy integers were rejected by
    AtomGrid's generator until the fix recorded in known_findings.json, property C05) and the two flags; whatever is
    passed to the constructor is passed unchanged to the hand-built atomic grids it must reproduce."""
    u = rng.random()
    if u < 0.6:
        return int(rng.integers(0, 200))
    if u < 0.8:
        ctx.hit("rotate:bool-flag")
        return bool(rng.integers(0, 2))
    ctx.hit("rotate:numpy-integer")
    return [np.int64, np.int32, np.uint8, np.int16][int(rng.integers(0, 4))](rng.integers(0, 200))


def cases(tier, seed):
    q = tier == "quick"
    out = []
    n = {"direct-store-pair": 300 if q else 3000, "from_size": 120 if q else 1500, "from_preset": 200 if q else 2500, "from_pruned": 250 if q else 3000}
    for fam, cnt in n.items():
        for k in range(cnt):
            out.append((fam, {"k": k}, 2.0))
    reps = 4 if q else 40
    for p in ALL_PRESETS:
        heavy = {"insane": 30.0, "ultrafine": 15.0, "veryfine": 10.0, "g7": 20.0, "g6": 12.0, "sg_3": 12.0}.get(p, 5.0)
        for k in range(reps):
            fam = "end-to-end-shellcount-presets" if p in PRESETS_COUNT else "end-to-end-default-rgrid"
            out.append((fam, {"preset": p, "k": k}, heavy))
        for k in range(1 if q else 8):
            out.append(("end-to-end-default-rgrid" if p not in PRESETS_COUNT else "end-to-end-shellcount-presets", {"preset": p, "k": 1000 + k, "heavy_elements": True}, heavy * 2))
    # every element that has a default radial grid, single atom, both ends of the exponent range (a slip in one row of
    # the default radial-grid table only shows for that element, and mostly for diffuse or for tight functions)
    presets_cycle = ["coarse", "medium", "fine"] if q else ["coarse", "medium", "fine", "veryfine"]
    for i, z in enumerate(_elements_with_default_rgrid()):
        for alpha in (0.3, 30.0):
            for p in ([presets_cycle[(i + seed) % len(presets_cycle)]] if q else presets_cycle):
                if _tabulated(p, z):
                    out.append(("end-to-end-element-sweep", {"Z": z, "alpha": alpha, "preset": p}, 2.0))
    return out


# ----------------------------------------------------------------------------- monitor
def _flat_weights_of(atgrids):
    return np.concatenate([np.asarray(g.weights) for g in atgrids])


def setup(ctx):
    from grid.molgrid import MolGrid

    def post(res, exc, args, kwargs):
        if exc is not None:
            return
        self = args[0]
        names = ["atnums", "atgrids", "aim_weights", "store"]
        a = dict(zip(names, args[1:]))
        a.update(kwargs)
        atgrids = a["atgrids"]
        aim = a["aim_weights"]
        store = a.get("store", False)
        subj = f"MolGrid(natoms={min(len(atgrids), 6)},store={bool(store)},aim={'callable' if callable(aim) else 'array'})"
        pts = np.concatenate([np.asarray(g.points) for g in atgrids])
        atw = _flat_weights_of(atgrids)
        idx = np.concatenate([[0], np.cumsum([g.size for g in atgrids])])
        scale = 1.0 + float(np.abs(pts).max())
        ctx.check("points-are-concatenation", subj, self.points.shape == pts.shape and float(np.abs(self.points - pts).max()) <= 0.0, detail={"shape": list(self.points.shape)})
        ctx.check("index-table-cumulative", subj, np.array_equal(np.asarray(self.indices), idx) and self.size == idx[-1], detail={"got": np.asarray(self.indices)[:8], "want": idx[:8]})
        ctx.check("atweights-are-concatenation", subj, self.atweights.shape == atw.shape and float(np.abs(self.atweights - atw).max()) <= 0.0)
        ctx.check("atcoords-are-centres", subj, float(np.abs(np.asarray(self.atcoords) - np.array([g.center for g in atgrids])).max()) <= 0.0)
        if callable(aim):
            ref_aim = np.asarray(aim(pts.copy(), np.array([g.center for g in atgrids]), np.asarray(a["atnums"]), idx.copy()))
        else:
            ref_aim = np.asarray(aim)
        ref_aim = ref_aim.astype(float)  # integer / boolean / float32 partitions are admissible: compare by value
        wscale = float(np.abs(atw).max()) * max(1.0, float(np.abs(ref_aim).max())) + 1e-300
        ctx.check("aim-weights-stored", subj, float(np.abs(np.asarray(self.aim_weights).astype(float) - ref_aim).max()), 1e-14)
        ctx.check("weights-are-product", subj, float(np.abs(self.weights - atw * ref_aim).max()) / wscale, 1e-15)
        # integral identity with an arbitrary smooth function (deterministic, no RNG needed)
        f = np.cos(0.7 * pts[:, 0] - 0.3 * pts[:, 1]) * np.exp(-0.05 * np.sum(pts**2, axis=1) / scale) + 0.25 * pts[:, 2] / scale
        tot = float(self.integrate(f))
        parts = 0.0
        mag = 0.0
        for i, g in enumerate(atgrids):
            sl = slice(idx[i], idx[i + 1])
            parts += float(g.integrate(ref_aim[sl] * f[sl]))
            mag += float(np.sum(np.abs(g.weights * ref_aim[sl] * f[sl])))
        ctx.check("integral-is-sum-of-atomic-integrals", subj, abs(tot - parts) / (mag + 1e-300), 1e-12)
        ctx.check("stored-atgrids-flag", subj, (self.atgrids is not None) == bool(store))
        # a copy of the molecular grid (copy / deepcopy / pickle round trip) is the same concatenation: every public
        # property bit for bit, stored atomic grids and their shells included; every 3rd construction, kinds in rotation
        _CLONES["n"] += 1
        if _CLONES["n"] % 3 == 0 and self.size <= 60000:
            kind = roundtrip.KINDS[(_CLONES["n"] // 3) % len(roundtrip.KINDS)]
            c = roundtrip.check_clone(ctx, subj, self, kind)
            if c is not None and store and self.atgrids is not None:
                for i in range(len(atgrids)):
                    gi, go = c.get_atomic_grid(i), self.get_atomic_grid(i)
                    ctx.check("clone-equals-original", f"{subj}:{kind}:get_atomic_grid", np.array_equal(gi.points, go.points) and np.array_equal(gi.weights, go.weights), sig="clone-differs:atomic-grid")

    instrument.wrap_method(ctx, MolGrid, "__init__", post, hook="MolGrid.__init__")


# ----------------------------------------------------------------------------- generators
def _molecule(rng, natoms=None, elements=LIGHT, min_dist=1.2, box=3.0):
    natoms = natoms or int(rng.integers(1, 6))
    coords = []
    tries = 0
    while len(coords) < natoms:
        c = rng.uniform(-box, box, 3)
        tries += 1
        if all(np.linalg.norm(c - o) >= min_dist for o in coords):
            coords.append(c)
        if tries > 2000:
            box *= 1.5
    atnums = np.array([int(rng.choice(elements)) for _ in range(natoms)])
    return atnums, np.array(coords)


def _radial(rng, n=None):
    from grid.onedgrid import GaussChebyshev, GaussLegendre, Trapezoidal, UniformInteger
    from grid.rtransform import BeckeRTransform, LinearFiniteRTransform, PowerRTransform

    n = n or int(rng.integers(4, 25))
    kind = int(rng.integers(0, 4))
    if kind == 0:
        return BeckeRTransform(float(rng.uniform(1e-4, 1e-2)), float(rng.uniform(0.5, 2.0))).transform_1d_grid(GaussLegendre(n))
    if kind == 1:
        return LinearFiniteRTransform(float(rng.uniform(0.0, 0.05)), float(rng.uniform(4, 12))).transform_1d_grid(GaussChebyshev(n))
    if kind == 2:
        return PowerRTransform(float(rng.uniform(1e-5, 1e-3)), float(rng.uniform(8, 20))).transform_1d_grid(UniformInteger(max(n, 4)))
    return LinearFiniteRTransform(0.0, float(rng.uniform(3, 9))).transform_1d_grid(Trapezoidal(max(n, 3)))  # has an r=0 node


def _same_grid(ctx, clause, subj, a, b, tol=0.0):
    """Two grids must coincide (tol=0: bit for bit; otherwise relative to the coordinate / weight scale)."""
    ok = a.points.shape == b.points.shape
    ctx.check(clause, subj + ":shape", ok, detail={"a": list(a.points.shape), "b": list(b.points.shape)})
    if not ok:
        return
    ps = 1.0 + (float(np.abs(b.points).max()) if b.size else 0.0)
    ws = float(np.abs(b.weights).max()) + 1e-300 if b.size else 1.0
    ctx.check(clause, subj + ":points", float(np.abs(a.points - b.points).max()) / ps if a.size else 0.0, tol)
    ctx.check(clause, subj + ":weights", float(np.abs(a.weights - b.weights).max()) / ws if a.size else 0.0, tol)
    if hasattr(a, "indices") and hasattr(b, "indices") and not hasattr(a, "center"):
        ctx.check(clause, subj + ":indices", np.array_equal(a.indices, b.indices))


def _aim(rng, kind=None):
    from grid.becke import BeckeWeights

    return BeckeWeights(order=int(rng.integers(1, 5)))


# ----------------------------------------------------------------------------- cases
def run_case(ctx, family, params):
    rng = ctx.rng
    from grid.atomgrid import AtomGrid
    from grid.becke import BeckeWeights
    from grid.molgrid import MolGrid

    if family == "direct-store-pair":
        atnums, coords = _molecule(rng, elements=list(range(1, 87)))
        methods = ["lebedev", "lebedev", "spherical", "maxdet", "ahrens_beylkin"]
        atgrids = []
        for i in range(len(atnums)):
            rg = _radial(rng)
            if rng.random() < 0.5:
                degs = [int(rng.integers(3, 20))]
            else:
                degs = [int(v) for v in rng.integers(2, 18, rg.size)]
            atgrids.append(AtomGrid(rg, degrees=degs, center=coords[i], rotate=int(rng.integers(0, 100)), method=str(rng.choice(methods))))
        size = sum(g.size for g in atgrids)
        mode = int(rng.integers(0, 5))
        if mode == 0:
            aim = BeckeWeights(order=int(rng.integers(1, 5)))
        elif mode == 1:
            aim = rng.uniform(0, 1, size)
        elif mode == 3:  # 0/1 partition (e.g. Voronoi cells) as an integer- or boolean-dtype array, or float32 weights
            aim = [rng.integers(0, 2, size), rng.integers(0, 2, size).astype(bool), rng.integers(0, 3, size).astype(np.int32), rng.uniform(0, 1, size).astype(np.float32)][int(rng.integers(0, 4))]
        elif mode == 4:  # callable returning an integer-dtype partition
            wi = rng.integers(0, 2, size)

            def aim(points, atcoords, atnums_, indices, _w=wi):
                return _w.copy()

        else:
            w = rng.uniform(0.1, 1, size)

            def aim(points, atcoords, atnums_, indices, _w=w):  # plain function callable
                return _w * (1.0 + 0.0 * points[:, 0])

        ctx.case_note("natoms", len(atnums))
        ctx.case_note("aim", ["BeckeWeights", "array", "function", "int/bool/float32 array", "function returning ints"][mode])
        ctx.count("aim-kind:" + ["BeckeWeights", "array", "function", "int/bool/float32 array", "function returning ints"][mode])
        with ctx.guard("store-independence", "MolGrid"):
            m0 = MolGrid(atnums, atgrids, aim, store=False)
            m1 = MolGrid(atnums, atgrids, aim, store=True)
            _same_grid(ctx, "store-independence", "mol", m0, m1, 0.0)
            f = np.exp(-0.3 * np.sum((m0.points - coords[0]) ** 2, axis=1))
            ctx.check("store-independence", "integrate", abs(float(m0.integrate(f)) - float(m1.integrate(f))), 0.0)
            ctx.check("store-independence", "aim_weights", float(np.abs(np.asarray(m0.aim_weights, dtype=float) - np.asarray(m1.aim_weights, dtype=float)).max()), 0.0)
            for i in range(len(atnums)):
                g0, g1 = m0.get_atomic_grid(i), m1.get_atomic_grid(i)
                ctx.hit("MolGrid.get_atomic_grid")
                _same_grid(ctx, "per-atom-grid-store-independent", "get_atomic_grid", g0, g1, 0.0)
                ctx.check("per-atom-grid-store-independent", "get_atomic_grid:center", float(np.abs(np.asarray(g0.center) - np.asarray(g1.center)).max()), 0.0)
                # and it IS that atom's grid
                _same_grid(ctx, "per-atom-grid-is-the-atomic-grid", "get_atomic_grid", g0, atgrids[i], 0.0)
                # mol[i]: points/centre decided, weights documented to differ by store (observation only)
                h0, h1 = m0[i], m1[i]
                ctx.check("per-atom-grid-store-independent", "getitem:points", float(np.abs(h0.points - h1.points).max()), 0.0)
                ctx.check("per-atom-grid-store-independent", "getitem:center", float(np.abs(np.asarray(h0.center) - np.asarray(h1.center)).max()), 0.0)
                if float(np.abs(h0.weights - h1.weights).max()) > 0:
                    ctx.observe("MolGrid.__getitem__ weights differ between store=True (atomic weights) and store=False (aim-weighted)")
            # call histories on ONE object: whatever accessor was used before, in whatever order, get_atomic_grid(i)
            # hands back atom i's grid (points, atomic weights, centre) and mol[i] keeps returning what it returned first
            for mol, tag in ((m0, "store=False"), (m1, "store=True"), (MolGrid(atnums, atgrids, aim, store=False), "fresh,store=False")):
                first = {}
                seq = [(int(rng.integers(0, len(atnums))), bool(rng.integers(0, 2))) for _ in range(2 * len(atnums) + 3)]
                if tag.startswith("fresh"):
                    seq = [(i, True) for i in range(len(atnums))] + seq  # mol[i] BEFORE any get_atomic_grid(i)
                for i, use_getitem in seq:
                    if use_getitem:
                        h = mol[i]
                        ctx.hit("MolGrid.__getitem__")
                        if i in first:
                            ctx.check("per-atom-grid-history-independent", f"getitem[{tag}]:weights", float(np.abs(h.weights - first[i]).max()), 0.0)
                        first.setdefault(i, np.array(h.weights))
                        ctx.check("per-atom-grid-history-independent", f"getitem[{tag}]:points", float(np.abs(h.points - atgrids[i].points).max()), 0.0)
                    else:
                        g = mol.get_atomic_grid(i)
                        ctx.hit("MolGrid.get_atomic_grid")
                        _same_grid(ctx, "per-atom-grid-history-independent", f"get_atomic_grid[{tag}]", g, atgrids[i], 0.0)
    elif family == "from_size":
        atnums, coords = _molecule(rng)
        size = int(rng.integers(6, 200))
        rot = _draw_rot(ctx, rng)
        rg = None if rng.random() < 0.4 else _radial(rng)
        store = bool(rng.integers(0, 2))
        aim = None if rng.random() < 0.5 else _aim(rng)
        with ctx.guard("constructor-equals-hand-built", "from_size"):
            m = MolGrid.from_size(atnums, coords, size, rgrid=rg, aim_weights=aim, rotate=rot, store=store)
            ctx.hit("MolGrid.from_size")
            from grid.molgrid import _generate_default_rgrid

            hand = [AtomGrid(rg if rg is not None else _default_rgrid(a), sizes=[size], center=c, rotate=rot) for a, c in zip(atnums, coords)]
            ref = MolGrid(atnums, hand, aim if aim is not None else BeckeWeights(order=3), store=False)
            _same_grid(ctx, "constructor-equals-hand-built", "from_size", m, ref, 1e-12)
    elif family == "from_preset":
        atnums, coords = _molecule(rng, elements=LIGHT)
        presets = PRESETS_SECTOR[:4] + ["sg_1"]
        form = int(rng.integers(0, 3))
        if form == 0:
            preset = str(rng.choice(presets))
            per_atom = [preset] * len(atnums)
        elif form == 1:
            per_atom = [str(rng.choice(presets)) for _ in atnums]
            preset = list(per_atom)
        else:
            table = {int(z): str(rng.choice(presets)) for z in set(atnums.tolist())}
            preset = table
            per_atom = [table[int(z)] for z in atnums]
        rform = int(rng.integers(0, 4))
        if rform == 0:
            rgrid, per_rg = None, [None] * len(atnums)
        elif rform == 1:
            rg = _radial(rng)
            rgrid, per_rg = rg, [rg] * len(atnums)
        elif rform == 2:
            per_rg = [_radial(rng) for _ in atnums]
            rgrid = list(per_rg)
        else:
            table_r = {int(z): _radial(rng) for z in set(atnums.tolist())}
            rgrid = table_r
            per_rg = [table_r[int(z)] for z in atnums]
        rot = _draw_rot(ctx, rng)
        store = bool(rng.integers(0, 2))
        aim = None if rng.random() < 0.5 else _aim(rng)
        ctx.case_note("preset_form", ["str", "list", "dict"][form])
        ctx.case_note("rgrid_form", ["None", "OneDGrid", "list", "dict"][rform])
        with ctx.guard("constructor-equals-hand-built", "from_preset"):
            m = MolGrid.from_preset(atnums, coords, preset, rgrid=rgrid, aim_weights=aim, rotate=rot, store=store)
            ctx.hit("MolGrid.from_preset")
            hand = [AtomGrid.from_preset(atnum=int(z), preset=p, rgrid=r, center=c, rotate=rot) for z, p, r, c in zip(atnums, per_atom, per_rg, coords)]
            ref = MolGrid(atnums, hand, aim if aim is not None else BeckeWeights(order=3), store=False)
            _same_grid(ctx, "constructor-equals-hand-built", f"from_preset[{['str', 'list', 'dict'][form]},{['None', 'OneDGrid', 'list', 'dict'][rform]}]", m, ref, 1e-12)
    elif family == "from_pruned":
        atnums, coords = _molecule(rng)
        nat = len(atnums)
        radius_list = [float(rng.uniform(0.5, 2.0)) for _ in range(nat)]
        use_list_radius = rng.random() < 0.5
        radius = radius_list if use_list_radius else float(radius_list[0])
        per_radius = radius_list if use_list_radius else [radius_list[0]] * nat
        r_sectors, d_lists, s_lists = [], [], []
        for _ in range(nat):
            ns = int(rng.integers(1, 5))
            r_sectors.append([float(v) for v in np.sort(rng.uniform(0.1, 3.0, ns))])
            d_lists.append([int(v) for v in rng.integers(3, 25, ns + 1)])
            s_lists.append([int(v) for v in rng.integers(6, 300, ns + 1)])
        mode = int(rng.integers(0, 4))
        rform = int(rng.integers(0, 4))
        if rform == 0:
            rgrid, per_rg = None, [_default_rgrid(int(z)) for z in atnums]
        elif rform == 1:
            rg = _radial(rng)
            rgrid, per_rg = rg, [rg] * nat
        elif rform == 2:
            per_rg = [_radial(rng) for _ in atnums]
            rgrid = list(per_rg)
        else:
            table_r = {int(z): _radial(rng) for z in set(atnums.tolist())}
            rgrid = table_r
            per_rg = [table_r[int(z)] for z in atnums]
        rot = _draw_rot(ctx, rng)
        store = bool(rng.integers(0, 2))
        aim = None if rng.random() < 0.5 else _aim(rng)
        ctx.case_note("sector_form", ["d_int", "d_lists", "s_lists", "s_int"][mode])
        ctx.case_note("rgrid_form", ["None", "OneDGrid", "list", "dict"][rform])
        with ctx.guard("constructor-equals-hand-built", "from_pruned"):
            if mode == 0:  # documented: "If a number is given, the same number of degrees is used for all sectors of all atoms"
                d_int = int(rng.integers(3, 30))
                m = MolGrid.from_pruned(atnums, coords, radius, r_sectors, d_int, rgrid=rgrid, aim_weights=aim, rotate=rot, store=store)
                hand = [AtomGrid.from_pruned(per_rg[i], per_radius[i], r_sectors=r_sectors[i], d_sectors=[d_int] * (len(r_sectors[i]) + 1), center=coords[i], rotate=rot) for i in range(nat)]
            elif mode == 3:
                s_int = int(rng.integers(6, 300))
                m = MolGrid.from_pruned(atnums, coords, radius, r_sectors, s_sectors=s_int, rgrid=rgrid, aim_weights=aim, rotate=rot, store=store)
                hand = [AtomGrid.from_pruned(per_rg[i], per_radius[i], r_sectors=r_sectors[i], s_sectors=[s_int] * (len(r_sectors[i]) + 1), center=coords[i], rotate=rot) for i in range(nat)]
            elif mode == 1:
                m = MolGrid.from_pruned(atnums, coords, radius, r_sectors, d_lists, rgrid=rgrid, aim_weights=aim, rotate=rot, store=store)
                hand = [AtomGrid.from_pruned(per_rg[i], per_radius[i], r_sectors=r_sectors[i], d_sectors=d_lists[i], center=coords[i], rotate=rot) for i in range(nat)]
            else:
                m = MolGrid.from_pruned(atnums, coords, radius, r_sectors, d_lists, s_sectors=s_lists, rgrid=rgrid, aim_weights=aim, rotate=rot, store=store)
                hand = [AtomGrid.from_pruned(per_rg[i], per_radius[i], r_sectors=r_sectors[i], s_sectors=s_lists[i], center=coords[i], rotate=rot) for i in range(nat)]
            ctx.hit("MolGrid.from_pruned")
            ref = MolGrid(atnums, hand, aim if aim is not None else BeckeWeights(order=3), store=False)
            _same_grid(ctx, "constructor-equals-hand-built", f"from_pruned[{['d_int', 'd_lists', 's_lists', 's_int'][mode]},{['None', 'OneDGrid', 'list', 'dict'][rform]}]", m, ref, 1e-12)
    elif family == "end-to-end-element-sweep":
        z, alpha, preset = int(params["Z"]), float(params["alpha"]), params["preset"]
        c = rng.uniform(-1, 1, (1, 3))
        with ctx.guard("end-to-end-charge-1pct", f"{preset}:element-sweep"):
            m = MolGrid.from_preset(np.array([z]), c, preset)
            ctx.hit("MolGrid.from_preset")
            rho = (alpha / np.pi) ** 1.5 * np.exp(-alpha * np.sum((m.points - c[0]) ** 2, axis=1))
            err = abs(float(m.integrate(rho)) - 1.0)
            ctx.case_note("rel_err", err)
            ctx.check("end-to-end-charge-1pct", f"{preset}:element-sweep", err, 1e-2, sig=f"Z={z}", detail={"Z": z, "alpha": alpha, "npoints": int(m.size)})
    elif family in ("end-to-end-default-rgrid", "end-to-end-shellcount-presets"):
        preset = params["preset"]
        if params.get("heavy_elements"):
            pool = [z for z in _elements_with_default_rgrid() if z > 18 and _tabulated(preset, z)]
            natoms = int(rng.integers(1, 3))
        else:
            pool = [z for z in LIGHT if _tabulated(preset, z)]
            natoms = None
        atnums, coords = _molecule(rng, natoms=natoms, elements=pool)
        nat = len(atnums)
        alphas = np.exp(rng.uniform(np.log(0.3), np.log(30.0), nat))
        q = rng.uniform(0.3, 3.0, nat) * rng.choice([1.0, 1.0, -1.0], nat)
        ctx.case_note("atnums", atnums.tolist())
        ctx.case_note("alphas", alphas)
        with ctx.guard("end-to-end-charge-1pct", preset):
            if preset in PRESETS_COUNT or (preset == "sg_1" and any(z > 18 for z in atnums)):
                rgrid = [_default_rgrid(int(z), npt=_prescribed_size(preset, int(z))) for z in atnums]
            else:
                rgrid = None
            m = MolGrid.from_preset(atnums, coords, preset, rgrid=rgrid)
            ctx.hit("MolGrid.from_preset")
            rho = np.zeros(m.size)
            for a, c, qq in zip(alphas, coords, q):
                rho += qq * (a / np.pi) ** 1.5 * np.exp(-a * np.sum((m.points - c) ** 2, axis=1))
            err = abs(float(m.integrate(rho)) - float(q.sum())) / float(np.abs(q).sum())
            ctx.case_note("rel_err", err)
            ctx.case_note("npoints", int(m.size))
            ctx.check("end-to-end-charge-1pct", preset, err, 1e-2, detail={"atnums": atnums.tolist(), "alphas": alphas, "q": q})
    else:
        raise ValueError(family)


# ----------------------------------------------------------------------------- helpers
_prune_cache = {}


def _prune(preset):
    import os

    from gridrv import core

    if preset not in _prune_cache:
        with np.load(os.path.join(core.GRIDDIR, "data", "prune_grid", f"prune_grid_{preset}.npz"), allow_pickle=True) as d:
            _prune_cache[preset] = {k: d[k] for k in d.files}
    return _prune_cache[preset]


def _tabulated(preset, z):
    return f"{z}_rad" in _prune(preset)


def _prescribed_size(preset, z):
    return int(np.sum(_prune(preset)[f"{z}_rad"]))


def _elements_with_default_rgrid():
    from grid.utils import _DEFAULT_POWER_RTRANSFORM_PARAMS

    return sorted(int(k) for k in _DEFAULT_POWER_RTRANSFORM_PARAMS)


def _default_rgrid(z, npt=None):
    """The documented default radial grid (PowerRTransform of UniformInteger), optionally at a prescribed size."""
    import scipy.constants

    from grid.onedgrid import UniformInteger
    from grid.rtransform import PowerRTransform
    from grid.utils import _DEFAULT_POWER_RTRANSFORM_PARAMS

    rmin, rmax, n = _DEFAULT_POWER_RTRANSFORM_PARAMS[int(z)]
    f = scipy.constants.angstrom / scipy.constants.value("atomic unit of length")
    return PowerRTransform(rmin * f, rmax * f).transform_1d_grid(UniformInteger(npt or n))
