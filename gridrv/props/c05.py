"""C05 - an atomic grid is exactly the product of its radial grid and per-shell spheres; presets build."""

from __future__ import annotations

import zlib

import numpy as np

from gridrv import core
from gridrv.monitors import atomgrid_c05 as mon
from gridrv.monitors import roundtrip
from gridrv.oracles import datafiles, presets_c05, sph

PROP = "C05"
TITLE = "An atomic grid is exactly the product of its radial grid and per-shell spheres"
REQUIRED_HOOKS = ["AtomGrid.__init__", "AtomGrid.get_shell_grid", "AtomGrid.from_pruned", "AtomGrid.from_preset", "AtomGrid.clone"]
REQUIRED_FAMILIES = ["identity", "pruned", "preset", "tables", "all-rows"]
BUDGET = {"quick": 900, "thorough": 6000}
TOL_FACT = 1e-9
RULE = (
    "Post-conditions attached to AtomGrid.__init__ (every construction in the process, including those made by from_pruned/"
    "from_preset): per shell the slice delimited by the index table has the size of the pristine sphere of the shell's degree "
    "(spheres read from the data files, not through the library), weights == w_i r_i^2 W (relative 1e-13, element-wise), and an "
    "orthogonal Q (orthogonal Procrustes, Q=I when rotate==0) with |points-(centre+r_i P Q)| <= 1e-12 (1+|centre|+r_i); r=0 shells sit "
    "on the centre with zero weight; degrees == resolved request. Post-conditions on get_shell_grid (weights with/without r^2, points "
    "minus centre), from_pruned (sector->degree with a 1e-9 tie band on the edges) and from_preset (builds, radial size as prescribed, "
    "no shell coarser than tabulated; tables read by the harness, kind from the dtype of the _rad row). "
    "family identity: one case = one random configuration (method x radial-grid kind cycled deterministically; degrees/sizes kind, "
    "centre kind incl. 1e3 scale, rotation seed in {0,1,7,2^32-n-1,random} drawn from the case rng) with its metamorphic partners: "
    "rebuild (bit-identical), moved centre (translation only), other rotation (weights bit-identical, radii kept), shell grids, and "
    "factorisation of integrals of g(r) Y_lm for all l <= min(min degree, cap). family pruned: from_pruned with sector edges exactly on "
    "radial nodes / random, degrees or sizes. family preset: EVERY (preset, element) row of the 17 shipped tables (deterministic, "
    "both tiers); quick adds one rotating extra variant per row, thorough 5 more variants per row (other angular methods, other radial grids, nodes on/around sector edges, random radial grids). family all-rows: every supported (degree,size) row of the 4 methods used as a shell (thorough: all 450; quick: a rotating third of the rows below 6000 points). "
    "Input class clones: in every family the built grid (non-zero centres, rotate != 0, every method, from_pruned and every preset route) is also passed through copy.copy / copy.deepcopy / pickle (default and protocol 2; kinds drawn by the case rng) and each clone goes through the same post-conditions as a fresh grid "
    "(product identity with its own centre/radial grid/degrees/seed, shell grids via get_shell_grid), must equal the original bit for bit (arrays, index table, degrees, centre, seed, method, radial grid, shell grids, integrate) and cloning must leave the original unchanged; an exception while cloning is a library exception. "
    "A case is non-trivial when at least one grid was built and evaluated."
)
ASSUMPTIONS = [
    "supported spheres = rows of the library's public size->degree tables, point/weight data read from the shipped npz files",
    "exactness of the shipped spheres is C02's subject: the factorisation clause is evaluated only when the pristine spheres of the grid integrate Y_lm (l <= tested l) to 1e-10 themselves",
    "a radial node within 1e-9 (relative) of a sector edge may take either neighbouring sector (docstring and code disagree): tie band, not decided",
    "preset rows whose _rad array is integer prescribe the radial size sum(_rad); rows with float _rad are sector radii and accept any radial grid",
    "rotate given as numpy integer is rejected by the library with ValueError although __init__'s own type check admits it: recorded, not decided",
]
LEVEL_TEXT = "Runtime monitoring of every AtomGrid construction produced by seeded workloads (4 methods, 6 radial-grid kinds incl. r=0 and repeated radii, degrees/sizes, centres to 1e3, 5 seed kinds) and of all 1 374 (preset, element) rows."
TECHNIQUE = "runtime monitoring: post-conditions on AtomGrid.__init__/get_shell_grid/from_pruned/from_preset with pristine-sphere + orthogonal-Procrustes oracle, paired metamorphic cases, exhaustive preset-table enumeration"
METHODS = ["lebedev", "spherical", "maxdet", "ahrens_beylkin"]
RKINDS = ["gl-becke", "gc-knowles", "trap-linear", "uniform-power", "hand", "hand-r0-repeat"]
WITNESS = [("sg_3", 14)]
ROWS_PER_CASE = 6
MAX_Y_ENTRIES = 8e6  # memory cap of the harmonic table used by the factorisation clause


# --------------------------------------------------------------------------- cases
def cases(tier, seed):
    out = []
    n_id = 800 if tier == "quick" else 12000
    n_pr = 400 if tier == "quick" else 4800
    for k in range(n_id):
        m = METHODS[k % 4]
        rk = RKINDS[(k // 4) % len(RKINDS)]
        out.append(("identity", {"method": m, "rkind": rk, "k": k}, 6.0 if m in ("lebedev", "ahrens_beylkin") else 9.0))
    for k in range(n_pr):
        out.append(("pruned", {"method": METHODS[k % 4], "mode": ["edges-on-nodes", "random", "sizes"][(k // 4) % 3], "k": k}, 3.0))
    for i, (p, z) in enumerate(presets_c05.all_pairs()):
        n = presets_c05.prescribed_size(p, z) or 60
        variants = [0, 1 + (i + seed) % 3] if tier == "quick" else [0, 1, 2, 3, 4, 5]
        for v in variants:
            out.append(("preset", {"preset": p, "atnum": z, "variant": v}, 1.0 + n / 40.0))
    for m in METHODS:
        t = datafiles.table(m)
        for j, a in enumerate(range(0, len(t), ROWS_PER_CASE)):
            rows = t[a : a + ROWS_PER_CASE]
            tot = sum(sz for _, sz in rows)
            if tier == "quick" and (max(sz for _, sz in rows) > 6000 or (j + seed) % 3):
                continue
            out.append(("all-rows", {"method": m, "start": a, "stop": a + len(rows)}, 2.0 + tot / 2000.0))
    for p, z in WITNESS:
        out.append(("preset-witness", {"preset": p, "atnum": z}, 1e9))
    out.append(("tables", {}, 50.0))
    for k in range(4 if tier == "quick" else 24):
        out.append(("hostile", {"k": k, "method": METHODS[k % 4]}, 2.0))
    return out


def setup(ctx):
    datafiles.self_test()
    presets_c05.self_test()
    sph.self_test()
    _procrustes_self_test()
    mon.install(ctx)


def _procrustes_self_test():
    """The Procrustes residual is ~0 for an orthogonal image and large for a non-orthogonal one (also 2-point design)."""
    from scipy.spatial.transform import Rotation

    rng = np.random.default_rng(5)
    for m, d in (("spherical", 1), ("lebedev", 3), ("maxdet", 1), ("ahrens_beylkin", 14)):
        P, _ = mon.sphere(m, d)
        Q = Rotation.random(random_state=3).as_matrix()
        X = 0.37 * P @ Q
        U, _, Vt = np.linalg.svd(P.T @ X)
        if np.abs(X - 0.37 * P @ (U @ Vt)).max() > 1e-14:
            raise RuntimeError(f"procrustes self-test failed on {m}_{d}")
        if len(P) > 3:
            X2 = X * np.array([1.0, 1.0, 1.05])
            U, _, Vt = np.linalg.svd(P.T @ X2)
            if np.abs(X2 - 0.37 * P @ (U @ Vt)).max() < 1e-3:
                raise RuntimeError(f"procrustes self-test: sheared image of {m}_{d} wrongly accepted")


# --------------------------------------------------------------------------- generators
def make_rgrid(rng, kind, n=None):
    from grid.basegrid import OneDGrid
    from grid.onedgrid import GaussChebyshev, GaussLegendre, Trapezoidal, UniformInteger
    from grid.rtransform import BeckeRTransform, KnowlesRTransform, LinearFiniteRTransform, PowerRTransform

    if n is None:
        n = int(rng.integers(1, 41)) if rng.random() < 0.8 else int(rng.integers(1, 4))
    if kind == "gl-becke":
        n = max(n, 2)
        return BeckeRTransform(10 ** rng.uniform(-6, -2), rng.uniform(0.5, 3.0)).transform_1d_grid(GaussLegendre(n))
    if kind == "gc-knowles":
        n = max(n, 2)
        return KnowlesRTransform(10 ** rng.uniform(-6, -2), rng.uniform(0.5, 3.0), int(rng.integers(1, 4))).transform_1d_grid(GaussChebyshev(n))
    if kind == "trap-linear":
        n = max(n, 2)
        return LinearFiniteRTransform(0.0, rng.uniform(2.0, 20.0)).transform_1d_grid(Trapezoidal(n))
    if kind == "uniform-power":
        n = max(n, 3)
        return PowerRTransform(10 ** rng.uniform(-8, -4), rng.uniform(5.0, 30.0)).transform_1d_grid(UniformInteger(n))
    if kind == "hand":
        r = 10 ** rng.uniform(-8, 3, n)
        if rng.random() < 0.5:
            r = np.sort(r)
        w = rng.uniform(-0.5, 2.0, n)
        w[rng.random(n) < 0.1] = 0.0
        return OneDGrid(r, w, (0, np.inf) if rng.random() < 0.5 else None)
    if kind == "hand-r0-repeat":
        r = rng.uniform(0.0, 6.0, n)
        r[rng.random(n) < 0.25] = 0.0
        r[0] = 0.0
        if n >= 3:
            j = rng.integers(0, n, max(1, n // 4))
            r[j] = r[(j + 1) % n]  # repeated radii
        if rng.random() < 0.6:
            r = np.sort(r)
        return OneDGrid(r, rng.uniform(0.1, 2.0, n), (0, np.inf))
    raise ValueError(kind)


def degree_cap(rng, method, tier):
    dmax = max(d for d, _ in datafiles.table(method))
    u = rng.random()
    if u < 0.85:
        return min(dmax, 25)
    if u < 0.97 or tier == "quick":
        return min(dmax, 47)
    return min(dmax, 131 if method == "lebedev" else 80)


def make_request(rng, method, n, cap):
    """(kwargs for degrees/sizes, label)."""
    kind = ["const", "vary", "sizes", "sizes-const", "both"][int(rng.integers(0, 5))]
    cap_s = datafiles.resolve(method, degree=cap)[1]
    if kind == "const":
        d = int(rng.integers(0, cap + 1))
        return {"degrees": [d]}, kind
    if kind == "vary":
        d = [int(v) for v in rng.integers(0, cap + 1, n)]
        return {"degrees": d if rng.random() < 0.5 else np.array(d)}, kind
    if kind == "sizes":
        s = [int(v) for v in rng.integers(1, cap_s + 1, n)]
        return {"degrees": None, "sizes": s if rng.random() < 0.5 else np.array(s)}, kind
    if kind == "both":  # documented: sizes win over degrees
        return {"degrees": [int(rng.integers(0, cap + 1))], "sizes": [int(v) for v in rng.integers(1, cap_s + 1, n)]}, kind
    return {"degrees": None, "sizes": [int(rng.integers(1, cap_s + 1))]}, kind


def make_center(rng, kind=None):
    kind = kind or ["none", "zeros", "unit", "big", "big-axis", "int-list"][int(rng.integers(0, 6))]
    if kind == "none":
        return None, kind
    if kind == "zeros":
        return np.zeros(3), kind
    if kind == "unit":
        return rng.uniform(-2, 2, 3), kind
    if kind == "big":
        return rng.uniform(-1, 1, 3) * 1e3, kind
    if kind == "big-axis":
        return np.array([1e3, 0.0, -2e3]) * rng.uniform(0.5, 1.5), kind
    return [int(v) for v in rng.integers(-5, 6, 3)], kind


def make_rotate(rng, n, kind=None):
    kind = kind or ["0", "1", "7", "max", "rand"][int(rng.integers(0, 5))]
    if kind == "0":
        return 0, kind
    if kind in "17":
        return int(kind), kind
    if kind == "max":
        return 2**32 - n - 1, kind
    return int(rng.integers(2, 2**31)), kind


# --------------------------------------------------------------------------- factorisation
_mom_memo = {}


def _sphere_exact(method, degree, lmax):
    """True when the pristine sphere itself integrates all Y_lm, l <= lmax, to 1e-10 (C02's matter otherwise)."""
    key = (method, degree)
    if key not in _mom_memo or len(_mom_memo[key]) <= lmax:
        P, W = mon.sphere(method, degree)
        _mom_memo[key] = sph.moments(P, W, max(lmax, min(degree, 30)))
    return bool(np.all(_mom_memo[key][: lmax + 1] <= 1e-10))


def check_factorisation(ctx, at, subj, lcap):
    """sum_k w_k g(r_k) Y_lm(angles_k) == delta_l0 sqrt(4 pi) sum_i w_i r_i^2 g(r_i), through the real integrate()."""
    rng = ctx.rng
    method = at.method
    degs = [int(d) for d in at.degrees]
    lmax = min(min(degs), lcap, int(np.sqrt(MAX_Y_ENTRIES / max(1, at.size))) - 1)
    if lmax < 0:
        ctx.count("factorisation-skipped-grid-too-large")
        return
    bad = sorted({d for d in degs if not _sphere_exact(method, d, lmax)})
    if bad:
        ctx.observe("factorisation not evaluated: a shipped sphere of the grid is itself not exact (C02)", method=method, degrees=bad)
        ctx.count("factorisation-skipped-inexact-sphere")
        return
    rg = at.rgrid
    r, wr = np.asarray(rg.points, float), np.asarray(rg.weights, float)
    ind = np.asarray(at.indices)
    a, b = rng.uniform(0.3, 2.0), rng.uniform(-0.5, 1.0)
    g = lambda x: np.exp(-a * np.minimum(x, 400.0)) * (1.0 + b * x)  # noqa: E731
    gi = g(r)
    shell_of = np.repeat(np.arange(len(r)), np.diff(ind))
    c = np.asarray(at.center, float)
    X = np.asarray(at.points) - c
    nrm = np.linalg.norm(X, axis=1)
    U = np.where(nrm[:, None] > 0, X / np.where(nrm > 0, nrm, 1.0)[:, None], np.array([0.0, 0.0, 1.0]))
    Y = sph.ref_Y_cart(lmax, U[:, 0], U[:, 1], U[:, 2])
    gvals = gi[shell_of]
    radial = float(np.sum(wr * r**2 * gi))
    term = np.abs(wr) * r**2 * np.abs(gi)
    S = np.sqrt(4 * np.pi) * float(np.sum(term))
    if not S > 0:
        ctx.count("factorisation-trivial-zero-radial-sum")
        return
    # conditioning floor: the direction of (point - centre) is known to eps*(|c|+r)/r only
    with np.errstate(divide="ignore", invalid="ignore"):
        delta = np.where(r > 0, 4 * np.finfo(float).eps * (np.linalg.norm(c) + r) / np.where(r > 0, r, 1.0), 0.0)
    floor = float(np.sum(term * delta)) * 4 * np.pi * (lmax + 1) ** 1.5
    worst, arg = 0.0, None
    with ctx.guard("factorisation", subj):
        for k in range(Y.shape[0]):
            val = float(at.integrate(gvals, np.ascontiguousarray(Y[k])))
            want = np.sqrt(4 * np.pi) * radial if k == 0 else 0.0
            e = abs(val - want)
            if not e <= worst:
                worst, arg = e, k
        ctx.hit("AtomGrid.integrate")
        l_bad = None if arg is None else int(np.floor(np.sqrt(arg)))
        ctx.check("factorisation", subj, worst / (S + floor / TOL_FACT), TOL_FACT, sig=f"l={'0' if l_bad == 0 else '>0'}", detail={"lmax": lmax, "row": arg, "abs_err": worst, "scale": S, "min_degree": min(degs)})
        ctx.count("factorisation-harmonics", Y.shape[0])


# --------------------------------------------------------------------------- run
def run_case(ctx, family, params):
    try:
        if family == "identity":
            _run_identity(ctx, params)
        elif family == "pruned":
            _run_pruned(ctx, params)
        elif family in ("preset", "preset-witness"):
            _run_preset(ctx, params, witness=family == "preset-witness")
        elif family == "tables":
            _run_tables(ctx)
        elif family == "all-rows":
            _run_all_rows(ctx, params)
        elif family == "hostile":
            _run_hostile(ctx, params)
        else:
            raise ValueError(family)
    finally:
        mon.set_tag(None)


def _build(ctx, subj, rgrid, req, center, rotate, method):
    from grid.atomgrid import AtomGrid

    kw = dict(req)
    degrees = kw.pop("degrees", None)
    with ctx.guard("constructible", subj):
        if "sizes" in kw:
            return AtomGrid(rgrid, degrees, sizes=kw["sizes"], center=center, rotate=rotate, method=method)
        return AtomGrid(rgrid, degrees=degrees, center=center, rotate=rotate, method=method)
    return None


def _run_identity(ctx, p):
    rng = ctx.rng
    method = p["method"]
    rgrid = make_rgrid(rng, p["rkind"])
    n = rgrid.size
    cap = degree_cap(rng, method, ctx.tier)
    req, dkind = make_request(rng, method, n, cap)
    center, ckind = make_center(rng)
    rotate, rotkind = make_rotate(rng, n)
    subj = f"{method}:{'rot' if rotate else 'norot'}"
    mon.set_tag(subj)
    for key in (f"class:rkind={p['rkind']}", f"class:request={dkind}", f"class:centre={ckind}", f"class:seed={rotkind}"):
        ctx.count(key)
    ctx.case_note("n_shells", n)
    at = _build(ctx, subj, rgrid, req, center, rotate, method)
    if at is None:
        return
    ctx.case_note("size", int(at.size))
    cvec = np.zeros(3) if center is None else np.asarray(center, float)
    rmax = float(np.max(rgrid.points))
    pts, w = at.points, at.weights

    # same arguments -> bit-identical
    at2 = _build(ctx, subj, rgrid, req, center, rotate, method)
    if at2 is not None:
        same = np.array_equal(at2.points, pts) and np.array_equal(at2.weights, w) and np.array_equal(at2.indices, at.indices) and list(at2.degrees) == list(at.degrees)
        ctx.check("same-seed-bit-identical", subj, bool(same))

    # other centre -> translation only
    c3, _ = make_center(rng, ["unit", "big", "none"][int(rng.integers(0, 3))])
    at3 = _build(ctx, subj, rgrid, req, c3, rotate, method)
    if at3 is not None and at3.size == at.size:
        c3v = np.zeros(3) if c3 is None else np.asarray(c3, float)
        scale = 1.0 + np.linalg.norm(cvec) + np.linalg.norm(c3v) + rmax
        m = float(np.max(np.abs((at3.points - c3v) - (pts - cvec)))) / scale
        ctx.check("translation-only", subj, m, 1e-12, sig="points")
        ctx.check("translation-only", subj + ":weights", np.array_equal(at3.weights, w) and np.array_equal(at3.indices, at.indices), sig="weights-or-indices-change")
    elif at3 is not None:
        ctx.fail("translation-only", subj, "size-changes")

    # other rotation -> same weights, same radii
    rot4 = 0 if rotate else make_rotate(rng, n, ["1", "7", "max", "rand"][int(rng.integers(0, 4))])[0]
    at4 = _build(ctx, f"{method}:{'rot' if rot4 else 'norot'}", rgrid, req, center, rot4, method)
    if at4 is not None:
        okw = at4.size == at.size and np.array_equal(at4.weights, w) and np.array_equal(at4.indices, at.indices) and list(at4.degrees) == list(at.degrees)
        ctx.check("rotation-keeps-weights", subj, bool(okw), sig="weights-indices-or-degrees-change")
        if at4.size == at.size:
            rr = np.repeat(np.asarray(rgrid.points, float), np.diff(at.indices))
            for g_, nm in ((at, "a"), (at4, "b")):
                d = np.linalg.norm(g_.points - cvec, axis=1)
                ctx.check("rotation-keeps-radii", subj, float(np.max(np.abs(d - rr) / (1.0 + np.linalg.norm(cvec) + rr))), 1e-12)
            if n > 1 and (rotate or rot4) and np.max(rgrid.points) > 0:
                moved = float(np.max(np.abs(at4.points - pts)))
                ctx.case_note("rotation_moved_points_by", moved)

    # shell grids (post-condition attached to get_shell_grid decides)
    idx = {0, n - 1, int(rng.integers(0, n))}
    zero = np.where(np.asarray(rgrid.points) == 0)[0]
    if len(zero):
        idx.add(int(zero[-1]))
    for i in sorted(idx):
        for r_sq in (True, False):
            try:
                at.get_shell_grid(i if rng.random() < 0.5 else np.int64(i), r_sq=r_sq)
            except Exception as exc:  # recorded by the post-condition when the call was admissible
                if not core.is_library_exception(exc):
                    raise

    # the shell grid handed back is the caller's to use: writing into it must not reach the atomic grid, and a second
    # request still returns exactly that shell (the post-condition on get_shell_grid decides the second request)
    i = int(rng.integers(0, n))
    try:
        before_p, before_w = np.array(at.points), np.array(at.weights)
        sh = at.get_shell_grid(i)
        if sh.size:
            sh.points[...] = sh.points + 1.2345
            sh.weights[...] = sh.weights * 3.0 + 0.5
        ctx.check("shell-grid-is-independent-of-the-atomic-grid", subj, bool(np.array_equal(np.asarray(at.points), before_p) and np.array_equal(np.asarray(at.weights), before_w)), sig="atomic-grid-changed-by-writing-into-returned-shell")
        at.get_shell_grid(i)
        at.get_shell_grid(i, r_sq=False)
    except Exception as exc:
        if not core.is_library_exception(exc):
            raise

    # clones (copy / deepcopy / pickle) are still this atomic grid
    mon.check_clones(ctx, at, roundtrip.pick(rng, 2), tag=subj, shells=[int(rng.integers(0, n))])

    # factorisation
    if True:
        check_factorisation(ctx, at, subj, 14 if ctx.tier == "quick" or rng.random() < 0.8 else 30)


def _run_pruned(ctx, p):
    from grid.atomgrid import AtomGrid

    rng = ctx.rng
    method, mode = p["method"], p["mode"]
    rkind = ["gl-becke", "trap-linear", "hand-r0-repeat", "uniform-power"][int(rng.integers(0, 4))]
    rgrid = make_rgrid(rng, rkind, n=int(rng.integers(3, 41)))
    r = np.asarray(rgrid.points, float)
    nsec = int(rng.integers(1, 6))
    radius = float(rng.uniform(0.3, 3.0))
    pos = np.unique(r[r > 0])
    if mode == "edges-on-nodes" and len(pos) >= nsec:
        nodes = np.sort(rng.choice(pos, nsec, replace=False))
        if rng.random() < 0.5:
            radius = 1.0  # edges bit-identical to radial nodes
            edges = nodes
        else:
            edges = nodes / radius  # radius*edge lands within an ulp of the node
        ctx.count("class:pruned-edges-exactly-on-nodes")
    else:
        lo, hi = (pos.min(), pos.max()) if len(pos) else (0.1, 1.0)
        edges = np.sort(rng.uniform(lo / radius * 0.5, hi / radius * 1.2, nsec))
        if len(np.unique(edges)) < nsec:
            ctx.discard("degenerate sector edges")
            return
    cap = degree_cap(rng, method, ctx.tier)
    center, ckind = make_center(rng)
    rotate, _ = make_rotate(rng, rgrid.size)
    subj = f"from_pruned:{method}:{'sizes' if mode == 'sizes' else 'degrees'}"
    mon.set_tag(subj)
    r_sectors = edges if rng.random() < 0.5 else [float(e) for e in edges]
    with ctx.guard("constructible", subj):
        if mode == "sizes":
            cap_s = datafiles.resolve(method, degree=cap)[1]
            s = [int(v) for v in rng.integers(1, cap_s + 1, nsec + 1)]
            at = AtomGrid.from_pruned(rgrid, radius, r_sectors, None, s_sectors=s if rng.random() < 0.5 else np.array(s), center=center, rotate=rotate, method=method)
        else:
            d = [int(v) for v in rng.integers(0, cap + 1, nsec + 1)]
            if len(set(d)) == 1:
                d[0] = (d[0] + 7) % (cap + 1)
            at = AtomGrid.from_pruned(rgrid, radius, r_sectors, d if rng.random() < 0.5 else np.array(d), center=center, rotate=rotate, method=method)
        ctx.case_note("degrees", [int(x) for x in at.degrees][:12])
        ctx.case_note("distinct_degrees", len(set(int(x) for x in at.degrees)))
        mon.check_clones(ctx, at, roundtrip.pick(rng, 1), tag=subj)


def _preset_rgrid(rng, preset, z, variant):
    """Radial grid for a preset row: of the prescribed size for shell-count tables."""
    from grid.basegrid import OneDGrid
    from grid.onedgrid import GaussChebyshev, GaussLegendre
    from grid.rtransform import BeckeRTransform

    row = presets_c05.table(preset)[z]
    n = presets_c05.prescribed_size(preset, z)
    if variant >= 4:  # any of the workload's radial-grid kinds (of the prescribed size where one is prescribed)
        kind = RKINDS[int(rng.integers(0, len(RKINDS)))]
        return make_rgrid(rng, kind, n if n is not None else int(rng.integers(5, 90))), kind
    if n is not None:
        if variant in (0, 3):  # wide range: radii from 1e-4 to > 1e3 bohr
            base = GaussChebyshev(n) if variant == 0 else GaussLegendre(n)
            return BeckeRTransform(1e-4, 1.2 + 0.01 * z).transform_1d_grid(base), "becke-wide"
        if variant == 1:  # compact, starts at r = 0
            r = np.linspace(0.0, 12.0, n) ** 1.5 / 12.0**0.5
            return OneDGrid(r, np.full(n, 12.0 / n), (0, np.inf)), "hand-compact-r0"
        r = 10 ** rng.uniform(-3, 2.5, n)  # unsorted: a shell-count table assigns by shell order
        return OneDGrid(r, rng.uniform(0.1, 1.0, n), (0, np.inf)), "hand-unsorted"
    edges = np.asarray(row["rad"], float)
    if variant == 0:
        return None, "default"
    if variant == 1:
        nn = 45
        return BeckeRTransform(1e-4, 1.0 + 0.01 * z).transform_1d_grid(GaussChebyshev(nn)), "becke-wide"
    if variant == 2:  # nodes exactly on every sector edge, plus midpoints and r = 0
        mids = 0.5 * (edges[1:] + edges[:-1])
        r = np.sort(np.concatenate([[0.0, edges[0] / 2], edges, mids, [edges[-1] * 1.5, edges[-1] * 4]]))
        return OneDGrid(r, np.full(len(r), 0.1), (0, np.inf)), "nodes-on-edges"
    r = np.sort(np.concatenate([edges * (1 + 1e-12), edges * (1 - 1e-12), edges * (1 + 1e-6), edges * (1 - 1e-6)]))
    return OneDGrid(r, np.full(len(r), 0.1), (0, np.inf)), "nodes-around-edges"


def _run_preset(ctx, p, witness=False):
    from grid.atomgrid import AtomGrid
    from grid.basegrid import OneDGrid

    rng = ctx.rng
    preset, z, v = p["preset"], int(p["atnum"]), int(p.get("variant", 0))
    h = zlib.crc32(f"{preset}:{z}:{v}".encode())
    method = "lebedev" if v in (0, 2) else (METHODS[1 + h % 3] if v in (1, 3) else METHODS[h % 4])
    rgrid, rk = _preset_rgrid(rng, preset, z, v)
    kind = presets_c05.table(preset)[z]["kind"]
    if rgrid is None:
        from grid import utils

        defaults = getattr(utils, "_DEFAULT_POWER_RTRANSFORM_PARAMS", {})
        if z not in defaults:  # the library documents a ValueError there: give it a radial grid
            rgrid, rk = _preset_rgrid(rng, preset, z, 1)
    rotate = [0, 1 + h % 1000][(h >> 3) % 2]
    center = [None, np.array([0.5, -1.0, 2.0]) * (1 + h % 7), np.array([1e3, -2e3, 5e2])][(h >> 5) % 3]
    ctx.count(f"class:preset-table-kind={kind}")
    ctx.count(f"class:preset-rgrid={rk}")
    mon.set_tag(f"{preset}:Z={z}")
    kw = {}
    if rotate:
        kw["rotate"] = rotate
    if method != "lebedev":
        kw["method"] = method
    try:
        if center is None and (h >> 9) % 2:
            at = AtomGrid.from_preset(z, preset, rgrid, **kw)
        else:
            at = AtomGrid.from_preset(np.int64(z) if (h >> 11) % 2 else z, preset, rgrid, center=center, **kw)
        ctx.case_note("size", int(at.size))
        ctx.case_note("n_shells", int(at.n_shells))
        if v != 0 or (h >> 13) % 2 or witness:  # clones of preset-built grids (every route, every variant)
            mon.check_clones(ctx, at, [roundtrip.KINDS[(h >> 15) % 4]], tag=f"{preset}:Z={z}")
    except Exception as exc:  # the post-condition on from_preset has recorded it (admissible call raised)
        if not core.is_library_exception(exc):
            raise
        ctx.case_note("raised", f"{type(exc).__name__}: {exc}"[:120])


def _run_all_rows(ctx, p):
    """Every supported (degree, size) row of a method appears as a shell of an atomic grid (by degree or by size)."""
    from grid.basegrid import OneDGrid

    rng = ctx.rng
    method = p["method"]
    rows = datafiles.table(method)[p["start"] : p["stop"]]
    n = len(rows)
    r = np.sort(10 ** rng.uniform(-2, 1.5, n))
    if rng.random() < 0.3:
        r[0] = 0.0
    rgrid = OneDGrid(r, rng.uniform(0.1, 1.0, n), (0, np.inf))
    order = rng.permutation(n)
    if (p["start"] // ROWS_PER_CASE) % 2:
        req = {"degrees": None, "sizes": [int(rows[i][1]) for i in order]}
    else:
        req = {"degrees": [int(rows[i][0]) for i in order]}
    center, _ = make_center(rng, ["unit", "big"][int(rng.integers(0, 2))])
    rotate, _ = make_rotate(rng, n, ["0", "rand", "max"][int(rng.integers(0, 3))])
    subj = f"{method}:{'rot' if rotate else 'norot'}:all-rows"
    mon.set_tag(subj)
    at = _build(ctx, subj, rgrid, req, center, rotate, method)
    if at is None:
        return
    ctx.check("resolved-degree", subj + ":exact-rows", sorted(int(d) for d in at.degrees) == sorted(int(d) for d, _ in rows), sig="row-request-not-reproduced")
    ctx.case_note("size", int(at.size))
    ctx.count("angular-rows-used-as-shells", n)
    mon.check_clones(ctx, at, roundtrip.pick(rng, 1), tag=subj)
    for i in (0, n - 1):
        at.get_shell_grid(i)
        at.get_shell_grid(i, r_sq=False)


def _run_tables(ctx):
    names = presets_c05.preset_names()
    ctx.check("preset-tables-present", "prune_grid", len(names) == 17, detail={"found": names})
    from grid import atomgrid as ga

    helper = getattr(ga, "_get_rgrid_size", None)
    n_rows = 0
    for p in names:
        for z in presets_c05.elements(p):
            row = presets_c05.table(p)[z]
            n_rows += 1
            ctx.count(f"rows:{row['kind']}")
            if row["kind"] == "counts":
                if len(row["npt"]) > len(row["rad"]):
                    ctx.observe("shell-count row carries more sizes than sector counts (extra sizes ignored by the library)", row=f"{p}:Z={z}", n_counts=len(row["rad"]), n_sizes=len(row["npt"]))
                elif len(row["npt"]) < len(row["rad"]):
                    ctx.count("rows:counts-with-fewer-sizes-than-counts(decided by the build)")
                if helper is not None:
                    with ctx.guard("preset-radial-size", f"{p}:Z={z}"):
                        got = helper(p, int(z))
                        ctx.check("preset-radial-size", f"{p}:Z={z}:helper", list(map(int, got)) == [presets_c05.prescribed_size(p, z)], detail={"helper": got, "table": presets_c05.prescribed_size(p, z)})
    ctx.case_note("rows", n_rows)
    if helper is None:
        ctx.count("helper-_get_rgrid_size-absent")


def _run_hostile(ctx, p):
    """Single shells, all-zero radii, extreme seeds, numpy-integer seeds (recorded), tiny radii at a far centre."""
    from grid.atomgrid import AtomGrid
    from grid.basegrid import OneDGrid

    rng = ctx.rng
    method = p["method"]
    cap = 15
    confs = [
        ("one-shell", OneDGrid(np.array([rng.uniform(0.1, 3)]), np.array([1.0]), (0, np.inf))),
        ("one-shell-r0", OneDGrid(np.array([0.0]), np.array([1.0]), (0, np.inf))),
        ("all-r0", OneDGrid(np.zeros(3), np.ones(3), (0, np.inf))),
        ("tiny-radii", OneDGrid(10 ** rng.uniform(-12, -6, 5), np.ones(5), (0, np.inf))),
        ("huge-radii", OneDGrid(10 ** rng.uniform(3, 8, 4), np.ones(4), None)),
    ]
    for name, rg in confs:
        n = rg.size
        for center in (None, rng.uniform(-1, 1, 3) * 1e3):
            for rotate in (0, 2**32 - n - 1, int(rng.integers(1, 2**31))):
                subj = f"{method}:{'rot' if rotate else 'norot'}:{name}"
                mon.set_tag(subj)
                req, _ = make_request(rng, method, n, cap)
                at = _build(ctx, subj, rg, req, center, rotate, method)
                if at is not None:
                    for i in {0, n - 1}:
                        at.get_shell_grid(i)
                        at.get_shell_grid(i, r_sq=False)
                    mon.check_clones(ctx, at, roundtrip.pick(rng, 1), tag=subj)
    # numpy-integer seeds (admitted by __init__; the generator rejected them before the fix recorded in known_findings.json):
    # the grid must be the one of the equal Python integer
    rg = confs[0][1]
    for form in (np.int64, np.int32, np.uint8):
        seed = int(rng.integers(1, 200))
        subj = f"{method}:rot:seed-as-{form.__name__}"
        with ctx.guard("rotation-reproducible-from-seed", subj):
            a, b = AtomGrid(rg, [5], rotate=form(seed), method=method), AtomGrid(rg, [5], rotate=seed, method=method)
            ctx.check("rotation-reproducible-from-seed", subj, np.array_equal(a.points, b.points) and np.array_equal(a.weights, b.weights) and np.array_equal(a.get_shell_grid(rg.size - 1).points, b.get_shell_grid(rg.size - 1).points), sig="numpy-integer-seed-differs-from-python-integer-seed")
            ctx.hit("numpy-integer-seed")
    # seeds just outside the documented range are rejected
    for bad in (-1, 2**32 - rg.size):
        try:
            AtomGrid(rg, [5], rotate=bad, method=method)
            ctx.observe("rotation seed outside [0, 2^32-n) accepted", seed=bad)
        except ValueError:
            ctx.count("seed-out-of-range-rejected")
