"""C01 - every 1-D quadrature rule is exact on its polynomial class and has the nodes/weights of its definition."""

from __future__ import annotations

import math

import numpy as np

import functools

import grid.onedgrid as _og
from grid.basegrid import OneDGrid as _OneDGrid

from gridrv import instrument
from gridrv.monitors import roundtrip
from gridrv.oracles import quadrature_ref as qref

PROP = "C01"
TITLE = "Every 1D quadrature rule is exact on its polynomial class, for every size"

# ------------------------------------------------------------------ the 26 rule classes and how each is decided
# Gram-matrix exactness: class -> (orthonormal family, nominal degree as a function of n, how the degree reads)
POLY = {
    "GaussLegendre": ("legendre", lambda n: 2 * n - 1, "2n"),
    "GaussChebyshev": ("chebt", lambda n: 2 * n - 1, "2n"),
    "GaussChebyshevType2": ("chebu", lambda n: 2 * n - 1, "2n"),
    "GaussLaguerre": ("laguerre", lambda n: 2 * n - 1, "2n"),
    "ClenshawCurtis": ("legendre", lambda n: n - 1, "n"),
    "FejerFirst": ("legendre", lambda n: n - 1, "n"),
    "FejerSecond": ("legendre", lambda n: n - 1, "n"),
    "Simpson": ("legendre", lambda n: 3, "abs"),
    "Trapezoidal": ("legendre", lambda n: 1, "abs"),
    "MidPoint": ("legendre", lambda n: 1, "abs"),
}
GAUSS = ["GaussLegendre", "GaussChebyshev", "GaussChebyshevType2", "GaussLaguerre"]
INTERP = ["ClenshawCurtis", "FejerFirst", "FejerSecond", "Simpson", "Trapezoidal", "MidPoint"]
CLOSED = ["GaussChebyshevLobatto", "RectangleRuleSineEndPoints", "UniformInteger"]
SUBST = ["TanhSinh", "ExpSinh", "LogExpSinh", "ExpExp", "SingleTanh", "SingleExp", "SingleArcSinhExp"]
TPOLY = ["TrefethenCC", "TrefethenGC2", "TrefethenGeneral"]
TSTRIP = ["TrefethenStripCC", "TrefethenStripGC2", "TrefethenStripGeneral"]
ALL_RULES = GAUSS + INTERP + CLOSED + SUBST + TPOLY + TSTRIP  # 26
ODD_ONLY = {"TanhSinh", "Simpson", "ExpSinh", "LogExpSinh", "ExpExp", "SingleTanh", "SingleExp", "SingleArcSinhExp"}
N_MIN = {"GaussChebyshevType2": 1, "TrefethenGC2": 1, "TrefethenStripGC2": 1, "ExpSinh": 1, "LogExpSinh": 1, "ExpExp": 1, "SingleTanh": 1, "SingleExp": 1, "SingleArcSinhExp": 1, "TanhSinh": 3, "Simpson": 3}
STEP_ARG = {"TanhSinh": ("delta", 0.1), "ExpSinh": ("h", 1.0), "LogExpSinh": ("h", 0.1), "ExpExp": ("h", 0.1), "SingleTanh": ("h", 0.1), "SingleExp": ("h", 0.1), "SingleArcSinhExp": ("h", 0.1)}
# every rule of grid.onedgrid on [-1,1] that can be built from npoints alone is an admissible base of the General maps
GENERAL_BASES = [
    "GaussLegendre", "FejerFirst", "Trapezoidal", "GaussChebyshev", "MidPoint", "ClenshawCurtis", "GaussChebyshevType2", "GaussChebyshevLobatto",
    "FejerSecond", "RectangleRuleSineEndPoints", "TanhSinh", "Simpson", "SingleTanh", "TrefethenCC", "TrefethenGC2", "TrefethenStripCC", "TrefethenStripGC2",
]  # fmt: skip
# bases whose nodes crowd the end points (1-|s| ~ n^-2 or exponentially small): large sizes matter for the strip map
CROWDING_BASES = ["ClenshawCurtis", "GaussChebyshevType2", "GaussLegendre", "GaussChebyshev", "GaussChebyshevLobatto", "FejerFirst", "FejerSecond", "TanhSinh", "SingleTanh", "TrefethenCC"]
BASE_SIZES_QUICK = [2, 3, 8, 9, 31, 32, 61, 101, 151, 256, 257, 401]
BASE_SIZES_LARGE_QUICK = [600, 601, 703, 704, 1001]
BASE_SIZES_THOROUGH = [2, 3, 4, 5, 8, 9, 16, 17, 31, 32, 47, 61, 64, 75, 101, 128, 151, 201, 256, 257, 301, 400, 401, 501]
BASE_SIZES_LARGE_THOROUGH = [600, 601, 702, 703, 704, 705, 801, 1000, 1001, 1500, 1501, 2001]
ALPHAS = [-0.9, -0.5, 0, 0.5, 1, 2, 3.7, 10]
LAGUERRE_NMAX = 150

REQUIRED_HOOKS = ["OneDGrid.__init__", "Grid.integrate", "plain-OneDGrid", "asymmetric-user-base"] + [f"clone:{k}" for k in roundtrip.KINDS] + [f"spelling:{s}" for s in ("int", "int64", "int32", "float64", "float32", "array0d")] + [f"decided:{c}" for c in ALL_RULES]
REQUIRED_FAMILIES = ["gauss", "interpolatory", "closed-form", "substitution", "trefethen-poly", "trefethen-strip", "random-params", "pinned-fejer2", "incidental", "general-bases", "large-n-strip", "param-spellings", "user-bases"]
BUDGET = {"quick": 400, "thorough": 3000}
TOL_GRAM = 1e-9
TOL_DEF = 1e-9
DEF_FLOOR = 1e-4  # |lib-ref| / (|ref| + DEF_FLOOR): relative, with an absolute floor of TOL_DEF*DEF_FLOOR = 1e-13
TOL_DOMAIN = 1e-12
# strip map: within END_BAND of s = +-1 the derivative may be replaced by its end-point limit (it is what any float64
# evaluation of G'(u)/cos(u) has to do somewhere); the true g'(s) differs from g'(+-1) by O(tau*sqrt(2(1-|s|))).
END_BAND = 1.01e-8
TOL_END_BAND = 1e-3  # pure relative; largest value seen on the unchanged tree 2.9e-6 (rho near 1.05, SingleTanh/TanhSinh bases)
TOL_SPELL = 1e-12  # nodes/weights for a parameter spelled as int / NumPy scalar / 0-d array vs. the Python float spelling
TOL_F32 = 3e-4  # np.float32-typed parameter: NumPy keeps scalar prefactors in float32 (eps 1.2e-7); largest value seen 1.05e-6
TOL_SERIES = 2e-12  # 100 x the largest value seen on the unchanged tree (2.0e-14 at n=386, n = 2..400); max |w - w(series minus last term)| / (2/n): only classifies a FejerSecond failure (signature)
# "ascending up to rounding": where the exact nodes crowd a finite domain end closer than float64 resolves (tanh saturating to
# 1.0, exp underflowing to 0.0, a map applied to such a base rule) neighbouring nodes may tie or swap by rounding. A non-increasing
# pair is tolerated only if BOTH nodes lie within SAT_BAND (relative) of a finite domain end AND the step back is <= MAX_BACKSTEP.
SAT_BAND = 1e-12
MAX_BACKSTEP = 16 * np.finfo(float).eps

RULE = (
    "One case = one rule class x one size n x one value of its extra parameter (alpha; delta/h; d; rho; base rule), built through "
    "the public constructor. Deterministic families: all 26 classes of grid.onedgrid x n in 2..80 + {100,101,127,128,129,149,150,199,"
    "200,201,255,256,257,399,400} (quick) or every n in 2..400 (thorough) (n=1 where the class admits it; odd n for odd-only rules; Gauss-Laguerre "
    "n<=150 x alpha in {-0.9,-0.5,0,0.5,1,2,3.7,10}; substitution rules with the class default step when nodes stay finite; Trefethen "
    "d in {1,5,9}, strip rho=1.1). Random family (seed dependent): alpha in (-1,20], step log-uniform in [1e-3, min(1, t_max/m)], "
    "rho in [1.05,3], random base rule. Monitors: (i) invariant attached to OneDGrid.__init__ (every 1-D grid built anywhere; deciding "
    "for the rule classes of grid.onedgrid): 1-D equal shapes, finite, ascending (ties only where rounding saturates at a finite domain "
    "end), inside domain (slack 1e-12); (ii) Gram matrix of orthonormal Legendre / Chebyshev-T / Chebyshev-U / generalised Laguerre "
    "functions = identity for all j+k <= nominal degree (1e-9), largest exact degree measured on failure; (iii) definition oracle: "
    "nodes = documented node map in mpmath, weights = step x numerically differentiated node map (x base weight for Trefethen maps), "
    "sine-mode exactness for the sine rectangle rule (1e-9 relative). A case is non-trivial when an oracle (ii) or (iii) was evaluated "
    "on a grid with >= 2 nodes; distinct = distinct (class, n, parameter). Further input classes: general-bases = TrefethenGeneral (d=5,9) and "
    "TrefethenStripGeneral (rho=1.1 and random) over EVERY admissible base rule (17 classes on [-1,1] incl. TanhSinh, SingleTanh, Simpson, the "
    "Trefethen rules themselves) x 12 (quick) / 24 (thorough) sizes, plus sizes 600..1001 (quick) / 600..2001 (thorough) for the 10 bases whose nodes "
    "crowd the end points; large-n-strip = TrefethenStripCC/GC2/CC/GC2 at those large sizes; the definition check is per node at EVERY node, nodes with "
    "0 < 1-|s| <= 1e-8 (where the end-point limit of the derivative is admitted) under their own clause with relative tolerance 1e-3. "
    "param-spellings = every real-valued parameter (delta, h, alpha, rho; d) given as Python int, np.int64, np.int32, np.float64, np.float32 and 0-d "
    "array (integer values 1,2,3 / 0..3 where admissible, and a non-integer value): result must equal the rule of the equal Python float (1e-12; "
    "float32: 3e-4) and satisfy the definition / Gram oracle; sizes are passed as int, np.int64 (n%3==0) and np.int32 (n%5==0). "
    "user-bases = TrefethenGeneral (d=1,5,9) / TrefethenStripGeneral (rho=1.1 and random) over USER-DEFINED OneDGrid subclasses whose nodes are "
    "not symmetric about 0 (shifted Gauss-Legendre, Gauss-Radau, one-sided graded, scattered nodes; own weights), over user subclasses of built-in "
    "rules with non-default parameters and a functools.partial; oracle = independent g, g' applied to THAT base's nodes and weights. "
    "Copies: in every deciding case two of {copy.copy, copy.deepcopy, pickle, pickle protocol 2} (drawn by the case generator) of the constructed "
    "rule must be identical to it (type, size, domain, nodes and weights bit for bit) and are handed to the same oracle as the original."
)
ASSUMPTIONS = [
    "nominal degrees as in the property statement (Gauss 2n-1; Clenshaw-Curtis/Fejer n-1; Simpson 3; trapezoid/midpoint 1)",
    "substitution rules are decided only for (n, step) whose exact nodes and weights are representable in float64 (overflowing parameter sets are recorded as observations)",
    "Gauss-Laguerre is decided for n <= 150 (beyond n ~ 185 exp(x_max) overflows; recorded as observation)",
    "the strip map is the one of Hale & Trefethen 2008 (typed from the paper, verified to map the rho-ellipse onto a strip)",
    "tolerances: Gram entries 1e-9 absolute; definition 1e-9 relative with absolute floor 1e-13",
    "strip maps: for base nodes with 0 < 1-|s| <= 1e-8 the library's use of the end-point limit g'(+-1) is admitted (relative deviation <= 1e-3 granted, 2.9e-6 seen); every node farther from the ends is held to 1e-9",
    "ascending is decided up to rounding: a tie / step back <= 16 eps between two nodes that both lie within 1e-12 of a finite domain end is tolerated (saturating node maps), anything else is a violation",
    "a np.float32-typed parameter is granted float32 accuracy (3e-4 relative): NumPy keeps float32 scalars in float32 arithmetic; 0-d array parameters that a constructor rejects are counted, not decided",
]
LEVEL_TEXT = "Every rule class x every n up to 400 (thorough) decided by independent Gram-matrix / definition oracles on the real constructor outputs; n beyond the sweep is not observed."
TECHNIQUE = "runtime monitoring: invariant on OneDGrid.__init__ + post-conditions (orthonormal Gram matrices, mpmath node-map differentiation) on every rule constructor"

NQ = list(range(2, 81)) + [100, 101, 127, 128, 129, 149, 150, 199, 200, 201, 255, 256, 257, 399, 400]
NT = list(range(2, 401))
PINNED_FEJER2 = [2, 3, 10, 11]

_state = {"mode": "decide"}


# ------------------------------------------------------------------ user-defined base rules for the General maps
# The `quadrature` argument of TrefethenGeneral / TrefethenStripGeneral is "a general one-dimensional grid" class: any OneDGrid
# subclass constructible from npoints.  These have nodes on [-1,1] that are NOT symmetric about 0 and their own weights; the maps'
# definition (nodes g(x_i), weights w_i g'(x_i)) applies to them as to any built-in rule.
class UserShiftedGaussLegendre(_OneDGrid):
    """Gauss-Legendre squeezed/shifted onto [-0.7, 0.95]."""

    def __init__(self, npoints):
        x, w = np.polynomial.legendre.leggauss(int(npoints))
        super().__init__(0.825 * x + 0.125, 0.825 * w, (-1, 1))


class UserGaussRadau(_OneDGrid):
    """Gauss-Radau (Legendre weight, fixed node -1) with interpolatory weights."""

    def __init__(self, npoints):
        from scipy.special import roots_jacobi

        n = int(npoints)
        x = np.concatenate(([-1.0], np.sort(roots_jacobi(n - 1, 0.0, 1.0)[0]))) if n > 1 else np.array([-1.0])
        rhs = np.zeros(n)
        rhs[0] = 2.0
        w = np.linalg.solve(np.polynomial.legendre.legvander(x, n - 1).T, rhs)
        super().__init__(x, w, (-1, 1))


class UserGradedOneSided(_OneDGrid):
    """Both end points, nodes graded towards -1 (unequal spacing), trapezoid weights on those nodes."""

    def __init__(self, npoints):
        n = int(npoints)
        x = -1.0 + 2.0 * (np.arange(n) / (n - 1.0)) ** 2.5
        x[-1] = 1.0
        w = np.zeros(n)
        w[:-1] += 0.5 * np.diff(x)
        w[1:] += 0.5 * np.diff(x)
        super().__init__(x, w, (-1, 1))


class UserScatteredNodes(_OneDGrid):
    """Irregular nodes (fixed pseudo-random set per size) with positive, unrelated weights."""

    def __init__(self, npoints):
        n = int(npoints)
        r = np.random.default_rng([20260926, n])
        x = np.sort(r.uniform(-0.999, 0.97, n))
        super().__init__(x, r.uniform(0.2, 1.8, n) / n, (-1, 1))


class UserTanhSinhDelta(_og.TanhSinh):
    """Built-in rule with a non-default extra parameter (the API builds quadrature(npoints) only)."""

    def __init__(self, npoints):
        super().__init__(npoints, 0.3)


class UserSingleTanhStep(_og.SingleTanh):
    def __init__(self, npoints):
        super().__init__(npoints, h=0.05)


class UserTrefethenCCd5(_og.TrefethenCC):
    def __init__(self, npoints):
        super().__init__(npoints, d=5)


class UserStripGC2Rho(_og.TrefethenStripGC2):
    def __init__(self, npoints):
        super().__init__(npoints, rho=1.7)


USER_BASES = {c.__name__: c for c in (UserShiftedGaussLegendre, UserGaussRadau, UserGradedOneSided, UserScatteredNodes, UserTanhSinhDelta, UserSingleTanhStep, UserTrefethenCCd5, UserStripGC2Rho)}
USER_BASES["partial(TanhSinh,delta=0.25)"] = functools.partial(_og.TanhSinh, delta=0.25)  # a callable, not a class: TrefethenStripGeneral only
USER_ODD_ONLY = {"UserTanhSinhDelta", "UserSingleTanhStep", "partial(TanhSinh,delta=0.25)"}
USER_ASYMMETRIC = ["UserShiftedGaussLegendre", "UserGaussRadau", "UserGradedOneSided", "UserScatteredNodes"]
USER_SIZES = {"quick": [2, 3, 4, 7, 8, 15, 16, 33, 64, 101], "thorough": [2, 3, 4, 5, 6, 7, 8, 9, 15, 16, 21, 33, 40, 64, 65, 101, 128, 201]}


# ------------------------------------------------------------------ case generation
def _admissible(cls, n):
    if n < N_MIN.get(cls, 2):
        return False
    if cls in ODD_ONLY and n % 2 == 0:
        return False
    if cls == "GaussLaguerre" and n > LAGUERRE_NMAX:
        return False
    return True


def _pick_base(n, i):
    ok = [b for b in GENERAL_BASES if _admissible(b, n)]
    return ok[i % len(ok)]


SPELLINGS = ["int", "int64", "int32", "float64", "float32", "array0d"]


def _spelling_cases(tier):
    """Every real-valued rule parameter in its integer / NumPy-scalar / 0-d array spellings (integer values where admissible)."""
    out = []
    ns = [3, 5, 11, 35, 101] if tier == "quick" else [1, 3, 5, 7, 11, 21, 35, 63, 101, 201, 401]
    vals = [1, 2] if tier == "quick" else [1, 2, 3]
    for c in SUBST:
        for v in vals + [0.3]:
            for n in ns:
                if not _admissible(c, n) or ((n - 1) // 2) * v > qref.T_MAX[c]:
                    continue
                for sp in SPELLINGS:
                    if v != int(v) and sp.startswith("int"):
                        continue
                    out.append(("param-spellings", {"cls": c, "n": n, "value": v, "as": sp}, n * 2e-3 + 0.01))
    for v in [0, 1, 2, 3, 0.5]:
        for n in ([2, 5, 20, 64] if tier == "quick" else [2, 3, 5, 20, 33, 64, 100, 150]):
            for sp in SPELLINGS:
                if v != int(v) and sp.startswith("int"):
                    continue
                out.append(("param-spellings", {"cls": "GaussLaguerre", "n": n, "value": v, "as": sp}, 4.0 * n**3 / 1e7 + 0.01))
    for c in TSTRIP:
        for v in [2, 3, 1.5]:
            for n in ([2, 9, 40] if tier == "quick" else [2, 3, 9, 40, 101, 256]):
                if not _admissible(c, n):
                    continue
                for sp in SPELLINGS:
                    if v != int(v) and sp.startswith("int"):
                        continue
                    out.append(("param-spellings", {"cls": c, "n": n, "value": v, "as": sp}, n * 3e-4 + 0.01))
    for c in TPOLY:
        for v in (1, 5, 9):
            for n in ([2, 9, 40] if tier == "quick" else [2, 3, 9, 40, 101, 256]):
                for sp in ("int64", "int32", "float64", "array0d"):
                    out.append(("param-spellings", {"cls": c, "n": n, "value": v, "as": sp}, n * 1e-4 + 0.01))
    return out


def _default_step_ok(cls, n):
    m = (n - 1) // 2
    return m * STEP_ARG[cls][1] <= qref.T_MAX[cls]


def cases(tier, seed):
    ns = NQ if tier == "quick" else NT
    out = []
    nrand = 1 if tier == "quick" else 3
    for n in [1] + ns:
        for c in GAUSS:
            if not _admissible(c, n):
                continue
            if c == "GaussLaguerre":
                for a in ALPHAS:
                    out.append(("gauss", {"cls": c, "n": n, "alpha": a}, 4.0 * n**3 / 1e7 + 0.01))
                for k in range(nrand):
                    out.append(("random-params", {"cls": c, "n": n, "k": k}, 4.0 * n**3 / 1e7 + 0.01))
            else:
                out.append(("gauss", {"cls": c, "n": n}, 4.0 * n**3 / 1e7 + 0.01))
        for c in INTERP:
            if _admissible(c, n):
                out.append(("interpolatory", {"cls": c, "n": n}, n**3 / 1e7 + 0.01))
        for c in CLOSED:
            if _admissible(c, n):
                out.append(("closed-form", {"cls": c, "n": n}, n * 1e-3 + 0.01))
        for c in SUBST:
            if not _admissible(c, n):
                continue
            if _default_step_ok(c, n):
                out.append(("substitution", {"cls": c, "n": n, "step": "default"}, n * 1e-3 + 0.01))
            for k in range(nrand):
                out.append(("random-params", {"cls": c, "n": n, "k": k}, n * 1e-3 + 0.01))
        for c in TPOLY:
            if not _admissible(c, n):
                continue
            for d in (1, 5, 9):
                p = {"cls": c, "n": n, "d": d}
                if c == "TrefethenGeneral":
                    p["base"] = _pick_base(n, n + d)
                out.append(("trefethen-poly", p, n * 5e-4 + 0.01))
        for c in TSTRIP:
            if not _admissible(c, n):
                continue
            p = {"cls": c, "n": n, "rho": "default"}
            if c == "TrefethenStripGeneral":
                p["base"] = _pick_base(n, n)
            out.append(("trefethen-strip", p, n * 3e-3 + 0.01))
            for k in range(nrand):
                out.append(("random-params", {"cls": c, "n": n, "k": k}, n * 3e-3 + 0.01))
    # the General maps over EVERY admissible base rule x several sizes; large sizes for end-crowding bases and for CC/GC2
    sizes = BASE_SIZES_QUICK if tier == "quick" else BASE_SIZES_THOROUGH
    large = BASE_SIZES_LARGE_QUICK if tier == "quick" else BASE_SIZES_LARGE_THOROUGH
    for b in GENERAL_BASES:
        for n in sizes + (large if b in CROWDING_BASES else []):
            if not _admissible(b, n):
                continue
            for d in (5, 9):
                out.append(("general-bases", {"cls": "TrefethenGeneral", "n": n, "d": d, "base": b}, n * 1e-4 + 0.01))
            out.append(("general-bases", {"cls": "TrefethenStripGeneral", "n": n, "rho": "default", "base": b}, n * 3e-4 + 0.01))
            for k in range(nrand):
                out.append(("general-bases", {"cls": "TrefethenStripGeneral", "n": n, "k": k, "base": b}, n * 3e-4 + 0.01))
    for c in ("TrefethenStripCC", "TrefethenStripGC2", "TrefethenCC", "TrefethenGC2"):
        for n in large:
            if c in TSTRIP:
                out.append(("large-n-strip", {"cls": c, "n": n, "rho": "default"}, n * 3e-4 + 0.01))
                for k in range(nrand):
                    out.append(("large-n-strip", {"cls": c, "n": n, "k": k}, n * 3e-4 + 0.01))
            else:
                out.append(("large-n-strip", {"cls": c, "n": n, "d": 9}, n * 1e-4 + 0.01))
    for b in USER_BASES:
        for n in USER_SIZES[tier]:
            if (b in USER_ODD_ONLY and (n % 2 == 0 or n < 3)) or (b == "UserGaussRadau" and n > 65):
                continue
            if not b.startswith("partial"):
                for d in (1, 5, 9):
                    out.append(("user-bases", {"cls": "TrefethenGeneral", "n": n, "d": d, "base": b}, n * 1e-4 + 0.01))
            out.append(("user-bases", {"cls": "TrefethenStripGeneral", "n": n, "rho": "default", "base": b}, n * 3e-4 + 0.01))
            for k in range(nrand + 1):
                out.append(("user-bases", {"cls": "TrefethenStripGeneral", "n": n, "k": k, "base": b}, n * 3e-4 + 0.01))
    out += _spelling_cases(tier)
    for n in PINNED_FEJER2:  # witnesses of the open finding: run first, never skipped
        out.append(("pinned-fejer2", {"cls": "FejerSecond", "n": n}, 1e9))
    for i, c in enumerate(ALL_RULES):  # plain OneDGrids built by the library itself from a rule (slices, items, transforms)
        n = 2 * (i % 7) + 5
        if c not in TPOLY + TSTRIP or not c.endswith("General"):
            out.append(("incidental", {"cls": c, "n": n}, 0.02))
    # parameter sets whose exact nodes/weights leave the float64 range: observed, not decided
    for c, n, kw in (("ExpSinh", 15, {}), ("ExpSinh", 41, {}), ("LogExpSinh", 201, {}), ("GaussLaguerre", 186, {"alpha": 0}), ("GaussLaguerre", 200, {"alpha": 0}), ("GaussLaguerre", 300, {"alpha": 2}), ("GaussLaguerre", 400, {"alpha": 0})):
        out.append(("observe-overflow", {"cls": c, "n": n, **kw}, 0.05))
    return out


# ------------------------------------------------------------------ monitor (i): invariant on OneDGrid.__init__
def check_invariant(ctx, g):
    """Invariant of a freshly constructed 1-D grid. Deciding for the rule classes defined in grid/onedgrid.py."""
    cls = type(g)
    name = cls.__name__
    pts, w, dom = g.points, g.weights, g.domain
    is_rule = cls.__module__ == "grid.onedgrid"
    shape_ok = isinstance(pts, np.ndarray) and isinstance(w, np.ndarray) and pts.ndim == 1 and pts.shape == w.shape
    fin_p = bool(np.all(np.isfinite(pts))) if shape_ok else False
    fin_w = bool(np.all(np.isfinite(w))) if shape_ok else False
    d = np.diff(pts) if shape_ok else np.zeros(0)
    nonpos = np.where(~(d > 0))[0]  # ties, descents (and NaN)
    tolerated = np.zeros(len(nonpos), dtype=bool)
    if len(nonpos) and dom is not None and fin_p:
        a, b = np.asarray(pts[nonpos], dtype=float), np.asarray(pts[nonpos + 1], dtype=float)
        for e in dom:
            if np.isfinite(e):
                sc = max(1.0, abs(e))
                tolerated |= (np.abs(a - e) <= SAT_BAND * sc) & (np.abs(b - e) <= SAT_BAND * sc) & (a - b <= MAX_BACKSTEP * sc)
    bad = nonpos[~tolerated]
    desc = bool(np.any(d[bad] < 0)) if len(bad) else False
    bad_ties = int(np.sum(d[bad] == 0)) if len(bad) else 0
    ties = nonpos[tolerated]
    if not is_rule or _state["mode"] != "decide":
        tag = "plain-OneDGrid" if not is_rule else "observe-mode"
        ctx.count(f"invariant-not-deciding:{tag}")
        if not is_rule:
            ctx.hit("plain-OneDGrid")
        if not shape_ok:
            ctx.count(f"{tag}:shape-mismatch")
        if not (fin_p and fin_w):
            ctx.count(f"{tag}:non-finite")
        if desc or bad_ties:
            ctx.count(f"{tag}:not-strictly-ascending")
        return
    ctx.hit("invariant:" + name)
    ctx.check("nodes-weights-1d-same-shape", name, shape_ok, sig="shape", detail={"points": getattr(pts, "shape", None), "weights": getattr(w, "shape", None)})
    if not shape_ok:
        return
    ctx.check("finite", name, fin_p and fin_w, sig="nonfinite-" + ("points" if not fin_p else "weights"), detail={"n": int(pts.size)})
    ok = len(bad) == 0
    ctx.check("ascending", name, ok, sig="descending" if desc else "repeated-nodes", detail={"n": int(pts.size), "n_descents": int((d[bad] < 0).sum()) if len(bad) else 0, "n_ties_off_end": bad_ties, "first_bad_index": int(bad[0]) if len(bad) else None})
    if len(ties) and ok:
        ctx.count("not-increasing-pairs-within-rounding-of-domain-end:" + name)
    if dom is None:
        ctx.fail("inside-domain", name, "domain-is-None")
    elif fin_p:
        lo, hi = float(dom[0]), float(dom[1])
        over = max(lo - float(pts.min()), float(pts.max()) - hi, 0.0)
        scale = max(1.0, *(abs(e) for e in (lo, hi) if np.isfinite(e)))
        ctx.check("inside-domain", name, over / scale, TOL_DOMAIN, sig="below" if lo - float(pts.min()) > 0 else "above", detail={"min": float(pts.min()), "max": float(pts.max()), "domain": [lo, hi]})
    if pts.dtype.kind != "f":
        ctx.count(f"points-dtype-{pts.dtype}:{name}")


def install_invariant(ctx):
    from grid.basegrid import Grid, OneDGrid

    def post(res, exc, args, kwargs):
        if exc is not None:
            ctx.count("OneDGrid.__init__:raised:" + type(exc).__name__)
            return
        check_invariant(ctx, args[0])

    instrument.wrap_method(ctx, OneDGrid, "__init__", post, hook="OneDGrid.__init__")
    instrument.wrap_method(ctx, Grid, "integrate", lambda *a: None, hook="Grid.integrate")


def setup(ctx):
    ctx.notes["oracle_selftest_max_err"] = qref.self_test()
    import grid.onedgrid as og
    from grid.basegrid import OneDGrid

    exported = sorted(n for n, c in vars(og).items() if isinstance(c, type) and issubclass(c, OneDGrid) and c is not OneDGrid)
    if exported != sorted(ALL_RULES):
        # a rule class added to / removed from the module must not go unnoticed
        raise AssertionError(f"rule classes of grid.onedgrid changed: {sorted(set(exported) ^ set(ALL_RULES))}")
    install_invariant(ctx)


# ------------------------------------------------------------------ helpers
def _cls(name):
    import grid.onedgrid as og

    return USER_BASES[name] if name in USER_BASES else getattr(og, name)


def _degree_sig(Dp, n, how):
    par = "even" if n % 2 == 0 else "odd"
    if how == "n" and n - Dp <= 4:
        return f"max-exact-degree=n-{n - Dp}({par} n)"
    if how == "2n" and 2 * n - Dp <= 6:
        return f"max-exact-degree=2n-{2 * n - Dp}"
    return f"max-exact-degree={Dp}"


def _rel(lib, ref):
    lib = np.asarray(lib, dtype=float)
    if lib.shape != ref.shape:
        return float("inf"), -1
    with np.errstate(invalid="ignore"):
        e = np.abs(lib - ref) / (np.abs(ref) + DEF_FLOOR)
    e = np.where(np.isnan(e), np.inf, e)
    i = int(np.argmax(e)) if e.size else -1
    return (float(e[i]) if e.size else 0.0), i


def _check_def(ctx, name, g, xr, wr, params, **kw):
    """Definition oracle on the constructed rule AND on copies of it (copy / deepcopy / pickle round trips)."""
    for o in _objects(ctx, name, g):
        _check_def_one(ctx, name, o, xr, wr, params, **kw)


def _check_def_one(ctx, name, g, xr, wr, params, band=None, tol=TOL_DEF, suffix="", s_base=None):
    """Definition oracle at EVERY node. ``band`` (strip maps only): nodes with 0 < 1-|s| <= END_BAND, decided by their own
    clause with a pure relative tolerance (end-point limit of the derivative admitted there)."""
    ex, ix = _rel(g.points, xr)
    ctx.check("nodes-as-defined" + suffix, name, ex, tol, sig=_dev_sig(g.points, xr, tol), detail={**params, "i": ix, "lib": _at(g.points, ix), "ref": _at(xr, ix)})
    lw = np.asarray(g.weights, dtype=float)
    strict = np.ones(wr.shape, dtype=bool) if band is None or lw.shape != wr.shape else ~band
    if lw.shape != wr.shape:
        ew, iw = float("inf"), -1
    else:
        ew, k = _rel(lw[strict], wr[strict])
        iw = int(np.flatnonzero(strict)[k]) if k >= 0 else -1
    det = {**params, "i": iw, "lib": _at(g.weights, iw), "ref": _at(wr, iw), "node": _at(g.points, iw)}
    if s_base is not None and iw >= 0:
        det["base_node_distance_to_end"] = float(1 - abs(s_base[iw]))
    ctx.check("weights-step-times-derivative" + suffix, name, ew, tol, sig=_dev_sig(lw[strict], wr[strict], tol) if lw.shape == wr.shape else "length", detail=det)
    if band is not None and lw.shape == wr.shape and band.any():
        ref, lib = wr[band], lw[band]
        with np.errstate(all="ignore"):
            e = np.where(ref != 0, np.abs(lib - ref) / np.abs(ref), np.where(np.abs(lib) <= 1e-300, 0.0, np.inf))
        e = np.where(np.isnan(e), np.inf, e)
        k = int(np.argmax(e))
        ib = int(np.flatnonzero(band)[k])
        ctx.check("weights-within-1e-8-of-end-limit-derivative", name, float(e[k]), TOL_END_BAND, sig="end-band:mismatch", detail={**params, "i": ib, "lib": float(lib[k]), "ref": float(ref[k]), "base_node_distance_to_end": float(1 - abs(s_base[ib])) if s_base is not None else None})
        ctx.count("strip-nodes-in-end-band", int(band.sum()))
        ctx.case_note("end_band_nodes", int(band.sum()))
        ctx.case_note("end_band_rel_err", float(e[k]))
    ctx.case_note("def_err_nodes", ex)
    ctx.case_note("def_err_weights", ew)


def _at(a, i):
    try:
        return float(a[i])
    except Exception:
        return None


def _dev_sig(lib, ref, tol=TOL_DEF):
    """Quantised description of how an array deviates from its reference."""
    lib = np.asarray(lib, dtype=float)
    if lib.shape != ref.shape:
        return "length"
    if not np.all(np.isfinite(lib)):
        return "nonfinite"
    bad = np.abs(lib - ref) > tol * (np.abs(ref) + DEF_FLOOR)
    if not bad.any():
        return "ok"
    if np.allclose(np.sort(lib), np.sort(ref), rtol=1e-9, atol=1e-13):
        return "order"
    frac = bad.mean()
    where = "all" if frac > 0.9 else ("ends" if bad[[0, -1]].all() and bad.sum() <= 2 else "some")
    with np.errstate(all="ignore"):
        ratio = lib[bad] / ref[bad]
    ratio = ratio[np.isfinite(ratio)]
    if ratio.size > 1 and where == "all" and np.ptp(ratio) <= 1e-6 * abs(ratio.mean()):
        return "all-nodes:constant-factor"
    return f"{where}-nodes:mismatch"


def _gram(ctx, name, g, n, alpha=0.0, **kw):
    """Exactness oracle on the constructed rule AND on copies of it."""
    for o in _objects(ctx, name, g):
        _gram_one(ctx, name, o, n, alpha, **kw)


def _gram_one(ctx, name, g, n, alpha=0.0, tol=TOL_GRAM, suffix=""):
    kind, Dfun, how = POLY[name]
    D = Dfun(n)
    err, K = qref.exact_degree_profile(kind, g.points, g.weights, D, alpha)
    worst = float(np.nanmax(err)) if not np.isnan(err).all() else float("nan")
    if np.isnan(err).any():
        worst = float("nan")
    Dp = qref.max_exact_degree(err, tol)
    detail = None
    sig = None
    if Dp < D:
        sig = _degree_sig(Dp, n, how)
        detail = {"n": n, "alpha": alpha, "nominal_degree": D, "max_exact_degree": Dp, "err_at_first_bad_degree": float(err[Dp + 1]), "max_err": worst}
        if name == "FejerSecond":
            # narrow the signature: are the weights exactly those of the defining series stopped one term early?
            dist = qref.fejer2_truncation_distance(n, g.weights)
            sig += ";weights==series-minus-last-term" if dist <= TOL_SERIES else ";weights-other"
            detail["distance_to_series_minus_last_term"] = dist
            ctx.case_note("distance_to_series_minus_last_term", dist)
    ctx.check("exact-on-polynomial-class" + suffix, name, worst, tol, sig=sig, detail=detail)
    ctx.case_note("gram_max_err", worst)
    ctx.case_note("max_exact_degree", [int(Dp), int(D)])
    # the same statement through the public integrate(): sum_i w_i omega(x_i) p_m(x_i) p_0 = delta_m0, low m
    x = np.asarray(g.points, dtype=float)
    V = qref.orthonormal_vander(kind, x, min(D, 3), alpha)
    om = qref.weight_function(kind, x, alpha)
    worst_i = 0.0
    for m in range(min(D, 3) + 1):
        val = g.integrate(om * V[:, m], V[:, 0].copy())
        e = abs(float(val) - (m == 0))
        worst_i = max(worst_i, e) if e == e else float("nan")
    ctx.check("exact-on-polynomial-class" + suffix, name, worst_i, tol, sig=sig or "integrate-api-low-moment", detail={"n": n, "alpha": alpha, "via": "Grid.integrate", "max_exact_degree": Dp})
    xd = qref.documented_nodes(name, n)
    if xd is not None:
        e, i = _rel(g.points, xd)
        ctx.check("nodes-as-defined", name, e, TOL_DEF, sig=_dev_sig(g.points, xd), detail={"n": n, "i": i, "lib": _at(g.points, i), "ref": _at(xd, i)})


CLONE_ATTRS = ("type", "size", "domain", "nodes", "weights")


def _objects(ctx, name, g):
    """The rule itself, then two of its copies (kinds drawn by the case generator out of copy.copy, copy.deepcopy, pickle
    protocol default / 2).  A copy is still "the rule built with these arguments": it must be identical to the original
    (type, size, domain, nodes and weights bit for bit) and is handed to the same oracle as the original."""
    yield g
    for kind in roundtrip.pick(ctx.rng, 2):
        try:
            c = roundtrip.clone(g, kind)
        except Exception as exc:  # every class round-trips on the unchanged tree: an exception here is a library exception
            ctx.fail("copy-identical-to-original", name, f"raised:{type(exc).__name__}", detail={"kind": kind, "error": str(exc)[:200]})
            continue
        ctx.hit("clone:" + kind)
        diff = None
        try:
            if type(c) is not type(g):
                diff = "type"
            elif int(c.size) != int(g.size):
                diff = "size"
            elif c.domain != g.domain:
                diff = "domain"
            elif not (c.points.dtype == g.points.dtype and np.array_equal(c.points, g.points, equal_nan=True)):
                diff = "nodes"
            elif not (c.weights.dtype == g.weights.dtype and np.array_equal(c.weights, g.weights, equal_nan=True)):
                diff = "weights"
        except Exception as exc:
            diff = "attribute-access-raised:" + type(exc).__name__
        ctx.check("copy-identical-to-original", name, diff is None, sig=f"clone-differs:{diff}", detail={"kind": kind, "size": [int(g.size), int(getattr(c, "size", -1))], "domain": [repr(g.domain), repr(getattr(c, "domain", None))]})
        if diff is None or diff in ("nodes", "weights", "domain"):
            yield c


def _size(ctx, name, g, n):
    ctx.check("n-nodes", name, int(g.size) == n and len(g.points) == n, sig="size", detail={"requested": n, "got": int(g.size)})


def _n(n):
    """Every third size is passed as np.int64, every fifth as np.int32 (admissible: the API asks for an int)."""
    return np.int64(n) if n % 3 == 0 else (np.int32(n) if n % 5 == 0 else int(n))


def _loguniform(rng, lo, hi):
    return float(math.exp(rng.uniform(math.log(lo), math.log(hi))))


# ------------------------------------------------------------------ the cases
def run_case(ctx, family, params):
    name, n = params["cls"], int(params["n"])
    C = _cls(name)
    rng = ctx.rng
    if family == "observe-overflow":
        _observe(ctx, C, name, n, params)
        return
    if family == "incidental":
        _incidental(ctx, C, name, n)
        return
    if family == "param-spellings":
        _spelling(ctx, C, name, n, params)
        return
    if n < 2:
        ctx.trivial()

    if name in POLY:
        alpha = 0.0
        with ctx.guard("constructible", name):
            if name == "GaussLaguerre":
                alpha = float(params["alpha"]) if "alpha" in params else float(-1 + 10 ** rng.uniform(-2, math.log10(21)))
                ctx.case_note("alpha", alpha)
                g = C(_n(n), alpha) if n % 2 else C(npoints=_n(n), alpha=alpha)
            else:
                g = C(_n(n))
            _size(ctx, name, g, n)
            _gram(ctx, name, g, n, alpha)
            ctx.hit("decided:" + name)
        return

    if name in SUBST:
        arg, default = STEP_ARG[name]
        m = (n - 1) // 2
        if params.get("step") == "default":
            step, kw = default, {}
        else:
            step = _loguniform(rng, 1e-3, min(1.0, qref.T_MAX[name] / max(m, 1)))
            kw = {arg: step}
        ctx.case_note("step", step)
        with ctx.guard("constructible", name):
            g = C(_n(n), **kw)
            _size(ctx, name, g, n)
            xr, wr = qref.substitution_reference(name, n, step)
            _check_def(ctx, name, g, xr, wr, {"n": n, "step": step})
            ctx.hit("decided:" + name)
        return

    if name in CLOSED:
        with ctx.guard("constructible", name):
            g = C(_n(n))
            _size(ctx, name, g, n)
            if name == "UniformInteger":
                xr, wr = qref.substitution_reference(name, n, 1.0)
                _check_def(ctx, name, g, xr, wr, {"n": n})
            elif name == "GaussChebyshevLobatto":
                xr, wr = qref.lobatto_reference(n)
                _check_def(ctx, name, g, xr, wr, {"n": n})
            else:  # sine rectangle rule: documented nodes, defining exactness on sine modes, documented series on a node sample
                xd = qref.documented_nodes(name, n)
                idx = sorted(set([1, n] + [int(v) for v in rng.integers(1, n + 1, 6)]))
                ref = np.array([qref.sine_rule_series_weight(n, i)[1] for i in idx])
                for o in _objects(ctx, name, g):
                    _sine_rule(ctx, name, o, n, xd, idx, ref)
            ctx.hit("decided:" + name)
        return

    if name in TPOLY or name in TSTRIP:
        general = name.endswith("General")
        base_name = params.get("base") or (_pick_base(n, int(rng.integers(1000))) if general else None)
        if not general:
            base_name = "ClenshawCurtis" if name.endswith("CC") else "GaussChebyshevType2"
        if general and n < 2:
            return
        B = _cls(base_name)
        ctx.case_note("base", base_name)
        with ctx.guard("constructible", name):
            base = B(n)
            if base_name in USER_ASYMMETRIC and float(np.abs(np.sort(base.points) + np.sort(base.points)[::-1]).max()) > 1e-2:
                ctx.hit("asymmetric-user-base")  # required hook: the node set really is not symmetric about 0
            if name in TPOLY:
                d = int(params["d"])
                g = C(_n(n), B, d) if general else (C(n, d) if n % 2 else C(_n(n), d=d))
                gx, gd = qref.poly_map_reference(d, base.points)
                pr = {"n": n, "d": d, "base": base_name}
            else:
                if params.get("rho") == "default":
                    rho = 1.1
                    g = C(n, B) if general else C(n)
                else:
                    rho = float(rng.uniform(1.05, 3.0))
                    g = C(n, B, rho) if general else C(n, rho=rho)
                ctx.case_note("rho", rho)
                gx, gd = qref.strip_map_reference(rho, base.points)
                pr = {"n": n, "rho": rho, "base": base_name}
            _size(ctx, name, g, n)
            sb = np.asarray(base.points, dtype=float)
            band = None
            if name in TSTRIP:
                dist = 1.0 - np.abs(sb)
                band = (dist > 0) & (dist <= END_BAND)
            _check_def(ctx, name, g, gx, gd * np.asarray(base.weights, dtype=float), pr, band=band, s_base=sb)
            ctx.hit("decided:" + name)
        return
    raise ValueError(name)


def _spell(v, sp):
    if sp == "int":
        return int(v)
    if sp == "array0d":
        return np.array(float(v))
    return getattr(np, sp)(v)


def _spelling(ctx, C, name, n, params):
    """A real-valued rule parameter given as Python int / NumPy integer / NumPy float scalar / 0-d array must give the rule
    of the equal Python float (and that rule must satisfy the definition oracle)."""
    sp, v = params["as"], params["value"]
    pv = _spell(v, sp)
    fv = float(pv)
    f32 = sp == "float32"
    tol, tol_eq, suffix = (TOL_F32, TOL_F32, ":float32-parameter") if f32 else (TOL_DEF, TOL_SPELL, "")
    general = name.endswith("General")
    base_name = _pick_base(n, n + int(2 * fv)) if general else ("ClenshawCurtis" if name.endswith("CC") else "GaussChebyshevType2")
    B = _cls(base_name) if (name in TPOLY or name in TSTRIP) else None

    def build(val):
        if name in SUBST:
            return C(n, val) if n % 4 == 1 else C(n, **{STEP_ARG[name][0]: val})
        if name == "GaussLaguerre":
            return C(n, val) if n % 2 else C(n, alpha=val)
        if general:
            return C(n, B, val)
        return C(n, val) if n % 2 else C(n, **{"d" if name in TPOLY else "rho": val})

    subj = name
    ctx.case_note("spelled", repr(pv))
    if sp == "array0d":
        try:
            g = build(pv)
        except Exception as exc:  # a 0-d array is not promised to be accepted: recorded, not decided
            ctx.count(f"array0d-parameter-rejected:{name}:{type(exc).__name__}")
            ctx.trivial()
            return
    with ctx.guard("constructible", subj):
        g = build(pv)
        r = build(int(fv) if name in TPOLY else fv)
        _size(ctx, name, g, n)
        ex, ix = _rel(g.points, np.asarray(r.points, dtype=float))
        ew, iw = _rel(g.weights, np.asarray(r.weights, dtype=float))
        ctx.check("parameter-spelling-invariant" + suffix, subj, max(ex, ew), tol_eq, sig=f"{'int' if sp.startswith('int') else sp}-spelling:" + ("nodes" if ex > tol_eq else "weights"), detail={"n": n, "value": v, "as": sp, "i": iw, "spelled": _at(g.weights, iw), "float": _at(r.weights, iw)})
        pr = {"n": n, "value": v, "as": sp}
        if name in SUBST:
            xr, wr = qref.substitution_reference(name, n, fv)
            _check_def(ctx, name, g, xr, wr, pr, tol=tol, suffix=suffix)
        elif name == "GaussLaguerre":
            _gram(ctx, name, g, n, fv, tol=TOL_F32 if f32 else TOL_GRAM, suffix=suffix)
        else:
            base = B(n)
            sb = np.asarray(base.points, dtype=float)
            if name in TPOLY:
                gx, gd = qref.poly_map_reference(int(fv), sb)
                band = None
            else:
                gx, gd = qref.strip_map_reference(fv, sb)
                dist = 1.0 - np.abs(sb)
                band = (dist > 0) & (dist <= END_BAND)
            _check_def(ctx, name, g, gx, gd * np.asarray(base.weights, dtype=float), {**pr, "base": base_name}, band=band, tol=tol, suffix=suffix, s_base=sb)
        ctx.hit("spelling:" + sp)


def _observe(ctx, C, name, n, params):
    """Parameter sets whose exact nodes/weights are outside float64: recorded, deliberately not decided."""
    _state["mode"] = "observe"
    try:
        kw = {k: v for k, v in params.items() if k in ("alpha",)}
        try:
            g = C(n, **kw)
        except Exception as exc:
            ctx.observe(f"{name}(n={n}) raises {type(exc).__name__} (exact values outside float64 range)", n=n, **kw)
            ctx.trivial()
            return
        nf_p = int((~np.isfinite(g.points)).sum())
        nf_w = int((~np.isfinite(g.weights)).sum())
        ctx.observe(f"{name}: non-finite nodes/weights returned silently when exact values leave float64", n=n, nonfinite_points=nf_p, nonfinite_weights=nf_w, **kw)
        ctx.case_note("nonfinite", [nf_p, nf_w])
        ctx.trivial()
    finally:
        _state["mode"] = "decide"


def _incidental(ctx, C, name, n):
    """1-D grids the library itself derives from a rule (items, slices, radial transforms) are plain OneDGrids:
    the attached invariant sees every one of them, but only counts (a user grid need not be ascending)."""
    from grid.rtransform import BeckeRTransform, LinearFiniteRTransform

    with ctx.guard("constructible", name):
        g = C(n)
        for idx in (0, n - 1, slice(1, None, 2), slice(None, n // 2)):
            g[idx]
        if g.domain == (-1, 1):
            BeckeRTransform(1e-3, 1.5).transform_1d_grid(g)
            LinearFiniteRTransform(0.5, 7.0).transform_1d_grid(g)


def _sine_rule(ctx, name, g, n, xd, idx, ref):
    e, i = _rel(g.points, xd)
    ctx.check("nodes-as-defined", name, e, TOL_DEF, sig=_dev_sig(g.points, xd), detail={"n": n, "i": i})
    ctx.check("weights-exact-on-sine-modes", name, qref.sine_rule_exactness(g.points, g.weights), TOL_GRAM, sig="sine-mode", detail={"n": n})
    ew, iw = _rel(np.asarray(g.weights)[[i - 1 for i in idx]], ref)
    ctx.check("weights-as-documented-series", name, ew, TOL_DEF, sig="series", detail={"n": n, "i": idx[iw] if iw >= 0 else None})
