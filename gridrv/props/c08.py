"""C08 - real spherical harmonics, their derivatives and solid harmonics are correct."""

from __future__ import annotations

import numpy as np

from gridrv import instrument
from gridrv.oracles import sph
from gridrv.oracles import sph_c08 as o8

PROP = "C08"
TITLE = "Real spherical harmonics, their derivatives and solid harmonics are correct"
F_REC = "generate_real_spherical_harmonics"
F_SCI = "generate_real_spherical_harmonics_scipy"
F_DER = "generate_derivative_real_spherical_harmonics"
F_SOL = "solid_harmonics"
F_C2S = "convert_cart_to_sph"
REQUIRED_HOOKS = ["utils." + f for f in (F_REC, F_SCI, F_DER, F_SOL, F_C2S)]
REQUIRED_FAMILIES = ["values", "derivative", "solid", "cart2sph", "chain", "library-callers", "dtype-angles", "dtype-cart2sph", "history", "batch", "nsweep", "errstate"]
BUDGET = {"quick": 600, "thorough": 6000}
RULE = (
    "Post-conditions attached to the five public functions of grid.utils (all bindings, fire on every call incl. the "
    "internal ones): shape; values == independent normalised recursion sph.ref_Y (abs 2e-11(1+lmax)); recursion and SciPy "
    "implementation agree; addition theorem on point pairs of the call (P_l by Bonnet recursion in longdouble); derivative "
    "routine == longdouble Chebyshev differentiation of the IMPLEMENTED harmonics in theta (everywhere) and phi (off the "
    "poles) and d/dtheta == -m Y_l,-m of the oracle; solid harmonics == sqrt(4pi/(2l+1)) r^l ref_Y and (z,x,y) for l=1; "
    "convert_cart_to_sph: ranges, r, round trip through the parametrisation, centre -> (0,0,0). One case = one "
    "(family, lmax, angle class, repetition k): lmax in {0..12,20,35,60,100,150,200} (thorough also 16,25,45,80,125,151,250 "
    "and values at 400; 151 is where float64 intermediates would first overflow); angle classes random, "
    "wide (azimuth in [-20,20], polar + 2 pi k), poles (exact and within 1e-9/1e-12), equator, lattice (multiples of pi/4, "
    "pi/6), nearpole (1e-3..1e-9), reflected polar angles (observed only). cart2sph: centre None/origin/random/far/list x "
    "point classes random/axis/equator/centre/nearpole/scales; library-callers: AtomGrid.radial_component_splines and "
    "Grid.moments('pure') drive the monitored functions through their other bindings on the library's own grid angles. "
    "dtype-angles / dtype-cart2sph: the same values handed over as int64/int32/int16/float32/non-contiguous arrays and the centre "
    "as None/list/tuple/ndarray (integer, fractional, float32, strided): decided by the same post-conditions and compared with the "
    "result for the contiguous float64 copy; history: a monitor keeps the last 3 arrays returned by each of the five functions "
    "(plus explicit same-shape call sequences) and re-verifies after every later call that they still hold the values they had "
    "when returned and share no memory with newer results; batch: point sets of 1e3..1e5 points, EVERY column decided by the "
    "post-conditions (oracle in chunks, d/dphi also by the degree-lowering identity on the oracle) and batch invariance: columns of "
    "the large call == calls on subsets (first k, last k, single first/last/interior point, split at a random position, every "
    "third), tol 1e-14 (bitwise on the current tree); nsweep: calls with the N leading points of one pool, every column compared "
    "with the previous call and first/last column with single-point calls: quick every N in 1..150 at lmax 3 (all five "
    "functions), every N in 1..125 at lmax 200 (SciPy path), a seed-rotated sample of N <= 2600 plus 2^k, 2^k+1 at lmax 30/40/64; "
    "thorough every N in 1..1500 at lmax 30, 40, 64 (SciPy), 30, 40 (recursion), 1..4200 at lmax 3, small-N sweeps at lmax "
    "100..250; errstate: the CALLER's NumPy error state as a dimension - the same batch (exact poles, equator, both "
    "hemispheres, r = 0, the centre itself) under all='raise', divide/invalid/over/under='raise', all='warn', all='ignore' and a "
    "mixed state: where the library returns the result must equal the default-state result (1e-14, bitwise on the current tree) "
    "and is decided by the post-conditions (which always run under NumPy's default state); a FloatingPointError caused by the "
    "caller's 'raise' is recorded (raises-under-errstate), never an alarm. A case is non-trivial when at least one decided oracle "
    "evaluation ran on it; reflected-angle cases are marked trivial."
)
ASSUMPTIONS = [
    "decided domain of the polar angle: values congruent mod 2 pi to [0, pi]; reflected polar angles are recorded, not decided "
    "(the docstring only promises periodicity; the recursion follows the Cartesian point, SciPy follows |sin phi|)",
    "at the poles (|sin phi| < 1e-9) the polar derivative is the documented convention and only recorded; d/dtheta is decided everywhere",
    "convert_cart_to_sph tolerances follow the conditioning of the documented formula phi = arccos(z/r): "
    "delta = eps (1 + (|p|+|c|)/r), polar error <= 50 delta / max(sin phi, sqrt(delta)) (half precision within 1e-8 of the poles is "
    "recorded as an observation), azimuth error * sin phi <= 20 delta; azimuth at the centre for negative-zero offsets is recorded only",
    "single-precision arguments: float32 angles are decided up to lmax 60 at the conditioning of the input rounding, "
    "8 eps32 (1+lmax)^2 (1+max|angle|) + 64 eps32 (values) / (1+lmax)^3 (derivatives); convert_cart_to_sph is decided at float64 tolerance "
    "unless NumPy's result type of points - centre is float32 (all floating arguments single precision), then at eps32; integer "
    "arguments must give exactly the float64 result",
    "oracle: float64 normalised recursion validated against mpmath at start-up; numerical differentiation validated on closed forms at start-up",
]
LEVEL_TEXT = (
    "Held on every explored execution: all (l,m) rows for lmax up to 200 (quick) / 250, values 400 (thorough) on random and "
    "structured angles including poles, equator, azimuth in [-20,20] and polar angles shifted by multiples of 2 pi; reflected "
    "polar angles and the polar derivative at the poles are recorded, not decided."
)
TECHNIQUE = "runtime monitoring: post-conditions on grid.utils harmonics/conversion functions with an independent recursion oracle, addition theorem and longdouble numerical differentiation"

LMAX_QUICK = list(range(13)) + [20, 35, 60, 100, 150]
LMAX_THOROUGH = list(range(13)) + [16, 20, 25, 35, 45, 60, 80, 100, 125, 150, 151, 200, 250]
MAX_ELEMS = 4.0e6  # rows*points handled per oracle evaluation inside a post-condition (subsample above)

ORIG = {}


# ---------------------------------------------------------------------------------- tolerances
def tol_values(lmax):
    """DESIGN started from 1e-11 (1+lmax); calibrated: largest discrepancy seen over quick seeds 0-4 / thorough seeds 0-1 is
    2.3e-11 at lmax = 250 (oracle conditioning next to the poles ~ eps l^2 |Y|), so the constant is doubled to keep 100x."""
    return 2e-11 * (1 + lmax)


def tol_addition(lmax):
    """Residual normalised by (2l+1)/(4pi); largest seen 3.6e-12 (SciPy path, lmax = 250)."""
    return 4e-12 * (1 + lmax)


def tol_deriv(lmax, theta, phi):
    """float64 rounding of m*theta (and of tan phi / SciPy's Y_l,m+1) is amplified by m: eps m^2 |angle| |Y|."""
    a = 1.0 + max(float(np.max(np.abs(theta), initial=0.0)), float(np.max(np.abs(phi), initial=0.0)))
    return 1e-14 * (1 + lmax) ** 2.5 * a


def _work_eps(points, center):
    """Precision NumPy works in for `points - center` (np.result_type of the two arguments): float64 unless every floating
    argument is single precision (float32 points with a float32 centre, int16 points with a float32 centre, ...)."""
    rt = np.result_type(np.asarray(points).dtype, np.zeros(3).dtype if center is None else np.asarray(center).dtype)
    if rt.kind == "f" and rt.itemsize < 8:
        return float(np.finfo(rt).eps)
    return o8.EPS


def _low_eps(*arrays):
    """Machine epsilon of the coarsest floating dtype among the inputs when it is coarser than float64, else None."""
    worst = None
    for a in arrays:
        dt = np.asarray(a).dtype
        if dt.kind == "f" and dt.itemsize < 8:
            e = float(np.finfo(dt).eps)
            worst = e if worst is None else max(worst, e)
    return worst


LOW_PREC_LMAX = 60  # single-precision angles are decided up to here (above, the conditioning floor exceeds the effect of a break)


def tol_low(eps_in, lmax, angles, power=2):
    """Angles given in single precision: the result carries the conditioning of the input rounding (and SciPy then works in
    single precision): calibrated 8 eps_in (1+lmax)^2 (1+max|angle|) + 64 eps_in for values (largest seen > 100x below at every
    lmax 0..60), power 3 for derivatives."""
    a = 1.0 + max([float(np.max(np.abs(np.asarray(x, dtype=float)), initial=0.0)) for x in angles] + [0.0])
    return 8.0 * eps_in * (1 + lmax) ** power * a + 64.0 * eps_in


# ---------------------------------------------------------------------------------- result-stability history
HIST_KEEP = 3  # results retained per function (each with a copy taken at return time)
HIST_MAX_BYTES = 12e6  # larger results are not retained (memory); the retained ones cover every lmax up to ~150
_HIST = {}  # function name -> list of {"obj": returned array, "copy": copy taken at return time, "seq": call number}
_SEQ = {"n": 0}


def _shares(a, b):
    try:
        return bool(np.shares_memory(a, b))
    except Exception:  # TooHardError
        return bool(np.may_share_memory(a, b))


def _handed_to_library():
    """True when the monitored call was made by library code (grid/*.py): that caller owns the array it receives and may
    legitimately write into it (AtomGrid.convert_cartesian_to_spherical does), so only results handed to the workload are
    retained for the stability history."""
    import sys

    from gridrv import core

    f = sys._getframe(1)
    here = __file__
    while f is not None:
        fn = f.f_code.co_filename
        if fn != here and not fn.endswith("instrument.py"):
            return fn.startswith(core.GRIDDIR)
        f = f.f_back
    return False


def _entry_state(e):
    o, c = e["obj"], e["copy"]
    return o.shape == c.shape and o.dtype == c.dtype and bool(np.array_equal(o, c, equal_nan=True))


def _history(ctx, fname, res):
    """History monitor: arrays handed out by EARLIER calls must keep their values after later calls, and a new result must
    not share memory with any earlier result (of any of the five functions)."""
    if not isinstance(res, np.ndarray):
        return
    _SEQ["n"] += 1
    mine = _HIST.setdefault(fname, [])
    if mine:
        bad = [e for e in mine if not _entry_state(e)]
        _chk(ctx, "result-stable-after-later-calls", fname, not bad, sig="earlier-result-overwritten", detail=None if not bad else {"shape": list(bad[0]["obj"].shape), "calls_between": _SEQ["n"] - bad[0]["seq"], "same_shape_as_new": bad[0]["obj"].shape == res.shape, "max_change": _maxabs(np.asarray(bad[0]["obj"], dtype=float) - np.asarray(bad[0]["copy"], dtype=float))})
        for e in bad:
            e["copy"] = e["obj"].copy()
        ctx.count("history-results-reverified", len(mine))
    shared = [(fn, e) for fn, lst in _HIST.items() for e in lst if e["obj"] is res or _shares(e["obj"], res)]
    if any(_HIST.values()):
        _chk(ctx, "results-do-not-share-memory", fname, not shared, sig=None if not shared else ("same-object-returned-again" if shared[0][1]["obj"] is res else "memory-shared") + ":" + shared[0][0], detail=None if not shared else {"earlier_function": shared[0][0], "shape": list(res.shape), "calls_between": _SEQ["n"] - shared[0][1]["seq"]})
    if _handed_to_library():
        ctx.count("history-results-handed-to-library-callers-not-retained")
        return
    if res.nbytes <= HIST_MAX_BYTES and not any(e["obj"] is res for e in mine):
        mine.append({"obj": res, "copy": res.copy(), "seq": _SEQ["n"]})
        del mine[:-HIST_KEEP]


def finish(ctx):
    """End of the worker: every retained result still holds the values it had when it was returned."""
    for fn, lst in _HIST.items():
        if lst:
            bad = [e for e in lst if not _entry_state(e)]
            _chk(ctx, "result-stable-after-later-calls", fn, not bad, sig="earlier-result-overwritten", detail=None if not bad else {"shape": list(bad[0]["obj"].shape), "at": "end-of-worker"})


# ---------------------------------------------------------------------------------- helpers
def _argn(args, kwargs, names):
    vals = list(args[: len(names)])
    for nm in names[len(vals) :]:
        vals.append(kwargs.get(nm))
    return vals


def _angles_ok(lmax, theta, phi):
    try:
        if not isinstance(lmax, (int, np.integer)) or isinstance(lmax, bool) or lmax < 0:
            return False
        th = np.asarray(theta)
        ph = np.asarray(phi)
        return th.ndim == 1 and ph.ndim == 1 and th.shape == ph.shape and th.dtype.kind in "fiu" and ph.dtype.kind in "fiu" and bool(np.all(np.isfinite(th))) and bool(np.all(np.isfinite(ph)))
    except Exception:
        return False


FULL_ELEMS = 3.0e8  # rows*points up to which EVERY column of a call is compared (in chunks of MAX_ELEMS); above: a subset of chunks


def _chunks(ctx, n, lmax, factor=1.0):
    """Index chunks covering ALL columns of a call (first and last chunk always included when the call is too large)."""
    cap = max(4, int(MAX_ELEMS * factor / (lmax + 1) ** 2))
    starts = list(range(0, n, cap))
    if n * (lmax + 1.0) ** 2 > FULL_ELEMS:
        keep = max(2, int(FULL_ELEMS / (lmax + 1.0) ** 2 / cap))
        starts = [starts[i] for i in sorted(set(np.linspace(0, len(starts) - 1, keep).astype(int).tolist()))]
        ctx.count("subsampled-calls")
    return [np.arange(a, min(n, a + cap)) for a in starts]


def _first_bad(err_rows, tol):
    bad = np.where(~(err_rows <= tol))[0]
    if len(bad) == 0:
        return None
    l, m = o8.describe_row(int(bad[0]))
    return f"first-bad-l={l},m={m:+d}"


def _worst(err, th, ph):
    """err (rows, pts) -> detail dict of the worst entry."""
    e = np.asarray(err, dtype=float)
    if e.size == 0:
        return {}
    e2 = np.where(np.isnan(e), np.inf, e)
    r, c = np.unravel_index(int(np.argmax(e2)), e2.shape)
    l, m = o8.describe_row(int(r))
    return {"l": l, "m": m, "theta": float(th[c]), "phi": float(ph[c]), "err": float(e[r, c]), "n_bad_rows": int(np.sum(~(np.nanmax(e2, axis=1) < np.inf)))}


def _maxabs(a):
    a = np.asarray(a)
    if a.size == 0:
        return 0.0
    return float(np.max(np.abs(a)))


def _chk(ctx, clause, subject, measure, tol=0.0, sig=None, detail=None):
    """ctx.check + a counter of the evaluations that came within a factor 100 of the tolerance (calibration evidence)."""
    if tol and not isinstance(measure, (bool, np.bool_)) and float(measure) <= tol and float(measure) > 0.01 * tol:
        ctx.count("margin-below-100x:" + clause)
    return ctx.check(clause, subject, measure, tol, sig=sig, detail=detail)


_seen_obs = {}


def _fpe_under_caller_state(ctx, fname, exc):
    """FloatingPointError while the CALLER has switched NumPy to 'raise': the library does not guard that operation - recorded,
    never an alarm (the unchanged tree does it for underflow inside SciPy-based products)."""
    if isinstance(exc, FloatingPointError) and any(v == "raise" for v in _CALLER_STATE.values()):
        _observe(ctx, "raises-under-errstate(not-guarded-by-the-library): " + fname, error=str(exc)[:80], state=dict(_CALLER_STATE))
        ctx.count("raises-under-errstate:" + fname + ":" + str(exc)[:40])
        return True
    return False


_CALLER_STATE = {}


def _observe(ctx, text, **kw):
    """Record an undecided observation: the first per text and worker in full, the rest only counted."""
    k = _seen_obs.get(text, 0)
    _seen_obs[text] = k + 1
    if k == 0:
        ctx.observe(text, **kw)
    else:
        ctx.count("observation:" + text[:50])


# ---------------------------------------------------------------------------------- monitors
def _check_values(ctx, fname, res, lmax, theta, phi):
    """shape, values vs oracle, addition theorem for one harmonics call. Returns False when shape is wrong."""
    lmax = int(lmax)
    th = np.asarray(theta, dtype=float)
    ph = np.asarray(phi, dtype=float)
    n = len(th)
    shape = tuple(getattr(res, "shape", ()))
    ok = _chk(ctx, "shape", fname, shape == ((lmax + 1) ** 2, n), sig="wrong-shape", detail={"shape": list(shape), "lmax": lmax, "n": n})
    if not ok:
        return False
    if n == 0:
        ctx.count("empty-input-calls")
        return True
    th_all, ph_all = th, ph
    for idx in _chunks(ctx, n, lmax):
        _check_values_chunk(ctx, fname, res, lmax, theta, phi, th_all, ph_all, idx)
    return True


def _check_values_chunk(ctx, fname, res, lmax, theta, phi, th_all, ph_all, idx):
    th, ph = th_all[idx], ph_all[idx]
    Y = res[:, idx]
    decided, pole = o8.classify_polar(ph)
    ref = sph.ref_Y(lmax, th, ph)
    err = np.abs(np.asarray(Y - ref, dtype=float))
    tol = tol_values(lmax)
    low = _low_eps(theta, phi)
    if low is not None:
        if low > 1e-6 or lmax > LOW_PREC_LMAX:
            ctx.count("low-precision-angles-not-decided:" + fname)
            return
        tol = max(tol, tol_low(low, lmax, (th, ph)))
        ctx.count("single-precision-angle-calls:" + fname)
    sfx = "" if low is None else "-single-precision-input"  # separate clause names keep the float64 maxima readable
    if decided.any():
        ed = err[:, decided]
        rows = np.where(np.isnan(ed), np.inf, ed).max(axis=1)
        worst = float(rows.max())
        sig = _first_bad(rows, tol)
        _chk(ctx, "values-match-definition" + sfx, fname, worst, tol, sig=sig, detail=None if sig is None else dict(_worst(ed, th[decided], ph[decided]), lmax=lmax, n_points=len(th_all), worst_column=int(idx[decided][int(np.argmax(np.where(np.isnan(ed), np.inf, ed).max(axis=0)))])))
        ctx.count("points-decided:" + fname, int(decided.sum()))
        if pole.any():
            ctx.count("points-at-poles:" + fname, int((pole & decided).sum()))
        # addition theorem on pairs of decided points of this call (incl. one self pair)
        k = int(decided.sum())
        dth, dph, dY = th[decided], ph[decided], Y[:, decided]
        perm = np.roll(np.arange(k), 1)
        if k > 2:
            perm[0] = 0  # a self pair: Unsoeld's theorem
        resid = o8.addition_residual(dY, lmax, dth, dph, perm)
        ta = tol_addition(lmax) if low is None else tol
        bad = np.where(~(resid <= ta))[0]
        _chk(ctx, "addition-theorem" + sfx, fname, float(np.where(np.isnan(resid), np.inf, resid).max()), ta, sig=None if len(bad) == 0 else f"first-bad-l={int(bad[0])}", detail=None if len(bad) == 0 else {"lmax": lmax, "first_bad_l": int(bad[0]), "n_bad_l": int(len(bad)), "resid": float(resid[bad[0]])})
    refl = ~decided
    if refl.any():
        dev = float(np.nanmax(err[:, refl]))
        follows = "follows the Cartesian point (== oracle)" if dev <= tol else "differs from the Cartesian-point oracle"
        _observe(ctx, f"reflected polar angle: {fname} {follows}", lmax=lmax, max_dev=dev, phi=float(ph[refl][0]))
        ctx.count("points-reflected-observed:" + fname, int(refl.sum()))


def _post_rec(ctx):
    def post(res, exc, args, kwargs):
        lmax, theta, phi = _argn(args, kwargs, ("l_max", "theta", "phi"))
        if not _angles_ok(lmax, theta, phi):
            ctx.count("calls-outside-documented-domain:" + F_REC)
            return
        if exc is not None:
            if _fpe_under_caller_state(ctx, F_REC, exc):
                return
            ctx.fail("no-exception", F_REC, f"raised:{type(exc).__name__}", detail={"error": str(exc)[:200], "lmax": int(lmax), "n": len(theta)})
            return
        _history(ctx, F_REC, res)
        if not _check_values(ctx, F_REC, res, lmax, theta, phi):
            return
        # both implementations agree (decided domain)
        lmax = int(lmax)
        th = np.asarray(theta, dtype=float)
        ph = np.asarray(phi, dtype=float)
        low = _low_eps(theta, phi)
        if len(th) == 0 or (low is not None and (low > 1e-6 or lmax > LOW_PREC_LMAX)):
            return
        tol = tol_values(lmax) if low is None else tol_low(low, lmax, (th, ph))
        for idx in _chunks(ctx, len(th), lmax, factor=0.5):
            decided, _ = o8.classify_polar(ph[idx])
            idx = idx[decided]
            if len(idx) == 0:
                continue
            try:
                other = ORIG[F_SCI](lmax, th[idx], ph[idx])
            except Exception as e:  # the SciPy path raising on admissible input is its own failure
                ctx.fail("implementations-agree", F_SCI, f"raised:{type(e).__name__}", detail={"error": str(e)[:200], "lmax": lmax})
                continue
            err = np.abs(np.asarray(res[:, idx] - other, dtype=float))
            rows = np.where(np.isnan(err), np.inf, err).max(axis=1)
            sig = _first_bad(rows, tol)
            _chk(ctx, "implementations-agree" + ("" if low is None else "-single-precision-input"), "recursion-vs-scipy", float(rows.max()), tol, sig=sig, detail=None if sig is None else dict(_worst(err, th[idx], ph[idx]), lmax=lmax))

    return post


def _post_sci(ctx):
    def post(res, exc, args, kwargs):
        lmax, theta, phi = _argn(args, kwargs, ("l_max", "theta", "phi"))
        if not _angles_ok(lmax, theta, phi):
            ctx.count("calls-outside-documented-domain:" + F_SCI)
            return
        if exc is not None:
            if _fpe_under_caller_state(ctx, F_SCI, exc):
                return
            ctx.fail("no-exception", F_SCI, f"raised:{type(exc).__name__}", detail={"error": str(exc)[:200], "lmax": int(lmax), "n": len(theta)})
            return
        _history(ctx, F_SCI, res)
        _check_values(ctx, F_SCI, res, lmax, theta, phi)

    return post


def _post_der(ctx):
    def post(res, exc, args, kwargs):
        lmax, theta, phi = _argn(args, kwargs, ("l_max", "theta", "phi"))
        if not _angles_ok(lmax, theta, phi):
            ctx.count("calls-outside-documented-domain:" + F_DER)
            return
        if exc is not None:
            if _fpe_under_caller_state(ctx, F_DER, exc):
                return
            ctx.fail("no-exception", F_DER, f"raised:{type(exc).__name__}", detail={"error": str(exc)[:200], "lmax": int(lmax), "n": len(theta)})
            return
        lmax = int(lmax)
        th = np.asarray(theta, dtype=float)
        ph = np.asarray(phi, dtype=float)
        n = len(th)
        nrow = (lmax + 1) ** 2
        shape = tuple(getattr(res, "shape", ()))
        if not _chk(ctx, "shape", F_DER, shape == (2, nrow, n), sig="wrong-shape", detail={"shape": list(shape), "lmax": lmax, "n": n}):
            return
        _history(ctx, F_DER, res)
        if n == 0:
            ctx.count("empty-input-calls")
            return
        low = _low_eps(theta, phi)
        if low is not None and (low > 1e-6 or lmax > LOW_PREC_LMAX):
            ctx.count("low-precision-angles-not-decided:" + F_DER)
            return
        decided, pole = o8.classify_polar(ph)
        # finite everywhere on the decided domain, poles included
        fin = np.isfinite(np.asarray(res[:, :, decided], dtype=float))
        _chk(ctx, "derivative-finite", F_DER, bool(fin.all()), sig="non-finite", detail={"lmax": lmax})
        idx = np.where(decided)[0]
        if len(idx) == 0:
            _observe(ctx, "reflected polar angle: derivative routine called on reflected angles only (not decided)", lmax=lmax)
            return
        # EVERY decided column against the oracle: d/dtheta Y_lm = -m Y_l,-m and the degree-lowering identity
        # sin(phi) d/dphi Y_lm = l cos(phi) Y_lm - sqrt((2l+1)(l^2-m^2)/(2l-1)) Y_l-1,m (a different formula from the library's)
        sfx = "" if low is None else "-single-precision-input"
        q, ms = o8.partner_rows(lmax)
        ls_, _ms = o8.row_lm(lmax)
        lower, coef = o8.lowering_rows(lmax)
        for cidx in _chunks(ctx, n, lmax):
            cidx = cidx[decided[cidx]]
            if len(cidx) == 0:
                continue
            cth, cph = th[cidx], ph[cidx]
            ref = sph.ref_Y(lmax, cth, cph)
            t0 = tol_values(lmax) * (1 + lmax) if low is None else max(tol_deriv(lmax, cth, cph), tol_low(low, lmax, (cth, cph), power=3))
            e = np.abs(np.asarray(res[0][:, cidx] - (-ms[:, None] * ref[q]), dtype=float))
            rows = np.where(np.isnan(e), np.inf, e).max(axis=1)
            sig = _first_bad(rows, t0)
            _chk(ctx, "dtheta-vs-oracle" + sfx, F_DER, float(rows.max()), t0, sig=sig, detail=None if sig is None else dict(_worst(e, cth, cph), lmax=lmax, n_points=n))
            sp = np.sin(cph)
            away = np.abs(sp) > 1e-3
            if away.any():
                want = ls_[:, None] * np.cos(cph[away])[None, :] * ref[:, away] - coef[:, None] * np.where(lower[:, None] >= 0, ref[np.maximum(lower, 0)][:, away], 0.0)
                e = np.abs(np.asarray(res[1][:, cidx[away]] * sp[away][None, :] - want, dtype=float))
                rows = np.where(np.isnan(e), np.inf, e).max(axis=1)
                sig = _first_bad(rows, t0)
                _chk(ctx, "dphi-vs-oracle" + sfx, F_DER, float(rows.max()), t0, sig=sig, detail=None if sig is None else dict(_worst(e, cth[away], cph[away]), lmax=lmax, n_points=n))
        cap = max(2, int(MAX_ELEMS / 24 / nrow))
        if len(idx) > 4 * cap:  # at most four chunks of numerical differentiation per call (first and last column included)
            idx = idx[np.unique(np.linspace(0, len(idx) - 1, 4 * cap).astype(int))]
            ctx.count("subsampled-calls")
        tol = tol_deriv(lmax, th[idx], ph[idx])
        if low is not None:
            tol = max(tol, tol_low(low, lmax, (th[idx], ph[idx]), power=3))
        # both derivatives against numerical differentiation of the implemented harmonics (longdouble)
        rho = o8.numdiff_radius(lmax)
        nn = 24
        f = ORIG[F_REC]
        e_th = np.zeros((nrow, len(idx)))
        e_ph = np.zeros((nrow, len(idx)))
        for s in range(0, len(idx), cap):
            ii = idx[s : s + cap]
            k = len(ii)
            xt = o8.numdiff_nodes(th[ii], rho, nn)
            xp = o8.numdiff_nodes(ph[ii], rho, nn)
            tfix = np.repeat(th[ii].astype(o8.LD), nn)
            pfix = np.repeat(ph[ii].astype(o8.LD), nn)
            ys = f(lmax, np.concatenate([xt, tfix]), np.concatenate([pfix, xp]))
            d_th = o8.numdiff_apply(ys[:, : k * nn], k, rho, nn)
            d_ph = o8.numdiff_apply(ys[:, k * nn :], k, rho, nn)
            e_th[:, s : s + k] = np.abs(np.asarray(res[0][:, ii] - d_th, dtype=float))
            e_ph[:, s : s + k] = np.abs(np.asarray(res[1][:, ii] - d_ph, dtype=float))
            ctx.count("numdiff-points", k)
        rows = np.where(np.isnan(e_th), np.inf, e_th).max(axis=1)
        sig = _first_bad(rows, tol)
        _chk(ctx, "dtheta-is-derivative" + sfx, F_DER, float(rows.max()), tol, sig=sig, detail=None if sig is None else dict(_worst(e_th, th[idx], ph[idx]), lmax=lmax))
        off = ~pole[idx]
        if off.any():
            eo = e_ph[:, off]
            rows = np.where(np.isnan(eo), np.inf, eo).max(axis=1)
            sig = _first_bad(rows, tol)
            _chk(ctx, "dphi-is-derivative" + sfx, F_DER, float(rows.max()), tol, sig=sig, detail=None if sig is None else dict(_worst(eo, th[idx][off], ph[idx][off]), lmax=lmax))
            ctx.count("dphi-points-decided", int(off.sum()))
        if (~off).any():
            ep = e_ph[:, ~off]
            conv = _maxabs(res[1][:, idx[~off]])
            dev = float(np.nanmax(ep)) if ep.size else 0.0
            wrow = o8.describe_row(int(np.argmax(np.where(np.isnan(ep), np.inf, ep).max(axis=1)))) if ep.size else (0, 0)
            _observe(ctx, "pole convention: d/dphi at |sin phi| < 1e-9 recorded, not decided", lmax=lmax, max_abs_returned=conv, max_dev_from_true_derivative=dev, worst_row_l_m=list(wrow))
            ctx.count("dphi-points-at-pole-observed", int((~off).sum()))
            # the documented convention itself IS decided where it is unambiguous: exactly at phi = 0.0 and phi = fl(pi)
            # the polar derivative is zero (statement: "the poles, where the polar derivative is zero by documented convention")
            exact = np.isin(ph[idx], np.array([0.0, np.pi]))
            if exact.any():
                zero = _maxabs(res[1][:, idx[exact]])
                _chk(ctx, "dphi-zero-at-exact-pole", F_DER, float(zero), 1e-9 * (1.0 + lmax) ** 2, sig="nonzero-polar-derivative-at-pole", detail={"lmax": lmax, "max_abs": float(zero), "n_north": int(np.sum(ph[idx][exact] == 0.0)), "n_south": int(np.sum(ph[idx][exact] == np.pi))})
                ctx.count("dphi-points-exactly-at-pole-decided", int(exact.sum()))

    return post


def _post_sol(ctx):
    def post(res, exc, args, kwargs):
        lmax, pts = _argn(args, kwargs, ("l_max", "sph_pts"))
        try:
            pts_a = np.asarray(pts)
            good = isinstance(lmax, (int, np.integer)) and lmax >= 0 and pts_a.ndim == 2 and pts_a.shape[1] == 3 and pts_a.dtype.kind in "fiu" and bool(np.all(np.isfinite(pts_a))) and bool(np.all(pts_a[:, 0] >= 0))
        except Exception:
            good = False
        if not good:
            ctx.count("calls-outside-documented-domain:" + F_SOL)
            return
        if exc is not None:
            if _fpe_under_caller_state(ctx, F_SOL, exc):
                return
            ctx.fail("no-exception", F_SOL, f"raised:{type(exc).__name__}", detail={"error": str(exc)[:200], "lmax": int(lmax), "n": len(pts_a)})
            return
        lmax = int(lmax)
        r, th, ph = (np.asarray(c, dtype=float) for c in pts_a.T)
        n = len(r)
        shape = tuple(getattr(res, "shape", ()))
        if not _chk(ctx, "shape", F_SOL, shape == ((lmax + 1) ** 2, n), sig="wrong-shape", detail={"shape": list(shape), "lmax": lmax, "n": n}):
            return
        _history(ctx, F_SOL, res)
        if n == 0:
            return
        low = _low_eps(pts_a)
        if low is not None and (low > 1e-6 or lmax > LOW_PREC_LMAX):
            ctx.count("low-precision-angles-not-decided:" + F_SOL)
            return
        r_all, th_all, ph_all = r, th, ph
        for idx in _chunks(ctx, n, lmax):
            decided, _ = o8.classify_polar(ph_all[idx])
            idx = idx[decided]
            if len(idx) == 0:
                continue
            r, th, ph = r_all[idx], th_all[idx], ph_all[idx]
            R = res[:, idx]
            scale = o8.solid_scale(lmax, r)
            ref = sph.ref_Y(lmax, th, ph)
            usable = np.isfinite(scale) & (scale > 0)
            with np.errstate(all="ignore"):
                ratio = np.where(usable, np.asarray(R, dtype=o8.LD) / np.where(usable, scale, 1), ref)
            e = np.abs(np.asarray(ratio - ref, dtype=float))
            rows = np.where(np.isnan(e), np.inf, e).max(axis=1)
            tol = tol_values(lmax) if low is None else tol_low(low, lmax, (th, ph))
            sig = _first_bad(rows, tol)
            sfx = "" if low is None else "-single-precision-input"
            _chk(ctx, "solid-harmonics-scaled" + sfx, F_SOL, float(rows.max()), tol, sig=sig, detail=None if sig is None else dict(_worst(e, th, ph), lmax=lmax, r_at_worst=float(r[np.argmax(np.where(np.isnan(e), np.inf, e).max(axis=0))])))
            zero = r == 0
            if zero.any():
                Rz = np.asarray(R[:, zero], dtype=float)
                good0 = bool(np.all(np.abs(Rz[0] - 1.0) <= 1e-14)) and (lmax == 0 or bool(np.all(Rz[1:] == 0)))
                _chk(ctx, "solid-harmonics-at-origin", F_SOL, good0, sig="r=0-not-(1,0,0,...)", detail={"lmax": lmax, "head": Rz[: min(4, len(Rz)), 0]})
            if lmax >= 1:
                xyz = np.asarray(o8.sph_to_unit(th, ph) * r.astype(o8.LD)[:, None], dtype=float)
                got = np.asarray(R[1:4], dtype=float)
                want = np.stack([xyz[:, 2], xyz[:, 0], xyz[:, 1]])
                _chk(ctx, "solid-l1-is-zxy" + sfx, F_SOL, float(np.max(np.abs(got - want) / np.maximum(r, 1e-300)[None, :], initial=0.0)), 1e-13 if low is None else 16 * low * (1 + _maxabs(th) + _maxabs(ph)), sig="l=1-not-(z,x,y)")

    return post


def _post_c2s(ctx):
    def post(res, exc, args, kwargs):
        pts, center = _argn(args, kwargs, ("points", "center"))
        try:
            P = np.asarray(pts)
            C = np.zeros(3) if center is None else np.asarray(center)
            good = P.ndim == 2 and P.shape[1] == 3 and C.shape == (3,) and P.dtype.kind in "fiu" and C.dtype.kind in "fiu" and bool(np.all(np.isfinite(P))) and bool(np.all(np.isfinite(C)))
        except Exception:
            good = False
        if not good:
            ctx.count("calls-outside-documented-domain:" + F_C2S)
            return
        if exc is not None:
            if _fpe_under_caller_state(ctx, F_C2S, exc):
                return
            ctx.fail("no-exception", F_C2S, f"raised:{type(exc).__name__}", detail={"error": str(exc)[:200], "n": len(P)})
            return
        n = len(P)
        shape = tuple(getattr(res, "shape", ()))
        if not _chk(ctx, "shape", F_C2S, shape == (n, 3), sig="wrong-shape", detail={"shape": list(shape), "n": n}):
            return
        _history(ctx, F_C2S, res)
        if n == 0:
            return
        ctx.count("cart2sph-calls-by-point-dtype:" + str(P.dtype))
        S = np.asarray(res, dtype=float)
        rel = np.asarray(P, dtype=o8.LD) - np.asarray(C, dtype=o8.LD)
        rel64 = np.asarray(P, dtype=float) - np.asarray(C, dtype=float)
        r_ref = np.sqrt(np.sum(rel * rel, axis=1))
        at_c = np.all(rel64 == 0, axis=1)
        _chk(ctx, "cart2sph-finite", F_C2S, bool(np.all(np.isfinite(S))), sig="non-finite", detail={"n_bad": int(np.sum(~np.isfinite(S)))})
        rng_ok = (S[:, 0] >= 0) & (S[:, 1] >= -np.pi) & (S[:, 1] <= np.pi) & (S[:, 2] >= 0) & (S[:, 2] <= np.pi)
        _chk(ctx, "cart2sph-ranges", F_C2S, bool(np.all(rng_ok | ~np.isfinite(S).all(axis=1))), sig="angle-out-of-range", detail={"first": S[~rng_ok][:1]})
        if at_c.any():
            Sc = S[at_c]
            _chk(ctx, "cart2sph-centre", F_C2S, bool(np.all(Sc[:, 0] == 0) and np.all(Sc[:, 2] == 0)), sig="centre-not-r0-phi0", detail={"first": Sc[:1]})
            pos = ~np.signbit(rel64[at_c, 0])
            if pos.any():
                _chk(ctx, "cart2sph-centre", F_C2S + ":azimuth", bool(np.all(Sc[pos, 1] == 0)), sig="centre-theta-not-0", detail={"first": Sc[pos][:1]})
            if (~pos).any():
                _observe(ctx, "cart2sph: azimuth at the centre for a negative-zero x offset (arctan2 of signed zeros), not decided", theta=float(Sc[~pos][0, 1]))
        m = ~at_c & np.isfinite(S).all(axis=1)
        if not m.any():
            return
        Sm, relm, rr = S[m], rel[m], r_ref[m]
        mag = np.max(np.abs(np.asarray(P, dtype=float)[m]), axis=1) + float(np.max(np.abs(np.asarray(C, dtype=float))))
        rr64 = np.asarray(rr, dtype=float)
        weps = _work_eps(P, center)
        if weps > 1e-6:
            ctx.count("low-precision-points-not-decided:" + F_C2S)
            return
        if weps > o8.EPS:
            _observe(ctx, "cart2sph: all floating arguments single precision -> NumPy subtracts in float32, result decided at single-precision tolerance", points_dtype=str(P.dtype), center_dtype=str(np.asarray(center).dtype))
        delta = weps * (1 + mag / rr64)
        e_r = np.abs(np.asarray(Sm[:, 0] - rr, dtype=float)) / rr64 / delta
        _chk(ctx, "cart2sph-radius", F_C2S, float(e_r.max()), 8.0, sig="r-wrong", detail={"worst_units_of_delta": float(e_r.max())})
        sinp = np.asarray(np.sqrt(relm[:, 0] ** 2 + relm[:, 1] ** 2) / rr, dtype=float)
        tol_ang = 50 * delta / np.maximum(sinp, np.sqrt(delta)) + 28 * delta
        recon = o8.sph_to_unit(Sm[:, 1], Sm[:, 2]) * rr[:, None]
        e_rt = np.asarray(np.sqrt(np.sum((recon - relm) ** 2, axis=1)) / rr, dtype=float)
        worst = int(np.argmax(e_rt / tol_ang))
        _chk(ctx, "cart2sph-roundtrip", F_C2S, float((e_rt / tol_ang).max()), 1.0, sig="angles-do-not-reproduce-point", detail={"point": np.asarray(P, dtype=float)[m][worst], "center": np.asarray(C, dtype=float), "returned": Sm[worst], "err_over_r": float(e_rt[worst]), "tol": float(tol_ang[worst])})
        half = e_rt > 1e3 * delta
        if half.any():
            _observe(ctx, "cart2sph: polar angle from arccos(z/r) loses up to half the digits within ~1e-7 of the poles (round-trip error recorded, tolerance follows the conditioning of arccos)", max_err_over_r=float(e_rt[half].max()), sin_phi=float(sinp[half][np.argmax(e_rt[half])]))

    return post


def _in_default_errstate(post):
    """The caller's np.errstate must not leak into the monitor's own arithmetic (oracle, numerical differentiation)."""

    def wrapped(res, exc, args, kwargs):
        _CALLER_STATE.clear()
        _CALLER_STATE.update(np.geterr())
        with np.errstate(divide="warn", over="warn", under="ignore", invalid="warn"):
            return post(res, exc, args, kwargs)

    return wrapped


ERR_STATES = [
    {"all": "raise"},
    {"divide": "raise"},
    {"invalid": "raise"},
    {"divide": "raise", "invalid": "raise"},
    {"over": "raise"},
    {"under": "raise"},
    {"all": "warn"},
    {"all": "ignore"},
    {"divide": "ignore", "invalid": "raise", "over": "warn", "under": "raise"},
]


def setup(ctx):
    sph.self_test()
    o8.self_test()
    import grid.utils as gu

    for name in (F_REC, F_SCI, F_DER, F_SOL, F_C2S):
        f = getattr(gu, name)
        ORIG[name] = getattr(f, "__gridrv_orig__", f)
    instrument.wrap_function(ctx, gu, F_REC, _in_default_errstate(_post_rec(ctx)))
    instrument.wrap_function(ctx, gu, F_SCI, _in_default_errstate(_post_sci(ctx)))
    instrument.wrap_function(ctx, gu, F_DER, _in_default_errstate(_post_der(ctx)))
    instrument.wrap_function(ctx, gu, F_SOL, _in_default_errstate(_post_sol(ctx)))
    instrument.wrap_function(ctx, gu, F_C2S, _in_default_errstate(_post_c2s(ctx)))


# ---------------------------------------------------------------------------------- workload
ANGLE_KINDS = ["random", "wide", "poles", "equator", "lattice", "nearpole", "reflected"]
DERIV_KINDS = ["random", "wide", "poles", "equator", "lattice", "nearpole"]
C2S_CENTERS = ["none", "origin", "random", "far", "list", "int"]
C2S_POINTS = ["random", "axis", "equator", "centre", "nearpole", "scales"]
C2S_DTYPES = ["int64", "int32", "int16", "float32", "float64-column-view", "float64-fortran", "float64-reversed", "float64-broadcast"]
C2S_CENTER_FORMS = ["none", "list-fractional", "tuple-integer", "ndarray-fractional", "ndarray-integer", "list-integer", "ndarray-float32", "ndarray-strided"]


def _n_values(lmax, tier):
    base = 200 if lmax <= 12 else int(max(16, min(150, 1.0e6 / (lmax + 1) ** 2)))
    return base if tier == "quick" else int(base * 1.5)


def _n_deriv(lmax, tier):
    base = 60 if lmax <= 12 else int(max(4, min(40, 2.5e5 / (lmax + 1) ** 2)))
    return base


def cases(tier, seed):
    out = []
    quick = tier == "quick"
    lmaxs = LMAX_QUICK + [200] if quick else LMAX_THOROUGH
    reps = 2 if quick else 8
    for lmax in lmaxs:
        w = (lmax + 1.0) ** 2
        nv, nd = _n_values(lmax, tier), _n_deriv(lmax, tier)
        for kind in ANGLE_KINDS:
            nrep = 1 if kind == "lattice" else reps
            for k in range(nrep):
                fam = "values-reflected-observed" if kind == "reflected" else "values"
                out.append((fam, {"lmax": lmax, "kind": kind, "k": k, "n": nv}, 1.0 + 3e-5 * w * nv))
        for kind in DERIV_KINDS:
            nrep = 1 if kind == "lattice" else reps
            if quick and lmax > 150:  # quick: the derivative above 150 only on two angle classes, once
                nrep = 1 if kind in ("random", "poles") else 0
            for k in range(nrep):
                out.append(("derivative", {"lmax": lmax, "kind": kind, "k": k, "n": nd}, 1.0 + 1e-4 * w * (1 + 0.5 * nd)))
        for kind in ("random", "wide", "poles", "lattice"):
            for k in range(1 if kind == "lattice" else reps):
                out.append(("solid", {"lmax": lmax, "kind": kind, "k": k, "n": max(8, nv // 2)}, 1.0 + 1.5e-5 * w * nv))
        for k in range(reps):
            out.append(("chain", {"lmax": lmax, "k": k, "n": max(8, nv // 2)}, 1.0 + 3e-5 * w * nv))
    if not quick:  # one step beyond the advertised range of the design, values only
        for kind in ("random", "poles", "wide"):
            for k in range(2):
                out.append(("values", {"lmax": 400, "kind": kind, "k": k, "n": 6}, 1.0 + 3e-5 * 401.0**2 * 6))
    out.append(("derivative-reflected-observed", {"lmax": 4, "kind": "reflected", "k": 0, "n": 12}, 1.0))
    for c in C2S_CENTERS:
        for p in C2S_POINTS:
            for k in range(2 if quick else 12):
                out.append(("cart2sph", {"center": c, "points": p, "k": k}, 0.5))
    for k in range(4 if quick else 24):
        out.append(("library-callers", {"k": k}, 0.6))
    # argument FORMS: integer / single-precision / non-contiguous arrays, centre as None / list / tuple / ndarray
    for fn in ("rec", "sci", "der", "sol"):
        for dt in ("int64", "int32", "float32", "strided", "broadcast"):
            for lmax in (0, 1, 2, 3, 5, 8, 12, 20) if quick else (0, 1, 2, 3, 4, 5, 6, 8, 10, 12, 16, 20, 35, 60):
                for k in range(1 if quick else 3):
                    out.append(("dtype-angles", {"fn": fn, "dtype": dt, "lmax": lmax, "k": k}, 0.3 + 1e-3 * (lmax + 1) ** 2))
    for dt in C2S_DTYPES:
        for cf in C2S_CENTER_FORMS:
            for k in range(1 if quick else 6):
                out.append(("dtype-cart2sph", {"dtype": dt, "center": cf, "k": k}, 0.4))
    # result-stability histories: same-shape call sequences per function, earlier results re-verified afterwards
    for fn in ("rec", "sci", "der", "sol", "c2s"):
        for lmax in (0, 3, 12, 35):
            for n in (1, 17, 64):
                for k in range(1 if quick else 4):
                    if fn == "c2s" and lmax > 0:
                        continue
                    out.append(("history", {"fn": fn, "lmax": lmax, "n": n, "k": k}, 0.5 + 2e-4 * (lmax + 1) ** 2 * n / 10))
    # LARGE point sets (every column decided by the post-conditions) + BATCH INVARIANCE: the result for a point does not
    # depend on the batch it is in (columns of the large call == calls with subsets)
    big = {"rec": [(2, 100000), (8, 30000), (13, 20000), (30, 5000), (40, 3000), (64, 1500)],
           "sci": [(2, 100000), (8, 30000), (13, 20000), (30, 5000), (40, 3000), (64, 1500)],
           "sol": [(2, 100000), (8, 20000), (13, 6000), (30, 1500)],
           "der": [(1, 50000), (3, 20000), (5, 8000), (8, 3000)],
           "c2s": [(0, 100000), (0, 20000), (0, 3000)]}
    for fn, lst in big.items():
        for j, (lmax, n) in enumerate(lst):
            for k in range(1 if quick else 3):
                if quick and j % 2 == 1 and fn != "c2s":
                    continue
                out.append(("batch", {"fn": fn, "lmax": lmax, "n": n if not quick else max(1000, n // 3), "k": k}, 2.0 + 2e-6 * (lmax + 1) ** 2 * n * (4 if fn in ("sol", "der") else 1)))
    # the CALLER's NumPy floating-point error state as a dimension
    for fn in ("rec", "sci", "sol", "der", "c2s"):
        for lmax in ((0,) if fn == "c2s" else ((0, 1, 2, 3, 5, 8, 12, 20, 35) if quick else (0, 1, 2, 3, 4, 5, 6, 8, 10, 12, 16, 20, 25, 35, 60, 100))):
            if fn == "der" and lmax > 60:
                continue
            for k in range(1 if quick else 3):
                out.append(("errstate", {"fn": fn, "lmax": lmax, "k": k}, 0.5 + 4e-4 * (lmax + 1) ** 2 * (6 if fn == "der" else 1)))
    # N SWEEPS: calls with N = n0 .. n1-1 leading points of one pool, every column compared with the previous call
    out += _sweep_cases(tier, seed)
    out.append(("cart2sph-negzero-observed", {}, 0.5))
    out.append(("edge", {"what": "empty"}, 0.5))
    out.append(("edge", {"what": "single-point"}, 0.5))
    out.append(("edge", {"what": "strided-readonly"}, 0.5))
    return out


SWEEP_CHUNK = 25  # consecutive N per case


def _sweep_cases(tier, seed):
    """(a) contiguous sweeps: every N in a range, split into cases of SWEEP_CHUNK consecutive N; (b) sampled sweeps (quick):
    a seed-rotated sample of N plus N = 2**k and 2**k + 1.  Ranges: all five functions at low lmax; SciPy/recursion at
    moderate lmax (thorough: every N up to 1500 at lmax 30, 40, 64); and small N at the highest lmax of the tier, where a
    memory-bounded blocking would have its smallest blocks."""
    out = []
    quick = tier == "quick"

    def contiguous(fn, lmax, n0, n1, w):
        chunk = SWEEP_CHUNK if lmax < 100 else 10
        for a in range(n0, n1, chunk):  # each case starts one N earlier so that every consecutive pair (N-1, N) is compared
            out.append(("nsweep", {"fn": fn, "lmax": lmax, "start": max(n0, a - 1), "stop": min(n1, a + chunk)}, w * chunk / SWEEP_CHUNK))

    if quick:
        for fn in ("rec", "sci", "sol", "der", "c2s"):
            contiguous(fn, 0 if fn == "c2s" else 3, 1, 151, 0.8)
        contiguous("sci", 200, 1, 126, 40.0)
        rng = np.random.default_rng([seed, 8, 77])
        pow2 = sorted({2**k + d for k in range(1, 12) for d in (0, 1)})
        for fn, lmax, nmax in (("sci", 30, 2600), ("rec", 30, 2600), ("sci", 40, 1500), ("rec", 40, 1500), ("sci", 64, 1100), ("sol", 8, 3000), ("der", 5, 1500), ("c2s", 0, 5000)):
            ns = sorted(set(int(v) for v in rng.integers(1, nmax + 1, 24)) | {v for v in pow2 if v <= nmax})
            for i in range(0, len(ns), 12):
                out.append(("nsweep", {"fn": fn, "lmax": lmax, "list": ns[i : i + 12]}, 1.0 + 2e-6 * (lmax + 1) ** 2 * nmax * 6))
    else:
        for fn in ("rec", "sci", "sol", "der", "c2s"):
            contiguous(fn, 0 if fn == "c2s" else 3, 1, 1501 if fn in ("sol", "der") else 4201, 1.0)
        for lmax in (30, 40, 64):
            contiguous("sci", lmax, 1, 1501, 4.0 + lmax / 4)
        for lmax in (30, 40):
            contiguous("rec", lmax, 1, 1501, 6.0 + lmax / 4)
        contiguous("rec", 64, 1, 601, 14.0)
        contiguous("sol", 13, 1, 401, 3.0)
        contiguous("der", 8, 1, 401, 3.0)
        for lmax, n1 in ((100, 451), (150, 201), (200, 126), (250, 81)):
            contiguous("sci", lmax, 1, n1, 10.0 + lmax / 10)
        for lmax, n1 in ((100, 226), (150, 101), (200, 61)):
            contiguous("rec", lmax, 1, n1, 14.0 + lmax / 10)
    return out


def _pool(n, rng):
    """Angle / radius pool with structured points sprinkled in (poles, equator, multiples of pi/2, wide azimuth)."""
    th = rng.uniform(-20, 20, n)
    ph = np.arccos(rng.uniform(-1, 1, n))
    ph[::37] = 0.0
    ph[5::41] = np.pi
    ph[11::43] = np.pi / 2
    th[3::29] = (np.pi / 2) * (np.arange(len(th[3::29])) % 9 - 4)
    r = 10.0 ** rng.uniform(-1, 0.5, n)
    r[7::53] = 0.0
    return th, ph, r


def _eval(gu, fn, lmax, th, ph, r, pts, sl):
    if fn == "c2s":
        return gu.convert_cart_to_sph(pts[sl], np.array([0.3, -0.2, 0.1]))
    return _call(gu, fn, lmax, th[sl], ph[sl], r[sl])


def _cols(fn, R, sl):
    """The entries of a result belonging to the points ``sl`` of its batch."""
    return R[sl] if fn == "c2s" else R[..., sl]


def _col_dev(a, b):
    d = np.abs(np.asarray(a, dtype=o8.LD) - np.asarray(b, dtype=o8.LD)) / (1.0 + np.abs(np.asarray(b, dtype=o8.LD)))
    if d.size == 0:
        return 0.0
    return float(np.max(np.where(np.isnan(d), np.inf, d)))


def _run_batch(ctx, gu, params):
    rng = ctx.rng
    fn, lmax, n = params["fn"], params["lmax"], params["n"]
    name = FN_NAME[fn]
    th, ph, r = _pool(n, rng)
    pts = rng.normal(size=(n, 3)) * 10.0 ** rng.uniform(-1, 1, (n, 1))
    with ctx.guard("no-exception", name + ":large"):
        R = _eval(gu, fn, lmax, th, ph, r, pts, slice(None))
    ctx.case_note("n_points", n)
    k1 = int(rng.integers(1, max(2, n // 4)))
    k2 = int(rng.integers(1, max(2, n // 4)))
    cut = int(rng.integers(1, n))
    subsets = {"first-k": slice(0, k1), "last-k": slice(n - k2, n), "single-last": slice(n - 1, n), "single-first": slice(0, 1), "split-head": slice(0, cut), "split-tail": slice(cut, n), "every-third": slice(int(rng.integers(0, 3)), n, 3), "single-interior": slice(cut, cut + 1)}
    for label, sl in subsets.items():
        with ctx.guard("no-exception", f"{name}:{label}"):
            S = _eval(gu, fn, lmax, th, ph, r, pts, sl)
        want = _cols(fn, R, sl)
        if np.shape(S) != np.shape(want):
            ctx.fail("batch-invariance", f"{name}:{label}", "shape-differs", detail={"subset": list(np.shape(S)), "columns_of_large_call": list(np.shape(want))})
            continue
        dev = _col_dev(want, S)
        _chk(ctx, "batch-invariance", f"{name}:{label}", dev, 1e-14, sig="column-depends-on-batch", detail={"lmax": lmax, "n": n, "subset": label, "dev": dev})


def _run_errstate(ctx, gu, params):
    """Same batch (exact poles, equator, both hemispheres, r = 0, the centre itself) under every caller error state: where the
    library returns, the result equals the one under the default state (and the post-conditions decide it against the oracle);
    where it raises FloatingPointError because the caller asked NumPy to raise, that is recorded, not decided."""
    rng = ctx.rng
    fn, lmax = params["fn"], params["lmax"]
    name = FN_NAME[fn]
    n = 40
    th = rng.uniform(-7, 7, n)
    ph = np.arccos(rng.uniform(-1, 1, n))
    ph[:8] = [0.0, np.pi, np.pi / 2, 0.0, 2.5, 0.4, 3.0, 1e-9]
    r = 10.0 ** rng.uniform(-1, 0.5, n)
    r[[3, 9]] = 0.0
    c = np.array([0.3, -0.2, 0.1])
    pts = c + rng.normal(size=(n, 3))
    pts[0] = c  # the centre itself
    pts[1] = c + [0.0, 0.0, 2.0]
    pts[2] = c + [0.0, 0.0, -1.5]
    pts[3] = c + [1.0, 0.0, 0.0]

    def run():
        if fn == "c2s":
            return gu.convert_cart_to_sph(pts, c)
        return _call(gu, fn, lmax, th, ph, r)

    with ctx.guard("no-exception", name + ":default-errstate"):
        base = run()
    for st in ERR_STATES:
        label = ",".join(f"{k}={v}" for k, v in st.items())
        try:
            with np.errstate(**st):
                got = run()
        except FloatingPointError as e:
            if any(v == "raise" for v in st.values()):
                ctx.count("errstate-calls-that-raised-FloatingPointError:" + name)
                continue
            ctx.fail("errstate-invariance", f"{name}:{label}", "raised:FloatingPointError", detail={"error": str(e)[:200], "lmax": lmax})
            continue
        ctx.count("errstate-calls-that-returned:" + name)
        if np.shape(got) != np.shape(base):
            ctx.fail("errstate-invariance", f"{name}:{label}", "shape-differs", detail={"lmax": lmax})
            continue
        dev = _col_dev(got, base)
        _chk(ctx, "errstate-invariance", f"{name}:{label}", dev, 1e-14, sig="result-depends-on-callers-errstate", detail={"lmax": lmax, "dev": dev, "state": label})
        if np.geterr() != {"divide": "warn", "over": "warn", "under": "ignore", "invalid": "warn"}:
            ctx.fail("errstate-invariance", f"{name}:{label}", "callers-errstate-not-restored", detail={"now": dict(np.geterr())})
            np.seterr(divide="warn", over="warn", under="ignore", invalid="warn")


def _run_nsweep(ctx, gu, params):
    rng = ctx.rng
    fn, lmax = params["fn"], params["lmax"]
    name = FN_NAME[fn]
    ns = params.get("list") or list(range(params["start"], params["stop"]))
    nmax = max(ns)
    th, ph, r = _pool(nmax, rng)
    pts = rng.normal(size=(nmax, 3)) * 3.0
    prev, prev_n = None, 0
    worst, worst_at = 0.0, None
    for i, N in enumerate(ns):
        with ctx.guard("no-exception", f"{name}:N-sweep"):
            R = _eval(gu, fn, lmax, th, ph, r, pts, slice(0, N))
        ctx.count("nsweep-calls:" + name)
        if prev is not None:  # every column the two batches have in common
            m = min(N, prev_n)
            a, b = _cols(fn, R, slice(0, m)), _cols(fn, prev, slice(0, m))
            if np.shape(a) == np.shape(b):
                dev = _col_dev(a, b)
                if dev > worst or worst_at is None:
                    worst, worst_at = dev, (prev_n, N)
            else:
                worst, worst_at = float("inf"), (prev_n, N)
        if i == 0 or i == len(ns) - 1 or i % 8 == 0:  # the last and the first column against single-point calls
            for label, j in (("last", N - 1), ("first", 0)):
                with ctx.guard("no-exception", f"{name}:single-point"):
                    S = _eval(gu, fn, lmax, th, ph, r, pts, slice(j, j + 1))
                want = _cols(fn, R, slice(j, j + 1))
                dev = _col_dev(want, S) if np.shape(S) == np.shape(want) else float("inf")
                _chk(ctx, "batch-invariance", f"{name}:N-sweep:{label}-column-vs-single-point", dev, 1e-14, sig="column-depends-on-batch", detail={"lmax": lmax, "N": N, "column": j})
        prev, prev_n = R, N
    if worst_at is not None:
        _chk(ctx, "batch-invariance", f"{name}:N-sweep:consecutive-calls", worst, 1e-14, sig="column-depends-on-batch", detail={"lmax": lmax, "N_pair": list(worst_at), "dev": worst})
    ctx.case_note("N_values", [ns[0], ns[-1], len(ns)])


def _angles(kind, n, rng):
    """(theta, phi) for an angle class; azimuth theta, polar phi."""
    two_pi = 2 * np.pi
    if kind == "random":
        th = rng.uniform(0, two_pi, n)
        ph = np.arccos(rng.uniform(-1, 1, n))
    elif kind == "wide":
        th = rng.uniform(-20, 20, n)
        ph = np.arccos(rng.uniform(-1, 1, n)) + two_pi * rng.integers(-3, 4, n)
    elif kind == "poles":
        th = rng.uniform(-20, 20, n)
        base = np.array([0.0, np.pi, 1e-9, np.pi - 1e-9, 1e-12, np.pi - 1e-12, two_pi, -np.pi, np.pi + two_pi, 1e-9 + two_pi, 3e-10, np.pi - 3e-10])
        ph = base[np.arange(n) % len(base)]
        th[: min(n, 3)] = [0.0, np.pi / 2, -np.pi][: min(n, 3)]
    elif kind == "equator":
        th = rng.uniform(-20, 20, n)
        j = np.arange(n)
        th[::3] = (np.pi / 4) * ((j[::3] % 17) - 8)
        ph = np.full(n, np.pi / 2) + two_pi * (j % 3 - 1)
    elif kind == "lattice":
        tt = (np.pi / 4) * np.arange(-8, 9)
        pp = (np.pi / 6) * np.arange(0, 7)
        T, Pm = np.meshgrid(tt, pp, indexing="ij")
        th, ph = T.ravel(), Pm.ravel()
        if len(th) > n:
            sel = np.unique(np.linspace(0, len(th) - 1, n).astype(int))
            th, ph = th[sel], ph[sel]
    elif kind == "nearpole":
        th = rng.uniform(0, two_pi, n)
        d = 10.0 ** (-rng.uniform(3, 9, n))
        ph = np.where(rng.random(n) < 0.5, d, np.pi - d)
    elif kind == "reflected":
        th = rng.uniform(-7, 7, n)
        ph = np.where(rng.random(n) < 0.5, rng.uniform(np.pi + 0.05, two_pi - 0.05, n), -rng.uniform(0.05, np.pi - 0.05, n))
    else:
        raise ValueError(kind)
    return np.ascontiguousarray(th, dtype=float), np.ascontiguousarray(ph, dtype=float)


def _radii(n, rng):
    r = 10.0 ** rng.uniform(-2, 1, n)
    r[::7] = 0.0
    r[1::7] = 1.0
    if n > 3:
        r[2] = 1e-6
        r[3] = 300.0
    return r


def run_case(ctx, family, params):
    import grid.utils as gu

    rng = ctx.rng
    if family in ("values", "values-reflected-observed"):
        lmax, n = params["lmax"], params["n"]
        th, ph = _angles(params["kind"], n, rng)
        lm = np.int64(lmax) if params["k"] % 2 else lmax
        with ctx.guard("no-exception", F_REC):
            gu.generate_real_spherical_harmonics(lm, th, ph)
        with ctx.guard("no-exception", F_SCI):
            gu.generate_real_spherical_harmonics_scipy(lm, th, ph)
        if family != "values":
            ctx.trivial()
    elif family in ("derivative", "derivative-reflected-observed"):
        lmax, n = params["lmax"], params["n"]
        th, ph = _angles(params["kind"], n, rng)
        lm = np.int64(lmax) if params["k"] % 2 else lmax
        with ctx.guard("no-exception", F_DER):
            gu.generate_derivative_real_spherical_harmonics(lm, th, ph)
        if family != "derivative":
            ctx.trivial()
    elif family == "solid":
        lmax, n = params["lmax"], params["n"]
        th, ph = _angles(params["kind"], n, rng)
        r = _radii(len(th), rng)
        pts = np.stack([r, th, ph], axis=1)
        if params["k"] % 2:
            pts = np.asfortranarray(pts)
        with ctx.guard("no-exception", F_SOL):
            gu.solid_harmonics(lmax, pts)
    elif family == "chain":
        # Cartesian points -> convert_cart_to_sph -> harmonics, against the oracle evaluated on the Cartesian direction
        lmax, n = params["lmax"], params["n"]
        c = rng.normal(size=3) * (params["k"] % 3 > 0)
        u = rng.normal(size=(n, 3))
        u /= np.linalg.norm(u, axis=1)[:, None]
        keep = np.hypot(u[:, 0], u[:, 1]) > 1e-3
        u = u[keep]
        r = 10.0 ** rng.uniform(-1, 1, len(u))
        pts = c + r[:, None] * u
        with ctx.guard("no-exception", "chain"):
            s = gu.convert_cart_to_sph(pts, c if params["k"] % 3 > 0 else None)
            Y = gu.generate_real_spherical_harmonics(lmax, s[:, 1], s[:, 2])
            Z = gu.solid_harmonics(lmax, s) if lmax <= 35 else None
        rel = np.asarray(pts, dtype=o8.LD) - np.asarray(c, dtype=o8.LD)
        rn = np.sqrt(np.sum(rel * rel, axis=1))
        d = np.asarray(rel / rn[:, None], dtype=float)
        ref = sph.ref_Y_cart(lmax, d[:, 0], d[:, 1], d[:, 2])
        if tuple(Y.shape) == ref.shape:
            e = np.abs(np.asarray(Y - ref, dtype=float))
            rows = np.where(np.isnan(e), np.inf, e).max(axis=1)
            tol = tol_values(lmax)
            sig = _first_bad(rows, tol)
            _chk(ctx, "chain-cartesian-to-harmonics", "convert_cart_to_sph+" + F_REC, float(rows.max()), tol, sig=sig, detail=None if sig is None else dict(_worst(e, s[:, 1], s[:, 2]), lmax=lmax))
            if Z is not None and tuple(Z.shape) == ref.shape:
                scale = o8.solid_scale(lmax, np.asarray(rn, dtype=float))
                e = np.abs(np.asarray(np.asarray(Z, dtype=o8.LD) / scale - ref, dtype=float))
                rows = np.where(np.isnan(e), np.inf, e).max(axis=1)
                sig = _first_bad(rows, tol)
                _chk(ctx, "chain-cartesian-to-harmonics", "convert_cart_to_sph+" + F_SOL, float(rows.max()), tol, sig=sig, detail=None if sig is None else dict(_worst(e, s[:, 1], s[:, 2]), lmax=lmax))
    elif family == "cart2sph":
        _run_c2s(ctx, gu, params)
    elif family == "cart2sph-negzero-observed":
        pts = np.array([[-0.0, -0.0, 0.0], [-0.0, 0.0, 0.0], [0.0, 0.0, 0.0], [-0.0, -0.0, -0.0]])
        with ctx.guard("no-exception", F_C2S):
            s = gu.convert_cart_to_sph(pts)
            ctx.case_note("returned", s)
        ctx.trivial()
    elif family == "library-callers":
        _run_callers(ctx, params)
    elif family == "dtype-angles":
        _run_dtype_angles(ctx, gu, params)
    elif family == "dtype-cart2sph":
        _run_dtype_c2s(ctx, gu, params)
    elif family == "history":
        _run_history(ctx, gu, params)
    elif family == "batch":
        _run_batch(ctx, gu, params)
    elif family == "errstate":
        _run_errstate(ctx, gu, params)
    elif family == "nsweep":
        _run_nsweep(ctx, gu, params)
    elif family == "edge":
        _run_edge(ctx, gu, params)
    else:
        raise ValueError(family)


def _run_c2s(ctx, gu, params):
    rng = ctx.rng
    ck, pk = params["center"], params["points"]
    n = 64
    if ck in ("none", "origin"):
        c = np.zeros(3)
    elif ck == "random":
        c = rng.normal(size=3) * 10.0 ** rng.uniform(-2, 2)
    elif ck == "far":
        c = rng.normal(size=3) * 10.0 ** rng.uniform(4, 7)
    elif ck == "list":
        c = rng.normal(size=3)
    elif ck == "int":
        c = rng.integers(-5, 6, 3).astype(float)
    r = 10.0 ** rng.uniform(-1, 1, n)
    th = rng.uniform(-20, 20, n)
    ph = np.arccos(rng.uniform(-1, 1, n))
    if pk == "axis":
        ph = np.where(np.arange(n) % 2 == 0, 0.0, np.pi)
        th[:] = 0.0
    elif pk == "equator":
        ph[:] = np.pi / 2
        th[::4] = (np.pi / 2) * (np.arange(len(th[::4])) % 9 - 4)
    elif pk == "centre":
        r[::2] = 0.0
    elif pk == "nearpole":
        d = 10.0 ** (-rng.uniform(3, 10, n))
        ph = np.where(rng.random(n) < 0.5, d, np.pi - d)
    elif pk == "scales":
        r = 10.0 ** rng.uniform(-8, 8, n)
    rl, thl, phl = (a.astype(o8.LD) for a in (r, th, ph))
    if ck == "int" and pk in ("random", "equator", "centre"):
        # integer Cartesian offsets: the manufactured angles are derived from the integer points below
        off = rng.integers(-6, 7, (n, 3))
        if pk == "centre":
            off[::2] = 0
        if pk == "equator":
            off[:, 2] = 0
        pts = (c.astype(int) + off).astype(np.int64)
        center = [int(v) for v in c]
        manufactured = None
    else:
        u = o8.sph_to_unit(thl, phl)
        if pk == "axis":  # exactly on the z axis through the centre
            u = np.stack([np.zeros(n), np.zeros(n), np.where(ph == 0, 1.0, -1.0)], axis=1).astype(o8.LD)
        pts = np.asarray(c.astype(o8.LD) + rl[:, None] * u, dtype=float)
        manufactured = (r, th, ph)
        center = None if ck == "none" else (list(map(float, c)) if ck == "list" else c)
    with ctx.guard("no-exception", F_C2S):
        s = gu.convert_cart_to_sph(pts, center) if center is not None or params["k"] % 2 else gu.convert_cart_to_sph(pts)
    if manufactured is None or tuple(np.shape(s)) != (n, 3):
        return
    # the returned coordinates are the manufactured ones (theta mod 2 pi), within the conditioning of the input rounding
    s = np.asarray(s, dtype=float)
    cf = np.asarray(c, dtype=float)
    rel = np.asarray(pts, dtype=o8.LD) - cf.astype(o8.LD)
    r_eff = np.asarray(np.sqrt(np.sum(rel * rel, axis=1)), dtype=float)
    m = (r > 0) & (r_eff > 0)
    if not m.any():
        return
    mag = np.max(np.abs(pts[m]), axis=1) + float(np.max(np.abs(cf)))
    delta = o8.EPS * (1 + mag / r[m])
    sinp = np.abs(np.sin(ph[m]))
    e_r = np.abs(s[m, 0] - r[m]) / r[m] / delta
    _chk(ctx, "cart2sph-inverts-parametrisation", F_C2S + ":r", float(e_r.max()), 16.0, sig="r-wrong")
    tol_p = 100 * delta / np.maximum(sinp, np.sqrt(delta))
    e_p = np.abs(s[m, 2] - ph[m]) / tol_p
    w = int(np.argmax(e_p))
    _chk(ctx, "cart2sph-inverts-parametrisation", F_C2S + ":phi", float(e_p.max()), 1.0, sig="phi-wrong", detail={"phi": float(ph[m][w]), "got": float(s[m, 2][w]), "tol": float(tol_p[w]), "center_kind": ck, "points_kind": pk})
    az = sinp > 200 * delta  # the azimuth is undefined on the axis
    if az.any():
        tol_t = 100 * delta[az] / sinp[az]
        e_t = np.abs(o8.wrap_pi(s[m, 1][az] - th[m][az])) / tol_t
        w = int(np.argmax(e_t))
        _chk(ctx, "cart2sph-inverts-parametrisation", F_C2S + ":theta", float(e_t.max()), 1.0, sig="theta-wrong", detail={"theta": float(th[m][az][w]), "got": float(s[m, 1][az][w]), "tol": float(tol_t[w]), "center_kind": ck, "points_kind": pk})
    ctx.case_note("max_phi_err", float(np.abs(s[m, 2] - ph[m]).max()))


def _call(gu, fn, lmax, th, ph, r=None):
    if fn == "rec":
        return gu.generate_real_spherical_harmonics(lmax, th, ph)
    if fn == "sci":
        return gu.generate_real_spherical_harmonics_scipy(lmax, th, ph)
    if fn == "der":
        return gu.generate_derivative_real_spherical_harmonics(lmax, th, ph)
    if fn == "sol":
        return gu.solid_harmonics(lmax, np.stack([r, th, ph], axis=1))
    raise ValueError(fn)


FN_NAME = {"rec": F_REC, "sci": F_SCI, "der": F_DER, "sol": F_SOL, "c2s": F_C2S}


def _run_dtype_angles(ctx, gu, params):
    """The same VALUES handed over as integer / single-precision / non-contiguous arrays: the post-conditions decide the
    result against the oracle; here the result is compared with the one for the contiguous float64 copy."""
    rng = ctx.rng
    fn, dt, lmax = params["fn"], params["dtype"], params["lmax"]
    n = 24
    name = FN_NAME[fn]
    if dt in ("int64", "int32"):
        th = rng.integers(-20, 21, n).astype(dt)
        th[:5] = np.arange(5)  # theta = np.arange(..)
        ph = rng.integers(0, 4, n).astype(dt)  # 0, 1, 2, 3 rad: inside [0, pi]
        r = rng.integers(0, 4, n).astype(dt)
    elif dt == "float32":
        th = rng.uniform(-7, 7, n).astype(np.float32)
        ph = np.arccos(rng.uniform(-1, 1, n)).astype(np.float32)
        r = rng.uniform(0.3, 3, n).astype(np.float32)
    elif dt == "broadcast":  # zero-stride read-only views (one azimuth for all points / one radius)
        th = np.broadcast_to(np.float64(rng.uniform(-7, 7)), (n,))
        ph = np.arccos(rng.uniform(-1, 1, n))
        r = np.broadcast_to(np.float64(1.7), (n,))
    else:  # non-contiguous float64 views (every third element / reversed)
        th = rng.uniform(-20, 20, 3 * n)[::3]
        ph = np.arccos(rng.uniform(-1, 1, n))[::-1]
        r = rng.uniform(0.3, 3, 2 * n)[1::2]
    with ctx.guard("no-exception", f"{name}:{dt}"):
        if fn == "sol":
            pts = np.stack([r, th, ph], axis=1)  # common dtype of the three columns
            if dt == "strided":
                pts = np.asfortranarray(np.stack([r, th, ph, r], axis=1))[:, :3]
            a = gu.solid_harmonics(lmax, pts)
            b = gu.solid_harmonics(lmax, np.ascontiguousarray(pts, dtype=float))
        else:
            a = _call(gu, fn, lmax, th, ph)
            b = _call(gu, fn, lmax, np.ascontiguousarray(th, dtype=float), np.ascontiguousarray(ph, dtype=float))
    if np.shape(a) != np.shape(b):
        ctx.fail("same-result-for-other-argument-form", f"{name}:{dt}", "shape-differs", detail={"a": list(np.shape(a)), "b": list(np.shape(b))})
        return
    d = np.abs(np.asarray(a, dtype=o8.LD) - np.asarray(b, dtype=o8.LD))
    scale = 1.0 + np.abs(np.asarray(b, dtype=o8.LD))
    if fn == "sol":  # compare per point in units of sqrt(4pi/(2l+1)) r^l
        sc = o8.solid_scale(lmax, np.asarray(r, dtype=float))
        scale = np.where(sc > 0, sc, 1) * (1.0 + np.abs(np.asarray(b, dtype=o8.LD)) / np.where(sc > 0, sc, 1))
    err = float(np.max(np.where(np.isnan(d), np.inf, d) / scale, initial=0.0))
    if dt == "float32":
        tol = tol_low(float(np.finfo(np.float32).eps), lmax, (th, ph), power=3 if fn == "der" else 2)
    elif dt in ("strided", "broadcast"):  # NumPy's strided and contiguous sin/cos loops may differ in the last bit
        tol = 1e-12 * (1 + lmax)
    else:
        tol = 1e-13
    _chk(ctx, "same-result-for-other-argument-form" + ("-single-precision-input" if dt == "float32" else ""), f"{name}:{dt}", err, tol, sig="differs-from-float64-copy", detail={"lmax": lmax, "err": err})


def _run_dtype_c2s(ctx, gu, params):
    """Lattice / single-precision / non-contiguous point arrays with every documented form of the centre."""
    rng = ctx.rng
    dt, cf = params["dtype"], params["center"]
    n = 60
    if dt.startswith("int"):
        pts = rng.integers(-6, 7, (n, 3)).astype(dt)
        pts[:5] = [[0, 0, 0], [0, 0, 3], [0, 0, -2], [1, 0, 0], [-1, 0, 0]]
    elif dt == "float32":
        pts = (rng.normal(size=(n, 3)) * 10.0 ** rng.uniform(-1, 1)).astype(np.float32)
    elif dt == "float64-column-view":
        pts = rng.normal(size=(n, 7))[:, 2:5]
    elif dt == "float64-fortran":
        pts = np.asfortranarray(rng.normal(size=(n, 3)))
    elif dt == "float64-broadcast":
        pts = np.broadcast_to(rng.normal(size=3), (n, 3))
    else:
        pts = rng.normal(size=(2 * n, 3))[::-2, ::-1]
    frac = np.round(rng.uniform(-2, 2, 3), 2) + 0.013
    frac[0] = 0.5
    ints = rng.integers(-3, 4, 3)
    center = {
        "none": None,
        "list-fractional": [float(v) for v in frac],
        "tuple-integer": tuple(int(v) for v in ints),
        "ndarray-fractional": frac.copy(),
        "ndarray-integer": ints.astype(np.int64),
        "list-integer": [int(v) for v in ints],
        "ndarray-float32": frac.astype(np.float32),
        "ndarray-strided": np.stack([frac, frac], axis=1)[:, 0],
    }[cf]
    subj = f"{F_C2S}:{dt}:{cf}"
    with ctx.guard("no-exception", subj):
        a = gu.convert_cart_to_sph(pts, center) if center is not None else gu.convert_cart_to_sph(pts)
        c64 = None if center is None else np.ascontiguousarray(np.asarray(center), dtype=float)
        b = gu.convert_cart_to_sph(np.ascontiguousarray(pts, dtype=float), c64)
    if np.shape(a) != np.shape(b):
        ctx.fail("same-result-for-other-argument-form", subj, "shape-differs", detail={"a": list(np.shape(a)), "b": list(np.shape(b))})
        return
    a, b = np.asarray(a, dtype=float), np.asarray(b, dtype=float)
    # exact values of the arguments as given, in extended precision
    cl = np.zeros(3, dtype=o8.LD) if center is None else np.asarray(center).astype(o8.LD)
    rel = np.asarray(pts).astype(o8.LD) - cl
    rr = np.asarray(np.sqrt(np.sum(rel * rel, axis=1)), dtype=float)
    nz = rr > 0
    mag = float(np.max(np.abs(np.asarray(pts, dtype=float)))) + float(np.max(np.abs(np.asarray(cl, dtype=float))))
    delta = _work_eps(pts, center) * (1 + mag / np.where(nz, rr, 1.0))
    sinp = np.asarray(np.sqrt(rel[:, 0] ** 2 + rel[:, 1] ** 2), dtype=float) / np.where(nz, rr, 1.0)
    tol = 100 * delta / np.maximum(sinp, np.sqrt(delta)) + 50 * delta
    back_a = o8.sph_to_unit(a[:, 1], a[:, 2]) * np.asarray(a[:, 0], dtype=o8.LD)[:, None]
    back_b = o8.sph_to_unit(b[:, 1], b[:, 2]) * np.asarray(b[:, 0], dtype=o8.LD)[:, None]
    # 1. same answer as for the contiguous float64 copy of the same values
    e1 = np.asarray(np.sqrt(np.sum((back_a - back_b) ** 2, axis=1)), dtype=float) / np.where(nz, rr, 1.0)
    same0 = bool(np.all(a[~nz][:, [0, 2]] == b[~nz][:, [0, 2]])) if (~nz).any() else True
    w = int(np.argmax(np.where(np.isnan(e1), np.inf, e1) / tol))
    _chk(ctx, "same-result-for-other-argument-form", subj, float(np.max(np.where(np.isnan(e1), np.inf, e1) / tol)) if same0 else float("inf"), 1.0, sig="differs-from-float64-copy", detail={"row": a[w], "float64_copy_row": b[w], "err_over_r": float(e1[w]), "tol": float(tol[w])})
    # 2. independent of the library: the returned coordinates invert the parametrisation
    e2 = np.asarray(np.sqrt(np.sum((back_a - rel) ** 2, axis=1)), dtype=float) / np.where(nz, rr, 1.0)
    w = int(np.argmax(np.where(np.isnan(e2), np.inf, e2) / tol))
    _chk(ctx, "cart2sph-inverts-parametrisation", subj, float(np.max(np.where(np.isnan(e2), np.inf, e2) / tol)), 1.0, sig="angles-do-not-reproduce-point", detail={"point": np.asarray(pts, dtype=float)[w], "centre": np.asarray(cl, dtype=float), "returned": a[w], "err_over_r": float(e2[w]), "tol": float(tol[w])})


def _run_history(ctx, gu, params):
    """Same-shape call sequences: every array returned earlier must still hold its values after the later calls."""
    rng = ctx.rng
    fn, lmax, n = params["fn"], params["lmax"], params["n"]
    name = FN_NAME[fn]
    held = []

    def one(npts):
        th = rng.uniform(-7, 7, npts)
        ph = np.arccos(rng.uniform(-1, 1, npts))
        if fn == "c2s":
            c = rng.normal(size=3)
            return gu.convert_cart_to_sph(rng.normal(size=(npts, 3)) + c, c)
        return _call(gu, fn, lmax, th, ph, rng.uniform(0.2, 2, npts))

    with ctx.guard("no-exception", name):
        for npts in (n, n, n + 1, n, n):  # same shape twice, another shape, the first shape again
            res = one(npts)
            held.append((res, np.array(res, copy=True)))
    changed = [i for i, (o, c) in enumerate(held) if not (o.shape == c.shape and np.array_equal(o, c, equal_nan=True))]
    _chk(ctx, "result-stable-after-later-calls", name + ":sequence", not changed, sig="earlier-result-overwritten", detail={"changed_calls": changed, "lmax": lmax, "n": n})
    alias = [(i, j) for i in range(len(held)) for j in range(i + 1, len(held)) if held[i][0] is held[j][0] or _shares(held[i][0], held[j][0])]
    _chk(ctx, "results-do-not-share-memory", name + ":sequence", not alias, sig="memory-shared", detail={"pairs": alias[:4], "lmax": lmax, "n": n})


def _run_callers(ctx, params):
    """The monitors are attached to every binding: drive them through AtomGrid / Grid.moments, i.e. on the angles the
    library itself produces for its grids (exact poles, equator, negative zeros, r = 0 shells)."""
    from grid.atomgrid import AtomGrid
    from grid.basegrid import OneDGrid

    rng = ctx.rng
    k = params["k"]
    nsh = 4
    r = np.sort(rng.uniform(0.1, 3.0, nsh))
    if k % 2:
        r[0] = 0.0
    degs = [int(v) for v in rng.choice([3, 5, 7, 9, 11, 13, 15], nsh)]
    center = np.zeros(3) if k % 3 == 0 else rng.normal(size=3)
    before = dict(ctx.hooks)
    with ctx.guard("no-exception", "library-callers"):
        at = AtomGrid(OneDGrid(r, np.ones(nsh), (0, np.inf)), degrees=degs, center=center, method="lebedev" if k % 4 < 2 else "spherical")
        d = at.points - center
        f = np.exp(-np.sum(d * d, axis=1)) * (1.0 + d[:, 0] + d[:, 1] * d[:, 2])
        at.convert_cartesian_to_spherical()
        at.radial_component_splines(f)
        at.moments(3, np.array([center, center + 0.3]), f, type_mom="pure")
    for h in ("utils." + F_C2S, "utils." + F_REC, "utils." + F_SOL):
        _chk(ctx, "monitors-see-library-callers", h, ctx.hooks.get(h, 0) > before.get(h, 0), sig="binding-not-monitored")


def _run_edge(ctx, gu, params):
    what = params["what"]
    rng = ctx.rng
    if what == "empty":
        e = np.zeros(0)
        for lmax in (0, 3):
            with ctx.guard("no-exception", F_REC + ":empty"):
                gu.generate_real_spherical_harmonics(lmax, e, e)
            with ctx.guard("no-exception", F_SCI + ":empty"):
                gu.generate_real_spherical_harmonics_scipy(lmax, e, e)
            with ctx.guard("no-exception", F_SOL + ":empty"):
                gu.solid_harmonics(lmax, np.zeros((0, 3)))
            with ctx.guard("no-exception", F_DER + ":empty"):
                gu.generate_derivative_real_spherical_harmonics(lmax, e, e)
            with ctx.guard("no-exception", F_C2S + ":empty"):
                gu.convert_cart_to_sph(np.zeros((0, 3)))
    elif what == "single-point":
        for lmax in (0, 1, 7):
            th = rng.uniform(-7, 7, 1)
            ph = rng.uniform(0, np.pi, 1)
            with ctx.guard("no-exception", F_REC):
                gu.generate_real_spherical_harmonics(lmax, th, ph)
            with ctx.guard("no-exception", F_SCI):
                gu.generate_real_spherical_harmonics_scipy(lmax, th, ph)
            with ctx.guard("no-exception", F_DER):
                gu.generate_derivative_real_spherical_harmonics(lmax, th, ph)
            with ctx.guard("no-exception", F_SOL):
                gu.solid_harmonics(lmax, np.array([[2.5, th[0], ph[0]]]))
    elif what == "strided-readonly":
        big = np.stack([rng.uniform(-7, 7, 40), rng.uniform(0, np.pi, 40)], axis=1)
        big.setflags(write=False)
        th, ph = big[:, 0], big[:, 1]  # non-contiguous read-only views
        for lmax in (2, 9):
            with ctx.guard("no-exception", F_REC + ":strided"):
                gu.generate_real_spherical_harmonics(lmax, th, ph)
            with ctx.guard("no-exception", F_SCI + ":strided"):
                gu.generate_real_spherical_harmonics_scipy(lmax, th, ph)
            with ctx.guard("no-exception", F_DER + ":strided"):
                gu.generate_derivative_real_spherical_harmonics(lmax, th, ph)
        pts = rng.normal(size=(3, 30)).T
        pts.setflags(write=False)
        with ctx.guard("no-exception", F_C2S + ":strided"):
            gu.convert_cart_to_sph(pts, np.array([0.1, 0.2, 0.3]))
