"""C10 - local grids hold exactly the points inside the cutoff sphere, for any grid type and any history;
selection returns exactly the selected points/weights with the same domain or lattice."""

from __future__ import annotations

import math
import weakref

import numpy as np

from gridrv import core, instrument
from gridrv.monitors import roundtrip
from gridrv.oracles import periodic_ref as pref

PROP = "C10"
TITLE = "Local grids hold exactly the points inside the cutoff sphere, for any grid type"
REQUIRED_HOOKS = [
    "Grid.get_localgrid",
    "PeriodicGrid.get_localgrid",
    "Grid.__getitem__",
    "OneDGrid.__getitem__",
    "PeriodicGrid.__getitem__",
]
REQUIRED_FAMILIES = [
    "witness",
    "hist:Grid",
    "hist:OneDGrid",
    "hist:AtomGrid",
    "hist:MolGrid",
    "hist:UniformGrid",
    "hist:Tensor1DGrids",
    "hist:PeriodicGrid0",
    "hist:AngularGrid",
    "hist:LocalGrid",
    "selection",
]
BUDGET = {"quick": 300, "thorough": 3000}
RULE = (
    "Post-conditions attached to Grid.get_localgrid / PeriodicGrid.get_localgrid (no lattice) and to __getitem__ of Grid, OneDGrid, "
    "PeriodicGrid fire on every call in the process. Oracle = brute-force Euclidean distance on the grid's CURRENT public "
    "points/weights at call time (no k-d tree): index set == {i: |p_i-c| <= r} outside a 1e-9 relative tie band, indices integer/in "
    "range/unique, lg.points == points[idx], lg.weights == weights[idx], lg.center == c; r=inf => whole grid; empty ball => size-0 "
    "LocalGrid. One case = one HISTORY on one instance: 5-30 random operations from {query, near-tie query, exact-tie query, empty query, "
    "inf query, huge-radius query, points setter, weights setter, selection (+ query on the selected grid), clone (copy.copy / deepcopy / "
    "pickle protocol default and 2 via roundtrip.check_clone; the same query goes to clone and original, one of the two is then mutated by a "
    "setter or - deepcopy/pickle only - in place, the other must keep its public state, and BOTH stay in the history)}; instance kinds: Grid 1-D "
    "(flat and (N,1)), 2-D, 3-D, all 26 OneDGrid rule classes + custom OneDGrid, AtomGrid (non-zero centre; constructor, from_pruned, "
    "from_preset), MolGrid, UniformGrid 2-D/3-D, Tensor1DGrids 2-D/3-D, PeriodicGrid without lattice 1-3-D, AngularGrid (4 methods), "
    "LocalGrid (nested). Weight vectors by class (uniform, positive, negative, some/mostly/all exact zeros of both signs, denormal/1e-300, "
    "1e300, int64, int32) at construction and through the weights setter: membership must depend on geometry only and weights are exact copies. Setters are used only where the class offers them (AtomGrid.points is read-only). Selection family: every index "
    "kind (int, np.int8..64/uint, slice incl. negative step, index array, list, boolean mask, empty) x (Grid 1-3-D, OneDGrid rules, "
    "PeriodicGrid 1-3-D with 0..dim lattice vectors, wrapped or not). Witness family: deterministic regressions of the four repaired "
    "defects. A case is non-trivial when at least one oracle evaluation was made."
)
ASSUMPTIONS = [
    "distance == radius is a don't-care inside a relative band of 1e-9 (plus 64 eps x coordinate magnitude)",
    "selection is decided on the types whose __getitem__ can rebuild the type from (points, weights): Grid, OneDGrid family, PeriodicGrid; "
    "AtomGrid/UniformGrid/Tensor1DGrids/AngularGrid/LocalGrid inherit Grid.__getitem__ but cannot be rebuilt that way (TypeError, recorded, "
    "not decided); MolGrid.__getitem__ is a per-atom accessor and not part of this property",
    "an empty selection on a OneDGrid with a domain / PeriodicGrid with lattice is recorded, not decided (such a grid cannot be constructed at all)",
    "dimensions 1..3",
]
LEVEL_TEXT = "Held on the explored histories (random operation sequences on one instance per case) for every grid class of the library."
TECHNIQUE = "runtime monitoring: post-conditions on get_localgrid/__getitem__ with a brute-force reference model on the current public state, driven by random operation histories"

TOL_COPY = 1e-12  # lg.points vs points[idx] (bitwise equal today; relative to coordinate magnitude)

# instances whose points / weights were reassigned through the public setter (history state, used for the failure signature)
_STATE = weakref.WeakKeyDictionary()
# objects that are (or were) one side of a copy.copy: they may share arrays with a sibling, so the workload never edits their
# arrays in place (sharing is documented shallow-copy behaviour and is not decided)
_SHARES = weakref.WeakSet()


def _state(obj):
    try:
        return _STATE.get(obj, "")
    except TypeError:
        return ""


def mark(obj, what):
    try:
        cur = set(filter(None, _STATE.get(obj, "").split("+")))
        cur.add(what)
        _STATE[obj] = "+".join(sorted(cur))
    except TypeError:
        pass


# ---------------------------------------------------------------------------------------------- monitors
def subject_of(g):
    name = type(g).__name__
    if name in ("Grid", "PeriodicGrid", "LocalGrid"):
        p = g.points
        d = "1d-flat" if p.ndim == 1 else f"{p.shape[1]}d"
        if name == "PeriodicGrid":
            nl = 0 if g.realvecs.size == 0 else (1 if g.realvecs.ndim == 1 else g.realvecs.shape[0])
            return f"PeriodicGrid/{d}/nl{nl}"
        return f"{name}/{d}"
    return name


def _is_real_number(x):
    return isinstance(x, (int, float, np.integer, np.floating)) and not isinstance(x, (bool, np.bool_))


def check_localgrid(ctx, g, center, radius, lg, exc):
    """Post-condition of get_localgrid for a non-periodic cutoff sphere."""
    from grid.basegrid import LocalGrid

    subj = subject_of(g)
    pts = np.asarray(g.points)
    w = np.asarray(g.weights)
    n = len(pts)
    try:
        c = np.asarray(center)
        adm = c.shape == pts.shape[1:] and c.dtype.kind in "fiu" and bool(np.all(np.isfinite(c)))
    except Exception:
        adm = False
    adm = adm and _is_real_number(radius) and not math.isnan(float(radius)) and radius >= 0
    adm = adm and bool(np.all(np.isfinite(pts)))
    if not adm:
        ctx.count("localgrid:inadmissible-" + ("rejected" if exc is not None else "accepted"))
        return
    must, may, dist = pref.ball(pts, c, float(radius))
    if radius == np.inf:
        clause = "inf-radius-whole-grid"
    elif not may.any():
        clause = "empty-ball-empty-grid"
    else:
        clause = "ball-membership"
    hist = _state(g)
    tail = ("@after-" + hist) if hist else ""
    if exc is not None:
        if isinstance(exc, Exception):
            ctx.fail(clause, subj, f"raised:{type(exc).__name__}{tail}", detail={"error": str(exc)[:200], "tb": core.short_tb(exc), "N": n, "radius": float(radius), "n_inside": int(must.sum())})
        return
    ctx.count("query:" + clause)
    if not ctx.check("returns-localgrid", subj, isinstance(lg, LocalGrid), sig=f"type:{type(lg).__name__}"):
        return
    idx = lg.indices
    ok_idx = isinstance(idx, np.ndarray) and idx.ndim == 1 and idx.dtype.kind in "iu"
    if not ok_idx:
        ctx.check("indices-valid", subj, False, sig="not-1d-integer-array" + tail, detail={"dtype": str(getattr(idx, "dtype", type(idx))), "shape": list(getattr(idx, "shape", []))})
        return
    in_range = bool(np.all((idx >= 0) & (idx < n))) if idx.size else True
    if not ctx.check("indices-valid", subj, in_range, sig="out-of-range" + tail, detail={"min": int(idx.min()) if idx.size else None, "max": int(idx.max()) if idx.size else None, "N": n}):
        return
    ndup = int(idx.size - np.unique(idx).size)
    ctx.check("no-duplicates", subj, float(ndup), 0.0, sig="duplicates" + tail, detail={"duplicates": ndup})
    got = np.zeros(n, dtype=bool)
    got[idx] = True
    missing = must & ~got
    extra = got & ~may
    nm, ne = int(missing.sum()), int(extra.sum())
    sig = ("missing-points" if nm else "") + ("+" if nm and ne else "") + ("extra-points" if ne else "")
    if nm and w.shape == (n,) and bool(np.all(w[missing] == 0)):
        sig += ":all-zero-weight"  # membership depends on the weights instead of geometry only
    det = None
    if nm or ne:
        det = {"N": n, "radius": float(radius), "center": c, "n_expected": int(must.sum()), "n_got": int(idx.size), "missing": nm, "extra": ne, "n_zero_weights": int(np.sum(w == 0)), "weights_dtype": str(w.dtype)}
        if nm:
            det["missing_dist_over_r"] = float(dist[missing].max() / radius) if radius not in (0, np.inf) else float(dist[missing].max())
        if ne:
            det["extra_dist_over_r"] = float(dist[extra].min() / radius) if radius not in (0, np.inf) else float(dist[extra].min())
    ctx.check(clause, subj, float(nm + ne), 0.0, sig=sig + tail, detail=det)
    # points / weights / centre consistent with the index array
    lp, lw = np.asarray(lg.points), np.asarray(lg.weights)
    want_shape = (idx.size,) + pts.shape[1:]
    if not ctx.check("points-match-parent", subj, lp.shape == want_shape, sig="shape" + tail, detail={"shape": list(lp.shape), "want": list(want_shape)}):
        return
    scale = 1.0 + (float(np.abs(pts).max()) if pts.size else 0.0)
    dp = float(np.abs(lp - pts[idx]).max()) / scale if idx.size else 0.0
    ctx.check("points-match-parent", subj, dp, TOL_COPY, sig="values" + tail, detail={"max_rel_diff": dp})
    if ctx.check("weights-match-parent", subj, lw.shape == (idx.size,), sig="shape" + tail, detail={"shape": list(lw.shape)}):
        wscale = 1.0 + (float(np.abs(w).max()) if w.size else 0.0)
        dw = float(np.abs(lw - w[idx]).max()) / wscale if idx.size else 0.0
        exact = bool(np.array_equal(lw, w[idx]))  # weights are copies: exact, also for denormal / integer weights
        ctx.check("weights-match-parent", subj, 0.0 if exact else max(dw, 2 * TOL_COPY), TOL_COPY, sig="values" + tail, detail={"max_rel_diff": dw, "dtype": str(lw.dtype), "parent_dtype": str(w.dtype)})
    ctx.check("size-consistent", subj, int(lg.size) == int(idx.size), sig="size" + tail, detail={"size": int(lg.size), "n_idx": int(idx.size)})
    try:
        lc = np.asarray(lg.center)
        okc = lc.shape == c.shape and bool(np.array_equal(lc, c))
    except Exception:
        okc = False
    ctx.check("center-kept", subj, okc, sig="center" + tail)


def _lg_args(args, kwargs):
    g = args[0]
    center = args[1] if len(args) > 1 else kwargs.get("center")
    radius = args[2] if len(args) > 2 else kwargs.get("radius")
    return g, center, radius


SELECTABLE_EXACT = ("Grid", "PeriodicGrid")


def index_kind(index):
    if isinstance(index, (bool, np.bool_)):
        return "bool-scalar"
    if isinstance(index, int):
        return "int"
    if isinstance(index, np.integer):
        return "np." + type(index).__name__
    if isinstance(index, slice):
        return "slice-negstep" if (index.step is not None and index.step < 0) else "slice"
    if isinstance(index, np.ndarray):
        if index.dtype.kind == "b":
            return "boolmask"
        if index.dtype.kind in "iu":
            return "intarray" if index.ndim == 1 else f"intarray-{index.ndim}d"
        return "array-" + index.dtype.kind
    if isinstance(index, list):
        return "list"
    return type(index).__name__


def check_selection(ctx, g, index, res, exc):
    """Post-condition of __getitem__ (Grid, OneDGrid, PeriodicGrid)."""
    from grid.basegrid import OneDGrid

    cls = type(g).__name__
    kind = index_kind(index)
    is_oned = isinstance(g, OneDGrid)
    supported = is_oned or cls in SELECTABLE_EXACT
    if not supported:
        how = f"raised {type(exc).__name__}" if exc is not None else f"returned {type(res).__name__}"
        key = f"selection-unsupported:{cls}:{how}"
        if key not in ctx.notes:
            ctx.observe("selection on a class that cannot be rebuilt from (points, weights) - not decided", cls=cls, outcome=how)
        ctx.count(key)
        return
    pts, w = np.asarray(g.points), np.asarray(g.weights)
    admissible_kind = kind in ("int", "slice", "slice-negstep", "boolmask", "intarray", "list") or kind.startswith("np.")
    if not admissible_kind:
        ctx.count("selection:inadmissible-index-kind:" + kind)
        return
    try:
        ep, ew = pts[index], w[index]
    except Exception:
        ctx.count("selection:inadmissible-" + ("rejected" if exc is not None else "accepted"))
        return
    scalar = kind == "int" or kind.startswith("np.")
    if scalar:
        ep, ew = ep[None], np.array([ew])
    if ew.ndim != 1:
        ctx.count("selection:inadmissible-index-shape")
        return
    subj = f"{subject_of(g) if not is_oned else cls}[{kind}]"
    # a OneDGrid with a domain and a PeriodicGrid (with or without lattice) cannot be constructed with zero points at all
    has_constraint = (is_oned and g.domain is not None) or cls == "PeriodicGrid"
    if ew.size == 0 and has_constraint:
        how = f"raised {type(exc).__name__}" if exc is not None else "returned"
        key = f"empty-selection:{'OneDGrid-with-domain' if is_oned else 'PeriodicGrid'}:{how}"
        if key not in ctx.notes:
            ctx.observe("empty selection on a grid type that cannot hold zero points - not decided", cls=cls, outcome=how)
        ctx.count(key)
        if exc is not None:
            return
    if exc is not None:
        if isinstance(exc, Exception):
            ctx.fail("selection-exact", subj, f"raised:{type(exc).__name__}", detail={"error": str(exc)[:200], "tb": core.short_tb(exc), "index": repr(index)[:80]})
        return
    ctx.count("selection:" + kind)
    if is_oned:
        okt = isinstance(res, OneDGrid)
    else:
        okt = type(res) is type(g)
    if not ctx.check("selection-same-type", subj, okt, sig=f"type:{type(res).__name__}"):
        return
    rp, rw = np.asarray(res.points), np.asarray(res.weights)
    okp = rp.shape == ep.shape and bool(np.array_equal(rp, ep))
    okw = rw.shape == ew.shape and bool(np.array_equal(rw, ew))
    ctx.check("selection-exact", subj, okp, sig="points", detail={"shape": list(rp.shape), "want": list(ep.shape)})
    ctx.check("selection-exact", subj, okw, sig="weights", detail={"shape": list(rw.shape), "want": list(ew.shape)})
    ctx.check("selection-exact", subj, int(res.size) == int(ew.size), sig="size")
    if is_oned:
        d0, d1 = g.domain, res.domain
        same = (d0 is None and d1 is None) or (d0 is not None and d1 is not None and tuple(d0) == tuple(d1))
        ctx.check("selection-keeps-domain", subj, same, sig="domain", detail={"parent": d0, "got": d1})
    if cls == "PeriodicGrid":
        same = res.realvecs.shape == g.realvecs.shape and bool(np.array_equal(res.realvecs, g.realvecs))
        ctx.check("selection-keeps-lattice", subj, same, sig="realvecs", detail={"parent": g.realvecs, "got": res.realvecs})
        if same and g.realvecs.size:
            ctx.check("selection-keeps-lattice", subj, bool(np.allclose(res.spacings, g.spacings, rtol=1e-12, atol=0) and np.allclose(res.recivecs, g.recivecs, rtol=1e-12, atol=1e-300)), sig="spacings/recivecs")


def install_monitors(ctx, periodic_lattice=False):
    """Attach the C10 post-conditions to the real classes (fires on every call in the process)."""
    from grid.basegrid import Grid, OneDGrid
    from grid.periodicgrid import PeriodicGrid

    def post_lg(res, exc, args, kwargs):
        g, center, radius = _lg_args(args, kwargs)
        check_localgrid(ctx, g, center, radius, res, exc)

    def post_plg(res, exc, args, kwargs):
        g, center, radius = _lg_args(args, kwargs)
        if g.realvecs.size == 0:
            if _is_real_number(radius) and radius == np.inf:
                # the repository's tests REQUIRE a ValueError here: recorded, not decided
                ctx.count("periodic-no-lattice-inf-radius:" + ("raised " + type(exc).__name__ if exc is not None else "returned"))
                return
            check_localgrid(ctx, g, center, radius, res, exc)
        else:
            ctx.count("periodic-with-lattice-query(decided by C11)")

    def post_get(res, exc, args, kwargs):
        if len(args) < 2:
            return
        check_selection(ctx, args[0], args[1], res, exc)

    instrument.wrap_method(ctx, Grid, "get_localgrid", post_lg, hook="Grid.get_localgrid")
    instrument.wrap_method(ctx, PeriodicGrid, "get_localgrid", post_plg, hook="PeriodicGrid.get_localgrid")
    instrument.wrap_method(ctx, Grid, "__getitem__", post_get, hook="Grid.__getitem__")
    instrument.wrap_method(ctx, OneDGrid, "__getitem__", post_get, hook="OneDGrid.__getitem__")
    instrument.wrap_method(ctx, PeriodicGrid, "__getitem__", post_get, hook="PeriodicGrid.__getitem__")


def setup(ctx):
    pref.self_test()
    install_monitors(ctx)


# ---------------------------------------------------------------------------------------------- workload
ODD_ONLY = {"ExpExp", "ExpSinh", "LogExpSinh", "Simpson", "SingleArcSinhExp", "SingleExp", "SingleTanh", "TanhSinh"}
NEEDS_QUAD = {"TrefethenGeneral", "TrefethenStripGeneral"}
RULES = [
    "ClenshawCurtis", "ExpExp", "ExpSinh", "FejerFirst", "FejerSecond", "GaussChebyshev", "GaussChebyshevLobatto",
    "GaussChebyshevType2", "GaussLaguerre", "GaussLegendre", "LogExpSinh", "MidPoint", "RectangleRuleSineEndPoints",
    "Simpson", "SingleArcSinhExp", "SingleExp", "SingleTanh", "TanhSinh", "Trapezoidal", "TrefethenCC", "TrefethenGC2",
    "TrefethenGeneral", "TrefethenStripCC", "TrefethenStripGC2", "TrefethenStripGeneral", "UniformInteger",
]  # fmt: skip
ANG_METHODS = ["lebedev", "spherical", "maxdet", "ahrens_beylkin"]

HIST_KINDS = (
    [("hist:Grid", {"kind": "Grid", "dim": d}) for d in ("1", "1c", "2", "3")]
    + [("hist:OneDGrid", {"kind": "rule", "rule": r}) for r in RULES]
    + [("hist:OneDGrid", {"kind": "OneDGrid"})]
    + [("hist:AtomGrid", {"kind": "AtomGrid", "via": v}) for v in ("init", "from_pruned", "from_preset")]
    + [("hist:MolGrid", {"kind": "MolGrid"})]
    + [("hist:UniformGrid", {"kind": "UniformGrid", "dim": d}) for d in (2, 3)]
    + [("hist:Tensor1DGrids", {"kind": "Tensor1DGrids", "dim": d}) for d in (2, 3)]
    + [("hist:PeriodicGrid0", {"kind": "PeriodicGrid0", "dim": d}) for d in ("1", "1c", "2", "3")]
    + [("hist:AngularGrid", {"kind": "AngularGrid", "method": m}) for m in ANG_METHODS]
    + [("hist:LocalGrid", {"kind": "LocalGrid", "dim": d}) for d in ("1", "2", "3")]
)
REPS = {
    "quick": {"hist:Grid": 60, "hist:OneDGrid": 6, "hist:AtomGrid": 30, "hist:MolGrid": 40, "hist:UniformGrid": 30, "hist:Tensor1DGrids": 30, "hist:PeriodicGrid0": 40, "hist:AngularGrid": 12, "hist:LocalGrid": 25},
    "thorough": {"hist:Grid": 7000, "hist:OneDGrid": 700, "hist:AtomGrid": 1500, "hist:MolGrid": 1800, "hist:UniformGrid": 2500, "hist:Tensor1DGrids": 2500, "hist:PeriodicGrid0": 4000, "hist:AngularGrid": 800, "hist:LocalGrid": 2500},
}
COST = {"hist:AtomGrid": 4.0, "hist:MolGrid": 8.0, "hist:AngularGrid": 2.0}

SEL_TARGETS = (
    [{"t": "Grid", "dim": d} for d in ("1", "1c", "2", "3")]
    + [{"t": "rule", "rule": r} for r in RULES]
    + [{"t": "OneDGrid", "domain": dom} for dom in ("none", "finite", "semi")]
    + [{"t": "PeriodicGrid", "dim": d, "nl": nl, "wrap": wr} for d in ("1", "1c", "2", "3") for nl in range(0, int(d[0]) + 1) for wr in (False, True)]
)
SEL_KINDS = ["int", "negint", "np.int8", "np.int16", "np.int32", "np.int64", "np.uint8", "np.uint64", "np.intp", "slice", "slice-step", "slice-neg", "slice-empty", "intarray", "intarray-rep", "intarray-neg", "int32array", "list", "boolmask", "boolmask-none", "empty-array"]

WITNESSES = ["empty-ball", "numpy-int-index", "stale-tree", "atomgrid-centre", "inf-and-huge", "duplicates-and-ties", "size-one", "weights-follow", "zero-weights", "clones"]


def cases(tier, seed):
    out = []
    for wname in WITNESSES:
        out.append(("witness", {"name": wname}, 1e9))
    reps = REPS[tier]
    for fam, p in HIST_KINDS:
        for k in range(reps[fam]):
            out.append((fam, dict(p, k=k), COST.get(fam, 1.0)))
    for k in range(12 if tier == "quick" else 400):
        out.append(("exact-lattice", {"dim": 1 + k % 3, "kind": "uniform" if k % 2 else "plain", "k": k}, 1.0))
    nsel = 2 if tier == "quick" else 100
    for tgt in SEL_TARGETS:
        for k in range(nsel):
            out.append(("selection", dict(tgt, k=k), 1.5))
    return out


# ------------------------------------------------------------------ instance builders
def _rand_points(rng, n, dim):
    """(n, dim) array, several styles (uniform box, shifted cluster, integer lattice with ties, duplicates)."""
    style = rng.choice(["box", "cluster", "far", "integer", "dups", "line"])
    if style == "box":
        p = rng.uniform(-1, 1, (n, dim)) * rng.choice([1e-3, 1.0, 50.0])
    elif style == "cluster":
        p = rng.normal(size=(n, dim)) * np.exp(rng.uniform(-3, 2, (n, 1)))
    elif style == "far":
        p = rng.normal(size=(n, dim)) + rng.choice([1e2, 1e4, -1e3]) * rng.normal(size=dim)
    elif style == "integer":
        p = rng.integers(-3, 4, (n, dim)).astype(float) * 0.5
    elif style == "dups":
        p = rng.uniform(-2, 2, (n, dim))
        src = rng.integers(0, n, max(1, n // 3))
        dst = rng.integers(0, n, len(src))
        p[dst] = p[src]
    else:
        t = np.sort(rng.uniform(-1, 1, n))
        p = np.outer(t, rng.normal(size=dim)) + rng.normal(size=dim)
    return np.ascontiguousarray(p)


WEIGHT_STYLES = ["uniform", "positive", "negative", "some-zeros", "mostly-zeros", "all-zero", "tiny-denormal", "huge", "int64", "int32"]
WEIGHT_P = [0.22, 0.1, 0.08, 0.2, 0.08, 0.04, 0.1, 0.04, 0.09, 0.05]


def rand_weights(ctx, rng, n, allow_int=True):
    """Weight vectors by class: membership of a local grid must depend on geometry only, never on the weights."""
    style = str(rng.choice(WEIGHT_STYLES, p=WEIGHT_P))
    if not allow_int and style.startswith("int"):
        style = "some-zeros"
    ctx.count("weights:" + style)
    if style == "uniform":
        return rng.uniform(-1, 2, n)
    if style == "positive":
        return rng.uniform(0.01, 2, n)
    if style == "negative":
        return -rng.uniform(0.01, 2, n)
    if style in ("some-zeros", "mostly-zeros", "all-zero"):
        w = rng.uniform(-1, 2, n)
        frac = {"some-zeros": rng.uniform(0.1, 0.6), "mostly-zeros": 0.9, "all-zero": 1.1}[style]
        z = rng.random(n) < frac
        if style == "some-zeros" and n > 0:
            z[int(rng.integers(n))] = True
        w[z] = np.where(rng.random(int(z.sum())) < 0.5, 0.0, -0.0)  # exact zeros of both signs
        return w
    if style == "tiny-denormal":
        return rng.choice(np.array([1e-300, -1e-300, 5e-324, -5e-324, 2.2250738585072014e-308, 1e-320, 1.0, 0.0]), n)
    if style == "huge":
        return rng.choice(np.array([1e300, -1e300, 1e-300, 1.0, 0.0]), n)
    if style == "int64":
        return rng.integers(-2, 4, n).astype(np.int64)
    return rng.integers(0, 3, n).astype(np.int32)


def _rand_n(rng):
    return int(rng.choice([1, 2, 3, 5, 17, 60, 150, 400], p=[0.05, 0.05, 0.08, 0.12, 0.25, 0.25, 0.15, 0.05]))


def _shape_points(p, dimcode):
    return p[:, 0].copy() if dimcode == "1" else p


def _rule(name, rng, small=False):
    import grid.onedgrid as od

    n = int(rng.integers(2, 12 if small else 60))
    if name in ODD_ONLY:
        n = max(3, n | 1)
    cls = getattr(od, name)
    if name in NEEDS_QUAD:
        q = getattr(od, str(rng.choice(["GaussLegendre", "ClenshawCurtis", "GaussChebyshevType2", "FejerFirst"])))
        return cls(n, q)
    g = cls(n)
    while not np.all(np.isfinite(g.points)) and n > 3:  # exp-type rules overflow for many points with their default step
        n = max(3, (n // 2) | 1)
        g = cls(n)
    return g


def _rgrid(rng, nmax=8):
    from grid.basegrid import OneDGrid

    n = int(rng.integers(1, nmax + 1))
    r = np.sort(np.exp(rng.uniform(-3, 2, n)))
    if rng.random() < 0.2:
        r[0] = 0.0  # a shell of radius zero: all its points coincide with the nucleus
    return OneDGrid(r, rng.uniform(0.1, 2, n), (0, np.inf))


def _atomgrid(rng, via="init", center=None):
    from grid.atomgrid import AtomGrid
    from grid.onedgrid import GaussLaguerre

    if center is None:
        center = rng.normal(size=3) * rng.choice([0.5, 3.0, 40.0])
    method = str(rng.choice(ANG_METHODS, p=[0.55, 0.15, 0.15, 0.15]))
    rot = int(rng.choice([0, 0, 7, 12345]))
    if via == "init":
        rg = _rgrid(rng)
        degs = [int(v) for v in rng.choice([1, 3, 5, 7, 9, 11, 13], rg.size)]
        return AtomGrid(rg, degrees=degs, center=center, rotate=rot, method=method)
    if via == "from_pruned":
        rg = _rgrid(rng, 12)
        ns = int(rng.integers(1, 4))
        secs = np.sort(rng.uniform(0.2, 3.0, ns))
        degs = [int(v) for v in rng.choice([3, 5, 7, 9, 11], ns + 1)]
        return AtomGrid.from_pruned(rg, float(rng.uniform(0.5, 2.0)), r_sectors=secs, d_sectors=degs, center=center, rotate=rot, method=method)
    rg = GaussLaguerre(int(rng.integers(5, 15)))
    return AtomGrid.from_preset(atnum=int(rng.integers(1, 11)), preset="coarse", rgrid=rg, center=center, rotate=rot)


def build(ctx, p):
    """Create the instance of a history case. Returns the grid."""
    from grid.angular import AngularGrid
    from grid.basegrid import Grid, OneDGrid
    from grid.becke import BeckeWeights
    from grid.cubic import Tensor1DGrids, UniformGrid
    from grid.molgrid import MolGrid
    from grid.periodicgrid import PeriodicGrid

    rng = ctx.rng
    kind = p["kind"]
    if kind in ("Grid", "PeriodicGrid0", "LocalGrid"):
        dimcode = str(p["dim"])
        dim = int(dimcode[0])
        n = _rand_n(rng)
        pts = _shape_points(_rand_points(rng, n, dim), dimcode)
        w = rand_weights(ctx, rng, n)
        if kind == "Grid":
            return Grid(pts, w)
        if kind == "PeriodicGrid0":
            mode = rng.integers(3)
            if mode == 0:
                return PeriodicGrid(pts, w)
            if mode == 1:
                return PeriodicGrid(pts, w, np.zeros((0,) + pts.shape[1:]))
            return PeriodicGrid(pts, w, None, wrap=True)
        g = Grid(pts, w)
        p2 = g.points.reshape(n, -1)
        if rng.random() < 0.4:
            c, r = p2.mean(axis=0), np.inf
        else:
            c = p2[rng.integers(n)] + 0.0
            d = np.sort(np.linalg.norm(p2 - c, axis=1))
            r = float(d[min(n - 1, int(rng.integers(max(1, n // 2), n + 1)))] * 1.5 + 1e-3)
        c = c if pts.ndim == 2 else float(c[0])
        return g.get_localgrid(c, r)
    if kind == "rule":
        return _rule(p["rule"], rng)
    if kind == "OneDGrid":
        n = _rand_n(rng)
        pts = _rand_points(rng, n, 1)[:, 0]
        dom = rng.integers(3)
        domain = None if dom == 0 else ((float(pts.min()) - 1.0, float(pts.max()) + 0.5) if dom == 1 else (float(pts.min()), np.inf))
        return OneDGrid(pts, rand_weights(ctx, rng, n), domain)
    if kind == "AtomGrid":
        return _atomgrid(rng, p["via"])
    if kind == "MolGrid":
        nat = int(rng.integers(1, 5))
        coords = rng.normal(size=(nat, 3)) * 1.5 + np.arange(nat)[:, None] * np.array([1.2, 0.3, -0.4]) + rng.normal(size=3) * 5
        ats = [_atomgrid(rng, "init", center=coords[i]) for i in range(nat)]
        atnums = rng.integers(1, 10, nat)
        return MolGrid(atnums, ats, BeckeWeights(), store=bool(rng.integers(2)))
    if kind == "UniformGrid":
        dim = int(p["dim"])
        while True:
            axes = rng.normal(size=(dim, dim)) * np.exp(rng.uniform(-2, 0.5))
            if abs(np.linalg.det(axes)) > 1e-3 * np.prod(np.linalg.norm(axes, axis=1)):
                break
        shape = rng.integers(2, 8 if dim == 2 else 6, dim)
        wname = str(rng.choice(["Trapezoid", "Rectangle"]))
        return UniformGrid(rng.normal(size=dim) * 3, axes, shape, weight=wname)
    if kind == "Tensor1DGrids":
        dim = int(p["dim"])
        gs = [_rule(str(rng.choice(RULES)), rng, small=True) for _ in range(dim)]
        return Tensor1DGrids(*gs)
    if kind == "AngularGrid":
        if rng.random() < 0.5:
            return AngularGrid(degree=int(rng.integers(1, 24)), method=p["method"])
        return AngularGrid(size=int(rng.integers(1, 200)), method=p["method"])
    raise core.MonitorError(f"unknown kind {kind}")


# ------------------------------------------------------------------ operations
def _fmt_center(rng, c, flat):
    """Offer the centre in the admissible representations (float / 0-d array for flat 1-D points, array/list/tuple otherwise)."""
    if rng.random() < 0.2:
        # the centre on integer coordinates, handed over in an INTEGER form (Python int, NumPy integer, list / tuple of
        # ints, integer-dtype array): a documented "float or np.array" centre may well be given like that
        ci = np.rint(np.asarray(c, dtype=float)).astype(np.int64)
        if flat:
            return [int(ci[0]), np.int64(ci[0]), np.int32(ci[0]), np.array(ci[0])][int(rng.integers(4))]
        return [[int(x) for x in ci], tuple(int(x) for x in ci), ci, ci.astype(np.int32)][int(rng.integers(4))]
    if flat:
        v = float(c[0])
        return [v, np.float64(v), np.array(v)][int(rng.integers(3))]
    u = rng.integers(4)
    if u == 0:
        return [float(x) for x in c]
    if u == 1:
        return tuple(float(x) for x in c)
    return np.array(c, dtype=float)


def _fmt_radius(rng, r):
    u = rng.integers(4)
    if u == 0:
        return np.float64(r)
    if u == 1 and np.isfinite(r) and r < 1e9 and r == int(r):
        return int(r)
    return float(r)


def pick_query(rng, pts, mode):
    """Centre (as (dim,) array) and radius for one query on the CURRENT points."""
    p2 = pts.reshape(len(pts), -1)
    n, dim = p2.shape
    lo, hi = p2.min(axis=0), p2.max(axis=0)
    ext = float(max((hi - lo).max(), 1e-3 * (1 + np.abs(p2).max())))
    u = rng.random()
    if u < 0.4:
        c = lo + rng.random(dim) * (hi - lo)
    elif u < 0.6:
        c = p2[rng.integers(n)].copy()
    elif u < 0.85:
        c = p2[rng.integers(n)] + rng.normal(size=dim) * ext * float(rng.choice([1e-3, 0.05, 0.3]))
    else:
        c = lo + (rng.random(dim) * 3 - 1) * (hi - lo) + rng.normal(size=dim) * ext
    d = np.sort(np.linalg.norm(p2 - c, axis=1))
    if mode == "inf":
        return c, np.inf
    if mode == "huge":
        return c, float(1e6 * (ext + d[-1]))
    if mode == "empty":
        if d[0] == 0 or rng.random() < 0.5:
            c = hi + ext * (0.5 + rng.random(dim)) * rng.choice([1, 10, 1e3])
            d = np.sort(np.linalg.norm(p2 - c, axis=1))
        r = 0.0 if rng.random() < 0.25 else float(d[0] * rng.uniform(0.05, 0.95))
        return c, r
    k = int(rng.integers(n))
    if mode == "tie":  # exactly on the decision boundary (don't care, must not crash)
        return c, float(d[k])
    if mode == "neartie":  # just outside the tie band: decided
        s = float(rng.choice([-1.0, 1.0]))
        return c, float(d[k] * (1 + s * rng.choice([1e-8, 1e-6, 1e-3])))
    v = rng.random()
    if v < 0.15:
        return c, 0.0
    if v < 0.6:
        return c, float(0.5 * (d[k] + d[min(n - 1, k + 1)]) + 1e-9 * ext)
    return c, float(ext * np.exp(rng.uniform(np.log(0.02), np.log(2.0))))


def _call(ctx, fn):
    """Run one library call; the attached monitor has already recorded a failure if it raised from library code."""
    try:
        return fn()
    except core.MonitorError:
        raise
    except Exception as exc:
        if core.is_library_exception(exc):
            ctx.count("call-raised:" + type(exc).__name__ + ":" + core.short_tb(exc, 2)[-1] + ":" + str(exc)[:50])
            return None
        raise


def do_query(ctx, g, mode):
    pts = np.asarray(g.points)
    if len(pts) == 0:
        flat = pts.ndim == 1
        dim = 1 if flat else pts.shape[1]
        c, r = ctx.rng.normal(size=dim), [1.0, np.inf, 0.0][int(ctx.rng.integers(3))]
    else:
        c, r = pick_query(ctx.rng, pts, mode)
    cc = _fmt_center(ctx.rng, c, pts.ndim == 1)
    rr = _fmt_radius(ctx.rng, r)
    ctx.count("op:query-" + mode)
    return _call(ctx, lambda: g.get_localgrid(cc, rr))


def _settable(g, name):
    prop = getattr(type(g), name, None)
    return isinstance(prop, property) and prop.fset is not None


def do_set_points(ctx, g):
    rng = ctx.rng
    old = np.asarray(g.points)
    n = len(old)
    u = rng.integers(5)
    if u == 0:
        new = old + rng.normal(size=old.shape[1:]) * 10.0  # rigid shift
    elif u == 1:
        new = old[rng.permutation(n)].copy()  # same set, other index mapping
    elif u == 2:
        new = old * float(rng.choice([-1.0, 0.1, 7.0]))
    elif u == 3:
        new = _shape_points(_rand_points(rng, n, 1 if old.ndim == 1 else old.shape[1]), "1" if old.ndim == 1 else "n")
    else:
        new = old.copy()
        j = rng.integers(0, n, max(1, n // 4))
        new[j] = new[j] + rng.normal(size=new[j].shape) * (1.0 + np.abs(old).max())
    dom = getattr(g, "domain", None)
    if dom is not None and old.ndim == 1:
        # stay inside the declared domain of a OneDGrid (the setter does not re-validate, selection does)
        lo, hi = float(dom[0]), float(dom[1])
        if np.isfinite(lo) and np.isfinite(hi):
            a, b = np.sort(rng.uniform(lo, hi, 2))
            span = float(np.ptp(new)) or 1.0
            new = a + (b - a) * (new - new.min()) / span
        elif np.isfinite(lo):
            new = lo + np.abs(new - lo)
        elif np.isfinite(hi):
            new = hi - np.abs(new - hi)
    new = np.ascontiguousarray(new, dtype=float).reshape(old.shape)
    inplace = g.points is g.points and rng.random() < 0.35  # getter hands out the stored array (not AtomGrid-like copies)
    inplace = inplace and g not in _SHARES  # never write into an array that a copy.copy sibling may share
    with ctx.guard("setter-accepts-same-shape", subject_of(g) + ".points"):
        if inplace:
            # reassignment through an augmented assignment / write-and-assign-back: the setter receives the SAME array
            # object it already holds, with new contents (g.points += shift; a = g.points; a[:] = ...; g.points = a)
            delta = new - np.asarray(old, dtype=float)
            new = np.asarray(old, dtype=float) + delta
            if np.asarray(g.points).dtype.kind != "f":
                inplace = False
        if inplace and rng.random() < 0.5:
            g.points += delta
            ctx.count("op:set-points-augmented-assignment")
        elif inplace:
            a = g.points
            a[...] = new
            g.points = a
            ctx.count("op:set-points-same-object-assigned-back")
        else:
            g.points = new
        mark(g, "points-reassign")
        ctx.count("op:set-points")
        ctx.check("setter-accepts-same-shape", subject_of(g) + ".points", bool(np.array_equal(np.asarray(g.points), new)), sig="points-not-taken")


def do_set_weights(ctx, g):
    rng = ctx.rng
    old = np.asarray(g.weights)
    new = rand_weights(ctx, rng, old.shape[0]) if rng.random() < 0.7 else old[::-1].copy() * 2
    with ctx.guard("setter-accepts-same-shape", subject_of(g) + ".weights"):
        g.weights = new
        mark(g, "weights-reassign")
        ctx.count("op:set-weights")
        ctx.check("setter-accepts-same-shape", subject_of(g) + ".weights", bool(np.array_equal(np.asarray(g.weights), new)), sig="weights-not-taken")


def make_index(rng, n, kind):
    """An index object of the requested kind for a grid with n points (n >= 1)."""
    i = int(rng.integers(n))
    if kind == "int":
        return i
    if kind == "negint":
        return -1 - i
    if kind.startswith("np."):
        tp = getattr(np, kind[3:])
        if np.iinfo(tp).max < i:
            i = i % (np.iinfo(tp).max + 1)
        return tp(i)
    if kind == "slice":
        a, b = sorted(int(v) for v in rng.integers(0, n + 1, 2))
        return slice(a, b if b > a else min(n, a + 1))
    if kind == "slice-step":
        return slice(int(rng.integers(0, max(1, n // 2))), None, int(rng.integers(2, 5)))
    if kind == "slice-neg":
        return [slice(None, None, -1), slice(n - 1, None, -2), slice(-1, -n - 1, -3), slice(i, None, -1)][int(rng.integers(4))]
    if kind == "slice-empty":
        return slice(i, i)
    if kind == "intarray":
        return rng.permutation(n)[: int(rng.integers(1, n + 1))].astype(np.int64)
    if kind == "intarray-rep":
        return rng.integers(0, n, int(rng.integers(1, 2 * n + 2)))
    if kind == "intarray-neg":
        return -1 - rng.integers(0, n, int(rng.integers(1, n + 1)))
    if kind == "int32array":
        return rng.integers(0, n, int(rng.integers(1, n + 1))).astype(np.int32)
    if kind == "list":
        return [int(v) for v in rng.integers(0, n, int(rng.integers(1, n + 1)))]
    if kind == "boolmask":
        m = rng.random(n) < rng.uniform(0.2, 0.9)
        m[i] = True
        return m
    if kind == "boolmask-none":
        return np.zeros(n, dtype=bool)
    if kind == "empty-array":
        return np.array([], dtype=int)
    raise core.MonitorError("index kind " + kind)


def do_select(ctx, g, kind=None, then_query=True):
    rng = ctx.rng
    n = int(g.size)
    if n == 0:
        return None
    kind = kind or str(rng.choice(SEL_KINDS))
    index = make_index(rng, n, kind)
    ctx.count("op:select")
    sub = _call(ctx, lambda: g[index])
    periodic = sub is not None and getattr(sub, "realvecs", np.zeros(0)).size > 0  # queries on lattice grids belong to C11
    if sub is not None and then_query and not periodic and hasattr(sub, "get_localgrid") and getattr(sub, "size", 0) > 0:
        do_query(ctx, sub, str(rng.choice(["ball", "neartie", "empty", "inf"])))
    return sub


OPS = ["ball", "neartie", "tie", "empty", "inf", "huge", "setp", "setw", "select", "clone"]
OPS_P = [0.27, 0.11, 0.04, 0.11, 0.06, 0.03, 0.13, 0.07, 0.09, 0.09]


def _inplace_weights(obj):
    w = obj.weights
    if isinstance(w, np.ndarray) and w.flags.writeable and w.size:
        w[...] = w + 1
        mark(obj, "weights-reassign")


def _inplace_points_then_reseat(obj):
    """Edit the point array in place, then hand it back through the public setter (so that the object's own tree is rebuilt)."""
    pts = obj.points
    if isinstance(pts, np.ndarray) and pts.flags.writeable and pts.size:
        if getattr(obj, "domain", None) is not None:
            pts[...] = pts[::-1].copy()  # stay inside the declared domain of a OneDGrid: same set, reversed index mapping
        else:
            pts += 3.0
        obj.points = np.array(pts)
        mark(obj, "points-reassign")


def clone_step(ctx, g, subj, query_same, query_each, mutations):
    """History operation 'replace the grid by a clone of itself and keep using BOTH'.

    ``query_same(objs)`` sends one identical query to all objects, ``query_each(obj)`` a fresh query to one object;
    ``mutations`` = [(name, fn(obj), inplace?)] applicable to this class.  Every query is decided by the attached
    post-conditions against the queried object's OWN current public points/weights.  After mutating one of the two the
    other one's public state must be unchanged (in-place edits are only made on deepcopy / pickle clones: sharing arrays
    is documented behaviour of copy.copy and is not decided).  Returns the clone (None if cloning failed)."""
    rng = ctx.rng
    kind = roundtrip.pick(rng, 1)[0]
    c = roundtrip.check_clone(ctx, subj, g, kind)
    if c is None:
        return None
    ctx.count("op:clone-" + kind)
    for m in filter(None, _state(g).split("+")):
        mark(c, m)
    if kind == "copy":
        _SHARES.add(g)
        _SHARES.add(c)
    query_same([g, c])
    objs = [g, c]
    k = int(rng.integers(2))
    mutated, other = objs[k], objs[1 - k]
    usable = [m for m in mutations if not (m[2] and mutated in _SHARES)]
    if usable:
        name, fn, _ = usable[int(rng.integers(len(usable)))]
        before = roundtrip.public_state(other)
        with ctx.guard("clone-independent", f"{subj}:{kind}"):
            fn(mutated)
        after = roundtrip.public_state(other)
        changed = sorted(key for key in before if before[key] != after.get(key))
        who = "original" if k == 1 else "clone"
        ctx.check("clone-independent", f"{subj}:{kind}", not changed, sig=f"{who}-changed-by-{name}-on-the-other:" + (changed[0] if changed else ""), detail={"changed": changed[:6], "mutation": name})
        ctx.count("op:clone-mutation-" + name)
    for o in (g, c):
        query_each(o)
    return c


def run_history(ctx, g, nops):
    from grid.periodicgrid import PeriodicGrid

    rng = ctx.rng
    can_p, can_w = _settable(g, "points"), _settable(g, "weights")
    ctx.case_note("class", type(g).__name__)
    ctx.case_note("N", int(g.size))
    ctx.case_note("points_settable", can_p)
    trace = []
    live = [g]  # the instance and its clones: all of them stay in use
    periodic = isinstance(g, PeriodicGrid)
    clone_modes = ["ball", "neartie", "empty", "huge"] + ([] if periodic else ["inf"])
    mutations = [("weights-setter", lambda o: do_set_weights(ctx, o), False), ("weights-in-place", _inplace_weights, True)] if can_w else []
    if can_p:
        mutations += [("points-setter", lambda o: do_set_points(ctx, o), False), ("points-in-place", _inplace_points_then_reseat, True)]

    def query_same(objs):
        pts = np.asarray(objs[0].points)
        if len(pts) == 0:
            return
        c, r = pick_query(rng, pts, str(rng.choice(clone_modes)))
        cc = _fmt_center(rng, c, pts.ndim == 1)
        for o in objs:
            _call(ctx, lambda: o.get_localgrid(cc, r))

    for _ in range(nops):
        op = str(rng.choice(OPS, p=OPS_P))
        g = live[int(rng.integers(len(live)))]
        if op == "setp" and not can_p:
            ctx.count("op:set-points-not-offered:" + type(g).__name__)
            op = "ball"
        if op == "setw" and not can_w:
            op = "ball"
        if op == "inf" and isinstance(g, PeriodicGrid):
            ctx.count("op:periodic-no-lattice-inf(recorded only)")
        trace.append(op)
        if op == "setp":
            do_set_points(ctx, g)
        elif op == "setw":
            do_set_weights(ctx, g)
        elif op == "select":
            if type(g).__name__ == "MolGrid":  # MolGrid.__getitem__ is a per-atom accessor, not a selection (not this property)
                do_query(ctx, g, "ball")
            else:
                sub = do_select(ctx, g)
                if sub is not None and getattr(sub, "size", 0) > 0 and getattr(sub, "realvecs", np.zeros(0)).size == 0 and rng.random() < 0.3:
                    clone_step(ctx, sub, subject_of(sub), query_same, lambda o: do_query(ctx, o, str(rng.choice(clone_modes))), [])  # clone of a selection
        elif op == "clone":
            c = clone_step(ctx, g, subject_of(g), query_same, lambda o: do_query(ctx, o, str(rng.choice(clone_modes))), mutations)
            if c is not None:
                if len(live) < 3:
                    live.append(c)
                else:
                    live[int(rng.integers(len(live)))] = c
        else:
            do_query(ctx, g, op)
    # every history ends with decided queries on every live object after whatever happened before
    for o in live:
        do_query(ctx, o, "ball")
        do_query(ctx, o, "neartie")
    ctx.case_note("ops", "".join(o[0] if o not in ("setp", "setw", "select", "clone") else {"setp": "P", "setw": "W", "select": "S", "clone": "C"}[o] for o in trace))
    ctx.case_note("live_objects", len(live))


# ------------------------------------------------------------------ cases
def run_exact_lattice(ctx, params):
    """Points with integer coordinates, centre on a lattice point, integer radius: squared distances are exact integers,
    so membership 'distance <= radius' is decided exactly - points ON the sphere must be included (no tie band)."""
    from grid.basegrid import Grid
    from grid.cubic import UniformGrid

    rng = ctx.rng
    dim = int(params["dim"])
    shape = [int(v) for v in rng.integers(3, 8, dim)]
    if dim == 1:
        shape = [int(rng.integers(20, 60))]
    kind = params["kind"]
    if kind == "uniform" and dim in (2, 3):
        g = UniformGrid(np.zeros(dim), np.eye(dim), np.array(shape), weight="Rectangle")
        subj = f"UniformGrid[{dim}D,integer-lattice]"
    else:
        axes = [np.arange(n, dtype=float) for n in shape]
        pts = np.stack(np.meshgrid(*axes, indexing="ij"), axis=-1).reshape(-1, dim)
        pts = pts[rng.permutation(len(pts))]
        g = Grid(pts[:, 0].copy() if dim == 1 and rng.random() < 0.5 else pts, rng.uniform(0.5, 2.0, len(pts)))
        subj = f"Grid[{dim}D,integer-lattice]"
    P = np.asarray(g.points, dtype=float).reshape(g.size, -1)
    ipts = np.rint(P).astype(np.int64)
    if not np.array_equal(ipts, P):
        raise core.MonitorError("lattice points are not integers")
    for _ in range(6):
        c = ipts[int(rng.integers(0, g.size))]
        R = int(rng.integers(0, max(shape) + 1))
        d2 = np.sum((ipts - c) ** 2, axis=1)
        want = np.sort(np.where(d2 <= R * R)[0])
        on = int(np.sum(d2 == R * R))
        center = float(c[0]) if np.asarray(g.points).ndim == 1 else c.astype(float)
        with ctx.guard("ball-membership-exact-ties", subj):
            lg = g.get_localgrid(center, float(R) if rng.random() < 0.5 else R)
            got = np.sort(np.asarray(lg.indices))
            ok = np.array_equal(got, want)
            ctx.check("ball-membership-exact-ties", subj, ok, sig="missing-points-on-the-sphere" if (not ok and set(got) <= set(want) and np.all(d2[np.setdiff1d(want, got)] == R * R)) else "wrong-index-set", detail={"radius": R, "centre": c.tolist(), "n_expected": int(len(want)), "n_got": int(len(got)), "n_on_sphere": on, "N": int(g.size)})
            ctx.count("exact-lattice:queries-with-points-on-sphere" if on else "exact-lattice:queries")


def run_case(ctx, family, params):
    if family == "witness":
        return run_witness(ctx, params["name"])
    if family == "exact-lattice":
        return run_exact_lattice(ctx, params)
    if family == "selection":
        return run_selection(ctx, params)
    try:
        g = build(ctx, params)
    except core.MonitorError:
        raise
    except Exception as exc:
        if core.is_library_exception(exc):
            ctx.discard(f"instance not constructible: {type(exc).__name__}: {exc}")
            return
        raise
    if not np.all(np.isfinite(np.asarray(g.points))):
        ctx.discard("instance has non-finite points")
        return
    nops = int(ctx.rng.integers(5, 31))
    run_history(ctx, g, nops)


def _lattice(rng, dim, nl):
    """nl well-conditioned lattice vectors in dim dimensions (rows)."""
    while True:
        a = rng.normal(size=(nl, dim)) * np.exp(rng.uniform(-1, 1))
        if nl == 0:
            return a
        s = np.linalg.svd(a, compute_uv=False)
        if s.min() > 0.2 * s.max():
            return a


def build_selection_target(ctx, p):
    from grid.basegrid import Grid, OneDGrid
    from grid.periodicgrid import PeriodicGrid

    rng = ctx.rng
    t = p["t"]
    if t == "rule":
        return _rule(p["rule"], rng)
    n = int(rng.choice([1, 2, 5, 12, 40]))
    if t == "OneDGrid":
        pts = np.sort(rng.uniform(0.0, 5.0, n))
        dom = {"none": None, "finite": (-0.5, 5.5), "semi": (0, np.inf)}[p["domain"]]
        return OneDGrid(pts, rand_weights(ctx, rng, n), dom)
    dimcode = str(p["dim"])
    dim = int(dimcode[0])
    pts = _shape_points(rng.uniform(-3, 3, (n, dim)), dimcode)
    w = rand_weights(ctx, rng, n)
    if t == "Grid":
        return Grid(pts, w)
    nl = int(p["nl"])
    if nl == 0:
        rv = None if rng.random() < 0.5 else np.zeros((0,) + pts.shape[1:])
    else:
        rv = _lattice(rng, dim, nl)
        if dimcode == "1":
            rv = rv.reshape(1)
    return PeriodicGrid(pts, w, rv, wrap=bool(p["wrap"]))


def run_selection(ctx, params):
    g = build_selection_target(ctx, params)
    ctx.case_note("class", type(g).__name__)
    ctx.case_note("N", int(g.size))
    for kind in SEL_KINDS:
        sub = do_select(ctx, g, kind, then_query=True)
        if sub is not None and getattr(sub, "size", 0) > 1 and ctx.rng.random() < 0.3:
            do_select(ctx, sub, None, then_query=False)  # selection of a selection


def run_witness(ctx, name):
    """Deterministic regressions (independent of the seed): inputs of the four repaired C10 defects and friends."""
    from grid.atomgrid import AtomGrid
    from grid.basegrid import Grid, OneDGrid
    from grid.becke import BeckeWeights
    from grid.cubic import Tensor1DGrids, UniformGrid
    from grid.molgrid import MolGrid
    from grid.onedgrid import GaussChebyshev, GaussLaguerre, GaussLegendre
    from grid.periodicgrid import PeriodicGrid

    rng = np.random.default_rng(20250925)
    p3 = rng.uniform(-1, 1, (40, 3))
    p2 = rng.uniform(-1, 1, (30, 2))
    p1 = rng.uniform(-1, 1, 25)
    w = lambda n: np.linspace(0.5, 1.5, n)  # noqa: E731
    rg = GaussLaguerre(6)
    at = AtomGrid(rg, degrees=[3, 5, 7, 5, 3, 3], center=np.array([1.0, 2.0, -3.0]))
    at2 = AtomGrid(rg, degrees=[5], center=np.array([0.0, 0.0, 1.0]), rotate=3)
    ug = UniformGrid(np.array([0.5, -0.5, 0.0]), np.array([[0.3, 0.0, 0.0], [0.1, 0.3, 0.0], [0.0, 0.05, 0.25]]), np.array([3, 4, 5]))
    tg = Tensor1DGrids(GaussLegendre(4), GaussChebyshev(3))
    grids = {
        "Grid1": Grid(p1.copy(), w(25)), "Grid1c": Grid(p1.reshape(-1, 1).copy(), w(25)), "Grid2": Grid(p2.copy(), w(30)), "Grid3": Grid(p3.copy(), w(40)),
        "GaussLegendre": GaussLegendre(7), "OneDGrid": OneDGrid(np.sort(p1) + 1.0, w(25), (0, np.inf)), "AtomGrid": at, "UniformGrid": ug, "Tensor1DGrids": tg,
        "PeriodicGrid0-1": PeriodicGrid(p1.copy(), w(25)), "PeriodicGrid0-3": PeriodicGrid(p3.copy(), w(40)),
        "MolGrid": MolGrid(np.array([1, 8]), [at, at2], BeckeWeights(), store=True),
    }  # fmt: skip

    def far(g):
        p = np.asarray(g.points)
        return 1e3 if p.ndim == 1 else np.full(p.shape[1], 1e3)

    if name == "empty-ball":
        for g in grids.values():
            for r in (0.5, 0.0, 1e-12):
                _call(ctx, lambda: g.get_localgrid(far(g), r))
            # tiny sphere between the points (centre inside the hull)
            p = np.asarray(g.points).reshape(g.size, -1)
            c = 0.5 * (p[0] + p[1]) if g.size > 1 else p[0] + 1.0
            dmin = np.linalg.norm(p - c, axis=1).min()
            if dmin > 0:
                cc = c if np.asarray(g.points).ndim == 2 else float(c[0])
                _call(ctx, lambda: g.get_localgrid(cc, 0.5 * dmin))
    elif name == "numpy-int-index":
        targets = [grids[k] for k in ("Grid1", "Grid1c", "Grid2", "Grid3", "GaussLegendre", "OneDGrid", "PeriodicGrid0-1", "PeriodicGrid0-3")]
        targets.append(PeriodicGrid(p1.copy(), w(25), np.array([2.0])))
        targets.append(PeriodicGrid(p3.copy(), w(40), np.array([[2.0, 0, 0], [0.3, 2.0, 0.0]]), wrap=True))
        for g in targets:
            for tp in (np.int8, np.int16, np.int32, np.int64, np.intp, np.uint8, np.uint32, np.uint64):
                _call(ctx, lambda: g[tp(2)])
            _call(ctx, lambda: g[np.int64(-1)])
            _call(ctx, lambda: g[3])
            _call(ctx, lambda: g[np.arange(5)[2]])  # element of an integer array: the usual source of NumPy integers
    elif name == "stale-tree":
        for key in ("Grid1", "Grid1c", "Grid2", "Grid3", "GaussLegendre", "UniformGrid", "Tensor1DGrids", "PeriodicGrid0-1", "PeriodicGrid0-3", "MolGrid"):
            g = grids[key]
            p = np.asarray(g.points)
            c = p[0] if p.ndim == 2 else float(p[0])
            ext = float(np.abs(p - p.mean(axis=0)).max())
            _call(ctx, lambda: g.get_localgrid(c, 0.6 * ext))  # builds the tree
            g.points = p + 10.0 * ext
            mark(g, "points-reassign")
            _call(ctx, lambda: g.get_localgrid(c, 0.6 * ext))  # old place: now empty
            _call(ctx, lambda: g.get_localgrid(c + 10.0 * ext, 0.6 * ext))  # new place
            g.points = np.ascontiguousarray(np.asarray(g.points)[::-1])  # same set, reversed index mapping
            _call(ctx, lambda: g.get_localgrid(c + 10.0 * ext, 0.6 * ext))
            _call(ctx, lambda: g.get_localgrid(c + 10.0 * ext, np.inf)) if "Periodic" not in key else None
    elif name == "atomgrid-centre":
        for g in (at, at2, grids["MolGrid"][0], AtomGrid.from_preset(atnum=6, preset="coarse", rgrid=GaussLaguerre(8), center=np.array([-4.0, 0.5, 9.0]))):
            cen = np.asarray(g.center, dtype=float)
            for c in (cen, cen + 0.3, np.zeros(3), -cen):
                for r in (0.7, 2.5, 40.0, np.inf):
                    _call(ctx, lambda: g.get_localgrid(c, r))
            ctx.check("points-match-parent", "AtomGrid", bool(np.abs(np.asarray(g.points).mean(axis=0) - cen).max() < np.abs(cen).max() + 5.0), sig="witness-not-centred")
    elif name == "inf-and-huge":
        for key, g in grids.items():
            p = np.asarray(g.points)
            c = p.mean(axis=0)
            c = c if p.ndim == 2 else float(c)
            if "Periodic" not in key:
                _call(ctx, lambda: g.get_localgrid(c, np.inf))
                _call(ctx, lambda: g.get_localgrid(c, float("inf")))
            _call(ctx, lambda: g.get_localgrid(c, 1e12))
            _call(ctx, lambda: g.get_localgrid(c, 10**6))
    elif name == "duplicates-and-ties":
        q = np.array([[0.0, 0, 0], [1.0, 0, 0], [1.0, 0, 0], [0, 2.0, 0], [0, 0, -1.0], [0.0, 0, 0], [3.0, 4.0, 0.0]])
        g = Grid(q, np.arange(1.0, 8.0))
        for c in (np.zeros(3), np.array([1.0, 0, 0]), np.array([0.5, 0.5, 0.5])):
            for r in (0.0, 1e-9, 0.999999, 1.0, 1.000001, 2.0, 5.0, 5.0000001):
                _call(ctx, lambda: g.get_localgrid(c, r))
        g1 = Grid(np.array([0.0, 0.5, 0.5, 1.0, -1.0]), np.ones(5))
        for r in (0.0, 0.25, 0.5, 0.50000001, 1.0, 1.5):
            _call(ctx, lambda: g1.get_localgrid(0.0, r))
    elif name == "size-one":
        for g in (Grid(np.array([0.3]), np.array([2.0])), Grid(np.array([[0.3, 1.0]]), np.array([2.0])), Grid(np.array([[0.3, 1.0, -2.0]]), np.array([2.0])), PeriodicGrid(np.array([[0.3, 1.0]]), np.array([2.0]))):
            p = np.asarray(g.points)
            c0 = p[0] if p.ndim == 2 else float(p[0])
            for c in (c0, c0 + 1.0):
                for r in (0.0, 0.5, 1.5, 1e9):
                    _call(ctx, lambda: g.get_localgrid(c, r))
            _call(ctx, lambda: g[0])
            _call(ctx, lambda: g[-1])
            _call(ctx, lambda: g[0:1])
    elif name == "weights-follow":
        for key in ("Grid3", "GaussLegendre", "AtomGrid", "MolGrid", "UniformGrid", "PeriodicGrid0-3"):
            g = grids[key]
            p = np.asarray(g.points)
            c = p[1] if p.ndim == 2 else float(p[1])
            ext = float(np.abs(p - p.mean(axis=0)).max())
            _call(ctx, lambda: g.get_localgrid(c, 0.8 * ext))
            g.weights = np.asarray(g.weights) * -3.0 + 1.0
            mark(g, "weights-reassign")
            _call(ctx, lambda: g.get_localgrid(c, 0.8 * ext))
            if "Periodic" not in key:
                _call(ctx, lambda: g.get_localgrid(c, np.inf))
    elif name == "clones":
        # every grid class x every way of cloning, after the tree was built; then reassign points on the original
        # (where offered) and weights on the clone: each object answers for its own current state
        from grid.angular import AngularGrid

        grids["AngularGrid"] = AngularGrid(degree=7)
        grids["LocalGrid"] = grids["Grid3"].get_localgrid(np.zeros(3), 1.5)
        for key, g0 in grids.items():
            for kind in roundtrip.KINDS:
                g = roundtrip.clone(g0, "deepcopy")  # fresh object per kind
                p = np.asarray(g.points)
                c0 = p[0] if p.ndim == 2 else float(p[0])
                ext = float(np.abs(p - p.mean(axis=0)).max()) or 1.0
                _call(ctx, lambda: g.get_localgrid(c0, 0.7 * ext))  # builds the tree of the original
                c = roundtrip.check_clone(ctx, subject_of(g), g, kind)
                if c is None:
                    continue
                for o in (g, c):
                    _call(ctx, lambda: o.get_localgrid(c0, 0.7 * ext))
                if _settable(g, "points"):
                    shift = 0.0 if getattr(g, "domain", None) is not None else 2.0 * ext  # stay inside a OneDGrid's domain
                    g.points = np.ascontiguousarray(p[::-1] + shift)
                    mark(g, "points-reassign")
                before = roundtrip.public_state(g)
                c.weights = np.asarray(c.weights) * 2 + 1
                mark(c, "weights-reassign")
                ctx.check("clone-independent", f"{subject_of(g)}:{kind}", before == roundtrip.public_state(g), sig="original-changed-by-weights-setter-on-the-other:")
                for o in (g, c):
                    _call(ctx, lambda: o.get_localgrid(c0, 0.7 * ext))
                    _call(ctx, lambda: o.get_localgrid(c0 + 2.0 * ext, 0.7 * ext))
                    if "Periodic" not in key:
                        _call(ctx, lambda: o.get_localgrid(c0, np.inf))
                if key in ("Grid1", "Grid3", "GaussLegendre", "OneDGrid", "PeriodicGrid0-3"):
                    for o in (g, c):
                        _call(ctx, lambda: o[np.int64(1)])
                        _call(ctx, lambda: o[::-2])
    elif name == "zero-weights":
        # membership must not depend on the weights: exact zeros of both signs, negative, denormal, integer weights
        wz = {
            "zeros": lambda n: np.where(np.arange(n) % 3 == 0, 0.0, np.where(np.arange(n) % 3 == 1, -0.0, 1.5)),
            "all-zero": lambda n: np.zeros(n),
            "negative": lambda n: -np.linspace(0.5, 1.5, n),
            "tiny": lambda n: np.where(np.arange(n) % 2 == 0, 5e-324, 1e-300),
            "int": lambda n: (np.arange(n) % 3).astype(np.int64),
        }
        for wname, mkw in wz.items():
            for g in (Grid(p1.copy(), mkw(25)), Grid(p2.copy(), mkw(30)), Grid(p3.copy(), mkw(40)), OneDGrid(np.sort(p1) + 1.0, mkw(25), (0, np.inf)), PeriodicGrid(p3.copy(), mkw(40)), PeriodicGrid(p1.copy(), mkw(25))):
                p = np.asarray(g.points)
                c = p[0] if p.ndim == 2 else float(p[0])
                for r in (0.3, 0.9, 5.0):
                    _call(ctx, lambda: g.get_localgrid(c, r))
                if "Periodic" not in type(g).__name__:
                    _call(ctx, lambda: g.get_localgrid(c, np.inf))
                _call(ctx, lambda: g[::2])
        for g in (at, grids["MolGrid"], ug, tg, grids["GaussLegendre"]):
            wnew = np.asarray(g.weights).copy()
            wnew[::2] = 0.0
            wnew[1::4] = -0.0
            g.weights = wnew
            mark(g, "weights-reassign")
            p = np.asarray(g.points)
            c = p[0] if p.ndim == 2 else float(p[0])
            ext = float(np.abs(p - p.mean(axis=0)).max())
            for r in (0.5 * ext, 3.0 * ext, np.inf):
                _call(ctx, lambda: g.get_localgrid(c, r))
    else:
        raise core.MonitorError("unknown witness " + name)
