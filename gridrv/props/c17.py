"""C17 - closed-form Coulomb potentials of Gaussian densities are exact everywhere.

Monitors (post-conditions attached to the four public functions of ``grid.coulomb``; they fire on
every call in the process, also on the incidental calls ``coulomb_potential`` makes internally):

* ``coulomb_gaussian_s/p``: result == potential of the DOCUMENTED density (independent reference
  ``gridrv.oracles.coulomb_ref``: mp.quad of the Coulomb integral -> hand-derived closed form ->
  float64), r V -> total charge at large r, shape, unnormalised == documented factor x normalised;
* ``coulomb_potential``: == coefficient-weighted sum of the library's OWN single functions (route
  equality, independent of whether those are right) and, separately, == the analytic truth;
* ``load_atomic_gaussian_params``: == the shipped JSON (own loader), raises as documented.
The workload adds continuity across the 1e-12 switch, scalar/array consistency, direct mp.quad
comparisons, and load histories with in-place edits of the returned arrays.
"""

from __future__ import annotations

import math

import numpy as np

from gridrv import instrument
from gridrv.oracles import coulomb_ref as cr
from gridrv.oracles import datafiles

PROP = "C17"
TITLE = "Closed-form Coulomb potentials of Gaussian densities are exact everywhere"
REQUIRED_HOOKS = ["coulomb.coulomb_gaussian_s", "coulomb.coulomb_gaussian_p", "coulomb.coulomb_potential", "coulomb.load_atomic_gaussian_params", "coulomb.load_atomic_gaussian_params:raised"]
REQUIRED_FAMILIES = ["pinned-p-witness", "pinned-multicentre-p-witness", "single-grid", "single-sweep", "quadrature", "multi-centre", "atomic-core", "load", "load-reject", "load-history", "buffer-reuse", "near-coincident-centres"]
BUDGET = {"quick": 600, "thorough": 3600}  # idle 16-core expectation: ~8 s / ~75 s per worker; generous because the machine may be heavily shared
RULE = (
    "Post-conditions on coulomb_gaussian_s/p, coulomb_potential and load_atomic_gaussian_params evaluate every call against an "
    "independent reference (Coulomb integral of the documented density: mp.quad -> validated closed form -> float64). Cases: "
    "single-grid = every (kind, normalized) x alpha in {1e-4..1e6 decades, 1,2,3 as ints, 1e-30..1e30 in 15 steps} x a fixed hostile radius grid (0, denormal, "
    "1e-300, 1e-14..1e-10, decades to 1e6, 1e12, 1e150, 1e300, inf; both float neighbours and +-1e-9, +-1e-3 of r = 1e-12 and of sqrt(alpha) r = 1e-8; sqrt(alpha) r from 1e-12 to 30), independent of the seed; "
    "single-sweep = seeded alpha (half log-uniform 1e-4..1e6, half log-uniform 1e-30..1e30) with ~350 radii (log-uniform in sqrt(alpha) r in 1e-12..50 and in r in 1e-16..1e6, both switch neighbourhoods "
    "plus the hostile grid) passed as 1-D/2-D/read-only arrays, lists, Python/NumPy scalars and 0-d arrays, plus the continuity set "
    "{0, 0.5e-12, 2e-12, 1e-10}; quadrature = seeded (alpha, r) compared directly with mp.quad of the documented density; multi-centre = "
    "1-30 s and 0-30 p functions, random signs, duplicate centres, points on centres, within 1e-13..1e-10 of centres and up to 1e8 away, "
    "normalized on/off; atomic-core = every shipped element through load + coulomb_potential as the robust Poisson solver uses them; "
    "load/load-reject/load-history = every element of the JSON by symbol (all case variants) and number (int, np.integer), all 113 "
    "unavailable atomic numbers, malformed requests, and seeded call sequences with in-place edits of returned arrays; buffer-reuse = "
    "seeded histories of 4-12 calls of coulomb_potential / coulomb_gaussian_s / coulomb_gaussian_p in which the SAME argument array objects "
    "(points, radii, centres, coefficients, exponents) are passed again after in-place translation, scaling, refilling or single-entry edits, "
    "interleaved with other calls: each result must be bit-identical to the result for fresh copies of the current values, must not share "
    "memory with arguments or earlier results, and earlier results must stay unchanged. Argument forms: float64/float32/integer-dtype "
    "(int16..uint64, incl. radii >= 2^32) arrays, Python int lists, N-D radii (points x centres distance matrices with entries on the "
    "centre), read-only, Fortran-ordered and strided views; near-coincident-centres = degenerate but admissible geometry of the multi-centre "
    "routine: clusters of centres that coincide exactly, differ by 1 ulp, or by 1e-12..1e-4 absolute/relative, at the origin, at |c|~1 and "
    "at |c|~1e3, with exponents up to 1e30 chosen so that sqrt(alpha) x separation ~ 1 and evaluation points on and within a few "
    "1/sqrt(alpha) of every centre; cluster members consecutive, reversed, shuffled or separated by far centres, and split between "
    "centers_s and centers_p in every way (all s, all p, contiguous split, random assignment). One case = one "
    "parameter set (non-trivial when at least one oracle evaluation was made on a real library result)."
)
ASSUMPTIONS = [
    "documented density = the rho(r) formulas in the docstrings of coulomb_gaussian_s / coulomb_gaussian_p; potential = (1/r) int_0^r 4 pi s^2 rho + int_r^inf 4 pi s rho",
    "exponents 1e-30 <= alpha <= 1e30 are decided at all radii (0, subnormal, both sides of r = 1e-12 and of sqrt(alpha) r = 1e-8, up to 1e300 and inf); results whose exact value is below the subnormal spacing are compared with an absolute allowance of 2e-323",
    "admissible element requests = symbols in any letter case and Python/NumPy integers, as the docstring of load_atomic_gaussian_params says",
    "float64 reference validated at start-up against 40-digit quadrature (closed form 1e-30) and against the mp closed form on 1500 hostile points (2e-15)",
]
LEVEL_TEXT = "Every call of the four public Coulomb functions made by a seeded sweep over 10 decades of alpha and radii from 0 to infinity is compared with the multiprecision-validated potential of the documented density."
TECHNIQUE = "runtime monitoring: post-conditions on grid.coulomb public functions with an independent multiprecision Coulomb-integral reference; route-equality and history monitors"

TOL_VALUE = 1e-12  # relative; largest seen on the unchanged tree 4e-16 (s-type), see evidence
TOL_QUAD = 1e-12
TOL_CHARGE = 1e-12
TOL_CONT = 1e-11
TOL_JUMP = 1e-13  # relative step between neighbouring radii beyond 3 |delta| (the potentials have |dlnV/dlnr| <= 1)
TOL_FACTOR = 1e-13
TOL_ROUTE = 1e-12
TOL_SCALAR = 1e-14
TOL_SIG = 1e-12  # in units of sqrt(alpha): how exactly a p-type discrepancy must equal the known one

C_VALUE = "potential-of-documented-density"
C_CHARGE = "large-r-total-charge"
C_CONT = "continuous-across-switch"
C_FACTOR = "unnormalised-is-factor-times-normalised"
C_SHAPE = "result-shape"
C_SCALAR = "scalar-equals-array-element"
C_ROUTE = "multi-centre-equals-sum-of-singles"
C_MULTI = "multi-centre-potential-of-documented-density"
C_LOAD = "params-load-as-shipped"
C_REPEAT = "params-repeatable"
C_REJECT = "params-reject-as-documented"
C_FRESH = "reused-buffer-equals-fresh-copy"
C_STABLE = "earlier-results-unchanged"

SIG_KNOWN_P = "Vcode-Vtrue=2sqrt(a/pi)exp(-a r^2)"
SIG_KNOWN_MULTI = "Vcode-Vtrue=sum_p c x 2sqrt(a/pi)exp(-a r^2)"

TINY_ABS = 2e-323  # 4 spacings of the subnormal range: results below 2.2e-308 (e.g. V(1e300)) cannot carry a relative 1e-16
SWITCH = 1e-12  # documented in the module ("Distance threshold below which the r->0 analytical limit is used")
HOSTILE_R = [0.0, 5e-324, 1e-300, 1e-100, 1e-20, 1e-14, 1e-13, 0.5e-12, float(np.nextafter(SWITCH, 0)), SWITCH, float(np.nextafter(SWITCH, 1)), 2e-12, 1e-11, 1e-10, 1e-9, 1e-8, 1e-7, 1e-6, 1e-5, 1e-4, 1e-3, 1e-2, 0.1, 0.5, 1.0, 2.0, 5.0, 10.0, 1e2, 1e3, 1e4, 1e5, 1e6, 1e12, 1e150, 1e300, float("inf")]
CONT_R = [0.0, 0.5e-12, 2e-12, 1e-10]
INT_R_SMALL = [0, 1, 2, 3, 7, 10, 100, 12345, 2**31 - 1]
INT_R_BIG = INT_R_SMALL + [2**31, 2**32, 3037000499, 3037000500, 4_000_000_000, 10**12, 10**15, 2**62]
XSWITCH = 1e-8  # since 078332e the r->0 limit is used only where r < SWITCH and sqrt(alpha) r < XSWITCH
GRID_ALPHAS = [1e-4, 1e-3, 1e-2, 0.1, 1.0, 10.0, 1e2, 1e3, 1e4, 1e5, 1e6, 1, 2, 3, 1e-30, 1e-20, 1e-10, 1e8, 1e10, 1e12, 1e13, 1e14, 1e16, 1e18, 1e20, 1e22, 1e24, 1e27, 1e30]
NEIGHBOUR_DELTAS = (-1e-3, -1e-9, "-ulp", 0.0, "+ulp", 1e-9, 1e-3)
X_GRID = (1e-12, 1e-10, 1e-9, 3e-9, 1e-7, 1e-6, 1e-5, 1e-4, 1e-3, 1e-2, 0.1, 0.5, 1.0, 2.0, 4.0, 6.0, 8.0, 10.0, 30.0)

# own periodic table (independent of grid.utils.sym2num)
SYMBOLS = (
    "H He Li Be B C N O F Ne Na Mg Al Si P S Cl Ar K Ca Sc Ti V Cr Mn Fe Co Ni Cu Zn Ga Ge As Se Br Kr Rb Sr Y Zr Nb Mo Tc Ru Rh Pd Ag Cd "
    "In Sn Sb Te I Xe Cs Ba La Ce Pr Nd Pm Sm Eu Gd Tb Dy Ho Er Tm Yb Lu Hf Ta W Re Os Ir Pt Au Hg Tl Pb Bi Po At Rn Fr Ra Ac Th Pa U Np Pu "
    "Am Cm Bk Cf Es Fm Md No Lr Rf Db Sg Bh Hs Mt Ds Rg Cn Nh Fl Mc Lv Ts Og"
).split()
Z_OF = {s: i + 1 for i, s in enumerate(SYMBOLS)}

_ORIG = {}


def _nrm(normalized):
    return "normalized" if normalized else "unnormalized"


# ---------------------------------------------------------------------------------- cases
def cases(tier, seed):
    q = tier == "quick"
    out = []
    for a in (1.0, 3.0):
        out.append(("pinned-p-witness", {"alpha": a}, 1e9))
    out.append(("pinned-multicentre-p-witness", {}, 1e9))
    for kind in cr.KINDS:
        for nrm in (True, False):
            for i in range(len(GRID_ALPHAS)):
                out.append(("single-grid", {"kind": kind, "normalized": nrm, "ia": i}, 2.0))
            for k in range(120 if q else 2500):
                out.append(("single-sweep", {"kind": kind, "normalized": nrm, "k": k}, 3.0))
    for k in range(160 if q else 4000):
        out.append(("quadrature", {"kind": cr.KINDS[k % 2], "k": k}, 8.0))
    for k in range(480 if q else 8000):
        out.append(("multi-centre", {"with_p": bool(k % 2), "normalized": bool((k // 2) % 2), "k": k}, 4.0 if k % 2 else 2.0))
    syms = sorted(datafiles.gauss_params().keys(), key=lambda s: Z_OF.get(s, 999))
    for s in syms:
        out.append(("load", {"symbol": s}, 1.0))
        for by in ("symbol", "number"):
            out.append(("atomic-core", {"symbol": s, "by": by}, 1.5))
    out.append(("load-reject", {}, 1.0))
    for k in range(4 if q else 60):
        out.append(("load-history", {"k": k}, 1.0))
    for k in range(100 if q else 1800):
        out.append(("buffer-reuse", {"target": ["potential", "potential", "potential", "s", "p"][k % 5], "k": k}, 3.0))
    for k in range(160 if q else 3000):
        out.append(("near-coincident-centres", {"normalized": bool(k % 2), "where": ["origin", "unit", "far"][(k // 2) % 3], "k": k}, 2.0))
    return out


# ---------------------------------------------------------------------------------- monitors
def _single_args(args, kwargs):
    r = args[0] if len(args) > 0 else kwargs["r"]
    alpha = args[1] if len(args) > 1 else kwargs["alpha"]
    normalized = args[2] if len(args) > 2 else kwargs.get("normalized", True)
    return r, alpha, bool(normalized)


def _branch(r_bad, a=1.0):
    small = (r_bad < SWITCH) & (math.sqrt(a) * r_bad < XSWITCH)
    lo, hi = bool(np.any(small)), bool(np.any(~small))
    return "limit-branch+erf-branch" if lo and hi else ("limit-branch(r<1e-12)" if lo else "erf-branch(r>=1e-12)")


def value_check(ctx, kind, normalized, r, a, got, ref, tol, oracle):
    """Decide the value clause for one call: got vs ref (arrays over the radii r)."""
    f = 1.0 if normalized else cr.unnorm_factor(kind, a)
    sa = math.sqrt(a)
    scale = np.where(ref > 0, ref, f * sa)
    with np.errstate(invalid="ignore", over="ignore"):
        rel = np.maximum(np.abs(got - ref) - TINY_ABS, 0.0) / scale
    rel = np.where(np.isnan(rel), np.inf, rel)
    i = int(np.argmax(rel))
    m = float(rel[i])
    subject = f"coulomb_gaussian_{kind}:{_nrm(normalized)}"
    sig = None
    if not m <= tol:
        bad = rel > tol
        if kind == "p":
            with np.errstate(invalid="ignore", over="ignore"):
                d = (got[bad] - ref[bad]) / f
                known = 2.0 * cr.gauss_tail(r[bad], a)
                match = np.abs(d - known) / sa <= TOL_SIG
            if bool(np.all(match)):
                sig = SIG_KNOWN_P
            else:
                sig = "other-discrepancy:" + _branch(r[bad][~match], a)
        else:
            sig = "wrong-value:" + _branch(r[bad], a)
    ctx.check(C_VALUE, subject, m, tol, sig=sig, detail={"oracle": oracle, "alpha": a, "r": float(r[i]), "got": float(got[i]), "want": float(ref[i]), "n_radii": int(r.size)})


def _post_single(ctx, kind):
    def post(res, exc, args, kwargs):
        if exc is not None:
            return
        r, alpha, normalized = _single_args(args, kwargs)
        a = float(alpha)
        r_arr = np.atleast_1d(np.asarray(r, dtype=float))
        subject = f"coulomb_gaussian_{kind}:{_nrm(normalized)}"
        if not (a > 0 and math.isfinite(a)) or r_arr.size == 0 or np.any(np.isnan(r_arr)) or np.any(r_arr < 0):
            ctx.count("single:call-outside-decided-domain")
            return
        ok = isinstance(res, np.ndarray) and res.shape == r_arr.shape and res.dtype == np.float64
        ctx.check(C_SHAPE, subject, ok, detail={"got": repr(getattr(res, "shape", type(res))), "want": list(r_arr.shape)})
        if not ok:
            return
        rf, gf = r_arr.ravel(), res.ravel()
        ref = cr.v_ref(kind, rf, a, normalized)
        value_check(ctx, kind, normalized, rf, a, gf, ref, TOL_VALUE, "closed-form-f64")
        # r V -> total charge once the density is exhausted (erfc(8) ~ 1e-29)
        far = (math.sqrt(a) * rf >= 8.0) & np.isfinite(rf)
        if np.any(far):
            q = cr.total_charge(kind, a, normalized)
            with np.errstate(over="ignore", invalid="ignore"):
                e = np.maximum(np.abs(rf[far] * gf[far] - q) - rf[far] * TINY_ABS, 0.0) / q
            e = np.where(np.isnan(e), np.inf, e)
            j = int(np.argmax(e))
            ctx.check(C_CHARGE, subject, float(e[j]), TOL_CHARGE, sig="rV!=Q", detail={"alpha": a, "r": float(rf[far][j]), "rV": float(rf[far][j] * gf[far][j]), "Q": q})
        if not normalized:
            vn = np.asarray(_ORIG[kind](r, alpha, True), dtype=float).ravel()
            fct = cr.unnorm_factor(kind, a)
            with np.errstate(invalid="ignore"):
                e = np.maximum(np.abs(gf - fct * vn) - TINY_ABS, 0.0) / np.where(np.abs(fct * vn) > 0, np.abs(fct * vn), 1.0)  # fct * vn may underflow to 0 (exact value below the subnormal range)
            e = np.where(np.isnan(e), np.inf, e)
            j = int(np.argmax(e))
            ctx.check(C_FACTOR, f"coulomb_gaussian_{kind}", float(e[j]), TOL_FACTOR, sig="ratio!=documented-factor", detail={"alpha": a, "r": float(rf[j]), "ratio": float(gf[j] / vn[j]) if vn[j] else None, "documented": fct})

    return post


_POT_NAMES = ["points", "centers_s", "coeffs_s", "alphas_s", "centers_p", "coeffs_p", "alphas_p", "normalized"]


def _dist(points, center):
    d = points - center
    return np.sqrt(d[:, 0] * d[:, 0] + d[:, 1] * d[:, 1] + d[:, 2] * d[:, 2])


def _post_potential(ctx):
    def post(res, exc, args, kwargs):
        if exc is not None:
            return
        b = {"centers_p": None, "coeffs_p": None, "alphas_p": None, "normalized": True}
        b.update(dict(zip(_POT_NAMES, args)))
        b.update(kwargs)
        nrm = bool(b["normalized"])
        pts = np.asarray(b["points"], dtype=float)
        fns = []
        for kind in cr.KINDS:
            if b["coeffs_" + kind] is None:
                continue
            cen = np.asarray(b["centers_" + kind], dtype=float).reshape(-1, 3)
            co = np.asarray(b["coeffs_" + kind], dtype=float).ravel()
            al = np.asarray(b["alphas_" + kind], dtype=float).ravel()
            if not (len(cen) == len(co) == len(al)):
                ctx.count("potential:call-outside-decided-domain")
                return
            fns += [(kind, float(c), float(a), x) for c, a, x in zip(co, al, cen)]
        if pts.ndim != 2 or pts.shape[1] != 3 or any(not (a > 0 and math.isfinite(a)) for _, _, a, _ in fns) or not np.all(np.isfinite(pts)):
            ctx.count("potential:call-outside-decided-domain")
            return
        has_p = any(k == "p" and c != 0 for k, c, _, _ in fns)
        subject = f"coulomb_potential:{'s+p' if has_p else 's-only'}:{_nrm(nrm)}"
        n = pts.shape[0]
        ok = isinstance(res, np.ndarray) and res.shape == (n,) and res.dtype == np.float64
        ctx.check(C_SHAPE, subject, ok, detail={"got": repr(getattr(res, "shape", type(res))), "want": [n]})
        if not ok or n == 0:
            return
        route = np.zeros(n)
        truth = np.zeros(n)
        scale = np.zeros(n)
        known = np.zeros(n)
        for kind, c, a, x in fns:
            rr = _dist(pts, x)
            route += c * np.asarray(_ORIG[kind](rr, a, nrm), dtype=float)
            t = cr.v_ref(kind, rr, a, nrm)
            truth += c * t
            scale += abs(c) * np.abs(t)
            if kind == "p":
                known += c * (1.0 if nrm else cr.unnorm_factor("p", a)) * 2.0 * cr.gauss_tail(rr, a)
        scale = np.where(scale > 0, scale, 1.0)
        with np.errstate(invalid="ignore"):
            e = np.abs(res - route) / scale
        e = np.where(np.isnan(e), np.inf, e)
        j = int(np.argmax(e))
        ctx.check(C_ROUTE, subject, float(e[j]), TOL_ROUTE, sig="differs-from-sum-of-single-functions", detail={"point": pts[j].tolist(), "got": float(res[j]), "sum_of_singles": float(route[j]), "n_s": sum(k == "s" for k, *_ in fns), "n_p": sum(k == "p" for k, *_ in fns)})
        with np.errstate(invalid="ignore"):
            e = np.abs(res - truth) / scale
        e = np.where(np.isnan(e), np.inf, e)
        j = int(np.argmax(e))
        sig = None
        if not float(e[j]) <= TOL_VALUE:
            bad = e > TOL_VALUE
            with np.errstate(invalid="ignore"):
                match = np.abs((res[bad] - truth[bad]) - known[bad]) / scale[bad] <= TOL_SIG
            sig = SIG_KNOWN_MULTI if has_p and bool(np.all(match)) else "other-discrepancy"
        ctx.check(C_MULTI, subject, float(e[j]), TOL_VALUE, sig=sig, detail={"point": pts[j].tolist(), "got": float(res[j]), "want": float(truth[j]), "known_p_discrepancy": float(known[j])})

    return post


def _expected_load(element):
    """('ok', symbol) | ('ValueError'|'TypeError', why) | ('undecided', why) for a request, from the docstring."""
    data = datafiles.gauss_params()
    if isinstance(element, bool):
        return "undecided", "bool"
    if isinstance(element, str):
        key = element.title()
        if element != element.strip():
            return "undecided", "surrounding white space is not documented"
        if key in Z_OF:
            return ("ok", key) if key in data else ("ValueError", "no parameters shipped")
        return "ValueError", "unknown symbol"
    if isinstance(element, (int, np.integer)):
        z = int(element)
        if 1 <= z <= len(SYMBOLS):
            s = SYMBOLS[z - 1]
            return ("ok", s) if s in data else ("ValueError", "no parameters shipped")
        return "ValueError", "unknown atomic number"
    return "TypeError", "not str/int"


def _params_ok(res, sym):
    want = datafiles.gauss_params()[sym]
    if not (isinstance(res, tuple) and len(res) == 2 and all(isinstance(x, np.ndarray) for x in res)):
        return False, "not-a-pair-of-arrays"
    c, a = res
    if c.dtype != np.float64 or a.dtype != np.float64 or c.ndim != 1 or a.ndim != 1:
        return False, "not-1d-float64"
    if len(c) != len(a) or len(a) == 0:
        return False, "unequal-or-empty"
    if not (np.all(np.isfinite(c)) and np.all(np.isfinite(a)) and np.all(a > 0)):
        return False, "non-finite-or-alpha<=0"
    wc, wa = np.array(want["coeffs_s"], dtype=float), np.array(want["alphas_s"], dtype=float)
    if c.shape != wc.shape or not (np.array_equal(c, wc) and np.array_equal(a, wa)):
        return False, "differs-from-shipped-json"
    return True, None


def _post_load(ctx):
    def post(res, exc, args, kwargs):
        element = args[0] if args else kwargs.get("element")
        kind, info = _expected_load(element)
        subject = f"load_atomic_gaussian_params:{type(element).__name__}"
        if kind == "undecided":
            ctx.count("load:request-not-decided:" + info[:30])
            return
        if exc is not None:
            if kind == "ok":
                ctx.fail(C_LOAD, subject, f"raised:{type(exc).__name__}", detail={"element": repr(element), "error": str(exc)[:200]})
            else:
                ctx.check(C_REJECT, subject, type(exc).__name__ == kind, sig=f"raised:{type(exc).__name__}-instead-of-{kind}", detail={"element": repr(element), "why": info})
            return
        if kind != "ok":
            ctx.fail(C_REJECT, subject, f"accepted-instead-of-{kind}", detail={"element": repr(element), "why": info})
            return
        ok, why = _params_ok(res, info)
        ctx.check(C_LOAD, subject, ok, sig=why, detail={"element": repr(element), "expected_symbol": info})

    return post


def setup(ctx):
    worst = cr.self_test(seed=1000 + ctx.seed)
    ctx.count("oracle-selftest-ok")
    if not worst <= 2e-15:
        raise RuntimeError("coulomb_ref self-test returned " + repr(worst))
    data = datafiles.gauss_params()
    if not data or any(s not in Z_OF for s in data):
        raise RuntimeError("C17: shipped JSON has keys that are not element symbols: " + repr(list(data)[:8]))
    import grid.coulomb as gc
    import grid.robust_poisson  # noqa: F401  (so that its bindings of the functions are patched too)

    for kind in cr.KINDS:
        name = f"coulomb_gaussian_{kind}"
        f = getattr(gc, name)
        _ORIG[kind] = getattr(f, "__gridrv_orig__", f)
        instrument.wrap_function(ctx, gc, name, _post_single(ctx, kind))
    instrument.wrap_function(ctx, gc, "coulomb_potential", _post_potential(ctx))
    instrument.wrap_function(ctx, gc, "load_atomic_gaussian_params", _post_load(ctx))


# ---------------------------------------------------------------------------------- workload
def _lib():
    import grid.coulomb as gc

    return gc


def _call_single(kind, r, alpha, normalized, style=0):
    f = getattr(_lib(), f"coulomb_gaussian_{kind}")
    if normalized and style % 3 == 0:
        return f(r, alpha)
    if style % 3 == 1:
        return f(r, alpha, normalized=normalized)
    return f(r, alpha, normalized)


def _draw_alpha(rng):
    """Half of the exponents in the chemically usual range, half anywhere in 1e-30..1e30 (some exact powers of ten)."""
    u = rng.random()
    if u < 0.5:
        return float(10.0 ** rng.uniform(-4, 6))
    if u < 0.9:
        return float(10.0 ** rng.uniform(-30, 30))
    return float(10.0 ** int(rng.integers(-30, 31)))


def _neighbours(r0):
    out = []
    for d in NEIGHBOUR_DELTAS:
        if d == "-ulp":
            out.append((float(np.nextafter(r0, 0)), 2.3e-16))
        elif d == "+ulp":
            out.append((float(np.nextafter(r0, np.inf)), 2.3e-16))
        else:
            out.append((r0 * (1.0 + d), abs(d)))
    return out


def _switch_radii(a):
    """Radii just below / on / just above both switch points: r = 1e-12 and sqrt(alpha) r = 1e-8."""
    return [r for r0 in (SWITCH, XSWITCH / math.sqrt(a)) for r, _ in _neighbours(r0)]


def _continuity(ctx, kind, alpha, normalized):
    subject = f"coulomb_gaussian_{kind}:{_nrm(normalized)}"
    a = float(alpha)
    # no jump between neighbouring radii at either switch point, for every exponent: the potentials have
    # |dlnV/dlnr| <= 1, so a relative step delta in r changes V by at most ~delta (3 delta allowed)
    for name, r0 in (("1e-12", SWITCH), ("x=1e-8", XSWITCH / math.sqrt(a))):
        with ctx.guard(C_CONT, subject):
            nb = _neighbours(r0)
            v = np.asarray(_call_single(kind, np.array([r for r, _ in nb]), alpha, normalized, 1), dtype=float)
            v0 = float(np.asarray(_call_single(kind, r0, alpha, normalized, 2)).ravel()[0])
            ok = v.shape == (len(nb),) and np.all(np.isfinite(v)) and v0 > 0
            m = float(max(max(0.0, abs(x - v0) / v0 - 3.0 * d) for x, (_, d) in zip(v, nb))) if ok else float("inf")
            ctx.check(C_CONT, subject, m, TOL_JUMP, sig=f"jump-at-{name}-switch", detail={"alpha": a, "r0": r0, "r": [r for r, _ in nb], "V": v.tolist(), "V(r0)": v0})
    if a > 1e6:
        return  # beyond that the potential genuinely varies between the four radii of the next check
    with ctx.guard(C_CONT, subject):
        v = np.asarray(_call_single(kind, np.array(CONT_R), alpha, normalized, 1), dtype=float)
        vs = np.array([float(np.asarray(_call_single(kind, x, alpha, normalized, 2)).ravel()[0]) for x in CONT_R])
        allv = np.concatenate([v, vs])
        m = float((allv.max() - allv.min()) / abs(allv.min())) if np.all(np.isfinite(allv)) and allv.min() != 0 else float("inf")
        ctx.check(C_CONT, subject, m, TOL_CONT, sig="jump-at-1e-12-switch", detail={"alpha": float(alpha), "r": CONT_R, "V": v.tolist()})


def _scalars(ctx, kind, alpha, normalized, r_arr, v_arr, idx):
    subject = f"coulomb_gaussian_{kind}:{_nrm(normalized)}"
    for n, i in enumerate(idx):
        x = float(r_arr[i])
        form = [x, np.float64(x), np.array(x), [x], int(x) if x == int(x) and x < 1e15 else x][n % 5] if math.isfinite(x) else x
        with ctx.guard(C_SCALAR, subject):
            v = np.asarray(_call_single(kind, form, alpha, normalized, n))
            ok = v.shape == (1,)
            ctx.check(C_SHAPE, subject + ":scalar", ok, detail={"form": type(form).__name__, "shape": list(v.shape)})
            if ok:
                w = float(v_arr[i])
                e = abs(float(v[0]) - w) / abs(w) if w != 0 else abs(float(v[0]))
                ctx.check(C_SCALAR, subject, e, TOL_SCALAR, sig="scalar!=array-element", detail={"alpha": float(alpha), "r": x, "scalar": float(v[0]), "array": w})


def _alpha_form(rng, a):
    k = int(rng.integers(0, 4))
    return [float(a), np.float64(a), np.array(float(a)), float(a)][k]


def _int_forms(rng=None):
    """Integer-typed radii (decided by the post-condition against their float values)."""
    forms = [("int32", np.array(INT_R_SMALL, dtype=np.int32)), ("int64", np.array(INT_R_BIG, dtype=np.int64)), ("uint64", np.array(INT_R_BIG, dtype=np.uint64)),
             ("int-list", list(INT_R_BIG)), ("int64-2d", np.array(INT_R_BIG[:16], dtype=np.int64).reshape(4, 4)), ("uint8", np.array([0, 1, 2, 255], dtype=np.uint8)),
             ("int16", np.array([0, 3, 32767], dtype=np.int16)), ("bool", np.array([False, True]))]
    if rng is not None:
        hi = 10 ** int(rng.integers(1, 17))
        forms.append(("int64-random", rng.integers(0, hi, int(rng.integers(1, 30)))))
        forms.append(("int-list-random", [int(v) for v in rng.integers(0, hi, int(rng.integers(1, 10)))]))
    return forms


def _fset(rng, k, box):
    cen = rng.uniform(-box, box, (k, 3))
    if k > 2 and rng.random() < 0.5:  # several functions on one centre (atomic core style)
        cen[k // 2 :] = cen[0]
    if k > 1 and rng.random() < 0.2:
        cen[-1] = rng.uniform(-1e3, 1e3, 3)
    co = rng.lognormal(0, 2, k) * rng.choice([-1.0, 1.0], k)
    if k > 3 and rng.random() < 0.3:
        co[int(rng.integers(0, k))] = 0.0
    al = np.where(rng.random(k) < 0.8, 10.0 ** rng.uniform(-4, 6, k), 10.0 ** rng.uniform(-30, 30, k))
    return cen, co, al


class _History:
    """Results handed out earlier: must not share memory with arguments / each other and must never change."""

    def __init__(self, ctx, subject):
        self.ctx, self.subject, self.kept = ctx, subject, []

    def record(self, res, inputs, step, op):
        res = np.asarray(res)
        sh_in = [n for n, x in inputs if isinstance(x, np.ndarray) and x.size and res.size and np.shares_memory(res, x)]
        sh_prev = [st for o, _, st in self.kept if res.size and np.shares_memory(res, o)]
        self.ctx.check(C_STABLE, self.subject, not sh_in and not sh_prev, sig="result-shares-memory-with-" + ("argument" if sh_in else "earlier-result"), detail={"step": step, "after": op, "arguments": sh_in, "earlier_steps": sh_prev})
        changed = [st for o, c, st in self.kept if o.tobytes() != c.tobytes()]
        self.ctx.check(C_STABLE, self.subject, not changed, sig="earlier-result-changed", detail={"step": step, "after": op, "changed_results_of_steps": changed})
        self.kept.append((res, res.copy(), step))


def _same_bits(ctx, subject, v, vf, step, op):
    v, vf = np.asarray(v), np.asarray(vf)
    ok = v.shape == vf.shape and v.dtype == vf.dtype and v.tobytes() == vf.tobytes()
    d = None
    if not ok and v.shape == vf.shape:
        with np.errstate(invalid="ignore"):
            d = float(np.max(np.abs(v.astype(float) - vf.astype(float)))) if v.size else 0.0
    ctx.check(C_FRESH, subject, ok, sig="differs-from-fresh-copy:after-" + op, detail={"step": step, "max_abs_diff": d})


def _buffer_reuse_potential(ctx, gc, rng):
    nrm = bool(rng.integers(0, 2))
    with_p = bool(rng.integers(0, 2))
    sizes = [1, 1, 2, 3, 4, 6, 10, 20, 30]
    ks = int(rng.choice(sizes))
    kp = int(rng.choice(sizes)) if with_p else 0
    box = float(10.0 ** rng.uniform(-0.5, 1.0))
    cs, cos, als = _fset(rng, ks, box)
    cp, cop, alp = _fset(rng, kp, box)
    n = int(rng.integers(1, 40))
    pts = rng.uniform(-box, box, (n, 3))
    if rng.random() < 0.5:
        pts[0] = cs[0]
    subject = "coulomb_potential:buffer-reuse"
    hist = _History(ctx, subject)
    ctx.case_note("n_s", ks)
    ctx.case_note("n_p", kp)
    ctx.case_note("n_points", n)

    def args(copy):
        a = [pts, cs, cos, als] + ([cp, cop, alp] if with_p else [])
        return [x.copy(order="K") for x in a] if copy else a

    ops = ["none", "translate-points", "scale-points", "refill-points", "move-one-point", "points-onto-centres", "shift-centres", "refill-alphas", "scale-coeffs", "swap-centre-rows"]
    done = []
    for step in range(int(rng.integers(4, 13))):
        op = "first-call" if step == 0 else str(rng.choice(ops))
        if op == "translate-points":
            pts += rng.uniform(-1, 1, 3) * box
        elif op == "scale-points":
            pts *= float(rng.choice([-1.0, 0.5, 2.0, 1.0 + 1e-3, 10.0]))
        elif op == "refill-points":
            pts[:] = rng.uniform(-box, box, pts.shape)
        elif op == "move-one-point":
            pts[int(rng.integers(0, n))] = cs[int(rng.integers(0, ks))] + float(rng.choice([0.0, 5e-13, 1e-3])) * np.array([1.0, 0.0, 0.0])
        elif op == "points-onto-centres":
            m = min(n, ks)
            pts[:m] = cs[:m]
        elif op == "shift-centres":
            cs += rng.uniform(-0.3, 0.3, 3)
            if with_p and rng.random() < 0.5:
                cp[0] = cs[0]
        elif op == "refill-alphas":
            als[:] = 10.0 ** rng.uniform(-4, 6, ks)
            if with_p:
                alp *= 3.0
        elif op == "scale-coeffs":
            cos *= -0.5
            if with_p:
                cop[:] = cop[::-1].copy()
        elif op == "swap-centre-rows":
            cs[[0, -1]] = cs[[-1, 0]]
        done.append(op)
        # something else happens in between: other points on the same centres, the same points on other centres, single functions, loads
        for _ in range(int(rng.integers(0, 3))):
            what = int(rng.integers(0, 4))
            if what == 0:
                gc.coulomb_potential(rng.uniform(-box, box, (int(rng.integers(1, 10)), 3)), cs, cos, als, normalized=nrm)
            elif what == 1:
                j = int(rng.integers(0, ks))
                gc.coulomb_potential(pts, cs[j : j + 1] + 0.25, np.array([1.0]), np.array([0.7]), normalized=nrm)
            elif what == 2:
                getattr(gc, "coulomb_gaussian_" + "sp"[int(rng.integers(0, 2))])(_dist(pts, cs[0]), float(als[0]), nrm)
            else:
                gc.load_atomic_gaussian_params(int(rng.choice([1, 6, 7, 8, 17])))
        fresh_first = rng.random() < 0.25
        with ctx.guard(C_FRESH, subject):
            if fresh_first:
                vf = gc.coulomb_potential(*args(True), normalized=nrm)
            v = gc.coulomb_potential(*args(False), normalized=nrm)
            if not fresh_first:
                vf = gc.coulomb_potential(*args(True), normalized=nrm)
            _same_bits(ctx, subject, v, vf, step, op)
            hist.record(v, list(zip(["points", "centers_s", "coeffs_s", "alphas_s", "centers_p", "coeffs_p", "alphas_p"], args(False))), step, op)
    ctx.case_note("history", done)


def _buffer_reuse_single(ctx, gc, rng, kind):
    nrm = bool(rng.integers(0, 2))
    f = getattr(gc, f"coulomb_gaussian_{kind}")
    other = getattr(gc, "coulomb_gaussian_" + ("p" if kind == "s" else "s"))
    a = _draw_alpha(rng)
    alpha = np.array(a) if rng.random() < 0.5 else a  # a 0-d array is a buffer too
    L = 1.0 / math.sqrt(a)
    shape = (int(rng.integers(1, 60)),) if rng.random() < 0.5 else (int(rng.integers(1, 12)), int(rng.integers(2, 8)))
    r = (10.0 ** rng.uniform(-3, 1, shape)) * L
    subject = f"coulomb_gaussian_{kind}:buffer-reuse"
    hist = _History(ctx, subject)
    ops = ["none", "scale", "shift", "refill", "zero-some", "below-switch-some", "alpha-in-place"]
    done = []
    for step in range(int(rng.integers(4, 13))):
        op = "first-call" if step == 0 else str(rng.choice(ops))
        if op == "scale":
            r *= float(rng.choice([0.5, 2.0, 1e-3, 1e3]))
        elif op == "shift":
            r += float(rng.uniform(0, 2)) * L
        elif op == "refill":
            r[...] = (10.0 ** rng.uniform(-6, 1.5, shape)) * L
        elif op == "zero-some":
            r.flat[rng.integers(0, r.size, 2)] = 0.0
        elif op == "below-switch-some":
            r.flat[rng.integers(0, r.size, 2)] = [0.5e-12, float(np.nextafter(SWITCH, 0))]
        elif op == "alpha-in-place":
            a = _draw_alpha(rng)
            if isinstance(alpha, np.ndarray):
                alpha[...] = a
            else:
                alpha = a
        done.append(op)
        for _ in range(int(rng.integers(0, 3))):
            what = int(rng.integers(0, 3))
            if what == 0:
                other(r, alpha, nrm)
            elif what == 1:
                f(r * 2.0, alpha, not nrm)
            else:
                f(r.ravel()[:1], 2.0 * a)
        with ctx.guard(C_FRESH, subject):
            v = f(r, alpha, nrm)
            vf = f(r.copy(), alpha.copy() if isinstance(alpha, np.ndarray) else alpha, nrm)  # same argument form, fresh objects
            _same_bits(ctx, subject, v, vf, step, op)
            hist.record(v, [("r", r), ("alpha", alpha)], step, op)
    ctx.case_note("history", done)


def _unit(rng, n=None):
    u = rng.normal(size=(3,) if n is None else (n, 3))
    return u / np.linalg.norm(u, axis=-1, keepdims=True)


def _near_coincident(ctx, gc, rng, params):
    """Clusters of (nearly) coincident centres with exponents that resolve their separation."""
    nrm = params["normalized"]
    funcs = []  # (cluster id, centre, alpha, coeff)
    seps = []
    for cl in range(int(rng.integers(1, 4))):
        where = params["where"] if cl == 0 else ["origin", "unit", "far"][int(rng.integers(0, 3))]
        c0 = {"origin": np.zeros(3), "unit": rng.uniform(-1, 1, 3), "far": rng.uniform(-1, 1, 3) * 1e3}[where]
        if where != "origin" and rng.random() < 0.3:
            c0[int(rng.integers(0, 3))] = 0.0  # a coordinate exactly on an axis plane
        for j in range(int(rng.integers(2, 6))):
            mode = "exact" if j == 0 else str(rng.choice(["exact", "ulp", "abs", "abs", "rel", "rel"]))
            c = c0.copy()
            if mode == "ulp":
                i = int(rng.integers(0, 3))
                c[i] = np.nextafter(c[i], [-np.inf, np.inf][int(rng.integers(0, 2))])
            elif mode == "abs" or (mode == "rel" and where == "origin"):
                c = c0 + _unit(rng) * 10.0 ** rng.uniform(-12, -4) * rng.choice([1.0, 1.0, 0.0], 3 if rng.random() < 0.3 else 1)
            elif mode == "rel":
                c = c0 * (1.0 + 10.0 ** rng.uniform(-12, -4) * rng.choice([-1.0, 0.0, 1.0], 3))
            sep = float(np.sqrt(np.sum((c - c0) ** 2)))
            seps.append(sep)
            if rng.random() < 0.25:
                a = _draw_alpha(rng)
            elif sep > 0:
                a = float(min(1e30, (10.0 ** rng.uniform(-0.5, 0.7) / sep) ** 2))
            else:
                a = float(10.0 ** rng.uniform(0, 24))
            funcs.append((cl, c, a, float(rng.lognormal(0, 1.5) * rng.choice([-1.0, 1.0]))))
    far = [(-1, rng.uniform(-3, 3, 3), _draw_alpha(rng), float(rng.lognormal(0, 1.5) * rng.choice([-1.0, 1.0]))) for _ in range(int(rng.integers(0, 4)))]
    order = str(rng.choice(["clusters-contiguous", "reversed", "shuffled", "far-first", "far-in-between", "members-interleaved"]))
    if order == "clusters-contiguous":
        seq = funcs + far
    elif order == "reversed":
        seq = (funcs + far)[::-1]
    elif order == "shuffled":
        seq = funcs + far
        seq = [seq[i] for i in rng.permutation(len(seq))]
    elif order == "far-first":
        seq = far + funcs
    elif order == "far-in-between":
        seq = []
        for i, f in enumerate(funcs):
            seq.append(f)
            if far and i % 2 == 1:
                seq.append(far[(i // 2) % len(far)])
    else:
        ncl = 1 + max(f[0] for f in funcs)
        groups = [[f for f in funcs if f[0] == g] for g in range(ncl)]
        seq = [g[i] for i in range(max(len(g) for g in groups)) for g in groups if i < len(g)] + far
    split = str(rng.choice(["all-s", "all-p", "contiguous", "random"]))
    if split == "all-s":
        is_p = np.zeros(len(seq), dtype=bool)
    elif split == "all-p":
        is_p = np.ones(len(seq), dtype=bool)
    elif split == "contiguous":
        is_p = np.arange(len(seq)) >= int(rng.integers(0, len(seq) + 1))
        if rng.random() < 0.5:
            is_p = ~is_p
    else:
        is_p = rng.random(len(seq)) < 0.5

    def pack(sel):
        sub = [f for f, q in zip(seq, is_p) if q == sel]
        return (np.array([f[1] for f in sub]).reshape(-1, 3), np.array([f[3] for f in sub], dtype=float), np.array([f[2] for f in sub], dtype=float))

    cs, cos, als = pack(False)
    cp, cop, alp = pack(True)
    # evaluation points: on every centre and within a few widths of it, plus a few ordinary and far ones
    pts = []
    for _, c, a, _ in seq:
        pts.append(c)
        for t in (0.3, 1.0, 3.0):
            pts.append(c + _unit(rng) * t / math.sqrt(a))
    pts = np.array(pts)
    if len(pts) > 70:
        pts = pts[np.sort(rng.choice(len(pts), 70, replace=False))]
    pts = np.concatenate([pts, rng.uniform(-3, 3, (3, 3)), _unit(rng, 2) * np.array([[1e4], [1e7]])])
    ctx.case_note("order", order)
    ctx.case_note("split", split)
    ctx.case_note("n_functions", len(seq))
    ctx.case_note("separations", sorted(seps)[:6])
    ctx.case_note("max_alpha", max(f[2] for f in seq))
    ctx.count("near-coincident:order:" + order)
    ctx.count("near-coincident:split:" + split)
    has_p, has_s = bool(np.any(is_p)), bool(np.any(~is_p))
    subject = f"coulomb_potential:{'s+p' if has_p else 's-only'}:{_nrm(nrm)}"
    with ctx.guard(C_ROUTE, subject):
        if has_p:
            v = gc.coulomb_potential(pts, cs, cos, als, cp, cop, alp, normalized=nrm)
            v2 = gc.coulomb_potential(pts, cs[::-1], cos[::-1], als[::-1], cp[::-1], cop[::-1], alp[::-1], normalized=nrm)
            sc = gc.coulomb_potential(pts, cs, np.abs(cos), als, cp, np.abs(cop), alp, normalized=nrm)
        else:
            v = gc.coulomb_potential(pts, cs, cos, als, normalized=nrm)
            v2 = gc.coulomb_potential(pts, cs[::-1], cos[::-1], als[::-1], normalized=nrm)
            sc = gc.coulomb_potential(pts, cs, np.abs(cos), als, normalized=nrm)
        e = np.abs(np.asarray(v) - np.asarray(v2)) / np.where(sc > 0, sc, 1.0)
        ctx.check(C_ROUTE, subject + ":order-of-functions", float(np.max(e)) if e.size else 0.0, TOL_ROUTE, sig="depends-on-order-of-functions", detail={"order": order, "split": split})


def run_case(ctx, family, params):
    gc = _lib()
    rng = ctx.rng
    if family == "pinned-p-witness":
        a = params["alpha"]
        r = np.array([0.0, 0.5, 1.0, 2.0])
        for nrm in (True, False):
            with ctx.guard(C_VALUE, f"coulomb_gaussian_p:{_nrm(nrm)}"):
                v = gc.coulomb_gaussian_p(r, a, normalized=nrm)
                ctx.case_note(f"V_code({_nrm(nrm)})", np.asarray(v).tolist())
                ctx.case_note(f"V_true({_nrm(nrm)})", cr.v_ref("p", r, a, nrm).tolist())
                # the same witness decided by direct quadrature of the documented density
                ref = np.array([float(cr.v_quad("p", x, a, nrm)) for x in r])
                value_check(ctx, "p", nrm, r, float(a), np.asarray(v, dtype=float), ref, TOL_QUAD, "mp.quad")
            with ctx.guard(C_VALUE, f"coulomb_gaussian_s:{_nrm(nrm)}"):
                gc.coulomb_gaussian_s(r, a, normalized=nrm)
    elif family == "pinned-multicentre-p-witness":
        pts = np.array([[0.0, 0.0, 1.0], [0.0, 0.0, 0.0], [1.0, 0.0, 0.0]])
        for nrm in (True, False):
            with ctx.guard(C_MULTI, f"coulomb_potential:s+p:{_nrm(nrm)}"):
                v = gc.coulomb_potential(pts, np.array([[0.0, 0.0, 0.0]]), np.array([1.0]), np.array([1.0]), np.array([[0.0, 0.0, 1.0]]), np.array([0.5]), np.array([2.0]), normalized=nrm)
                ctx.case_note(f"V_code({_nrm(nrm)})", np.asarray(v).tolist())
    elif family == "single-grid":
        kind, nrm = params["kind"], params["normalized"]
        a = GRID_ALPHAS[params["ia"]]
        r = np.array(HOSTILE_R + _switch_radii(float(a)) + [x / math.sqrt(a) for x in X_GRID])
        subject = f"coulomb_gaussian_{kind}:{_nrm(nrm)}"
        with ctx.guard(C_VALUE, subject):
            v = np.asarray(_call_single(kind, r, a, nrm, params["ia"]), dtype=float)
            ctx.case_note("alpha", a)
            if v.shape == r.shape:
                _scalars(ctx, kind, a, nrm, r, v, range(len(r)))
            for name, form in _int_forms():
                _call_single(kind, form, a, nrm, params["ia"] + 1)  # decided by the post-condition
                ctx.count("input-form:" + name)
        _continuity(ctx, kind, a, nrm)
    elif family == "single-sweep":
        kind, nrm = params["kind"], params["normalized"]
        a = _draw_alpha(rng)
        n1, n2 = int(rng.integers(60, 200)), int(rng.integers(60, 200))
        r = np.concatenate([10.0 ** rng.uniform(-12, 1.7, n1) / math.sqrt(a), 10.0 ** rng.uniform(-14, 6, n2), HOSTILE_R, _switch_radii(a), SWITCH * (1 + rng.uniform(-1e-3, 1e-3, 6)),
                            XSWITCH / math.sqrt(a) * (1 + rng.uniform(-1e-3, 1e-3, 6)), SWITCH * 10.0 ** rng.uniform(-4, 0, 8)])
        rng.shuffle(r)
        alpha = _alpha_form(rng, a)
        subject = f"coulomb_gaussian_{kind}:{_nrm(nrm)}"
        ctx.case_note("alpha", a)
        ctx.case_note("n_radii", int(r.size))
        style = int(rng.integers(0, 3))
        with ctx.guard(C_VALUE, subject):
            v = np.asarray(_call_single(kind, r, alpha, nrm, style), dtype=float)
            # other input forms of the same radii (each call is decided by the post-condition)
            ro = r.copy()
            ro.setflags(write=False)
            m = (r.size // 4) * 4
            forms = [("readonly-1d", ro, True), ("list", r.tolist(), True), ("2d", r[:m].reshape(4, -1), False), ("3d", r[:m].reshape(2, 2, -1), False),
                     ("2d-fortran-view", np.asfortranarray(r[:m].reshape(-1, 4)).T, False), ("negative-stride", r[::-2], False), ("float32", r[(r > 1e-30) & (r < 1e30)].astype(np.float32), False)]
            for name, form, comparable in forms:
                v2 = np.asarray(_call_single(kind, form, alpha, nrm, style + 1), dtype=float)
                ctx.count("input-form:" + name)
                if comparable and v2.shape == v.shape:
                    ctx.check(C_SCALAR, subject, float(np.max(np.abs(v2 - v) / np.where(v != 0, np.abs(v), 1.0))), TOL_SCALAR, sig=name + "!=array")
            for name, form in _int_forms(rng)[-2:] + [_int_forms()[int(rng.integers(0, 8))]]:
                _call_single(kind, form, alpha, nrm, style + 2)
                ctx.count("input-form:" + name)
            if v.shape == r.shape:
                _scalars(ctx, kind, alpha, nrm, r, v, rng.choice(r.size, 8, replace=False))
        _continuity(ctx, kind, alpha, nrm)
    elif family == "quadrature":
        kind = params["kind"]
        nrm = bool(rng.integers(0, 2))
        a = _draw_alpha(rng)
        x = np.concatenate([10.0 ** rng.uniform(-6, 1.3, 3), [[0.0, 1e-300 * math.sqrt(a), 0.9e-12 * math.sqrt(a), 1.1e-12 * math.sqrt(a), 1e-10 * math.sqrt(a), 30.0, 1e6, 0.99 * XSWITCH, 1.01 * XSWITCH][params["k"] % 9]]])
        r = x / math.sqrt(a)
        subject = f"coulomb_gaussian_{kind}:{_nrm(nrm)}"
        with ctx.guard(C_VALUE, subject):
            v = np.asarray(_call_single(kind, r, a, nrm, 1), dtype=float)
            ref = np.array([float(cr.v_quad(kind, float(t), a, nrm)) for t in r])
            if v.shape == r.shape:
                value_check(ctx, kind, nrm, r, a, v, ref, TOL_QUAD, "mp.quad")
            ctx.case_note("alpha", a)
            ctx.case_note("r", r.tolist())
    elif family == "multi-centre":
        nrm = params["normalized"]
        with_p = params["with_p"]
        ks = int(rng.integers(1, 31))
        kp = int(rng.integers(1, 31)) if with_p else 0
        if with_p and rng.random() < 0.1:
            ks = 0
        box = float(10.0 ** rng.uniform(-1, 1.5))

        cs, cos, als = _fset(rng, ks, box)
        cp, cop, alp = _fset(rng, kp, box)
        allc = np.concatenate([cs, cp]) if kp else cs
        npts = int(rng.integers(1, 120))
        pts = [rng.uniform(-1.5 * box, 1.5 * box, (npts, 3))]
        pick = allc[rng.integers(0, len(allc), 6)]
        pts.append(pick[:2])  # exactly on centres
        u = rng.normal(size=(4, 3))
        u /= np.linalg.norm(u, axis=1)[:, None]
        pts.append(pick[2:] + u * np.array([1e-13, 0.9e-12, 1.1e-12, 1e-10])[:, None])
        pts.append(rng.normal(size=(2, 3)) * np.array([[1e6], [1e8]]))
        pts = np.concatenate(pts)
        ctx.case_note("n_s", ks)
        ctx.case_note("n_p", kp)
        ctx.case_note("n_points", len(pts))
        subject = f"coulomb_potential:{'s+p' if with_p else 's-only'}:{_nrm(nrm)}"
        form = int(rng.integers(0, 7))
        if ks == 0 and form == 1:
            form = 0  # an empty nested list cannot carry the documented (0, 3) shape
        ctx.count("potential-form:" + ["float64", "lists", "read-only", "keywords", "integer-dtype", "float32", "fortran/strided-views"][form])
        if form == 4:  # integer-typed points (a lattice), some centres on lattice nodes; integer coefficients
            ityp = [np.int64, np.int32, np.int16][int(rng.integers(0, 3))]
            pts = rng.integers(-6, 7, (len(pts), 3)).astype(ityp)
            if ks:
                cs[: max(1, ks // 2)] = pts[rng.integers(0, len(pts), max(1, ks // 2))]
            if rng.random() < 0.5 and ks:
                cs = np.rint(cs).astype(np.int64)
                cos = np.rint(cos).astype(np.int32)
            if kp:
                cp[0] = pts[0]
        elif form == 5:
            pts, cs, cos, als, cp, cop, alp = (x.astype(np.float32) for x in (pts, cs, cos, als, cp, cop, alp))
            als, alp = np.maximum(als, np.float32(1e-30)), np.maximum(alp, np.float32(1e-30))
        elif form == 6:
            big = np.zeros((len(pts), 6))
            big[:, ::2] = pts
            pts = big[:, ::2]
            cs, cp = np.asfortranarray(cs), np.asfortranarray(cp)
            cos, als = np.repeat(cos, 2)[::2], np.repeat(als, 2)[::2]  # strided views
        with ctx.guard(C_ROUTE, subject):
            if form == 1:
                a_ = [x.tolist() for x in (pts, cs, cos, als)]
                pa = [x.tolist() for x in (cp, cop, alp)]
            else:
                a_ = [pts, cs, cos, als]
                pa = [cp, cop, alp]
                if form == 2:
                    for x in a_ + pa:
                        x.setflags(write=False)
            if not with_p:
                if form == 3:
                    v = gc.coulomb_potential(a_[0], a_[1], a_[2], a_[3], None, None, None, nrm)
                else:
                    v = gc.coulomb_potential(*a_, normalized=nrm) if not nrm or form else gc.coulomb_potential(*a_)
            elif form == 3:
                v = gc.coulomb_potential(points=a_[0], centers_s=a_[1], coeffs_s=a_[2], alphas_s=a_[3], alphas_p=pa[2], coeffs_p=pa[1], centers_p=pa[0], normalized=nrm)
            else:
                v = gc.coulomb_potential(*a_, *pa, nrm)
            # superposition: potential of the s set + potential of the p set (as s-less call) == potential of both
            if with_p and ks > 0:
                v_s = gc.coulomb_potential(pts, cs, cos, als, normalized=nrm)
                v_p = gc.coulomb_potential(pts, np.zeros((0, 3)), np.zeros(0), np.zeros(0), cp, cop, alp, normalized=nrm)
                sc = gc.coulomb_potential(pts, cs, np.abs(cos), als, cp, np.abs(cop), alp, normalized=nrm)
                e = np.abs(np.asarray(v) - (v_s + v_p)) / np.where(sc > 0, sc, 1.0)
                ctx.check(C_ROUTE, subject + ":V[s+p]=V[s]+V[p]", float(np.max(e)), TOL_ROUTE, sig="not-additive")
            # the points x centres distance matrix (entries exactly on a centre included) through the single functions
            allc = np.concatenate([np.asarray(cs, dtype=float).reshape(-1, 3), np.asarray(cp, dtype=float).reshape(-1, 3)])
            dmat = np.stack([_dist(np.asarray(pts, dtype=float), c) for c in allc[:8]], axis=1)
            a1 = float(np.asarray(als if ks else alp, dtype=float)[0])
            for kind in cr.KINDS:
                _call_single(kind, dmat, a1, nrm, form)
                _call_single(kind, dmat.T, a1, nrm, form + 1)
    elif family == "atomic-core":
        sym = params["symbol"]
        el = sym if params["by"] == "symbol" else Z_OF[sym]
        subject = f"coulomb_potential:atomic-core:{sym}"
        with ctx.guard(C_MULTI, subject):
            co, al = gc.load_atomic_gaussian_params(el)
            center = rng.uniform(-2, 2, 3)
            u = rng.normal(size=(12, 3))
            u /= np.linalg.norm(u, axis=1)[:, None]
            dist = np.array([0.0, 1e-13, 1e-6, 1e-3, 0.03, 0.3, 1.0, 3.0, 10.0, 1e3, 1e4, 1e5])
            pts = center + u * dist[:, None]
            v = gc.coulomb_potential(pts, centers_s=np.tile(center, (len(co), 1)), coeffs_s=co, alphas_s=al, normalized=True)
            q = float(np.sum(np.array(datafiles.gauss_params()[sym]["coeffs_s"], dtype=float)))
            rr = _dist(pts, center)
            far = rr * math.sqrt(float(np.min(al))) >= 8.0
            ctx.check(C_CHARGE, subject, float(np.max(np.abs(rr[far] * v[far] - q) / q)), TOL_CHARGE, sig="rV!=sum(coeffs)", detail={"rV": (rr[far] * v[far]).tolist(), "Q": q})
            ctx.case_note("core_charge", q)
    elif family == "load":
        sym = params["symbol"]
        z = Z_OF[sym]
        variants = sorted({sym, sym.lower(), sym.upper(), sym.title(), sym.swapcase()})
        reqs = variants + [z, np.int64(z), np.int32(z), np.uint8(z)]
        first = None
        for el in reqs + reqs[::-1]:
            with ctx.guard(C_LOAD, f"load_atomic_gaussian_params:{type(el).__name__}"):
                res = gc.load_atomic_gaussian_params(el)
                if first is None:
                    first = (np.array(res[0], copy=True), np.array(res[1], copy=True))
                same = isinstance(res, tuple) and len(res) == 2 and np.array_equal(res[0], first[0]) and np.array_equal(res[1], first[1])
                ctx.check(C_REPEAT, f"load_atomic_gaussian_params:{sym}", same, sig="differs-between-spellings-or-calls", detail={"element": repr(el)})
        ctx.case_note("n_functions", None if first is None else int(len(first[0])))
    elif family == "load-reject":
        data = datafiles.gauss_params()
        bad = [z for z in range(1, 119) if SYMBOLS[z - 1] not in data]
        bad_sym = [SYMBOLS[z - 1] for z in bad[:: max(1, len(bad) // 40)]] + ["Xx", "", "H2", "hydrogen", "C1", "1"]
        for el in bad + [0, -1, 119, 1000, np.int64(2)] + bad_sym + [1.0, 6.5, None, [1], (6,), b"H", np.float64(1.0)]:
            try:
                gc.load_atomic_gaussian_params(el)  # decided by the post-condition on the function
            except Exception as exc:  # noqa: BLE001
                if not isinstance(exc, (ValueError, TypeError)):
                    ctx.count("load-reject:other-exception:" + type(exc).__name__)
    elif family == "load-history":
        data = datafiles.gauss_params()
        syms = sorted(data)
        handed_out = []
        for step in range(int(rng.integers(10, 40))):
            sym = syms[int(rng.integers(0, len(syms)))]
            el = [sym, sym.lower(), sym.upper(), Z_OF[sym], np.int64(Z_OF[sym])][int(rng.integers(0, 5))]
            with ctx.guard(C_REPEAT, f"load_atomic_gaussian_params:{sym}"):
                res = gc.load_atomic_gaussian_params(el)
                ok, why = _params_ok(res, sym)
                ctx.check(C_REPEAT, f"load_atomic_gaussian_params:{sym}", ok, sig=f"after-history:{why}", detail={"step": step, "element": repr(el)})
                if ok:
                    shared = any(np.shares_memory(x, y) for x in res for y in handed_out) or np.shares_memory(res[0], res[1])
                    ctx.check(C_STABLE, "load_atomic_gaussian_params", not shared, sig="result-shares-memory-with-earlier-result", detail={"step": step, "element": repr(el)})
                    handed_out = (handed_out + list(res))[-12:]
                if ok and rng.random() < 0.6:  # the caller edits what it got; later loads must not change
                    mode = int(rng.integers(0, 3))
                    if mode == 0:
                        res[0][:] = -1.0
                        res[1][:] = 0.0
                    elif mode == 1:
                        res[1][::2] *= 2.0
                    else:
                        res[0].sort()
            if rng.random() < 0.15:
                try:
                    gc.load_atomic_gaussian_params(int(rng.integers(1, 119)))
                except ValueError:
                    pass
    elif family == "buffer-reuse":
        if params["target"] == "potential":
            _buffer_reuse_potential(ctx, gc, rng)
        else:
            _buffer_reuse_single(ctx, gc, rng, params["target"])
    elif family == "near-coincident-centres":
        _near_coincident(ctx, gc, rng, params)
    else:
        raise ValueError(family)
