"""C02 - every shipped angular grid is exact to its advertised degree."""

from __future__ import annotations

import numpy as np

from gridrv import instrument
from gridrv.monitors import angular as angmon
from gridrv.oracles import datafiles, sph

PROP = "C02"
TITLE = "Every shipped angular grid is exact to its advertised degree"
REQUIRED_HOOKS = ["AngularGrid.__init__"]
REQUIRED_FAMILIES = ["lebedev", "spherical", "maxdet", "ahrens_beylkin", "cross-method-same-degree"]
BUDGET = {"quick": 400, "thorough": 2400}
EXHAUSTIVE = {"quick": False, "thorough": True}
TOL = 1e-9
RULE = (
    "One case = one supported (method, degree, size) row, built through the public constructor (by degree, or by size for "
    "every third row); the post-condition attached to AngularGrid.__init__ evaluates sum_i w_i Y_lm(p_i) for ALL (l,m) "
    "with l <= degree using an independent normalised recursion (tol 1e-9), |p|=1 (1e-12) and size==table size. "
    "thorough: all rows of all four methods (exhaustive over the shipped set); quick: all Lebedev and Ahrens-Beylkin rows, "
    "every spherical/maxdet row with N < 2000, the smallest and largest row, and a seed-rotated third of the rest. "
    "Family cross-method-same-degree builds one degree with every method supporting it in one process with the default cache=True, twice, so grids are also observed when served from the module caches after other methods were used. A case is non-trivial when its full moment table was evaluated."
)
ASSUMPTIONS = [
    "supported rows = the library's public size->degree tables; exactness oracle = own float64 recursion validated against mpmath at start-up",
    "tolerance 1e-9 absolute on every moment (largest value seen on correct files 3.3e-12)",
]
LEVEL_TEXT = "Exhaustive run-time enumeration (thorough) of every supported angular grid and every (l,m) up to its degree against an independent spherical-harmonic oracle; quick covers two methods completely and a rotating third of the other two."
TECHNIQUE = "runtime monitoring: post-condition on AngularGrid.__init__ with an independent spherical-harmonic moment oracle, exhaustive over shipped data"
METHODS = ["lebedev", "spherical", "maxdet", "ahrens_beylkin"]


def cases(tier, seed):
    out = []
    for m in METHODS:
        t = datafiles.table(m)
        for i, (d, s) in enumerate(t):
            cost = s * (d + 1.0) ** 2
            if tier == "quick" and m in ("spherical", "maxdet"):
                keep = s < 2000 or i in (0, len(t) - 1) or (i + seed) % 3 == 0
                if not keep:
                    continue
            out.append((m, {"degree": d, "size": s, "by": "size" if i % 3 == 2 else "degree"}, cost))
    # the same degree requested from every method that supports it, in one process with the DEFAULT cache=True
    # (a cache that confuses methods or degrees hands out a grid of the wrong size that may still be exact)
    by_deg = {}
    for m in METHODS:
        for d, s in datafiles.table(m):
            by_deg.setdefault(d, []).append((m, s))
    for d, lst in sorted(by_deg.items()):
        if len(lst) < 2 or (tier == "quick" and d > 70 and (d + seed) % 5):
            continue
        out.append(("cross-method-same-degree", {"degree": d, "order": (d + seed) % 2}, sum(s for _, s in lst) * (d + 1.0) ** 2 * 1.5))
    return out


def setup(ctx):
    datafiles.self_test()
    ctx.case_tol = sph.self_test()
    from grid.angular import AngularGrid

    def post(res, exc, args, kwargs):
        if exc is not None:
            return
        angmon.check_exactness(ctx, args[0], tol=TOL)

    instrument.wrap_method(ctx, AngularGrid, "__init__", post, hook="AngularGrid.__init__")


def run_case(ctx, family, params):
    from grid.angular import AngularGrid

    if family == "cross-method-same-degree":
        d = params["degree"]
        rows = [(m, dict(datafiles.table(m))[d]) for m in METHODS if d in dict(datafiles.table(m))]
        if params["order"]:
            rows = rows[::-1]
        for rep in range(2):  # second round is served from the module caches
            for m, s in rows:
                subj = f"{m}_{d}_{s}"
                with ctx.guard("constructible", subj):
                    # method names are case-insensitive in the library (it lower-cases them): spell them in mixed case too
                    spelled = [m, m.upper(), m.title(), m[0].upper() + m[1:]][(d + rep) % 4]
                    g = AngularGrid(degree=d, method=spelled)  # default cache=True
                    ctx.check("advertised-size", subj + ":method-echo", g.method == m, detail={"method": g.method, "spelled": spelled})
                    ctx.check("advertised-size", subj + ":after-other-methods", (int(g.degree), int(g.size), len(g.points)) == (d, s, s), detail={"got": [int(g.degree), int(g.size), len(g.points)], "round": rep})
        return
    m, d, s = family, params["degree"], params["size"]
    subj = f"{m}_{d}_{s}"
    with ctx.guard("constructible", subj):
        if params["by"] == "size":
            g = AngularGrid(size=s, method=m, cache=False)
        else:
            g = AngularGrid(degree=d, method=m, cache=False)
        ctx.check("advertised-size", subj + ":request", (int(g.degree), int(g.size)) == (d, s), detail={"got": [int(g.degree), int(g.size)]})
        # weights sum to 4 pi (consequence named in the statement), independent of the recursion
        ctx.check("weights-sum-4pi", subj, abs(float(np.sum(g.weights)) - 4 * np.pi), 1e-9, sig="first-bad-l=0")
        ctx.case_note("N", int(g.size))
