"""C02 - every shipped angular grid is exact to its advertised degree."""

from __future__ import annotations

import numpy as np

from gridrv import instrument
from gridrv.monitors import angular as angmon
from gridrv.oracles import datafiles, sph

PROP = "C02"
TITLE = "Every shipped angular grid is exact to its advertised degree"
REQUIRED_HOOKS = ["AngularGrid.__init__"]
REQUIRED_FAMILIES = ["lebedev", "spherical", "maxdet", "ahrens_beylkin", "cross-method-same-degree", "after-aborted-construction"]
BUDGET = {"quick": 400, "thorough": 2400}
EXHAUSTIVE = {"quick": False, "thorough": True}
TOL = 1e-9
RULE = (
    "One case = one supported (method, degree, size) row, built through the public constructor (by degree, or by size for "
    "every third row); the post-condition attached to AngularGrid.__init__ evaluates sum_i w_i Y_lm(p_i) for ALL (l,m) "
    "with l <= degree using an independent normalised recursion (tol 1e-9), |p|=1 (1e-12) and size==table size. "
    "thorough: all rows of all four methods (exhaustive over the shipped set); quick: all Lebedev and Ahrens-Beylkin rows, "
    "every spherical/maxdet row with N < 2000, the smallest and largest row, and a seed-rotated third of the rest. "
    "Family cross-method-same-degree builds one degree with every method supporting it in one process with the default cache=True, twice, so grids are also observed when served from the module caches after other methods were used. Family after-aborted-construction first runs a construction under warnings-as-errors (aborted by the library's own warnings: negative Lebedev weights, size-is-used), swallows the warning, then constructs the same row normally with cache on and off. A case is non-trivial when its full moment table was evaluated."
)
ASSUMPTIONS = [
    "supported rows = the library's public size->degree tables; exactness oracle = own float64 recursion validated against mpmath at start-up",
    "tolerance 1e-9 absolute on every moment (largest value seen on correct files 3.3e-12)",
]
LEVEL_TEXT = "Exhaustive run-time enumeration (thorough) of every supported angular grid and every (l,m) up to its degree against an independent spherical-harmonic oracle; quick covers two methods completely and a rotating third of the other two."
TECHNIQUE = "runtime monitoring: post-condition on AngularGrid.__init__ with an independent spherical-harmonic moment oracle, exhaustive over shipped data"
METHODS = ["lebedev", "spherical", "maxdet", "ahrens_beylkin"]


def cases(tier, seed):
    out = []
    for m in METHODS:
        t = datafiles.table(m)
        for i, (d, s) in enumerate(t):
            cost = s * (d + 1.0) ** 2
            if tier == "quick" and m in ("spherical", "maxdet"):
                keep = s < 2000 or i in (0, len(t) - 1) or (i + seed) % 3 == 0
                if not keep:
                    continue
            out.append((m, {"degree": d, "size": s, "by": "size" if i % 3 == 2 else "degree"}, cost))
    # the same degree requested from every method that supports it, in one process with the DEFAULT cache=True
    # (a cache that confuses methods or degrees hands out a grid of the wrong size that may still be exact)
    by_deg = {}
    for m in METHODS:
        for d, s in datafiles.table(m):
            by_deg.setdefault(d, []).append((m, s))
    for d, lst in sorted(by_deg.items()):
        if len(lst) < 2 or (tier == "quick" and d > 70 and (d + seed) % 5):
            continue
        out.append(("cross-method-same-degree", {"degree": d, "order": (d + seed) % 2}, sum(s for _, s in lst) * (d + 1.0) ** 2 * 1.5))
    # a construction aborted by one of the library's own warnings (process running with warnings as errors, the caller
    # catching the exception) must not leave anything behind that later constructions of that grid pick up
    for m in METHODS:
        t = datafiles.table(m)
        rows = [r for r in t if (m == "lebedev" and r[0] in (13, 25, 27))] + [t[(seed + k * 7) % len(t)] for k in range(2 if tier == "quick" else 12)]
        for d, s in rows:
            if s > 6000:
                continue
            for by in ("degree", "size", "both"):
                out.append(("after-aborted-construction", {"method": m, "degree": d, "size": s, "by": by}, s * (d + 1.0) ** 2 * 2))
    return out


def setup(ctx):
    datafiles.self_test()
    ctx.case_tol = sph.self_test()
    from grid.angular import AngularGrid

    def post(res, exc, args, kwargs):
        if exc is not None:
            return
        angmon.check_exactness(ctx, args[0], tol=TOL)

    instrument.wrap_method(ctx, AngularGrid, "__init__", post, hook="AngularGrid.__init__")


def run_case(ctx, family, params):
    from grid.angular import AngularGrid

    if family == "cross-method-same-degree":
        d = params["degree"]
        rows = [(m, dict(datafiles.table(m))[d]) for m in METHODS if d in dict(datafiles.table(m))]
        if params["order"]:
            rows = rows[::-1]
        for rep in range(2):  # second round is served from the module caches
            for m, s in rows:
                subj = f"{m}_{d}_{s}"
                with ctx.guard("constructible", subj):
                    # method names are case-insensitive in the library (it lower-cases them): spell them in mixed case too
                    spelled = [m, m.upper(), m.title(), m[0].upper() + m[1:]][(d + rep) % 4]
                    g = AngularGrid(degree=d, method=spelled)  # default cache=True
                    ctx.check("advertised-size", subj + ":method-echo", g.method == m, detail={"method": g.method, "spelled": spelled})
                    ctx.check("advertised-size", subj + ":after-other-methods", (int(g.degree), int(g.size), len(g.points)) == (d, s, s), detail={"got": [int(g.degree), int(g.size), len(g.points)], "round": rep})
        return
    if family == "after-aborted-construction":
        import warnings

        import grid.angular as ga

        m, d, s, by = params["method"], params["degree"], params["size"], params["by"]
        subj = f"{m}_{d}_{s}:after-abort-by-{by}"
        kw = {"degree": {"degree": d}, "size": {"size": s}, "both": {"degree": d, "size": s}}[by]
        for cold in (True, False):
            if cold:  # first construction of this row in the process: the module-level caches are public names
                for c in (ga.LEBEDEV_CACHE, ga.SPHERICAL_CACHE, ga.MAX_DET_CACHE, ga.AHRENS_BEYLKIN_CACHE):
                    c.pop(d, None)
            aborted = None
            with warnings.catch_warnings():
                warnings.simplefilter("error")
                try:
                    AngularGrid(method=m, cache=True, **kw)
                except Warning as w:
                    aborted = type(w).__name__
            ctx.hit("construction-aborted-by-warning" if aborted else "construction-under-error-filter-completed")
            for cache in (True, False):
                with ctx.guard("constructible", subj):
                    g = AngularGrid(method=m, cache=cache, **kw)  # the post-condition decides exactness
                    ctx.check("advertised-size", subj, (int(g.degree), int(g.size), len(g.points)) == (d, s, s), detail={"got": [int(g.degree), int(g.size), len(g.points)], "cold": cold, "cache": cache})
                    ctx.check("weights-sum-4pi", f"{m}_{d}_{s}", abs(float(np.sum(g.weights)) - 4 * np.pi), 1e-9, sig="first-bad-l=0", detail={"after": "aborted construction by " + by, "aborted_by": aborted, "cold": cold, "cache": cache})
        return
    m, d, s = family, params["degree"], params["size"]
    subj = f"{m}_{d}_{s}"
    with ctx.guard("constructible", subj):
        if params["by"] == "size":
            g = AngularGrid(size=s, method=m, cache=False)
        else:
            g = AngularGrid(degree=d, method=m, cache=False)
        ctx.check("advertised-size", subj + ":request", (int(g.degree), int(g.size)) == (d, s), detail={"got": [int(g.degree), int(g.size)]})
        # weights sum to 4 pi (consequence named in the statement), independent of the recursion
        ctx.check("weights-sum-4pi", subj, abs(float(np.sum(g.weights)) - 4 * np.pi), 1e-9, sig="first-bad-l=0")
        ctx.case_note("N", int(g.size))
