"""C19 - caches and remembered parameters never change what a later call returns (history monitor)."""

from __future__ import annotations

import numpy as np

from gridrv.monitors import history_c19 as H
from gridrv.oracles import datafiles

PROP = "C19"
TITLE = "Caches and remembered parameters never change what a later call returns"
REQUIRED_HOOKS = [
    "AngularGrid.__init__",
    "op:ang_new",
    "op:edit",
    "op:atom_new",
    "op:shell",
    "op:integrate",
    "op:mol_new",
    "op:tf_new",
    "op:tf_call",
    "op:tf_first_call_infers_b",
    "op:gauss",
    "op:cov",
    "op:cache_clear",
    "op:tf_session",
    "op:localgrid",
    "op:ang_size_degree",
    "op:aborted",
    "op:mol_default",
    "mol_default:from_size",
    "mol_default:from_preset",
    "mol_default:from_pruned",
    "edit:nested-attribute",
    "aborted:by-warning",
    "aborted:first-construction-of-that-degree",
    "aborted:degree-already-cached",
    "request:size-with-explicit-degree",
    "request:size-alone-default-degree",
    "warmup:via-AngularGrid",
    "warmup:via-AtomGrid-shells",
    "op:sph",
    "edit:introspected-attribute",
    "construct:all-defaults",
    "session:same-object-call",
    "session:edit-returned",
    "session:edit-input",
    "observe:cache-on",
    "observe:cache-off",
    "cache-walk",
]
REQUIRED_FAMILIES = ["aliasing-witness", "default-rgrid-molecules", "aborted-by-warning", "size-overrides-degree", "transform-reuse", "mixed", "angular-edit", "atom-mol", "transform", "tables"]
BUDGET = {"quick": 400, "thorough": 3600}
RULE = (
    "One case = one random HISTORY of 10-40 operations executed on the real library inside a worker process whose module-level "
    "caches are never reset by the harness (later histories run on whatever earlier ones left behind). Operations (weights per family: "
    "mixed / angular-edit / atom-mol / transform / tables): AngularGrid(method in 4, by degree or by size, Python or NumPy int, cache on/off); "
    "in-place edit (fill, one element, one row/slice, or assignment through the setter) of ANY array previously returned in this history: "
    "the targets are found by INTROSPECTION of every live object - every ndarray- or number-list-valued public property / public instance attribute, "
    "grid-valued attributes and lists of grids followed one level (so: points, weights, AtomGrid.center/.indices/.degrees/.rgrid.points/.rgrid.weights, "
    "MolGrid.atcoords/.indices/.aim_weights/.atweights/.atgrids[i].*, LocalGrid.center/.indices/.points/.weights, whatever a later version adds) - plus arrays "
    "returned by get_shell_grid, convert_cartesian_to_spherical, get_localgrid/get_atomic_grid/MolGrid[i], transform calls, transform_1d_grid, the Coulomb "
    "loader and get_cov_radii; every edit writes the unique sentinel -(2^40 + 64*history + op). An edit of an attribute other than points/weights (or of an object "
    "that shares state with others by design: LocalGrid views, stored atomic grids) only excludes THAT object group from later comparisons of itself; "
    "objects constructed later, other live objects and module-level state are always compared. Grids are also built with every argument at its DEFAULT "
    "(AngularGrid(), AtomGrid(rgrid), MolGrid.from_size(atnums, coords, size, rgrid=...)), default kwargs are omitted at random, and after an edit the atomic grid is "
    "re-built both with center=None and with the explicit origin; each re-construction is compared with the model (incl. center, degrees, radial grid, atcoords) and, "
    "attribute by attribute (introspection again), with a snapshot of the FIRST construction with those arguments; AtomGrid(degrees | sizes | from_pruned; centre; rotate 0 or seed); get_shell_grid(i, r_sq); integrate; "
    "MolGrid(1-3 atoms, Becke or explicit weights, store on/off); transform / deriv / deriv2 / deriv3 / inverse / deriv*_inverse / "
    "transform_1d_grid / set_maximum_parameter_b in random order on LinearInfinite/Exp/Power (b given, or inferred from the first array seen) "
    "and Hyperbolic instances; transform SESSIONS on one instance of any of the 12 transform classes (Exp, Power, LinearInfinite, Hyperbolic, Becke, Knowles, "
    "Handy, HandyMod, MultiExp, LinearFinite, Identity, Inverse): the SAME argument array object (and a OneDGrid holding it) is reused across successive calls of "
    "different methods, interleaved with in-place sentinel edits of arrays RETURNED by earlier calls and in-place admissible changes of the ARGUMENT array; after every "
    "step every method is called again with the same objects (random order) and must equal, bit for bit, a fresh instance (same b) evaluated on a COPY of the current "
    "values (family transform-reuse: 12 classes x 6 (quick) / 60 (thorough) such sessions, deterministic class coverage); "
    "size/degree requests (op ang_size_degree + deterministic family size-overrides-degree: 4 methods x warm-up kind x warm-up route): the cache is warmed with exactly one "
    "degree of a method (supported, unsupported -> resolved upwards, or the default 50; through AngularGrid(cache=True) or through AtomGrid shells), then grids are requested by "
    "size= alone (default degree) and by size= TOGETHER with an explicit degree (the warmed one, its resolved value, another supported or unsupported one; positional or keyword, "
    "Python or NumPy int) with cache on and off - the result must report the size-resolved row and equal its shipped file AND the reference produced by a COLD process "
    "(fresh interpreter, cache=False throughout, one per worker at start-up); re-constructions after edits also mix size= with an earlier (cached) degree; AtomGrid sizes= is "
    "also given together with an (ignored) degrees list; "
    "ABORTED constructions (op aborted + deterministic family aborted-by-warning: Lebedev 13/25/27 x 8 routes x first-construction-of-that-degree / already cached): "
    "AngularGrid (by degree, by a degree rounding up to it, by size), AtomGrid (degrees, sizes), MolGrid (constructor, from_size) with cache on, or the first PowerRTransform.transform "
    "of an instance, executed inside warnings.catch_warnings()+simplefilter('error') with any Warning swallowed by the caller (the documented negative-weights / size-is-used / "
    "power<2 warnings abort the call midway); the aborted call decides nothing, filters are restored, then the usual observations decide: the degrees involved are constructed again "
    "with cache on and off and must equal the shipped file and the cold-process reference, the atomic grid is re-built and compared; warning degrees are drawn with probability 0.75; "
    "molecular constructors with their DEFAULT rgrid=None (op mol_default + deterministic family default-rgrid-molecules: MolGrid.from_size / from_preset / from_pruned over 10 "
    "configurations with several and repeated elements, store on/off): the edit targets are collected by walking the PUBLIC ATTRIBUTE GRAPH of every returned object to depth 3 "
    "(atgrids[i].rgrid.points/.weights, atgrids[i].points/.weights/.indices/.degrees/.center, get_atomic_grid(i).rgrid.*, AtomGrid.rgrid.* ...); after each edit the molecule is "
    "built again with identical arguments and must equal the digest produced by a COLD process and, attribute by attribute, the first construction; "
    "load_atomic_gaussian_params(symbol|number); get_cov_radii; <METHOD>_CACHE.clear(). "
    "After EVERY operation: (a) structural walk of the discovered module-level caches against the shipped files (evidence; a corrupt "
    "entry aims an API observation at it); (b) deciding, API only: the objects the operation concerns are constructed again with cache on AND "
    "off and compared with the ABSOLUTE model (angular arrays bit-identical to the shipped file x 4pi where applicable; atomic/molecular grids "
    "= centre + r_i * pristine sphere * Q, weights w_i r_i^2 W; transform results bit-identical to a fresh instance constructed with the model b; "
    "Coulomb table == JSON), a random earlier object is re-observed, and every not-edited array of a random live object must still equal the model. "
    "Every history ENDS with the full set of deciding observations over everything it touched, so a case is decided by what it must see, never by "
    "what an earlier case left. A post-condition attached to AngularGrid.__init__ applies the file comparison to every construction in the process, "
    "including the incidental ones inside AtomGrid. Deterministic family aliasing-witness (4 methods x points/weights x first construction cached or "
    "not, runs first in every tier). A history is non-trivial when at least one deciding comparison was made."
)
ASSUMPTIONS = [
    "a call aborted by a warning raised as an exception may leave no object behind, but must not change what later calls return (b of a transform is inferred from the first array "
    "SEEN, also when that call was then aborted by the power<2 warning: the library and the model agree on that)",
    "when both degree and size are given, size decides (AngularGrid docstring: 'If both degree and size are given, size is used'); the cold-process reference is the library's own answer "
    "in a fresh interpreter that never caches (second reference next to the shipped file, not a replacement for it)",
    "model of an angular grid = the shipped npz read by the harness (weights x 4pi for lebedev/spherical); exactness of those files is C02's subject",
    "scale b of a b-inferring transform = maximum of the first array passed to a method whose result depends on b (for LinearInfiniteRTransform deriv2/deriv3 "
    "are identically zero and do not depend on b: the workload never uses them as the first call on an instance without b)",
    "arrays of a returned object that the workload edited are excluded from later comparisons of THAT object only; objects constructed later are always compared in full",
    "LocalGrid objects are views of their parent by design: they are edit targets, an edit of parent or child excludes both from later comparisons of themselves (k-d trees are C10's subject)",
    "editing an array that IS an object's own state (grid.weights, atgrid.center, atgrid.rgrid.points, molgrid.atcoords ...) may change that object; the property forbids effects on OTHER / LATER objects and on module-level state only",
    "history independence of the covalent-radius tables is judged against a snapshot taken through the public API before the first history",
]
LEVEL_TEXT = (
    "Runtime monitoring of seeded random API histories (constructions with cache on/off over 4 methods, shell extraction, rotation, integration, "
    "in-place edits carrying unique sentinels, transform calls in any order, table loads) against an absolute executable model; held = no history explored "
    "shows a later result that differs from the model."
)
TECHNIQUE = "runtime monitoring: history monitor with absolute reference model (shipped files, fresh instances, JSON), sentinel-tagged in-place writes, cache-walk invariant, post-condition on AngularGrid.__init__"
METHODS = ["lebedev", "spherical", "maxdet", "ahrens_beylkin"]
SIZE_CAP_ANG = {"lebedev": 1202, "spherical": 1000, "maxdet": 1700, "ahrens_beylkin": 800}
SIZE_CAP_SHELL = {"lebedev": 350, "spherical": 330, "maxdet": 400, "ahrens_beylkin": 320}
OPS = ["ang_new", "edit", "atom_new", "shell", "integrate", "mol_new", "tf_new", "tf_call", "gauss", "cov", "cache_clear", "tf_session", "localgrid", "sph", "ang_size_degree", "aborted", "mol_default"]
WEIGHTS = {
    "mixed": [5, 7, 3, 3, 2, 1, 1.5, 4, 2, 1, 0.4, 2, 1, 0.7, 2, 2, 1],
    "angular-edit": [7, 8, 1, 1, 1, 0, 0, 0, 0, 0, 0.6, 0, 0.7, 0, 3, 3, 0],
    "atom-mol": [2, 9, 5, 4, 2, 2.5, 0, 0, 0, 0, 0.3, 0, 1.5, 1, 1.5, 2.5, 2],
    "transform": [0.5, 3, 0, 0, 0, 0, 2, 8, 0, 0, 0, 5, 0, 0, 0, 0.7, 0],
    "tables": [0.5, 5, 0, 0, 0, 0, 0, 0, 5, 3, 0, 0, 0, 0, 0, 0, 0],
}
SHARE = {"mixed": 0.40, "angular-edit": 0.20, "atom-mol": 0.20, "transform": 0.12, "tables": 0.08}
COST = {"mixed": 1.0, "angular-edit": 0.8, "atom-mol": 1.6, "transform": 0.4, "tables": 0.3}
N_HIST = {"quick": 448, "thorough": 5600}
TF_CLASSES = ["LinearInfiniteRTransform", "ExpRTransform", "PowerRTransform", "HyperbolicRTransform"]
FWD = ["transform", "deriv", "deriv2", "deriv3", "set_maximum_parameter_b", "transform_1d_grid"]
INV = ["inverse", "deriv_inverse", "deriv2_inverse", "deriv3_inverse"]
SESSION_CLASSES = [
    "ExpRTransform",
    "PowerRTransform",
    "LinearInfiniteRTransform",
    "HyperbolicRTransform",
    "BeckeRTransform",
    "KnowlesRTransform",
    "HandyRTransform",
    "HandyModRTransform",
    "MultiExpRTransform",
    "LinearFiniteRTransform",
    "IdentityRTransform",
    "InverseRTransform",
]
FWD4 = ["transform", "deriv", "deriv2", "deriv3"]
_C2 = [[0.0, 0.0, 0.0], [0.0, 0.0, 1.4]]
_C3 = [[0.0, 0.0, 0.0], [0.0, 1.4, 1.1], [0.0, -1.4, 1.1]]
# molecular constructors called with their DEFAULT rgrid=None (several elements, repeated elements); JSON-able
MOLDEF = [
    ["from_size", [1, 1], _C2, {"size": 6}],
    ["from_size", [8, 1, 1], _C3, {"size": 14}],
    ["from_size", [6, 6], _C2, {"size": 26}],
    ["from_size", [7, 1, 7], _C3, {"size": 6}],
    ["from_preset", [1, 1], _C2, {"preset": "coarse"}],
    ["from_preset", [8, 1, 1], _C3, {"preset": "coarse"}],
    ["from_preset", [7, 7], _C2, {"preset": "sg_1"}],
    ["from_pruned", [1, 1], _C2, {"radius": 1.0, "r_sectors": [[0.5, 1.0, 1.5]] * 2, "d_sectors": [[3, 5, 7, 5]] * 2}],
    ["from_pruned", [6, 8, 8], _C3, {"radius": [1.2, 1.0, 1.0], "r_sectors": [[0.5, 1.5]] * 3, "d_sectors": [[3, 7, 5]] * 3}],
    ["from_pruned", [1, 6, 1], _C3, {"radius": 1.0, "r_sectors": [[1.0]] * 3, "d_sectors": [[5, 3]] * 3}],
]
NEG_LEBEDEV = [13, 25, 27]  # Lebedev degrees with negative weights: their construction emits a (documented) warning
ABORT_ROUTES = ["ang-degree", "ang-rounded-degree", "ang-size", "atom-degrees", "atom-sizes", "mol", "mol-from-size", "power-transform"]
ELEMENTS = {"H": 1, "C": 6, "N": 7, "O": 8, "Cl": 17}
MAX_LIVE = 14
_cov_snapshot = {}


# ------------------------------------------------------------------------------------------------ cases
def cases(tier, seed):
    out = []
    i = 0
    for m in METHODS:
        for attr in ("points", "weights"):
            for first_cache in (True, False):
                out.append(("aliasing-witness", {"method": m, "attr": attr, "first_cache": first_cache, "hid": 60000 + i}, 1e9))
                i += 1
    out.append(("recorded-not-decided", {"hid": 60100}, 1e8))
    j = 0
    for m in METHODS:
        for warm in ("supported", "unsupported", "default"):
            for via in ("ang", "atom"):
                for k in range(1 if tier == "quick" else 8):
                    out.append(("size-overrides-degree", {"method": m, "warm": warm, "via": via, "k": k, "hid": 62000 + j}, 30.0))
                    j += 1
    j = 0
    for d in NEG_LEBEDEV:
        for route in ABORT_ROUTES:
            for first in (True, False):
                for k in range(1 if tier == "quick" else 4):
                    out.append(("aborted-by-warning", {"degree": d, "route": route, "first": first, "k": k, "hid": 63000 + j}, 40.0))
                    j += 1
    j = 0
    for i in range(len(MOLDEF)):
        for k in range(2 if tier == "quick" else 12):
            out.append(("default-rgrid-molecules", {"config": i, "k": k, "hid": 64000 + j}, 35.0))
            j += 1
    nrep = 6 if tier == "quick" else 60
    j = 0
    for cls in SESSION_CLASSES:
        for k in range(nrep):
            out.append(("transform-reuse", {"cls": cls, "k": k, "hid": 61000 + j}, 20.0))
            j += 1
    rng = np.random.default_rng([int(seed) & 0xFFFFFFFF, 19])
    n = N_HIST[tier]
    hid = 0
    for fam, share in SHARE.items():
        for k in range(int(round(n * share))):
            nops = int(rng.integers(10, 41))
            out.append((fam, {"hid": hid, "k": k, "nops": nops}, nops * COST[fam]))
            hid += 1
    return out


# ------------------------------------------------------------------------------------------------ setup
def setup(ctx):
    datafiles.self_test()
    import grid  # noqa: F401  (imports every sub-module, so that discovery sees them)
    from grid.utils import get_cov_radii

    # oracle self-tests
    p, w = datafiles.pristine_sphere("lebedev", 3, 6)
    if p.shape != (6, 3) or abs(w.sum() - 4 * np.pi) > 1e-12:
        raise RuntimeError("datafiles: lebedev_3_6 is not the octahedron rule")
    s = H.sentinel(70000, 1, "selftest")
    d = H.decode(np.array([0.1, s * 0.37, 2.0]), scales=(1.0, 0.37))
    if not d or d.get("hist") != 70000 or d.get("op") != 1:
        raise RuntimeError("sentinel decode self-test failed")
    if H.decode(np.array([0.5, -3.0, 7.25])) is not None:
        raise RuntimeError("sentinel decode names a write in a clean array")
    found = H.discover(force=True)
    ctx.count("caches-discovered", len(found))
    for mname, attr in found:
        ctx.count(f"cache-discovered:{mname}.{attr}")
    for t in ("bragg", "cambridge", "alvarez"):
        _cov_snapshot[t] = np.array(get_cov_radii(np.arange(1, 87), t), dtype=float)
        _cov_snapshot[t].setflags(write=False)
    rows = []
    for m in METHODS:
        rows += [(m, d, s) for d, s in _pool(m, SIZE_CAP_ANG[m])]
        r50 = tuple(int(v) for v in datafiles.resolve(m, degree=50))
        if (m,) + r50 not in rows:
            rows.append((m,) + r50)
    cold = H.cold_reference(rows)
    bad = [k for k in rows if cold[k][:2] != (k[1], k[2])]
    if bad:
        # a COLD request by size does not give the supported row of that size: C12's subject, and no reference for C19
        raise RuntimeError(f"cold-process reference reports other rows than requested for {bad[:3]}")
    ctx.count("cold-process-reference-rows", len(rows))
    H.cold_mol_reference(MOLDEF)
    H.install_angular_monitor(ctx)


# ------------------------------------------------------------------------------------------------ helpers
def _pool(method, cap):
    return [(d, s) for d, s in datafiles.table(method) if s <= cap]


def _request(rng, method, cap):
    """Random admissible request -> (kwargs for AngularGrid, model (degree,size))."""
    rows = _pool(method, cap)
    dmax, smax = rows[-1]
    u = rng.random()
    if u < 0.45:
        d = int(rows[int(rng.integers(len(rows)))][0])
        kw = {"degree": d}
    elif u < 0.7:
        d = int(rng.integers(0, dmax + 1))
        kw = {"degree": d}
    else:
        s = int(rng.integers(1, smax + 1))
        kw = {"size": s}
    if "degree" in kw:
        want = datafiles.resolve(method, degree=kw["degree"])
        if rng.random() < 0.25:
            kw["degree"] = np.int64(kw["degree"])
    else:
        want = datafiles.resolve(method, size=kw["size"])
        if rng.random() < 0.25:
            kw["size"] = np.int64(kw["size"])
    return kw, want


class History:
    def __init__(self, ctx, hid, family):
        self.ctx, self.hid, self.family, self.rng = ctx, int(hid), family, ctx.rng
        self.op = 0
        self.live = []
        self.touched = {}  # (method, deg, size) -> True
        self.specs = []  # atom / mol specs of this history
        self.syms = set()
        self.tfs = []
        self.log = []
        self.seen_corrupt = set()
        self.sessions = []

    # -------------------------------------------------------------------------------------------- bookkeeping
    def add(self, rec):
        rec.setdefault("dirty", set())
        if "group" not in rec:
            self._gid = getattr(self, "_gid", 0) + 1
            rec["group"] = self._gid
        self.live.append(rec)
        if len(self.live) > MAX_LIVE:
            self.live.pop(0)
        return rec

    def guard(self, subj):
        return self.ctx.guard("no-exception-in-history", subj)

    def arrays_of(self, rec):
        k = rec["kind"]
        if k in ("ang", "shell", "oned", "local"):
            return ["points", "weights"]
        if k == "atom":
            return ["points", "weights"]
        if k == "mol":
            return ["points", "weights", "atweights"]
        return list(rec.get("arrays", {}))

    def get_array(self, rec, name):
        if "arrays" in rec:
            return rec["arrays"][name]
        return getattr(rec["obj"], name)

    # -------------------------------------------------------------------------------------------- observations
    def observe_angular(self, method, deg, size, why):
        """Deciding: construct (method, degree) again with cache on and off and compare with the shipped file."""
        from grid.angular import AngularGrid

        order = [True, False] if self.rng.random() < 0.5 else [False, True]
        for cache in order:
            subj = f"AngularGrid[{method}] cache={'on' if cache else 'off'}"
            with self.guard(subj) as gd:
                u = self.rng.random()
                if u < 0.6:
                    g = AngularGrid(degree=int(deg), method=method, cache=cache)
                elif u < 0.8:
                    g = AngularGrid(size=int(size), method=method, cache=cache)
                else:
                    # size together with an explicit degree that was constructed (and possibly cached) earlier: size decides
                    others = [k[1] for k in self.touched if k[0] == method]
                    dq = int(others[int(self.rng.integers(len(others)))]) if others else int(deg)
                    g = AngularGrid(degree=dq, size=int(size), method=method, cache=cache)
                    self.ctx.hit("request:size-with-explicit-degree")
            if not gd.ok:
                continue
            self.ctx.hit("observe:cache-on" if cache else "observe:cache-off")
            H.check_request(self.ctx, subj, g, method, deg, size, detail={"observed_after": why, "hist": self.hid, "op": self.op})

    def build_atom(self, spec):
        from grid.atomgrid import AtomGrid
        from grid.basegrid import OneDGrid

        rg = OneDGrid(np.array(spec["r"]), np.array(spec["wr"]), (0, np.inf))
        kw = dict(spec["kw"])
        if spec["centre"] is not None:
            kw["center"] = np.array(spec["centre"])
        elif spec.get("explicit_origin"):
            kw["center"] = np.zeros(3)
        if not kw:
            self.ctx.hit("construct:all-defaults")
        if spec["mode"] == "pruned":
            return AtomGrid.from_pruned(rg, spec["radius"], **kw), rg
        return AtomGrid(rg, **kw), rg

    def check_atom(self, clause, subj, at, spec, which=("points", "weights"), indices=True, attributes=False):
        ok = H.check_atom_arrays(self.ctx, clause, subj, at.points, at.weights, at.indices if indices else None, spec, which=which)
        if attributes:
            # the other array-valued public attributes the model knows: centre, per-shell degrees, radial grid
            c = np.zeros(3) if spec["centre"] is None else np.asarray(spec["centre"], dtype=float)
            for name, got, want in (
                ("center", np.asarray(at.center, dtype=float), c),
                ("degrees", np.asarray(list(at.degrees), dtype=float), np.asarray([d for d, _ in spec["rows"]], dtype=float)),
                ("rgrid.points", np.asarray(at.rgrid.points, dtype=float), np.asarray(spec["r"], dtype=float)),
                ("rgrid.weights", np.asarray(at.rgrid.weights, dtype=float), np.asarray(spec["wr"], dtype=float)),
            ):
                good = H.same_bits(got, want)
                sig = None
                det = {"hist": self.hid, "op": self.op}
                if not good:
                    sig, d2 = H.corruption_sig(got, want)
                    det.update(d2)
                    ok = False
                self.ctx.check(clause, f"{subj}.{name}", good, sig=sig, detail=det)
        return ok

    def observe_atom(self, spec, why):
        """Deciding: construct the same atomic grid again and compare with the model and with its first construction."""
        subj = f"AtomGrid[{spec['method']}:{spec['mode']}]"
        with self.guard(subj) as gd:
            at, _ = self.build_atom(spec)
        if not gd.ok:
            return None
        self.check_atom("atomgrid-product-identity", subj, at, spec, attributes=True)
        if "snap" in spec:
            ok = H.same_bits(at.points, spec["snap"][0]) and H.same_bits(at.weights, spec["snap"][1])
            sig = None
            if not ok:
                sig, _ = H.corruption_sig(at.weights, spec["snap"][1])
            self.ctx.check("same-arguments-same-result", subj, ok, sig=sig, detail={"observed_after": why, "hist": self.hid, "op": self.op})
        if "snap_public" in spec:
            self.compare_snapshot(subj, at, spec["snap_public"], why)
        if spec["centre"] is None and self.rng.random() < 0.5:
            # the same grid with the centre given the OTHER way (explicit origin <-> default None) must be the same grid
            twin = dict(spec)
            twin["explicit_origin"] = not spec.get("explicit_origin", False)
            with self.guard(subj + " twin") as gd2:
                at2, _ = self.build_atom(twin)
            if gd2.ok:
                self.check_atom("atomgrid-product-identity", subj + (" explicit-origin" if twin["explicit_origin"] else " default-centre"), at2, spec, attributes=True)
        for d, s in set(spec["rows"]):
            self.touched[(spec["method"], d, s)] = True
        return at

    def compare_snapshot(self, subj, obj, snap, why):
        """Every array-valued public attribute found by introspection equals what the FIRST construction with these
        arguments showed (bitwise)."""
        bad = H.compare_public(obj, snap)
        self.ctx.count("public-arrays-compared-with-first-construction", len(snap))
        if not bad:
            self.ctx.check("same-arguments-same-result", subj + ".<public arrays>", True)
            return
        for name, got, ref in bad[:3]:
            sig, det = ("attribute-missing", {}) if got is None else H.corruption_sig(got, ref)
            det.update({"attribute": name, "observed_after": why, "hist": self.hid, "op": self.op})
            self.ctx.check("same-arguments-same-result", f"{subj}.{name}", False, sig=sig, detail=det)

    def build_mol(self, ms):
        from grid.becke import BeckeWeights
        from grid.molgrid import MolGrid

        if ms.get("ctor") == "default-rgrid":
            ctor, atnums, coords, kw = MOLDEF[ms["config"]]
            self.ctx.hit("mol_default:" + ctor)
            kw = dict(kw)
            if ms["store"]:
                kw["store"] = True
            return getattr(MolGrid, ctor)(np.array(atnums), np.array(coords, dtype=float), **kw)  # rgrid=None, rotate, aim_weights: defaults
        if ms.get("ctor") == "from_size":
            from grid.basegrid import OneDGrid

            sp0 = ms["atoms"][0]
            rg = OneDGrid(np.array(sp0["r"]), np.array(sp0["wr"]), (0, np.inf))
            coords = np.array([sp["centre"] for sp in ms["atoms"]])
            self.ctx.hit("construct:all-defaults")
            if ms["store"]:
                return MolGrid.from_size(np.array(ms["atnums"]), coords, ms["size"], rgrid=rg, store=True)
            return MolGrid.from_size(np.array(ms["atnums"]), coords, ms["size"], rgrid=rg)  # aim_weights, rotate, store: defaults
        ats = [self.build_atom(sp)[0] for sp in ms["atoms"]]
        size = sum(a.size for a in ats)
        aim = BeckeWeights(order=3) if ms["aim"] == "becke" else np.ones(size)
        return MolGrid(np.array(ms["atnums"]), ats, aim, store=ms["store"])

    def check_mol(self, clause, subj, mol, ms, skip=()):
        ctx = self.ctx
        if ms.get("ctor") == "default-rgrid":
            if {"points", "weights"} & set(skip):
                return
            ref = H.cold_mol_reference(MOLDEF)[ms["config"]]
            got = H.mol_digest(mol)
            sig = None
            if got != tuple(ref):
                sig = "differs-from-cold-process:" + ("point-count" if got[0] != ref[0] else ("points" if got[1] != ref[1] else "weights"))
            ctx.check("molgrid-equals-cold-process", subj, sig is None, sig=sig, detail={"config": MOLDEF[ms["config"]][:2], "size": got[0], "cold_size": ref[0], "hist": self.hid, "op": self.op})
            return
        sizes = [sum(s for _, s in sp["rows"]) for sp in ms["atoms"]]
        ind = np.concatenate([[0], np.cumsum(sizes)])
        if not np.array_equal(np.asarray(mol.indices), ind) or mol.points.shape != (ind[-1], 3):
            ctx.check(clause, subj + ".indices", False, sig="atom-blocks-differ-from-model", detail={"got": np.asarray(mol.indices)[:6], "want": ind[:6]})
            return
        which = tuple(n for n, a in (("points", "points"), ("weights", "atweights")) if a not in skip)
        want_c = np.array([np.zeros(3) if sp["centre"] is None else sp["centre"] for sp in ms["atoms"]], dtype=float)
        goodc = H.same_bits(np.asarray(mol.atcoords, dtype=float), want_c)
        sigc = None
        if not goodc:
            sigc, _ = H.corruption_sig(mol.atcoords, want_c)
        ctx.check(clause, subj + ".atcoords", goodc, sig=sigc)
        for i, sp in enumerate(ms["atoms"]):
            a, b = int(ind[i]), int(ind[i + 1])
            H.check_atom_arrays(ctx, clause, subj, mol.points[a:b], mol.atweights[a:b], None, sp, which=which)
        if not ({"weights", "atweights", "aim_weights"} & set(skip)):
            ref = np.asarray(mol.atweights) * np.asarray(mol.aim_weights)
            den = np.where(ref != 0, np.abs(ref), 1.0)
            m = float(np.max(np.abs(np.asarray(mol.weights) - ref) / den))
            sig = None
            if not m <= 1e-14:
                sig, _ = H.corruption_sig(mol.weights, ref)
            ctx.check(clause, subj + ".weights==atweights*aim", m, 1e-14, sig=sig)
            if ms["aim"] == "ones":
                ctx.check(clause, subj + ".aim_weights", bool(np.all(np.asarray(mol.aim_weights) == 1.0)), sig="explicit-aim-weights-changed")

    def observe_mol(self, ms, why):
        subj = f"MolGrid.{MOLDEF[ms['config']][0]}[rgrid=None]" if ms.get("ctor") == "default-rgrid" else f"MolGrid[{ms['atoms'][0]['method']}:{ms['aim']}:store={ms['store']}]"
        with self.guard(subj) as gd:
            mol = self.build_mol(ms)
        if not gd.ok:
            return None
        self.check_mol("molgrid-blocks-identity", subj, mol, ms)
        if "snap" in ms:
            ok = H.same_bits(mol.points, ms["snap"][0]) and H.same_bits(mol.weights, ms["snap"][1])
            sig = None
            if not ok:
                sig, _ = H.corruption_sig(mol.weights, ms["snap"][1])
            self.ctx.check("same-arguments-same-result", subj, ok, sig=sig, detail={"observed_after": why, "hist": self.hid, "op": self.op})
        if "snap_public" in ms:
            self.compare_snapshot(subj, mol, ms["snap_public"], why)
        return mol

    def fresh_tf(self, rec):
        import grid.rtransform as rt

        if "factory" in rec:
            return rec["factory"]()
        cls = getattr(rt, rec["cls"])
        if rec["cls"] == "HyperbolicRTransform":
            return cls(*rec["args"])
        return cls(rec["args"][0], rec["args"][1], b=rec["b"])

    def compare_tf(self, rec, meth, x, res, why):
        """Result of the real instance vs a fresh instance constructed with the model b."""
        from grid.basegrid import OneDGrid

        ctx = self.ctx
        subj = f"{rec['cls']}.{meth}[{'b-inferred' if rec['infer'] else 'b-given'}]"
        model = self.fresh_tf(rec)
        if meth == "transform_1d_grid":
            want = model.transform_1d_grid(OneDGrid(np.array(x[0]), np.array(x[1]), x[2]))
            pairs = [("points", res.points, want.points), ("weights", res.weights, want.weights), ("domain", np.asarray(res.domain, dtype=float), np.asarray(want.domain, dtype=float))]
        elif meth == "set_maximum_parameter_b":
            pairs = []
        else:
            want = getattr(model, meth)(np.array(x))
            pairs = [("result", res, want)]
        for name, got, ref in pairs:
            ok = H.same_bits(np.asarray(got, dtype=float), np.asarray(ref, dtype=float))
            sig, det = None, {"observed_after": why, "hist": self.hid, "op": self.op, "model_b": None if rec["b"] is None else float(rec["b"])}
            if not ok:
                sig, d2 = H.corruption_sig(got, ref)
                det.update(d2)
                rb = getattr(rec["obj"], "b", None)
                det["instance_b"] = None if rb is None else float(rb)
                if rec["cls"] != "HyperbolicRTransform" and rb is not None and rec["b"] is not None and float(rb) != float(rec["b"]):
                    sig = "instance-scale-differs-from-first-inferred"
            ctx.check("transform-equals-fresh-instance", subj, ok, sig=sig, detail=det)
        if rec["cls"] != "HyperbolicRTransform":
            rb = rec["obj"].b
            same = (rb is None and rec["b"] is None) or (rb is not None and rec["b"] is not None and float(rb) == float(rec["b"]))
            ctx.check(
                "transform-scale-fixed-once",
                f"{rec['cls']}.b[{'b-inferred' if rec['infer'] else 'b-given'}]",
                bool(same),
                sig="b-changed-after-" + meth,
                detail={"instance_b": None if rb is None else float(rb), "model_b": None if rec["b"] is None else float(rec["b"]), "hist": self.hid, "op": self.op},
            )

    def observe_tf(self, rec, why):
        if rec["b"] is None and rec["cls"] != "HyperbolicRTransform":
            return  # nothing seen yet: no scale to compare
        n = 6
        x = np.arange(n, dtype=float)
        for meth in ("transform", "deriv", "inverse"):
            if meth == "inverse":
                if rec["cls"] == "HyperbolicRTransform":
                    arg = np.linspace(0.1, 3.0, n)
                else:
                    arg = np.linspace(rec["args"][0], rec["args"][1], n + 2)[1:-1]
            else:
                arg = x
            with self.guard(f"{rec['cls']}.{meth}") as gd:
                res = getattr(rec["obj"], meth)(np.array(arg))
            if gd.ok:
                self.compare_tf(rec, meth, arg, res, why)

    def observe_gauss(self, sym, why):
        from grid.coulomb import load_atomic_gaussian_params

        ctx = self.ctx
        variants = [sym, sym.lower(), f" {sym.upper()} ", ELEMENTS[sym], np.int64(ELEMENTS[sym])]
        el = variants[int(self.rng.integers(len(variants)))]
        subj = "load_atomic_gaussian_params"
        with self.guard(subj) as gd:
            c, a = load_atomic_gaussian_params(el)
        if not gd.ok:
            return None
        ref = datafiles.gauss_params()[sym]
        for name, got, key in (("coeffs_s", c, "coeffs_s"), ("alphas_s", a, "alphas_s")):
            want = np.asarray(ref[key], dtype=float)
            ok = H.same_bits(np.asarray(got), want)
            sig, det = None, {"element": sym, "observed_after": why, "hist": self.hid, "op": self.op}
            if not ok:
                sig, d2 = H.corruption_sig(got, want)
                det.update(d2)
            ctx.check("coulomb-table-equals-json", f"{subj}.{name}", ok, sig=sig, detail=det)
        return c, a

    def observe_cov(self, atn, ctype, why):
        from grid.utils import get_cov_radii

        subj = f"get_cov_radii[{ctype}]"
        with self.guard(subj) as gd:
            res = get_cov_radii(atn if isinstance(atn, (int, np.integer)) else np.array(atn), ctype)
        if not gd.ok:
            return None
        idx = np.atleast_1d(np.asarray(atn)) - 1
        want = _cov_snapshot[ctype][idx]
        ok = H.same_bits(np.asarray(res, dtype=float), want)
        sig, det = None, {"observed_after": why, "hist": self.hid, "op": self.op}
        if not ok:
            sig, d2 = H.corruption_sig(res, want)
            det.update(d2)
        self.ctx.check("covalent-radii-stable", subj, ok, sig=sig, detail=det)
        return res

    def check_live(self, rec, why):
        """Every array of a previously returned object that the workload did NOT edit must still equal the model."""
        ctx = self.ctx
        k = rec["kind"]
        if rec.get("tainted"):
            return  # the workload edited state this object legitimately owns/shares: its own later values are not judged
        clean = [n for n in self.arrays_of(rec) if n not in rec["dirty"]]
        if not clean:
            return
        clause = "live-untouched-unchanged"
        if k == "ang":
            H.check_angular(ctx, clause, f"earlier AngularGrid[{rec['method']}]", rec["obj"], rec["method"], rec["deg"], rec["size"], which=clean, extra={"observed_after": why, "hist": self.hid, "op": self.op})
        elif k == "shell":
            sp = rec["spec"]
            i = rec["index"]
            d, s = sp["rows"][i]
            ri, wi = float(sp["r"][i]), float(sp["wr"][i])
            wfac = wi * ri**2 if rec["r_sq"] else wi
            H.check_shell_arrays(ctx, clause, f"earlier shell grid[{sp['method']}]", rec["obj"].points, rec["obj"].weights, sp["method"], d, s, ri, wfac, None, bool(sp["rotate"]), do_points="points" in clean, do_weights="weights" in clean)
        elif k == "atom":
            # AtomGrid.points is a fresh array at every access: always comparable
            which = ("points",) + (("weights",) if "weights" in clean else ())
            self.check_atom(clause, f"earlier AtomGrid[{rec['spec']['method']}]", rec["obj"], rec["spec"], which=which)
        elif k == "mol":
            self.check_mol(clause, f"earlier MolGrid[{rec['spec']['aim']}]", rec["obj"], rec["spec"], skip=rec["dirty"])
        elif k in ("tfres", "gauss", "cov", "oned", "local", "sph"):
            for n in clean:
                ref = rec["ref"][n]
                got = self.get_array(rec, n)
                ok = H.same_bits(np.asarray(got, dtype=float), np.asarray(ref, dtype=float))
                sig = None
                det = {"observed_after": why, "hist": self.hid, "op": self.op}
                if not ok:
                    sig, d2 = H.corruption_sig(got, ref)
                    det.update(d2)
                ctx.check(clause, f"earlier {rec['label']}.{n}", ok, sig=sig, detail=det)

    def structural(self):
        """(a) quiescent-point walk of the module-level caches; corrupt entries aim an API observation."""
        self.ctx.hit("cache-walk")
        for method, deg, size in H.walk_caches(self.ctx):
            if (method, deg, size) in self.seen_corrupt:
                continue  # already aimed at in this history (a persistent corruption is re-observed once per history)
            self.seen_corrupt.add((method, deg, size))
            if method == "coulomb":
                for sym in ELEMENTS:
                    self.observe_gauss(sym, "cache-walk found a corrupt Coulomb table")
            else:
                self.observe_angular(method, deg, size, "cache-walk found a corrupt entry")

    def after_op(self, why):
        self.structural()
        if self.touched and self.rng.random() < 0.5:
            keys = list(self.touched)
            m, d, s = keys[int(self.rng.integers(len(keys)))]
            self.observe_angular(m, d, s, why + " (random earlier grid)")
        if self.live:
            self.check_live(self.live[int(self.rng.integers(len(self.live)))], why)

    def finish(self):
        """Deciding observations over everything this history touched (a history always ends with them)."""
        why = "end of history"
        self.structural()
        keys = list(self.touched)
        if len(keys) > 10:
            keys = [keys[i] for i in self.rng.choice(len(keys), 10, replace=False)]
        for m, d, s in keys:
            self.observe_angular(m, d, s, why)
        for sp in self.specs[-4:]:
            if sp.get("is_mol"):
                self.observe_mol(sp, why)
            else:
                self.observe_atom(sp, why)
        for rec in self.tfs[-6:]:
            self.observe_tf(rec, why)
        for sym in sorted(self.syms):
            self.observe_gauss(sym, why)
        for ss in self.sessions[-4:]:
            self.session_sweep(ss, why)
        for rec in self.live:
            self.check_live(rec, why)
        ch = H.changed_constants()
        self.ctx.count("module-level-containers-compared-at-history-end")
        if ch:
            self.ctx.observe("module-level container of grid.* changed during a history (not a cache by name)", names=ch[:6], hist=self.hid)

    # -------------------------------------------------------------------------------------------- operations
    def op_ang_new(self, method=None):
        from grid.angular import AngularGrid

        rng = self.rng
        method = method or METHODS[int(rng.integers(4))]
        kw, (d, s) = _request(rng, method, SIZE_CAP_ANG[method])
        cache = bool(rng.random() < 0.6)
        alldef = rng.random() < 0.06
        if alldef:
            method, cache, kw = "lebedev", True, {}
            d, s = (int(v) for v in datafiles.resolve("lebedev", degree=50))
        subj = f"AngularGrid[{method}] cache={'on' if cache else 'off'}"
        with self.guard(subj) as gd:
            if alldef:
                g = AngularGrid()  # every argument left at its default
                self.ctx.hit("construct:all-defaults")
            else:
                g = AngularGrid(method=method, cache=cache, **kw)
        if not gd.ok:
            return
        self.ctx.hit("op:ang_new")
        self.ctx.count(f"class:ang_new:{method}:{'size' if 'size' in kw else 'degree'}:cache={'on' if cache else 'off'}")
        self.touched[(method, d, s)] = True
        H.check_angular(self.ctx, "angular-equals-shipped", subj, g, method, d, s, extra={"request": {k: int(v) for k, v in kw.items()}, "hist": self.hid, "op": self.op})
        self.add({"kind": "ang", "obj": g, "method": method, "deg": d, "size": s, "label": f"AngularGrid[{method}]"})
        self.log.append(f"ang_new({method},{d},{'c' if cache else 'n'})")

    def taint(self, rec):
        """The object (and everything that legitimately shares state with it: parent/child views, stored atomic grids)
        is excluded from later comparisons of ITSELF; objects constructed later are always compared in full."""
        for r in self.live:
            if r is rec or r.get("group") == rec.get("group"):
                r["tainted"] = True

    def observe_related(self, rec, why):
        """Deciding observations aimed at what an edited object was built from: fresh constructions equal the model."""
        k = rec["kind"]
        if k == "ang":
            self.observe_angular(rec["method"], rec["deg"], rec["size"], why)
        elif k == "shell":
            sp = rec["spec"]
            d, s = sp["rows"][rec["index"]]
            self.observe_angular(sp["method"], d, s, why)
            self.observe_atom(sp, why)
        elif k == "atom":
            self.observe_atom(rec["spec"], why)
            d, s = rec["spec"]["rows"][0]
            self.observe_angular(rec["spec"]["method"], d, s, why)
        elif k == "mol":
            self.observe_mol(rec["spec"], why)
            if rec["spec"].get("atoms"):
                self.observe_atom(rec["spec"]["atoms"][0], why)
        elif k in ("tfres", "oned"):
            self.recall_tf(rec, why)
        elif k == "gauss":
            self.observe_gauss(rec["sym"], why)
        elif k == "cov":
            self.observe_cov(rec["atn"], rec["ctype"], why)
        elif k in ("local", "sph"):
            self.observe_related(rec["parent"], why)

    def op_edit(self):
        """In-place edit of ANY array-valued public attribute / returned array of any live object (found by introspection)."""
        rng = self.rng
        classic, other = [], []
        for rec in self.live:
            if "arrays" in rec:
                classic += [(rec, n, None) for n in rec["arrays"]]
                continue
            found = H.public_arrays(rec["obj"])
            for n, holder in found.items():
                if n in ("points", "weights") or (rec["kind"] == "mol" and n == "atweights"):
                    classic.append((rec, n, None))
                else:
                    other.append((rec, n, holder))
        if not classic and not other:
            return self.op_ang_new()
        pool = other if (other and (not classic or rng.random() < 0.4)) else classic
        rec, name, holder = pool[int(rng.integers(len(pool)))]
        cls = type(rec["obj"]).__name__ if "obj" in rec else rec["kind"]
        target = f"{rec['kind']}.{name}" if holder is None else f"{cls}.{name}"
        S = H.sentinel(self.hid, self.op, target)
        mode = ["fill", "one", "slice", "assign"][int(rng.choice(4, p=[0.45, 0.25, 0.2, 0.1]))]
        try:
            if holder is not None:
                # introspected attribute (center, indices, degrees, rgrid.points, atcoords, aim_weights ...)
                if mode == "assign":
                    mode = "fill"
                if isinstance(holder, list):
                    if mode == "fill":
                        holder[:] = [int(S)] * len(holder)
                    else:
                        holder[int(rng.integers(len(holder)))] = int(S)
                        mode = "one"
                elif mode == "fill":
                    holder[...] = S
                elif mode == "one":
                    holder.flat[int(rng.integers(holder.size))] = S
                else:
                    jj = int(rng.integers(len(holder)))
                    holder[jj : jj + max(1, len(holder) // 3)] = S
            else:
                arr = self.get_array(rec, name)
                if mode == "assign" and "arrays" not in rec:
                    try:
                        setattr(rec["obj"], name, np.full(arr.shape, S))
                    except AttributeError:
                        mode = "fill"
                elif mode == "assign":
                    mode = "fill"
                if mode == "fill":
                    arr[...] = S
                elif mode == "one":
                    arr.flat[int(rng.integers(arr.size))] = S
                elif mode == "slice":
                    jj = int(rng.integers(len(arr)))
                    arr[jj : jj + max(1, len(arr) // 3)] = S
        except ValueError as exc:
            if "read-only" in str(exc):
                self.ctx.count("edit-rejected:array-is-read-only")
                return
            raise
        if holder is not None:
            self.taint(rec)
            self.ctx.hit("edit:introspected-attribute")
            if name.count(".") >= 1:
                self.ctx.hit("edit:nested-attribute")
        else:
            rec["dirty"].add(name)
            if sum(1 for r in self.live if r.get("group") == rec["group"]) > 1:
                self.taint(rec)  # views / shared objects: the relatives change legitimately
        self.ctx.hit("op:edit")
        self.ctx.count(f"class:edit:{target}:{mode}")
        self.log.append(f"edit({target},{mode})")
        self.observe_related(rec, f"in-place edit ({mode}) of {target} writing {S:.0f}")

    def make_atom_spec(self, small=False):
        rng = self.rng
        method = METHODS[int(rng.integers(4))]
        n = int(rng.integers(1, 4 if small else 6))
        r = np.sort(rng.uniform(0.05, 8.0, n))
        wr = rng.uniform(0.1, 2.0, n)
        cap = SIZE_CAP_SHELL[method] if not small else min(SIZE_CAP_SHELL[method], 200)
        rows_pool = _pool(method, cap)
        dmax, smax = rows_pool[-1]
        mode = ["degrees", "degree1", "sizes", "size1", "pruned", "default"][int(rng.integers(6))]
        if mode == "default":
            if small:
                mode = "degree1"
            else:
                # AtomGrid(rgrid): every argument left at its default (degrees=[50], center=None, rotate=0, lebedev)
                method = "lebedev"
                n = min(n, 3)
                r, wr = r[:n], wr[:n]
                spec = {"method": method, "r": r, "wr": wr, "mode": "default", "rows": [tuple(int(v) for v in datafiles.resolve(method, degree=50))] * n, "centre": None, "rotate": 0, "kw": {}}
                return spec
        spec = {"method": method, "r": r, "wr": wr, "mode": mode}
        kw = {"method": method}
        if mode == "degrees":
            req = [int(v) for v in rng.integers(0, dmax + 1, n)]
            kw["degrees"] = req if rng.random() < 0.5 else np.array(req)
            rows = [datafiles.resolve(method, degree=d) for d in req]
        elif mode == "degree1":
            d = int(rng.integers(0, dmax + 1))
            kw["degrees"] = [d]
            rows = [datafiles.resolve(method, degree=d)] * n
        elif mode == "sizes":
            req = [int(v) for v in rng.integers(1, smax + 1, n)]
            kw["degrees"] = None if rng.random() < 0.6 else [int(v) for v in rng.integers(0, dmax + 1, n)]  # ignored when sizes are given
            kw["sizes"] = req if rng.random() < 0.5 else np.array(req)
            rows = [datafiles.resolve(method, size=s) for s in req]
        elif mode == "size1":
            s = int(rng.integers(1, smax + 1))
            kw["degrees"] = None if rng.random() < 0.6 else [int(rng.integers(0, dmax + 1))]  # ignored when sizes are given
            kw["sizes"] = [s]
            rows = [datafiles.resolve(method, size=s)] * n
        else:
            nsec = int(rng.integers(1, 4))
            edges = np.sort(rng.uniform(0.2, 6.0, nsec))
            while np.min(np.abs(r[:, None] - edges[None, :])) < 1e-6:
                edges = np.sort(rng.uniform(0.2, 6.0, nsec))
            radius = 1.0 if rng.random() < 0.5 else float(rng.uniform(0.5, 2.0))
            dsec = [int(v) for v in rng.integers(0, dmax + 1, nsec + 1)]
            spec["radius"] = radius
            kw["r_sectors"] = [float(e) for e in edges]
            kw["d_sectors"] = dsec
            pos = np.sum(r[:, None] > (edges * radius)[None, :], axis=1)
            if np.min(np.abs(r[:, None] - (edges * radius)[None, :])) < 1e-6:
                pos = None
            rows = None if pos is None else [datafiles.resolve(method, degree=dsec[p]) for p in pos]
        if rows is None:
            return self.make_atom_spec(small)
        spec["rows"] = [(int(d), int(s)) for d, s in rows]
        spec["centre"] = None if rng.random() < 0.4 else rng.uniform(-3, 3, 3)
        spec["rotate"] = 0 if rng.random() < 0.5 else int(rng.integers(1, 100000))
        if spec["rotate"] or rng.random() < 0.5:
            kw["rotate"] = spec["rotate"]  # else: left at its default
        if method == "lebedev" and rng.random() < 0.5:
            del kw["method"]  # default method
        spec["kw"] = kw
        return spec

    def op_atom_new(self):
        spec = self.make_atom_spec()
        subj = f"AtomGrid[{spec['method']}:{spec['mode']}]"
        with self.guard(subj) as gd:
            at, rg = self.build_atom(spec)
        if not gd.ok:
            return
        self.ctx.hit("op:atom_new")
        self.ctx.count(f"class:atom_new:{spec['method']}:{spec['mode']}:{'rotated' if spec['rotate'] else 'unrotated'}")
        self.check_atom("atomgrid-product-identity", subj, at, spec, attributes=True)
        _c05_identity(self.ctx, at, spec, rg)
        spec["snap"] = (np.array(at.points), np.array(at.weights))
        spec["snap_public"] = H.snapshot_public(at)
        self.specs.append(spec)
        for d, s in set(spec["rows"]):
            self.touched[(spec["method"], d, s)] = True
        self.add({"kind": "atom", "obj": at, "spec": spec, "label": subj})
        self.log.append(f"atom_new({spec['method']},{spec['mode']},{len(spec['rows'])})")

    def op_shell(self):
        atoms = [r for r in self.live if r["kind"] == "atom" and not r.get("tainted")]
        if not atoms:
            return self.op_atom_new()
        rec = atoms[int(self.rng.integers(len(atoms)))]
        sp = rec["spec"]
        i = int(self.rng.integers(len(sp["rows"])))
        r_sq = bool(self.rng.random() < 0.6)
        subj = f"AtomGrid.get_shell_grid[{sp['method']}]"
        idx = i if self.rng.random() < 0.7 else np.int64(i)
        with self.guard(subj) as gd:
            sh = rec["obj"].get_shell_grid(idx, r_sq=r_sq)
        if not gd.ok:
            return
        self.ctx.hit("op:shell")
        d, s = sp["rows"][i]
        ri, wi = float(sp["r"][i]), float(sp["wr"][i])
        H.check_shell_arrays(self.ctx, "atomgrid-product-identity", subj, sh.points, sh.weights, sp["method"], d, s, ri, wi * ri**2 if r_sq else wi, None, bool(sp["rotate"]), detail={"shell": i, "r_sq": r_sq})
        self.add({"kind": "shell", "obj": sh, "spec": sp, "index": i, "r_sq": r_sq, "label": subj})
        self.log.append(f"shell({i},{r_sq})")

    def op_integrate(self):
        rng = self.rng
        cands = [r for r in self.live if r["kind"] in ("ang", "atom", "mol") and not r.get("tainted") and "weights" not in r["dirty"] and not (r["kind"] == "mol" and (r["spec"].get("aim") != "ones" or r["dirty"]))]
        if not cands:
            return self.op_ang_new()
        rec = cands[int(rng.integers(len(cands)))]
        if rec["kind"] == "ang":
            wmodel = H.pristine(rec["method"], rec["deg"], rec["size"])[1]
        elif rec["kind"] == "atom":
            wmodel = H.model_weights(rec["spec"])
        else:
            wmodel = np.concatenate([H.model_weights(sp) for sp in rec["spec"]["atoms"]])
        f = np.ones(len(wmodel)) if rng.random() < 0.4 else rng.uniform(-1, 1, len(wmodel))
        subj = f"{rec['label']}.integrate"
        with self.guard(subj) as gd:
            val = rec["obj"].integrate(f.copy())
        if not gd.ok:
            return
        self.ctx.hit("op:integrate")
        want = float(np.dot(wmodel, f))
        scale = float(np.dot(np.abs(wmodel), np.abs(f))) or 1.0
        m = abs(float(val) - want) / scale
        sig = None
        if not m <= 1e-11:
            sig = "integral-differs-from-model-quadrature"
        self.ctx.check("integrate-equals-model", subj, m, 1e-11, sig=sig, detail={"got": float(val), "want": want, "hist": self.hid, "op": self.op})
        self.log.append("integrate")

    def op_mol_new(self):
        rng = self.rng
        nat = int(rng.integers(1, 4))
        method = METHODS[int(rng.integers(4))]
        atoms = []
        centres = []
        for i in range(nat):
            sp = self.make_atom_spec(small=True)
            while sp["method"] != method or sp["mode"] == "pruned":
                sp = self.make_atom_spec(small=True)
            c = rng.uniform(-3, 3, 3)
            while centres and min(np.linalg.norm(c - q) for q in centres) < 0.7:
                c = rng.uniform(-3, 3, 3)
            centres.append(c)
            sp["centre"] = c
            atoms.append(sp)
        syms = list(ELEMENTS.values())
        from_size = rng.random() < 0.3
        if from_size:
            # MolGrid.from_size(atnums, atcoords, size, rgrid=...): one radial grid, one size, rotate=37 and Becke by default
            sz = int(rng.integers(1, min(SIZE_CAP_SHELL[method], 200) + 1))
            row = tuple(int(v) for v in datafiles.resolve("lebedev", size=sz))
            method = "lebedev"
            a0 = atoms[0]
            atoms = [{"method": "lebedev", "r": a0["r"], "wr": a0["wr"], "mode": "size1", "rows": [row] * len(a0["r"]), "centre": c, "rotate": 37, "kw": {"degrees": None, "sizes": [sz], "rotate": 37}} for c in centres]
        ms = {"is_mol": True, "atoms": atoms, "atnums": [int(syms[int(rng.integers(len(syms)))]) for _ in range(nat)], "aim": "becke" if rng.random() < 0.5 else "ones", "store": bool(rng.random() < 0.5)}
        if from_size:
            ms.update({"ctor": "from_size", "size": sz, "aim": "becke"})
        subj = f"MolGrid[{method}:{ms['aim']}:store={ms['store']}]"
        with self.guard(subj) as gd:
            mol = self.build_mol(ms)
        if not gd.ok:
            return
        self.ctx.hit("op:mol_new")
        self.ctx.count(f"class:mol_new:{method}:{ms['aim']}:atoms={nat}")
        self.check_mol("molgrid-blocks-identity", subj, mol, ms)
        ms["snap"] = (np.array(mol.points), np.array(mol.weights))
        ms["snap_public"] = H.snapshot_public(mol)
        self.specs.append(ms)
        for sp in atoms:
            for d, s in set(sp["rows"]):
                self.touched[(method, d, s)] = True
        self.add({"kind": "mol", "obj": mol, "spec": ms, "label": subj})
        self.log.append(f"mol_new({method},{nat},{ms['aim']})")

    def op_tf_new(self):
        import grid.rtransform as rt

        rng = self.rng
        cls = TF_CLASSES[int(rng.choice(4, p=[0.3, 0.3, 0.3, 0.1]))]
        if cls == "HyperbolicRTransform":
            args = (float(rng.uniform(0.1, 5.0)), float(rng.uniform(0.005, 0.07)))
            rec = {"kind": "tf", "cls": cls, "args": args, "b": args[1], "infer": False}
            with self.guard(cls) as gd:
                rec["obj"] = getattr(rt, cls)(*args)
        else:
            rmin, rmax = float(10 ** rng.uniform(-4, -1)), float(rng.uniform(1.0, 50.0))
            b = None
            if rng.random() < 0.35:
                b = float(rng.uniform(2, 60)) if rng.random() < 0.6 else int(rng.integers(2, 60))
            rec = {"kind": "tf", "cls": cls, "args": (rmin, rmax), "b": b, "infer": b is None}
            with self.guard(cls) as gd:
                rec["obj"] = getattr(rt, cls)(rmin, rmax, b) if rng.random() < 0.5 else getattr(rt, cls)(rmin, rmax, b=b)
        if not gd.ok:
            return None
        self.ctx.hit("op:tf_new")
        self.tfs.append(rec)
        self.log.append(f"tf_new({cls},{'b' if not rec['infer'] else 'infer'})")
        return rec

    def tf_argument(self, rec, meth):
        rng = self.rng
        n = int(rng.integers(3, 13))
        if meth in INV:
            if rec["cls"] == "HyperbolicRTransform":
                return np.sort(rng.uniform(0.05, 20.0, n))
            lo, hi = rec["args"]
            return np.sort(rng.uniform(lo * 1.001, hi * 0.999, n))
        kind = int(rng.integers(3))
        if kind == 0:
            x = np.arange(n, dtype=float)
        elif kind == 1:
            x = np.sort(rng.uniform(0.0, float(rng.choice([n - 1.0, 5.5, 11.0])), n))
        else:
            x = rng.permutation(np.arange(n, dtype=float))  # unsorted: the maximum is not the last element
        if meth == "transform_1d_grid":
            w = rng.uniform(0.1, 1.0, n)
            dom = (0, np.inf) if rec["cls"] != "HyperbolicRTransform" else (0, float(np.max(x)) + 1.0)
            return (x, w, dom)
        return x

    def call_tf(self, rec, meth, arg):
        from grid.basegrid import OneDGrid

        if meth == "transform_1d_grid":
            return getattr(rec["obj"], meth)(OneDGrid(np.array(arg[0]), np.array(arg[1]), arg[2]))
        xin = np.array(arg)
        res = getattr(rec["obj"], meth)(xin)
        if self.rng.random() < 0.3:
            xin[...] = H.sentinel(self.hid, self.op, "tf.input")  # caller reuses its buffer after the call
        return res

    def op_tf_call(self):
        rng = self.rng
        if not self.tfs or rng.random() < 0.08:
            rec = self.op_tf_new()
            if rec is None:
                return
        else:
            rec = self.tfs[int(rng.integers(len(self.tfs)))]
        meths = FWD + INV
        if rec["cls"] == "HyperbolicRTransform":
            meths = [m for m in meths if m != "set_maximum_parameter_b"]
        unset = rec["infer"] and rec["b"] is None
        if unset and rec["cls"] == "LinearInfiniteRTransform":
            meths = [m for m in meths if m not in ("deriv2", "deriv3")]
        meth = meths[int(rng.integers(len(meths)))]
        arg = self.tf_argument(rec, meth)
        if unset:
            first = arg[0] if meth == "transform_1d_grid" else arg
            rec["b"] = np.max(first)  # the model: scale = maximum of the first array seen
            self.ctx.hit("op:tf_first_call_infers_b")
            self.ctx.count(f"class:first-call:{rec['cls']}.{meth}")
        subj = f"{rec['cls']}.{meth}"
        with self.guard(subj) as gd:
            res = self.call_tf(rec, meth, arg)
        if not gd.ok:
            return
        self.ctx.hit("op:tf_call")
        self.ctx.count(f"class:tf_call:{rec['cls']}.{meth}")
        self.compare_tf(rec, meth, arg, res, f"{meth} call number {rec.get('ncalls', 0) + 1} on this instance")
        rec["ncalls"] = rec.get("ncalls", 0) + 1
        self.log.append(f"{rec['cls'][:4]}.{meth}")
        if meth == "transform_1d_grid":
            self.add({"kind": "oned", "obj": res, "tf": rec, "meth": meth, "arg": arg, "label": f"{rec['cls']}.transform_1d_grid result", "ref": {"points": np.array(res.points), "weights": np.array(res.weights)}})
        elif meth != "set_maximum_parameter_b":
            self.add({"kind": "tfres", "arrays": {"result": res}, "tf": rec, "meth": meth, "arg": arg, "label": f"{rec['cls']}.{meth} result", "ref": {"result": np.array(res)}})

    def recall_tf(self, rec, why):
        tf = rec["tf"]
        with self.guard(f"{tf['cls']}.{rec['meth']}") as gd:
            res = self.call_tf(tf, rec["meth"], rec["arg"])
        if gd.ok:
            self.compare_tf(tf, rec["meth"], rec["arg"], res, why)

    # -------------------------------------------------------------------------------------------- transform sessions
    def make_session_tf(self, cls):
        """A transform record of any of the 12 classes (constructor arguments drawn here; model = same arguments)."""
        import grid.rtransform as rt

        rng = self.rng
        if cls in ("ExpRTransform", "PowerRTransform", "LinearInfiniteRTransform"):
            rmin, rmax = float(10 ** rng.uniform(-4, -1)), float(rng.uniform(1.0, 50.0))
            b = None if rng.random() < 0.5 else float(rng.uniform(4, 40))
            rec = {"kind": "tf", "cls": cls, "args": (rmin, rmax), "b": b, "infer": b is None, "dom": "pos"}
            with self.guard(cls) as gd:
                rec["obj"] = getattr(rt, cls)(rmin, rmax, b)
            return rec if gd.ok else None
        if cls == "HyperbolicRTransform":
            args = (float(rng.uniform(0.1, 5.0)), float(rng.uniform(0.005, 0.06)))
            make = lambda: rt.HyperbolicRTransform(*args)  # noqa: E731
            dom = "pos"
        elif cls == "IdentityRTransform":
            make = lambda: rt.IdentityRTransform()  # noqa: E731
            dom = "pos"
        elif cls == "LinearFiniteRTransform":
            args = (float(rng.uniform(0.0, 0.5)), float(rng.uniform(1.0, 30.0)))
            make = lambda: rt.LinearFiniteRTransform(*args)  # noqa: E731
            dom = "unit"
        elif cls in ("BeckeRTransform", "MultiExpRTransform"):
            args = (float(rng.uniform(0.0, 0.1)), float(rng.uniform(0.5, 3.0)))
            trim = bool(rng.random() < 0.7)
            make = lambda: getattr(rt, cls)(*args, trim_inf=trim)  # noqa: E731
            dom = "unit"
        elif cls in ("KnowlesRTransform", "HandyRTransform"):
            args = (float(rng.uniform(0.0, 0.1)), float(rng.uniform(0.5, 3.0)), int(rng.integers(1, 4)))
            make = lambda: getattr(rt, cls)(*args)  # noqa: E731
            dom = "unit"
        elif cls == "HandyModRTransform":
            args = (float(rng.uniform(0.0, 0.05)), float(rng.uniform(10.0, 50.0)), int(rng.integers(1, 4)))
            make = lambda: rt.HandyModRTransform(*args)  # noqa: E731
            dom = "unit"
        elif cls == "InverseRTransform":
            inner = ["BeckeRTransform", "LinearFiniteRTransform", "KnowlesRTransform", "ExpRTransform"][int(rng.integers(4))]
            if inner == "ExpRTransform":
                ia = (float(10 ** rng.uniform(-3, -1)), float(rng.uniform(5.0, 50.0)), float(rng.uniform(4, 40)))
                imake = lambda: rt.ExpRTransform(*ia)  # noqa: E731
                idom = "pos"
            elif inner == "LinearFiniteRTransform":
                ia = (float(rng.uniform(0.0, 0.5)), float(rng.uniform(1.0, 30.0)))
                imake = lambda: rt.LinearFiniteRTransform(*ia)  # noqa: E731
                idom = "unit"
            elif inner == "BeckeRTransform":
                ia = (float(rng.uniform(0.0, 0.1)), float(rng.uniform(0.5, 3.0)))
                imake = lambda: rt.BeckeRTransform(*ia)  # noqa: E731
                idom = "unit"
            else:
                ia = (float(rng.uniform(0.0, 0.1)), float(rng.uniform(0.5, 3.0)), int(rng.integers(1, 4)))
                imake = lambda: rt.KnowlesRTransform(*ia)  # noqa: E731
                idom = "unit"
            make = lambda: rt.InverseRTransform(imake())  # noqa: E731
            dom = ("image", imake, idom)
        else:
            raise ValueError(cls)
        rec = {"kind": "tf", "cls": cls, "b": None, "infer": False, "factory": make, "dom": dom, "fixed": True}
        with self.guard(cls) as gd:
            rec["obj"] = make()
        return rec if gd.ok else None

    def admissible(self, dom, n, hyper=False):
        """Fresh admissible argument values for a domain kind."""
        rng = self.rng
        if dom == "unit":
            return rng.uniform(-0.95, 0.95, n)
        if dom == "pos":
            kind = int(rng.integers(3))
            if kind == 0:
                return np.arange(n, dtype=float)
            if kind == 1:
                return rng.permutation(np.arange(n, dtype=float))
            return rng.uniform(0.0, 11.0, n)
        _, imake, idom = dom  # image of an inner transform (argument of an InverseRTransform)
        return np.array(imake().transform(self.admissible(idom, n)), dtype=float)

    def session_call(self, ss, meth, why):
        """Call ``meth`` on the session's instance with the SAME argument object as before; compare with a fresh
        instance (model b) evaluated on a COPY of the argument's current values, bit for bit."""
        rec = ss["rec"]
        ctx = self.ctx
        inv = meth in INV
        buf = ss["r"] if inv else ss["x"]
        cur = np.array(buf)  # current values (copy)
        if rec["infer"] and rec["b"] is None:
            rec["b"] = np.max(cur)
            ctx.hit("op:tf_first_call_infers_b")
        subj = f"{rec['cls']}.{meth}[same-argument-object]"
        got = got_exc = want = want_exc = None
        try:
            if meth == "transform_1d_grid":
                got = rec["obj"].transform_1d_grid(ss["grid"])
            else:
                got = getattr(rec["obj"], meth)(buf)
        except Exception as exc:  # noqa - compared with the model below
            from gridrv import core

            if not core.is_library_exception(exc):
                raise
            got_exc = exc
        try:
            model = self.fresh_tf(rec)
            if meth == "transform_1d_grid":
                from grid.basegrid import OneDGrid

                g0 = ss["grid"]
                want = model.transform_1d_grid(OneDGrid(cur, np.array(g0.weights), g0.domain))
            else:
                want = getattr(model, meth)(cur)
        except Exception as exc:  # noqa
            want_exc = exc
        ctx.hit("session:same-object-call")
        ctx.count(f"class:session-call:{rec['cls']}.{meth}")
        det = {"observed_after": why, "hist": self.hid, "op": self.op, "step": ss["step"]}
        if got_exc is not None or want_exc is not None:
            same = got_exc is not None and want_exc is not None and type(got_exc) is type(want_exc)
            if same:
                ctx.count(f"session:rejected-by-instance-and-fresh-model-alike:{rec['cls']}.{meth}:{type(got_exc).__name__}")
                return
            det["instance"] = "ok" if got_exc is None else f"{type(got_exc).__name__}: {got_exc}"[:160]
            det["fresh_model"] = "ok" if want_exc is None else f"{type(want_exc).__name__}: {want_exc}"[:160]
            ctx.check("transform-equals-fresh-instance", subj, False, sig="raises-unlike-fresh-instance", detail=det)
            return
        if meth == "transform_1d_grid":
            pairs = [("points", got.points, want.points), ("weights", got.weights, want.weights), ("domain", np.asarray(got.domain, dtype=float), np.asarray(want.domain, dtype=float))]
            outs = [got.points, got.weights]
        else:
            pairs = [("result", got, want)]
            outs = [got]
        for name, g, w in pairs:
            g = np.asarray(g, dtype=float)
            w = np.asarray(w, dtype=float)
            ok = H.same_bits(g, w)
            sig = None
            d2 = dict(det)
            if not ok:
                scales = [1.0]
                try:
                    base = np.asarray(self.fresh_tf(rec).transform(np.array(ss["x"])), dtype=float)
                    with np.errstate(all="ignore"):
                        ratio = (w.ravel() / base.ravel()) if w.size == base.size else np.array([])
                    scales += [float(v) for v in ratio[np.isfinite(ratio) & (ratio != 0)][:3]]
                except Exception:  # noqa
                    pass
                sig, d3 = H.corruption_sig(g, w, tuple(scales))
                d2.update(d3)
                prev = ss["r_prev"] if inv else ss["x_prev"]
                if sig.startswith("values-differ") and prev is not None and meth != "transform_1d_grid":
                    try:
                        if H.same_bits(g, np.asarray(getattr(self.fresh_tf(rec), meth)(np.array(prev)), dtype=float)):
                            sig = "stale:result-for-earlier-values-of-the-same-array-object"
                    except Exception:  # noqa
                        pass
            ctx.check("transform-equals-fresh-instance", subj if name == "result" else f"{subj}.{name}", ok, sig=sig, detail=d2)
        if rec["cls"] in ("ExpRTransform", "PowerRTransform", "LinearInfiniteRTransform"):
            rb = rec["obj"].b
            same = rb is not None and rec["b"] is not None and float(rb) == float(rec["b"])
            ctx.check("transform-scale-fixed-once", f"{rec['cls']}.b[{'b-inferred' if rec['infer'] else 'b-given'}]", bool(same), sig="b-changed-after-" + meth, detail={"instance_b": None if rb is None else float(rb), "model_b": float(rec["b"]), "hist": self.hid, "op": self.op})
        for o in outs:
            if isinstance(o, np.ndarray) and o.ndim == 1:
                ss["returned"].append((meth, o))
        del ss["returned"][:-10]

    def session_sweep(self, ss, why):
        """Deciding comparison of EVERY method, each called with the session's own argument objects, in random order."""
        meths = FWD4 + INV + (["transform_1d_grid"] if ss.get("grid") is not None else [])
        if ss["rec"]["cls"] == "LinearInfiniteRTransform" and ss["rec"]["infer"] and ss["rec"]["b"] is None:
            self.session_call(ss, "transform", why)
        for i in self.rng.permutation(len(meths)):
            self.session_call(ss, meths[int(i)], why)

    def op_tf_session(self, cls=None, nsteps=None):
        from grid.basegrid import OneDGrid

        rng = self.rng
        ss = None
        if cls is None and self.sessions and rng.random() < 0.3:
            ss = self.sessions[int(rng.integers(len(self.sessions)))]  # continue an earlier session (same objects)
        elif cls is not None and self.sessions and rng.random() < 0.5:
            ss = self.sessions[-1]
        if ss is None:
            cls = cls or SESSION_CLASSES[int(rng.integers(len(SESSION_CLASSES)))]
            rec = self.make_session_tf(cls)
            if rec is None:
                return
            n = int(rng.integers(4, 13))
            x = self.admissible(rec["dom"], n)
            ss = {"rec": rec, "x": x, "x_prev": None, "r_prev": None, "returned": [], "step": 0, "n": n}
            # argument of the inverse-type methods: admissible image values, its own persistent object
            try:
                m0 = rec["factory"]() if "factory" in rec else getattr(__import__("grid.rtransform", fromlist=["x"]), cls)(rec["args"][0], rec["args"][1], rec["b"] if rec["b"] is not None else float(np.max(x)) or 1.0)
                r = np.array(m0.transform(self.admissible(rec["dom"], n)), dtype=float)
                r = r[np.isfinite(r)]
                ss["r"] = r if r.size else np.array([0.5, 1.0])
            except Exception:  # noqa - model could not produce image values: use plain positive numbers
                ss["r"] = rng.uniform(0.2, 0.9, n)
            if rec["dom"] in ("pos", "unit"):
                dom = (0, np.inf) if rec["dom"] == "pos" and cls != "HyperbolicRTransform" else ((0, 13.0) if rec["dom"] == "pos" else (-1, 1))
                ss["grid"] = OneDGrid(x, rng.uniform(0.1, 1.0, n), dom)  # the grid holds the SAME points object
            else:
                ss["grid"] = None
            self.sessions.append(ss)
        rec = ss["rec"]
        self.ctx.hit("op:tf_session")
        self.ctx.count(f"class:tf_session:{rec['cls']}")
        self.log.append(f"session({rec['cls'][:6]})")
        if rec["infer"] and rec["b"] is None:
            self.session_call(ss, "transform", "first call of the session (fixes b)")
        for _ in range(nsteps or int(rng.integers(4, 10))):
            ss["step"] += 1
            u = rng.random()
            if u < 0.45 or not ss["returned"]:
                meths = FWD4 + INV + (["transform_1d_grid"] if ss["grid"] is not None else [])
                p = np.array([4, 3, 2, 2, 1, 1, 1, 1] + ([1.5] if ss["grid"] is not None else []), dtype=float)
                meth = meths[int(rng.choice(len(meths), p=p / p.sum()))]
                self.session_call(ss, meth, "call in a session")
                why = f"{meth} with the same argument object"
            elif u < 0.72:
                # in-place sentinel edit of an array RETURNED by an earlier call (preferably the latest transform result)
                tr = [i for i, (m, _) in enumerate(ss["returned"]) if m == "transform"]
                i = tr[-1] if tr and rng.random() < 0.6 else int(rng.integers(len(ss["returned"])))
                m, arr = ss["returned"][i]
                S = H.sentinel(self.hid, self.op, f"tf.returned:{m}")
                try:
                    mode = int(rng.integers(3))
                    if mode == 0:
                        arr[...] = S
                    elif mode == 1:
                        arr.flat[int(rng.integers(arr.size))] = S
                    else:
                        arr[: max(1, arr.size // 2)] = S
                    self.ctx.hit("session:edit-returned")
                    self.ctx.count(f"class:session-edit-returned:{m}")
                except ValueError as exc:
                    if "read-only" not in str(exc):
                        raise
                    self.ctx.count("edit-rejected:array-is-read-only")
                why = f"in-place edit of the array returned by {m} writing {S:.0f}"
            else:
                # in-place change of the ARGUMENT array (stays admissible; same object afterwards)
                which = "r" if rng.random() < 0.25 else "x"
                buf = ss[which]
                ss[which + "_prev"] = np.array(buf)
                mode = int(rng.integers(4))
                if which == "x":
                    if mode == 0:
                        buf[...] = self.admissible(rec["dom"], buf.size)
                    elif mode == 1:
                        buf[...] = buf[rng.permutation(buf.size)]
                    elif mode == 2:
                        if rec["dom"] == "unit":
                            buf *= -1.0
                        elif rec["dom"] == "pos" and float(np.max(buf)) <= 11.5:
                            buf += 0.5
                        else:
                            buf[...] = self.admissible(rec["dom"], buf.size)
                    else:
                        buf[int(rng.integers(buf.size))] = self.admissible(rec["dom"], buf.size)[0]
                else:
                    if mode % 2 == 0:
                        buf[...] = buf[rng.permutation(buf.size)]
                    else:
                        j, k = int(rng.integers(buf.size)), int(rng.integers(buf.size))
                        buf[j] = 0.5 * (buf[j] + buf[k])
                self.ctx.hit("session:edit-input")
                why = f"in-place change of the argument array ({which})"
            self.session_sweep(ss, why)

    def op_ang_size_degree(self, method=None, wkind=None, via=None, exhaustive=False):
        """Warm the cache with exactly one degree of a method (AngularGrid(cache=True) or AtomGrid shells), then request
        grids by ``size=`` alone (default degree) and by ``size=`` TOGETHER with an explicit degree (the warmed one, its
        resolved value, another supported / unsupported one), cache on and off: the size-resolved shipped grid must come back."""
        from grid.angular import AngularGrid
        from grid.atomgrid import AtomGrid
        from grid.basegrid import OneDGrid

        rng, ctx = self.rng, self.ctx
        method = method or METHODS[int(rng.integers(4))]
        rows = _pool(method, SIZE_CAP_ANG[method])
        degs = [d for d, _ in rows]
        dmax, smax = rows[-1]
        wkind = wkind or ["supported", "unsupported", "default"][int(rng.integers(3))]
        via = via or ("ang" if rng.random() < 0.6 else "atom")
        if wkind == "unsupported":
            cand = [d for d in range(0, dmax) if d not in degs]
            if not cand:
                wkind = "supported"
            else:
                dw = int(cand[int(rng.integers(len(cand)))])
        if wkind == "supported":
            dw = int(degs[int(rng.integers(len(degs)))])
        if wkind == "default":
            dw = 50
        wd, ws = (int(v) for v in datafiles.resolve(method, degree=dw))
        subj = f"AngularGrid[{method}] warm-up"
        with self.guard(subj) as gd:
            if via == "ang":
                if wkind == "default" and method == "lebedev" and rng.random() < 0.5:
                    g0 = AngularGrid()
                else:
                    g0 = AngularGrid(degree=dw, method=method, cache=True)
                ctx.hit("warmup:via-AngularGrid")
            else:
                rg = OneDGrid(np.array([0.5, 1.5]), np.array([0.3, 0.7]), (0, np.inf))
                at = AtomGrid(rg, degrees=[dw], method=method)
                at.get_shell_grid(0)  # shell extraction constructs (and caches) that degree once more
                g0 = None  # the shells were compared by the post-condition on AngularGrid.__init__
                ctx.hit("warmup:via-AtomGrid-shells")
        if not gd.ok:
            return
        if g0 is not None:
            H.check_request(ctx, subj, g0, method, wd, ws, detail={"hist": self.hid, "op": self.op})
        self.touched[(method, wd, ws)] = True
        ctx.hit("op:ang_size_degree")
        ctx.count(f"class:size-degree:{method}:warm={wkind}:via={via}")
        self.log.append(f"size_degree({method},{wkind},{via})")
        # requests
        other_sup = int(degs[int(rng.integers(len(degs)))])
        other_uns = int(rng.integers(0, dmax + 1))
        if exhaustive:
            sizes = sorted({1, int(rows[0][1]), int(rows[len(rows) // 3][1]) + 1, int(rng.integers(1, smax + 1)), int(rng.integers(1, smax + 1)), ws})
            plan = [(dk, sq, c) for sq in sizes for dk in ("same", "resolved", "omitted", "other-supported", "other-unsupported") for c in (True, False)]
            plan = [plan[int(i)] for i in rng.permutation(len(plan))]
        else:
            kinds = ["same", "resolved", "omitted", "other-supported", "other-unsupported"]
            plan = [(kinds[int(rng.integers(5))], int(rng.integers(1, smax + 1)), bool(rng.random() < 0.5)) for _ in range(int(rng.integers(2, 5)))]
        last = None
        for dk, sq, cache in plan:
            d, s = (int(v) for v in datafiles.resolve(method, size=sq))
            dq = {"same": dw, "resolved": wd, "omitted": None, "other-supported": other_sup, "other-unsupported": other_uns}[dk]
            subj = f"AngularGrid[{method}] size+degree:{dk} cache={'on' if cache else 'off'}"
            with self.guard(subj) as gd:
                if dq is None:
                    g = AngularGrid(size=sq, method=method, cache=cache)
                    ctx.hit("request:size-alone-default-degree")
                elif rng.random() < 0.5:
                    g = AngularGrid(dq, size=sq, method=method, cache=cache)
                    ctx.hit("request:size-with-explicit-degree")
                else:
                    g = AngularGrid(degree=np.int64(dq) if rng.random() < 0.3 else dq, size=np.int64(sq) if rng.random() < 0.3 else sq, method=method, cache=cache)
                    ctx.hit("request:size-with-explicit-degree")
            if not gd.ok:
                continue
            H.check_request(ctx, subj, g, method, d, s, detail={"request": {"degree": dq, "size": sq}, "warmed_degree": dw, "warmed_via": via, "hist": self.hid, "op": self.op})
            self.touched[(method, d, s)] = True
            last = (g, d, s)
        if last is not None:
            self.add({"kind": "ang", "obj": last[0], "method": method, "deg": last[1], "size": last[2], "label": f"AngularGrid[{method}]"})

    def op_aborted(self, degree=None, route=None, first=None):
        """A construction (cache on) that may be ABORTED midway by a documented warning: it runs inside
        ``warnings.catch_warnings(); warnings.simplefilter("error")`` and any Warning raised is swallowed by the caller.
        The aborted call itself decides nothing; the usual observations afterwards (normal filters) do."""
        import warnings

        import grid.rtransform as rt
        from grid.angular import AngularGrid
        from grid.atomgrid import AtomGrid
        from grid.basegrid import OneDGrid
        from grid.becke import BeckeWeights
        from grid.molgrid import MolGrid

        rng, ctx = self.rng, self.ctx
        route = route or ABORT_ROUTES[int(rng.integers(len(ABORT_ROUTES)))]
        method = "lebedev"
        if degree is None:
            if rng.random() < 0.75:
                degree = NEG_LEBEDEV[int(rng.integers(3))]
            else:
                method = METHODS[int(rng.integers(4))]
                degree = int(_pool(method, SIZE_CAP_SHELL[method])[int(rng.integers(len(_pool(method, SIZE_CAP_SHELL[method]))))][0])
        d, s = (int(v) for v in datafiles.resolve(method, degree=degree))
        first = bool(rng.random() < 0.5) if first is None else first
        cname = H.datafiles.CODE_TABLES[method] + "_CACHE"
        if first:
            H.clear_cache(cname)  # user-level: the next construction of this degree is the first one (cache miss -> fill)
            ctx.hit("aborted:first-construction-of-that-degree")
        else:
            with self.guard(f"AngularGrid[{method}] cache=on") as gd0:
                g0 = AngularGrid(degree=d, method=method, cache=True)  # normal filters: the degree is cached already
            if gd0.ok:
                H.check_request(ctx, f"AngularGrid[{method}] cache=on", g0, method, d, s, detail={"hist": self.hid, "op": self.op})
            ctx.hit("aborted:degree-already-cached")
        rg = OneDGrid(np.array([0.4, 1.1, 2.3]), np.array([0.3, 0.5, 0.7]), (0, np.inf))
        other = _pool(method, SIZE_CAP_SHELL[method])
        d1, s1 = (int(v) for v in other[int(rng.integers(len(other)))])
        d2, s2 = (int(v) for v in other[int(rng.integers(len(other)))])
        spec = {"method": method, "r": np.array(rg.points), "wr": np.array(rg.weights), "mode": "degrees", "rows": [(d1, s1), (d, s), (d2, s2)], "centre": None, "rotate": 0, "kw": {"degrees": [d1, d, d2], "method": method}}
        rec_tf = None
        built, aborted = None, None
        subj = f"aborted-construction[{route}]"
        with warnings.catch_warnings():
            warnings.simplefilter("error")
            with self.guard(subj):
                try:
                    if route == "ang-degree":
                        built = ("ang", AngularGrid(degree=d, method=method, cache=True))
                    elif route == "ang-rounded-degree":
                        lower = max(0, d - 1)
                        if datafiles.resolve(method, degree=lower)[0] != d:
                            lower = d
                        built = ("ang", AngularGrid(degree=lower, method=method, cache=True))
                    elif route == "ang-size":
                        prev = max([r[1] for r in datafiles.table(method) if r[1] < s] + [0])
                        built = ("ang", AngularGrid(size=int(rng.integers(prev + 1, s + 1)), method=method, cache=True))
                    elif route == "atom-degrees":
                        built = ("atom", AtomGrid(rg, degrees=[d1, d, d2], method=method))
                    elif route == "atom-sizes":
                        built = ("atom", AtomGrid(rg, sizes=[s1, s, s2], method=method))
                    elif route == "mol":
                        ats = [AtomGrid(rg, degrees=[d1, d, d2], center=np.array(c), method=method) for c in ([0.0, 0.0, 0.0], [0.0, 0.0, 1.4])]
                        built = ("other", MolGrid(np.array([1, 1]), ats, BeckeWeights(order=3), store=True))
                    elif route == "mol-from-size":
                        built = ("other", MolGrid.from_size(np.array([1, 8]), np.array([[0.0, 0.0, 0.0], [0.0, 0.0, 1.8]]), s, rgrid=rg))
                    else:  # power-transform: PowerRTransform warns when its exponent is < 2, AFTER it inferred b
                        x = np.arange(int(rng.integers(8, 13)), dtype=float)
                        rec_tf = {"kind": "tf", "cls": "PowerRTransform", "args": (0.1, float(rng.uniform(2.0, 6.0))), "b": np.max(x), "infer": True}
                        rec_tf["obj"] = rt.PowerRTransform(*rec_tf["args"])
                        built = ("other", rec_tf["obj"].transform(x))
                except Warning as w:
                    aborted = type(w).__name__
        # ------------------------------------------------------------------ normal filters from here on
        ctx.hit("op:aborted")
        ctx.count(f"class:aborted:{route}:{'first' if first else 'cached-before'}:{'aborted:' + aborted if aborted else 'completed'}")
        if aborted:
            ctx.hit("aborted:by-warning")
        self.log.append(f"aborted({route},{d},{'first' if first else 'later'},{aborted})")
        why = f"a construction ({route}, degree {d}) under warnings-as-errors " + (f"aborted by {aborted}" if aborted else "that completed")
        if built is not None and built[0] == "ang":
            H.check_request(ctx, f"AngularGrid[{method}] cache=on", built[1], method, d, s, detail={"hist": self.hid, "op": self.op, "under": "warnings-as-errors"})
        elif built is not None and built[0] == "atom" and route == "atom-degrees":
            self.check_atom("atomgrid-product-identity", f"AtomGrid[{method}:degrees]", built[1], spec, attributes=True)
        for dd, ss in {(d, s), (d1, s1), (d2, s2)}:
            self.touched[(method, dd, ss)] = True
            self.observe_angular(method, dd, ss, why)
        self.observe_atom(spec, why)
        if rec_tf is not None:
            self.tfs.append(rec_tf)
            self.observe_tf(rec_tf, why)

    def op_mol_default(self, config=None):
        """MolGrid.from_size / from_preset / from_pruned with the DEFAULT rgrid=None (library-made radial grids, several and
        repeated elements): the returned object graph (atgrids[i].rgrid.points ...) becomes an edit target; every (re-)construction
        with identical arguments must equal the cold-process digest and the first construction."""
        rng = self.rng
        i = int(rng.integers(len(MOLDEF))) if config is None else int(config)
        ms = next((m for m in self.specs if m.get("ctor") == "default-rgrid" and m["config"] == i and m["store"] == (config is not None or m["store"])), None)
        fresh_spec = ms is None
        if fresh_spec:
            ms = {"is_mol": True, "ctor": "default-rgrid", "config": i, "store": True if config is not None else bool(rng.random() < 0.7), "aim": "becke"}
        subj = f"MolGrid.{MOLDEF[i][0]}[rgrid=None]"
        with self.guard(subj) as gd:
            mol = self.build_mol(ms)
        if not gd.ok:
            return
        self.ctx.hit("op:mol_default")
        self.ctx.count(f"class:mol_default:{MOLDEF[i][0]}:atnums={MOLDEF[i][1]}:store={ms['store']}")
        self.check_mol("molgrid-blocks-identity", subj, mol, ms)
        if fresh_spec:
            ms["snap"] = (np.array(mol.points), np.array(mol.weights))
            ms["snap_public"] = H.snapshot_public(mol)
            self.specs.append(ms)
        else:
            self.compare_snapshot(subj, mol, ms["snap_public"], "an earlier construction with identical arguments")
        self.add({"kind": "mol", "obj": mol, "spec": ms, "label": subj})
        self.log.append(f"mol_default({MOLDEF[i][0]},{MOLDEF[i][1]})")

    def op_localgrid(self):
        """LocalGrid objects (MolGrid.get_atomic_grid / MolGrid[i] / Grid.get_localgrid): their arrays, centre and indices
        become edit targets; they share state with their parent by design (same group)."""
        rng = self.rng
        cands = [r for r in self.live if r["kind"] in ("mol", "ang") and not r.get("tainted") and not r["dirty"]]
        if not cands:
            return self.op_ang_new()
        par = cands[int(rng.integers(len(cands)))]
        subj = f"{par['label']}.localgrid"
        with self.guard(subj) as gd:
            if par["kind"] == "mol":
                i = int(rng.integers(len(par["obj"].atcoords)))
                lg = par["obj"].get_atomic_grid(i) if rng.random() < 0.5 else par["obj"][i]
            else:
                c = par["obj"].points[int(rng.integers(par["obj"].size))]
                lg = par["obj"].get_localgrid(np.array(c), np.inf if rng.random() < 0.5 else float(rng.uniform(0.3, 1.5)))
        if not gd.ok:
            return
        self.ctx.hit("op:localgrid")
        if not hasattr(lg, "points") or lg.points.size == 0:
            return
        if par["kind"] == "mol" and type(lg).__name__ == "AtomGrid":
            self.add({"kind": "local", "obj": lg, "parent": par, "group": par["group"], "label": "stored AtomGrid of a MolGrid", "ref": {}, "dirty": {"points", "weights"}})
        else:
            self.add({"kind": "local", "obj": lg, "parent": par, "group": par["group"], "label": f"LocalGrid of {par['kind']}", "ref": {"points": np.array(lg.points), "weights": np.array(lg.weights)}})
        self.log.append("localgrid")

    def op_sph(self):
        """AtomGrid.convert_cartesian_to_spherical(): the returned array becomes an edit target."""
        atoms = [r for r in self.live if r["kind"] == "atom" and not r.get("tainted")]
        if not atoms:
            return self.op_atom_new()
        par = atoms[int(self.rng.integers(len(atoms)))]
        subj = "AtomGrid.convert_cartesian_to_spherical"
        with self.guard(subj) as gd:
            res = par["obj"].convert_cartesian_to_spherical()
        if not gd.ok:
            return
        self.ctx.hit("op:sph")
        prev = par.get("sph_ref")
        if prev is not None:
            ok = H.same_bits(np.asarray(res), prev)
            sig = None
            if not ok:
                sig, _ = H.corruption_sig(res, prev)
            self.ctx.check("same-arguments-same-result", subj, ok, sig=sig, detail={"hist": self.hid, "op": self.op})
        else:
            par["sph_ref"] = np.array(res)
        self.add({"kind": "sph", "parent": par, "arrays": {"result": res}, "label": subj + " result", "ref": {"result": np.array(res)}})
        self.log.append("sph")

    def op_gauss(self):
        syms = list(ELEMENTS)
        sym = syms[int(self.rng.integers(len(syms)))]
        out = self.observe_gauss(sym, "load")
        if out is None:
            return
        self.ctx.hit("op:gauss")
        self.syms.add(sym)
        c, a = out
        self.add({"kind": "gauss", "sym": sym, "arrays": {"coeffs_s": c, "alphas_s": a}, "label": "load_atomic_gaussian_params result", "ref": {"coeffs_s": np.array(c), "alphas_s": np.array(a)}})
        self.log.append(f"gauss({sym})")

    def op_cov(self):
        rng = self.rng
        ctype = ["bragg", "cambridge", "alvarez"][int(rng.integers(3))]
        if rng.random() < 0.3:
            atn = int(rng.integers(1, 87))
        else:
            atn = [int(v) for v in rng.integers(1, 87, int(rng.integers(1, 8)))]
        res = self.observe_cov(atn, ctype, "call")
        if res is None:
            return
        self.ctx.hit("op:cov")
        self.add({"kind": "cov", "atn": atn, "ctype": ctype, "arrays": {"radii": res}, "label": "get_cov_radii result", "ref": {"radii": np.array(res)}})
        self.log.append("cov")

    def op_cache_clear(self):
        names = [a for m, a in H.discover() if m == "grid.angular"]
        if not names:
            self.ctx.count("cache_clear:no-angular-cache-found")
            self.ctx.hit("op:cache_clear")
            return
        name = names[int(self.rng.integers(len(names)))]
        if H.clear_cache(name):
            self.ctx.count("class:cache_clear:" + name)
        self.ctx.hit("op:cache_clear")
        self.log.append(f"clear({name})")

    def run(self, nops):
        w = np.array(WEIGHTS[self.family], dtype=float)
        w /= w.sum()
        for _ in range(nops):
            self.op += 1
            name = OPS[int(self.rng.choice(len(OPS), p=w))]
            getattr(self, "op_" + name)()
            self.after_op("operation " + name)
        self.op += 1
        self.finish()


def _c05_identity(ctx, at, spec, rg):
    """Second opinion on freshly built atomic grids: the C05 product-identity oracle (when that module is available)."""
    try:
        from gridrv.monitors import atomgrid_c05
    except Exception:  # noqa - written by another builder; optional
        ctx.count("c05-identity-oracle-unavailable")
        return
    req = {"rgrid": rg, "center": spec["centre"], "rotate": spec["rotate"], "method": spec["method"]}
    if spec["mode"] != "pruned":
        if spec["kw"].get("sizes") is not None:
            req["sizes"] = spec["kw"]["sizes"]
        else:
            req["degrees"] = spec["kw"].get("degrees", [50])
    atomgrid_c05.check_atomgrid_identity(ctx, at, req, tag=f"history:AtomGrid[{spec['method']}]")


# ------------------------------------------------------------------------------------------------ run_case
def run_case(ctx, family, params):
    if family == "aliasing-witness":
        return _witness(ctx, params)
    if family == "recorded-not-decided":
        return _recorded(ctx, params)
    if family == "size-overrides-degree":
        h = History(ctx, params["hid"], family)
        h.op += 1
        h.op_ang_size_degree(method=params["method"], wkind=params["warm"], via=params["via"], exhaustive=True)
        h.op += 1
        h.finish()
        ctx.case_note("ops", h.log[:12])
        return None
    if family == "default-rgrid-molecules":
        h = History(ctx, params["hid"], family)
        h.op += 1
        h.op_mol_default(config=params["config"])
        for _ in range(6):
            h.op += 1
            (h.op_edit if h.rng.random() < 0.7 else h.op_localgrid)()
            h.after_op("edit in a default-rgrid molecule history")
        h.op += 1
        h.op_mol_default(config=params["config"])
        h.op += 1
        h.finish()
        ctx.case_note("ops", h.log[:12])
        return None
    if family == "aborted-by-warning":
        h = History(ctx, params["hid"], family)
        for _ in range(2):
            h.op += 1
            h.op_aborted(degree=params["degree"], route=params["route"], first=params["first"])
        h.op += 1
        h.finish()
        ctx.case_note("ops", h.log[:12])
        return None
    if family == "transform-reuse":
        h = History(ctx, params["hid"], family)
        for _ in range(3):
            h.op += 1
            h.op_tf_session(cls=params["cls"], nsteps=12)
        h.op += 1
        h.finish()
        ctx.case_note("ops", h.log[:12])
        return None
    h = History(ctx, params["hid"], family)
    h.run(int(params["nops"]))
    ctx.case_note("ops", h.log[:12])
    ctx.case_note("n_ops", len(h.log))


def _witness(ctx, p):
    """construct -> overwrite the returned array -> construct again (cache on and off) -> AtomGrid on that sphere."""
    from grid.angular import AngularGrid

    h = History(ctx, p["hid"], "aliasing-witness")
    m, attr = p["method"], p["attr"]
    rows = _pool(m, SIZE_CAP_SHELL[m])
    for j, (d, s) in enumerate((rows[0], rows[len(rows) // 2])):
        h.op += 1
        subj = f"AngularGrid[{m}] cache={'on' if p['first_cache'] else 'off'}"
        with h.guard(subj) as gd:
            g = AngularGrid(degree=d, method=m, cache=p["first_cache"])
        if not gd.ok:
            continue
        ctx.hit("op:ang_new")
        H.check_angular(ctx, "angular-equals-shipped", subj, g, m, d, s)
        rec = h.add({"kind": "ang", "obj": g, "method": m, "deg": d, "size": s, "label": f"AngularGrid[{m}]"})
        other = AngularGrid(degree=d, method=m)  # a second, never edited instance of the same sphere
        rec2 = h.add({"kind": "ang", "obj": other, "method": m, "deg": d, "size": s, "label": f"AngularGrid[{m}]"})
        h.op += 1
        S = H.sentinel(h.hid, h.op, f"ang.{attr}")
        getattr(g, attr)[...] = S
        rec["dirty"].add(attr)
        ctx.hit("op:edit")
        why = f"in-place edit (fill) of ang.{attr} writing {S:.0f}"
        h.observe_angular(m, d, s, why)
        h.check_live(rec2, why)
        h.check_live(rec, why)
        spec = {"method": m, "r": np.array([0.5, 1.5]), "wr": np.array([0.3, 0.7]), "mode": "degree1", "rows": [(d, s)] * 2, "centre": None, "rotate": 0 if j == 0 else 7, "kw": {"method": m, "degrees": [d], "rotate": 0 if j == 0 else 7}}
        h.observe_atom(spec, why)
        h.structural()
    h.finish()


def _recorded(ctx, p):
    """Things seen that are deliberately NOT decided (ambiguous against the statement)."""
    from grid.atomgrid import AtomGrid
    from grid.basegrid import OneDGrid
    from grid.molgrid import MolGrid
    from grid.rtransform import ExpRTransform, LinearInfiniteRTransform, PowerRTransform

    ctx.trivial()
    for cls in (LinearInfiniteRTransform, ExpRTransform, PowerRTransform):
        try:
            tf = cls(1e-3, 10.0)
            try:
                tf.transform(np.zeros(4))
                rejected = False
            except ValueError:
                rejected = True
            if rejected and tf.b is not None:
                later = tf.transform(np.arange(5.0))
                ctx.observe(
                    "a transform that REJECTS an all-zero first grid (ValueError) nevertheless remembers b=0; later calls return non-finite values",
                    cls=cls.__name__,
                    b_after_rejected_call=float(tf.b),
                    later_transform_finite=bool(np.all(np.isfinite(later))),
                )
        except Exception as exc:  # noqa - recorded only
            ctx.count("recorded-not-decided:probe-raised:" + type(exc).__name__)
    try:
        rg = OneDGrid(np.array([0.5, 1.0]), np.array([1.0, 1.0]), (0, np.inf))
        at = AtomGrid(rg, degrees=[3])
        mol = MolGrid(np.array([1]), [at], np.ones(at.size), store=False)
        lg = mol.get_atomic_grid(0)
        ctx.observe("LocalGrid returned by MolGrid.get_atomic_grid/__getitem__ (store=False) is a view on the molecular grid's arrays (an edit writes through)", shares_points=bool(np.shares_memory(lg.points, mol.points)), shares_weights=bool(np.shares_memory(mol[0].weights, mol.weights)))
    except Exception as exc:  # noqa
        ctx.count("recorded-not-decided:probe-raised:" + type(exc).__name__)
    try:
        rg = OneDGrid(np.array([0.5, 1.0, 1.5]), np.array([1.0, 1.0, 1.0]), (0, np.inf))
        at = AtomGrid(rg, degrees=[5])
        f = np.ones(at.size)
        before = float(at.radial_component_splines(f)[0](1.0))
        at.basis[...] = 2.0 * at.basis
        after = float(at.radial_component_splines(f)[0](1.0))
        ctx.observe(
            "AtomGrid.basis hands out the lazily cached harmonics array of that object: an in-place edit of it changes what radial_component_splines "
            "of the SAME object returns later (own attribute, like .weights)",
            l0_component_before=before,
            l0_component_after=after,
        )
    except Exception as exc:  # noqa
        ctx.count("recorded-not-decided:probe-raised:" + type(exc).__name__)
    try:
        from grid.rtransform import IdentityRTransform

        x = np.arange(4.0)
        tf = IdentityRTransform()
        ctx.observe(
            "IdentityRTransform.transform / inverse return the caller's argument array itself (an edit of the 'returned' array edits the argument); compared by value only",
            transform_returns_argument=bool(tf.transform(x) is x),
            inverse_returns_argument=bool(tf.inverse(x) is x),
        )
    except Exception as exc:  # noqa
        ctx.count("recorded-not-decided:probe-raised:" + type(exc).__name__)
