"""C12 - degree/size requests resolve to the smallest supported angular grid not below."""

from __future__ import annotations

import numpy as np

from gridrv.monitors import angular as angmon
from gridrv.oracles import datafiles

PROP = "C12"
TITLE = "Degree/size requests resolve to the smallest supported angular grid not below"
REQUIRED_HOOKS = ["AngularGrid.__init__", "AngularGrid.__init__:raised"]
REQUIRED_FAMILIES = ["degree-range", "size-range", "converter", "reject", "atomgrid-shells", "preset-shells", "pruned-shells"]
BUDGET = {"quick": 240, "thorough": 2400}
EXHAUSTIVE = {"quick": True, "thorough": True}
RULE = (
    "Post-condition attached to AngularGrid.__init__ (fires on every construction): requested degree/size -> the "
    "smallest (degree,size) row advertised by the data-file names that is not below the request. Cases are ranges of "
    "consecutive integer requests per method (one case = one range, non-trivial when at least one grid was built and "
    "checked): both tiers enumerate every degree 0..max and every size 0..max of the 4 methods (exhaustive, about 115 000 "
    "constructions); thorough repeats all degrees and all table-boundary sizes with cache=False; plus converter sweeps over the whole size "
    "range and random sequences, rejections above the maximum, AtomGrid shells built from degree/size lists (also both at once: sizes win), and pruned grids whose sectors are given by size, by degree or by both (sizes win) against the sector oracle shared with C05 and an independent size>=request test."
)
ASSUMPTIONS = [
    "the advertised (degree,size) pairs are those in the shipped file names <method>_<degree>_<size>.npz",
    "requests are non-negative Python/NumPy integers",
]
LEVEL_TEXT = "Exhaustive at run time: every integer degree 0..max and every integer size 0..max of the four methods goes through the real constructor (about 115 000 constructions per run) under a post-condition that resolves the request by an independent linear scan of the public tables and checks the file on disk; plus converter sweeps, rejections, narrow integer types, AtomGrid shells and presets x methods."
TECHNIQUE = "runtime monitoring: post-condition on AngularGrid.__init__ (independent table scan + data directory), exhaustive enumeration of requests"
METHODS = ["lebedev", "spherical", "maxdet", "ahrens_beylkin"]
CHUNK = 250


def _max(method):
    t = datafiles.table(method)
    return max(d for d, _ in t), max(s for _, s in t)


def cases(tier, seed):
    out = []
    rng = np.random.default_rng([seed, 12])
    for m in METHODS:
        dmax, smax = _max(m)
        for a in range(0, dmax + 1, 60):
            out.append(("degree-range", {"method": m, "start": a, "stop": min(dmax + 1, a + 60)}, 3.0))
        for a in range(0, smax + 1, CHUNK):
            out.append(("size-range", {"method": m, "start": a, "stop": min(smax + 1, a + CHUNK)}, 1.0 + a / smax * 6))
        if tier == "thorough":  # second pass without the module cache (every construction re-reads its file)
            for a in range(0, dmax + 1, 20):
                out.append(("degree-range", {"method": m, "start": a, "stop": min(dmax + 1, a + 20), "cache": False}, 6.0))
            sizes = sorted({s + k for _, s in datafiles.table(m) for k in (-1, 0, 1) if 0 <= s + k <= smax})
            for i in range(0, len(sizes), 20):
                out.append(("size-range", {"method": m, "list": sizes[i : i + 20], "cache": False}, 6.0))
        out.append(("converter", {"method": m, "mode": "full"}, 5.0))
        for k in range(6 if tier == "quick" else 60):
            out.append(("converter", {"method": m, "mode": "random", "k": k}, 1.0))
        out.append(("reject", {"method": m}, 1.0))
        for k in range(4 if tier == "quick" else 40):
            out.append(("atomgrid-shells", {"method": m, "k": k}, 2.0))
        for k in range(6 if tier == "quick" else 60):
            out.append(("pruned-shells", {"method": m, "k": k, "given": ["sizes", "degrees", "both"][k % 3]}, 2.0))
    # presets through every angular method: no shell coarser than tabulated (clause shared with C05, whose monitor is reused)
    for pi, preset in enumerate(["coarse", "medium", "fine", "veryfine", "ultrafine", "insane", "sg_1", "sg_0", "sg_2", "g1", "g3"]):
        for mi, m in enumerate(METHODS):
            for k in range(1 if tier == "quick" else 6):
                out.append(("preset-shells", {"preset": preset, "method": m, "k": k}, 3.0))
    out.append(("tables", {}, 1.0))
    return out


def setup(ctx):
    datafiles.self_test()
    angmon.install_resolution_monitor(ctx)


def run_case(ctx, family, params):
    from grid.angular import AngularGrid
    from grid.atomgrid import AtomGrid
    from grid.basegrid import OneDGrid

    m = params.get("method")
    if family == "degree-range":
        for d in range(params["start"], params["stop"]):
            with ctx.guard("resolve-smallest-not-below", f"{m}:degree={d}"):
                g = AngularGrid(degree=_as_int_form(d, d), method=m, cache=params.get("cache", True))
                ctx.check("file-has-that-many-points", f"{m}:degree={d}", _file_len(m, g) == g.size)
    elif family == "size-range":
        vals = params.get("list") or range(params["start"], params["stop"])
        for s in vals:
            with ctx.guard("resolve-smallest-not-below", f"{m}:size={s}"):
                g = AngularGrid(size=_as_int_form(int(s), int(s) + 1), method=m, cache=params.get("cache", True))
                ctx.check("file-has-that-many-points", f"{m}:size={s}", _file_len(m, g) == g.size)
    elif family == "converter":
        dmax, smax = _max(m)
        if params["mode"] == "full":
            sizes = np.arange(0, smax + 1)
        else:
            n = int(ctx.rng.integers(1, 40))
            sizes = ctx.rng.integers(0, smax + 1, n)
            if ctx.rng.random() < 0.5:
                sizes = np.concatenate([sizes, sizes[: n // 2]])  # repeated entries
        with ctx.guard("converter-elementwise", m):
            degs = AngularGrid.convert_angular_sizes_to_degrees(sizes, m)
            ctx.hit("convert_angular_sizes_to_degrees")
            want = _resolve_sizes(m, sizes)
            ctx.check("converter-elementwise", m, np.array_equal(np.asarray(degs), want) and len(degs) == len(sizes), detail={"first_bad": _first_bad(degs, want, sizes)})
        if params["mode"] == "full":
            with ctx.guard("converter-elementwise", m + ":list"):
                lst = [int(v) for v in sizes[:: max(1, smax // 500)]]
                degs = AngularGrid.convert_angular_sizes_to_degrees(np.array(lst), m)
                ctx.check("converter-elementwise", m + ":strided", np.array_equal(np.asarray(degs), _resolve_sizes(m, np.array(lst))))
    elif family == "reject":
        dmax, smax = _max(m)
        for d in (dmax + 1, dmax + 2, dmax + 1000):
            try:
                AngularGrid(degree=d, method=m)
            except ValueError:
                pass
            except Exception:
                pass  # the monitor on __init__ records the wrong type
        for s in (smax + 1, smax + 1000):
            try:
                AngularGrid(size=s, method=m)
            except ValueError:
                pass
            except Exception:
                pass
            try:
                AngularGrid.convert_angular_sizes_to_degrees(np.array([1, s]), m)
                ctx.fail("reject-above-max", f"{m}:converter size={s}", "accepted")
            except ValueError:
                ctx.check("reject-above-max", f"{m}:converter size={s}", True)
        # largest admissible request still works
        with ctx.guard("resolve-smallest-not-below", f"{m}:degree={dmax}"):
            AngularGrid(degree=dmax, method=m)
        with ctx.guard("resolve-smallest-not-below", f"{m}:size={smax}"):
            AngularGrid(size=smax, method=m)
    elif family == "atomgrid-shells":
        dmax, smax = _max(m)
        rng = ctx.rng
        nsh = int(rng.integers(2, 9))
        r = np.sort(rng.uniform(0.05, 5.0, nsh))
        rgrid = OneDGrid(r, np.ones(nsh), (0, np.inf))
        cap_d = min(dmax, 45)
        both = rng.random() < 0.3  # documented: "If both degrees and sizes are given, sizes are used"
        if not both and rng.random() < 0.5:
            req = [int(v) for v in rng.integers(0, cap_d + 1, nsh)]
            with ctx.guard("atomgrid-shell-not-coarser", m):
                at = AtomGrid(rgrid, degrees=req, method=m)
                want = [datafiles.resolve(m, degree=d)[0] for d in req]
                ctx.check("atomgrid-shell-not-coarser", f"{m}:degrees", list(map(int, at.degrees)) == want, detail={"req": req, "got": list(map(int, at.degrees)), "want": want})
        else:
            cap_s = datafiles.resolve(m, degree=cap_d)[1]
            req = [int(v) for v in rng.integers(1, cap_s + 1, nsh)]
            with ctx.guard("atomgrid-shell-not-coarser", m):
                if both:
                    ctx.hit("AtomGrid(degrees and sizes both given)")
                    at = AtomGrid(rgrid, [int(v) for v in rng.integers(0, cap_d + 1, nsh)] if rng.random() < 0.7 else [int(rng.integers(0, cap_d + 1))], sizes=req, method=m)
                else:
                    at = AtomGrid(rgrid, sizes=req, method=m)
                want = [datafiles.resolve(m, size=s) for s in req]
                got_sizes = [int(at.indices[i + 1] - at.indices[i]) for i in range(nsh)]
                ctx.check("atomgrid-shell-not-coarser", f"{m}:sizes", list(map(int, at.degrees)) == [w[0] for w in want] and got_sizes == [w[1] for w in want], detail={"req": req, "got": got_sizes})
                ctx.check("atomgrid-shell-not-coarser", f"{m}:sizes>=req", all(g >= q for g, q in zip(got_sizes, req)))
    elif family == "pruned-shells":
        # "pruned ... atomic grids never get a shell coarser than asked for": sectors by size, by degree, and by both
        # (documented: "If both d_sectors and s_sectors are given, s_sectors is used")
        from gridrv.monitors import atomgrid_c05

        dmax, smax = _max(m)
        rng = ctx.rng
        nsh = int(rng.integers(6, 40))
        r = np.sort(rng.uniform(0.02, 8.0, nsh))
        rgrid = OneDGrid(r, np.ones(nsh), (0, np.inf))
        nsec = int(rng.integers(1, 6))
        radius = float(rng.uniform(0.5, 2.5))
        r_sectors = [float(v) for v in np.sort(rng.uniform(0.05, 4.0, nsec - 1))] if nsec > 1 else []
        cap_d = min(dmax, 45)
        cap_s = datafiles.resolve(m, degree=cap_d)[1]
        d_sec = [int(v) for v in rng.integers(0, cap_d + 1, nsec)]
        s_sec = [int(v) for v in rng.integers(1, cap_s + 1, nsec)]
        given = params["given"]
        form = [list, np.array, lambda v: np.array(v, dtype=np.int32)][int(rng.integers(0, 3))]
        a = {"rgrid": rgrid, "radius": radius, "r_sectors": r_sectors, "d_sectors": None, "s_sectors": None, "center": None, "rotate": 0, "method": m}
        subj = f"from_pruned:{m}:{given}"
        with ctx.guard("pruned-not-coarser", subj):
            if given == "sizes":
                a["s_sectors"] = s_sec
                at = AtomGrid.from_pruned(rgrid, radius, r_sectors=r_sectors, s_sectors=form(s_sec), method=m)
            elif given == "degrees":
                a["d_sectors"] = d_sec
                at = AtomGrid.from_pruned(rgrid, radius, r_sectors=r_sectors, d_sectors=form(d_sec), method=m)
            else:
                a["d_sectors"], a["s_sectors"] = d_sec, s_sec
                if rng.random() < 0.5:
                    at = AtomGrid.from_pruned(rgrid, radius, r_sectors=r_sectors, d_sectors=form(d_sec), s_sectors=form(s_sec), method=m)
                else:
                    at = AtomGrid.from_pruned(rgrid, radius, r_sectors, form(d_sec), s_sectors=form(s_sec), method=m)
            ctx.hit("AtomGrid.from_pruned:" + given)
            atomgrid_c05.check_pruned(ctx, at, a, tag=subj)
            # independent of the sector oracle above: the size of every shell against the request of the sector(s) the
            # radius may belong to (tie band on the sector edges)
            edges = np.asarray(r_sectors, dtype=float) * radius
            lo, hi = atomgrid_c05.sector_span(rgrid.points, edges) if nsec > 1 else (np.zeros(nsh, int), np.zeros(nsh, int))
            got_sizes = [int(at.indices[i + 1] - at.indices[i]) for i in range(nsh)]
            if given == "degrees":
                asked = [min(datafiles.resolve(m, degree=d_sec[k])[1] for k in range(lo[i], hi[i] + 1)) for i in range(nsh)]
            else:
                asked = [min(s_sec[k] for k in range(lo[i], hi[i] + 1)) for i in range(nsh)]
            bad = [i for i in range(nsh) if got_sizes[i] < asked[i]]
            ctx.check("pruned-not-coarser", subj, not bad, sig="shell-coarser-than-its-sector-asks", detail={"first_bad_shell": bad[:1], "got": [got_sizes[i] for i in bad[:1]], "asked": [asked[i] for i in bad[:1]], "s_sectors": a["s_sectors"], "d_sectors": a["d_sectors"]})
    elif family == "preset-shells":
        from gridrv.monitors import atomgrid_c05
        from gridrv.oracles import presets_c05
        from grid.onedgrid import GaussChebyshev
        from grid.rtransform import BeckeRTransform

        preset = params["preset"]
        els = [z for z in presets_c05.elements(preset) if not (preset == "sg_3" and z == 14)]
        z = int(els[int(ctx.rng.integers(0, len(els)))])
        n = presets_c05.prescribed_size(preset, z) or int(ctx.rng.integers(20, 60))
        rg = BeckeRTransform(1e-4, 1.5).transform_1d_grid(GaussChebyshev(n))
        a = {"atnum": z, "preset": preset, "rgrid": rg, "center": None, "rotate": 0, "method": m}
        ctx.case_note("Z", z)
        try:
            at = AtomGrid.from_preset(atnum=z, preset=preset, rgrid=rg, method=m)
        except Exception as exc:
            if not __import__("gridrv.core", fromlist=["core"]).is_library_exception(exc):
                raise
            atomgrid_c05.check_preset(ctx, None, exc, a)
            return
        ctx.hit("AtomGrid.from_preset")
        atomgrid_c05.check_preset(ctx, at, None, a)
    elif family == "tables":
        for mm in METHODS:
            npoints, degrees = datafiles.code_dicts(mm)
            t = datafiles.table(mm)
            ks, kd = list(npoints.keys()), list(degrees.keys())
            ctx.check("tables-sorted-inverse", mm + ":sorted", ks == sorted(ks) and kd == sorted(kd) and len(set(ks)) == len(ks))
            ctx.check("tables-sorted-inverse", mm + ":inverse", all(degrees.get(d) == s for s, d in npoints.items()) and len(degrees) == len(npoints))
            ctx.check("tables-sorted-inverse", mm + ":monotone", [s for _, s in t] == sorted(s for _, s in t))
            files = set(datafiles.file_rows(mm))
            missing = [r for r in t if r not in files]
            ctx.check("file-has-that-many-points", mm + ":one-file-per-row", not missing, detail={"missing": missing[:5]})
            ctx.case_note(mm + "_rows", len(t))
            ctx.case_note(mm + "_unadvertised_files", sorted(files - set(t)))
    else:
        raise ValueError(family)


_INT_FORMS = [int, np.int64, np.int32, np.int16, np.uint16, np.int8, np.uint8, np.uint32, np.uint64]


def _as_int_form(v, k):
    """The request as a Python int or as any NumPy integer type that can hold it (rotating with k)."""
    forms = [f for f in _INT_FORMS if f is int or (np.iinfo(f).min <= v <= np.iinfo(f).max)]
    return forms[k % len(forms)](v)


_len_memo = {}


def _file_len(method, g):
    key = (method, int(g.degree), int(g.size))
    if key not in _len_memo:
        try:
            _len_memo[key] = len(datafiles.pristine_sphere(method, key[1], key[2])[0])
        except FileNotFoundError:
            _len_memo[key] = -1
    return _len_memo[key]


def _resolve_sizes(m, sizes):
    t = np.array(sorted(datafiles.table(m), key=lambda r: r[1]))
    idx = np.searchsorted(t[:, 1], np.asarray(sizes), side="left")
    return t[idx, 0]


def _first_bad(degs, want, sizes):
    degs = np.asarray(degs)
    if len(degs) != len(want):
        return "length"
    bad = np.where(degs != want)[0]
    return None if len(bad) == 0 else {"size": int(sizes[bad[0]]), "got": int(degs[bad[0]]), "want": int(want[bad[0]])}
