"""C20 - library calls never modify the caller's arrays, lists, dictionaries or callback results."""

from __future__ import annotations

import json
import os
import subprocess
import tempfile
import time

import numpy as np

from gridrv import core
from gridrv.monitors import snapshot_c20 as snap

PROP = "C20"
TITLE = "Library calls never modify the caller's arrays, dictionaries or callback results"
REQUIRED_HOOKS = [
    "Grid.__init__", "Grid.integrate", "Grid.moments", "Grid.get_localgrid", "Grid.__getitem__", "OneDGrid.__init__", "OneDGrid.__getitem__",
    "LocalGrid.__init__", "AngularGrid.__init__", "AngularGrid.convert_angular_sizes_to_degrees",
    "AtomGrid.__init__", "AtomGrid.from_pruned", "AtomGrid.from_preset", "AtomGrid.interpolate", "AtomGrid.interpolate()", "AtomGrid.radial_component_splines",
    "AtomGrid.spherical_average", "AtomGrid.integrate_angular_coordinates", "AtomGrid.convert_cartesian_to_spherical", "AtomGrid.get_shell_grid",
    "MolGrid.__init__", "MolGrid.from_preset", "MolGrid.from_size", "MolGrid.from_pruned", "MolGrid.interpolate", "MolGrid.interpolate()", "MolGrid.__getitem__", "MolGrid.get_atomic_grid",
    "BeckeWeights.__init__", "BeckeWeights.__call__", "BeckeWeights.generate_weights", "BeckeWeights.compute_weights", "BeckeWeights.compute_atom_weight",
    "HirshfeldWeights.__call__", "HirshfeldWeights.generate_proatom",
    "UniformGrid.__init__", "UniformGrid.from_molecule", "UniformGrid.from_cube", "UniformGrid.interpolate", "UniformGrid.closest_point", "UniformGrid.generate_cube",
    "Tensor1DGrids.__init__", "Tensor1DGrids.interpolate", "PeriodicGrid.__init__", "PeriodicGrid.get_localgrid", "PeriodicGrid.__getitem__", "MultiDomainGrid.__init__", "MultiDomainGrid.integrate",
    "solve_ode_ivp", "solve_ode_bvp", "solve_poisson_bvp", "solve_poisson_bvp()", "solve_poisson_ivp", "solve_poisson_ivp()", "interpolate_laplacian", "interpolate_laplacian()",
    "solve_poisson_robust", "solve_poisson_robust()", "coulomb_gaussian_s", "coulomb_gaussian_p", "coulomb_potential", "load_atomic_gaussian_params",
    "get_cov_radii", "generate_real_spherical_harmonics", "generate_real_spherical_harmonics_scipy", "generate_derivative_real_spherical_harmonics", "solid_harmonics",
    "convert_cart_to_sph", "convert_derivative_from_spherical_to_cartesian", "generate_orders_horton_order", "dipole_moment_of_molecule",
    "BeckeRTransform.transform_1d_grid", "InverseRTransform.transform", "BeckeRTransform.find_parameter",
    "Grid.points=", "Grid.weights=", "OneDGrid.points=", "OneDGrid.weights=", "LocalGrid.weights=", "PeriodicGrid.points=", "PeriodicGrid.weights=",
    "AtomGrid.weights=", "MolGrid.points=", "MolGrid.weights=", "UniformGrid.points=", "UniformGrid.weights=", "Tensor1DGrids.weights=", "AngularGrid.weights=",
    "LinearInfiniteRTransform.set_maximum_parameter_b",
]
REQUIRED_FAMILIES = ["api-aliasing", "ode-callbacks", "ode-data", "ode-structure", "poisson", "transforms"]
BUDGET = {"quick": 1200, "thorough": 4800}
MODES = ("fresh", "readonly", "view", "alias")
ORDERS = ("ascending", "descending", "shuffled", "repeated")
RULE = (
    "Generic byte-snapshot monitor on every public callable of every grid module (183 wrapped; blake2b of bytes+dtype+shape+writeable flag of every "
    "array reachable from args/kwargs through lists/tuples/dicts/attributes of grid objects, structure of the containers, every array returned by a "
    "user callback through a transparent proxy, functions returned by the API wrapped too; compared at exit, normal or exceptional). One case = one "
    "scenario of the aliasing workload (a family of API calls on one object graph: base grids, transforms, atomic grids, molecular grids, Becke/Hirshfeld, "
    "cubic, periodic, multi-domain, Coulomb, utils, ODE IVP/BVP with callbacks returning fresh arrays / their ARGUMENT / a cached array / a view and "
    "non-zero a0,a1, Poisson BVP/IVP/robust/Laplacian with a reused option dict) x argument pattern (fresh, write-protected = sanitizer mode, "
    "non-contiguous views, the same array passed twice) x replica k (sizes and numbers drawn from the case RNG; the DISCRETE options and special values of "
    "each API - angular method, presets incl. shell-count ones, rotate, store, weight schemes, negative axes, use_log/nu_*, which=, wrap, trim_inf and the "
    "transform end points, moment types, chunk sizes, elements without a Bragg radius, custom radii, orders - rotate deterministically with (replica, pattern) "
    "so that every option is entered in every run; arrays whose order the API leaves free are handed over ascending / descending / shuffled / with "
    "repeated values; every sequence ends with all public property setters of the object, found by introspection, and further calls). Family ode-structure: ODEs whose lower-order terms are absent (scalar zeros, zero array, zero-returning callables) or only partly present x leading coefficient 1 / constant / callable (fresh, cached, view) x rhs returning its argument / a cached array / a view / a fresh array x orders 1-3 x solver x transform x read-only; mesh and data compared bitwise after the solve and after evaluating the solution. Family ode-data: initial values / boundary data / interval / mesh as list, tuple, float64, int, float32 "
    "array and strided view x orders 1-3 x every transform setting x read-only, compared bitwise after the call. Non-fresh patterns first run the fresh "
    "baseline and compare results; every scenario finally compares every array/list/dict it created with a pristine copy (covers arrays handed to a "
    "constructor and modified by a later method). thorough adds more replicas and the repository's own tests run under the monitor in shards "
    "(family repo-tests, JSON side file). A case is non-trivial when at least one monitored call digested something."
)
ASSUMPTIONS = [
    "caller-owned data = ndarrays, lists, tuples, dicts reachable from the arguments of a public call (also through attributes of grid objects passed as arguments) and arrays returned by user callbacks",
    "mutation of the object `self` is not covered unless the mutated array aliases an array the caller passed to the constructor",
    "digest = blake2b-128 of the raw bytes + dtype + shape + writeable flag; a change that restores the exact bytes before the call returns is invisible (write-protected mode traps those writes)",
]
LEVEL_TEXT = "Held on the executions listed: every public callable wrapped, aliasing workload over the whole public API in four argument patterns, plus (thorough) the repository's tests under the monitor."
TECHNIQUE = "runtime monitoring: byte-snapshot monitor + write-protection sanitizer + callback proxies on every public callable"

TOL_SAME = 1e-9  # results of the same call with aliased / read-only / strided inputs (summation order may differ for strided views)
TOL_SOLVE = 1e-5  # adaptive ODE/Poisson solves (mesh decisions may flip on last-bit differences)
NREPO_SHARDS = 24


# ------------------------------------------------------------------------------------ cases
def cases(tier, seed):
    out = []
    nrep = 2 if tier == "quick" else 10
    for scn, cost in SCENARIOS.items():
        for mode in MODES:
            for k in range(nrep):
                out.append(("api-aliasing" if scn not in ("transforms",) else "transforms", {"scenario": scn, "mode": mode, "k": k}, cost * (1.0 if mode == "fresh" else 2.0)))
    # ODE: solver x transform x rhs kind x coefficient kind (x order), each in normal and write-protected mode
    tfs = ["none", "identity", "inv-becke", "linear-finite"] + (["exp", "inv-knowles"] if tier == "thorough" else [])
    rhs_kinds = ["arg", "cached", "view-of-arg", "view-of-cache", "fresh"]
    co_kinds = ["number", "arg", "cached", "view-of-cache", "fresh", "ndarray"]
    rng = np.random.default_rng([seed, 20])
    for solver in ("bvp", "ivp"):
        for tf in tfs:
            for ro in (False, True):
                combos = [(r, c) for r in rhs_kinds for c in co_kinds]
                if tier == "quick":  # every rhs kind and every coefficient kind at least once per (solver, tf, ro), rotating with the seed
                    idx = rng.permutation(len(combos))
                    pick, seen_r, seen_c = [], set(), set()
                    for i in idx:
                        r, c = combos[i]
                        if r not in seen_r or c not in seen_c:
                            pick.append((r, c))
                            seen_r.add(r)
                            seen_c.add(c)
                    combos = pick
                for j, (r, c) in enumerate(combos):
                    for order in ((1, 2, 3)[(j + seed) % 3],) if tier == "quick" else (1, 2, 3):  # quick: orders rotate over the picked combos
                        out.append(("ode-callbacks", {"solver": solver, "tf": tf, "rhs": r, "coef": c, "order": order, "readonly": ro}, 1.5))
    # ODE initial / boundary data in every container type the documentation allows, all orders, every transform setting
    for solver in ("bvp", "ivp"):
        for tf in tfs:
            for order in (1, 2, 3):
                for ro in (False, True):
                    out.append(("ode-data", {"solver": solver, "tf": tf, "order": order, "readonly": ro}, 2.0))
                    # ODE structure: absent lower-order terms (scalar zeros / zero array / zero-returning callables / only one
                    # term present) x leading coefficient (1, constant != 1, callables) x rhs kind, rotated through inside the case
                    out.append(("ode-structure", {"solver": solver, "tf": tf, "order": order, "readonly": ro, "stride": 9 if tier == "quick" else 3}, 3.0 if tier == "quick" else 8.0))
    for kind in ("bvp", "ivp", "robust", "robust-split2", "laplacian", "bvp-mol"):
        for mode in MODES:
            for k in range(1 if tier == "quick" else 3):
                out.append(("poisson", {"kind": kind, "mode": mode, "k": k}, {"bvp": 8, "ivp": 20, "robust": 10, "robust-split2": 10, "laplacian": 2, "bvp-mol": 30}[kind]))
    if tier == "thorough":
        for i in range(NREPO_SHARDS):
            out.append(("repo-tests", {"shard": i, "of": NREPO_SHARDS}, 500.0))
    only = os.environ.get("GRIDRV_C20_ONLY")  # development aid: "family[,family]" (a restricted run ends INCONCLUSIVE: hooks missing)
    if only:
        out = [c for c in out if c[0] in only.split(",") or c[1].get("scenario") in only.split(",")]
    return out


# ------------------------------------------------------------------------------------ setup
def setup(ctx):
    _monitor_self_test()
    names = snap.install(snap.CtxSink(ctx))
    ctx.count("public-callables-wrapped", len(names))
    if len(names) < 150:
        raise core.MonitorError(f"only {len(names)} public callables found")


def _monitor_self_test():
    """The snapshot machinery must see each kind of mutation (and stay silent on a clean function)."""
    sink = snap.DictSink()
    old = snap.M.sink
    snap.M.sink = sink
    try:

        def clean(a, opts, lst, cb):
            cb(a)
            return float(a.sum()) + len(opts) + len(lst)

        def bad_array(a, opts, lst, cb):
            a[0] += 1.0

        def bad_dict(a, opts, lst, cb):
            opts.setdefault("tol", 1e-6)

        def bad_list(a, opts, lst, cb):
            lst.sort()

        def bad_nested(a, opts, lst, cb):
            opts["arr"] *= 2

        def bad_cb(a, opts, lst, cb):
            r = cb(a)
            r -= 1.0

        expect = {"clean": None, "bad_array": snap.CL_DATA, "bad_dict": snap.CL_DATA, "bad_list": snap.CL_DATA, "bad_nested": snap.CL_DATA, "bad_cb": snap.CL_CB}
        cache = np.ones(4)
        for fn in (clean, bad_array, bad_dict, bad_list, bad_nested, bad_cb):
            sink.failures.clear()
            w = snap._make_wrapper(fn, fn.__name__, "function", fn.__name__)
            w(np.arange(4.0), {"arr": np.ones(3)}, [3, 1, 2], lambda x: cache)
            got = sorted({f["clause"] for f in sink.failures})
            want = [expect[fn.__name__]] if expect[fn.__name__] else []
            if got != want:
                raise core.MonitorError(f"snapshot self-test: {fn.__name__} gave {got}, expected {want}")
        if sink.errors:
            raise core.MonitorError(f"snapshot self-test: monitor errors {sink.errors[:1]}")
    finally:
        snap.M.sink = old


# -------------------------------------------------------------------------- input factories
class Mk:
    """Array factory of one scenario run: applies the argument pattern and keeps pristine copies."""

    def __init__(self, mode, share=True):
        self.mode = mode
        self.alias = mode == "alias"
        self.share = share  # alias mode: pass the very same object twice; its baseline (share=False): equal copies
        self.reg = []
        self.consts = []  # (name, container of arrays, value): arrays a callback hands out must keep their value

    def __call__(self, a, name="array"):
        a = np.array(a)
        if self.mode == "view" and a.ndim in (1, 2) and a.size:
            self.nview = getattr(self, "nview", 0) + 1
            lay = self.nview % 3  # strided view / contiguous slice of a larger buffer / column-major (F-ordered) array
            if a.ndim == 1:
                buf = np.zeros(2 * a.size + 3, dtype=a.dtype)
                v = buf[1 : 1 + 2 * a.size : 2] if lay != 1 else buf[2 : 2 + a.size]
            elif lay == 2:
                v = np.zeros(a.shape, dtype=a.dtype, order="F")
            elif lay == 1:
                buf = np.zeros((a.shape[0] + 2, a.shape[1]), dtype=a.dtype)
                v = buf[1:-1]
            else:
                buf = np.zeros((a.shape[0], 2 * a.shape[1]), dtype=a.dtype)
                v = buf[:, ::2]
            v[...] = a
            a = v
        if self.mode == "readonly":
            a.setflags(write=False)
        self.reg.append((name, a, np.array(a, copy=True)))
        return a

    def same(self, a, name="alias"):
        """`a` is (a view of) an array that is already an argument elsewhere: alias mode passes that very object
        again, the alias baseline passes a copy with equal content."""
        if self.share:
            return a
        c = np.array(a)
        self.reg.append((name, c, c.copy()))
        return c

    def pair(self, a, name="array"):
        """Two arguments with equal content: the SAME object in alias mode, two arrays otherwise."""
        x = self(a, name)
        return (x, self.same(x, name + "'")) if self.alias else (x, self(a, name + "'"))

    def obj(self, o, name):
        """Register a list / dict / tuple (possibly nested) for the final comparison."""
        self.reg.append((name, o, _deep(o)))
        return o

    def const(self, name, container, value):
        self.consts.append((name, container, value))

    def check(self, ctx, scenario):
        bad = []
        for name, o, pristine in self.reg:
            if not _same(o, pristine):
                bad.append(name)
        for name, container, value in self.consts:
            arrs = list(container.values()) if isinstance(container, dict) else [container]
            if not all(bool(np.all(a == value)) for a in arrs):
                bad.append(name)
        ctx.check("caller-data-unchanged-after-sequence", f"{scenario}", not bad, sig="changed:" + ",".join(sorted(set(bad)))[:80], detail={"changed": bad[:10]})


def _deep(o):
    if isinstance(o, np.ndarray):
        return o.copy()
    if isinstance(o, list):
        return [_deep(v) for v in o]
    if isinstance(o, tuple):
        return tuple(_deep(v) for v in o)
    if isinstance(o, dict):
        return {k: _deep(v) for k, v in o.items()}
    return o


def _same(a, b):
    if isinstance(b, np.ndarray):
        return isinstance(a, np.ndarray) and a.dtype == b.dtype and a.shape == b.shape and a.tobytes() == b.tobytes()
    if isinstance(b, (list, tuple)):
        return type(a) is type(b) and len(a) == len(b) and all(_same(x, y) for x, y in zip(a, b))
    if isinstance(b, dict):
        return isinstance(a, dict) and list(a.keys()) == list(b.keys()) and all(_same(a[k], b[k]) for k in b)
    if isinstance(b, float) and b != b:
        return isinstance(a, float) and a != a
    return a is b or (type(a) is type(b) and a == b)


class Run:
    """One run of a scenario: guarded calls + collected results."""

    def __init__(self, ctx, mk, scenario, salt=0):
        self.ctx, self.mk, self.scenario = ctx, mk, scenario
        self.results = []
        self.salt, self.npick = int(salt), 0

    def pick(self, choices):
        """Deterministic rotation through the discrete options of an API: run number `salt` (= replica * 4 + argument
        pattern) takes option (salt + #picks so far) mod len, so the 8 quick runs of a scenario enter every option of
        every list of <= 8 choices, identically in the baseline and in the pattern run of one case."""
        self.npick += 1
        return choices[(self.salt + self.npick) % len(choices)]

    def order(self):
        """Order of the values inside arrays whose order the API leaves free: rotates with replica + argument pattern."""
        return ORDERS[(self.salt // len(MODES) + self.salt) % len(ORDERS)]

    def arrange(self, values, order=None):
        """Re-order (ascending / descending / shuffled / with repeated values) - the multiset is what the caller chose,
        the order must be nobody's business but the caller's."""
        order = order or self.order()
        v = np.sort(np.asarray(values), axis=0)
        if order == "repeated" and len(v) > 3:
            v = v.copy()
            v[1], v[-1] = v[0], v[-2]
        if order == "descending":
            v = v[::-1].copy()
        elif order in ("shuffled", "repeated"):
            v = v[np.random.default_rng([self.salt, len(v)]).permutation(len(v))]
        return v

    def use_setters(self, obj, label, rng):
        """Every public property with a setter (found by introspection) is assigned a fresh caller array of the same
        shape; returns the names used. What was handed to the constructor / to earlier calls is compared afterwards."""
        used = []
        cls = type(obj)
        for name in sorted(n for n in dir(cls) if not n.startswith("_")):
            prop = getattr(cls, name, None)
            if not isinstance(prop, property) or prop.fset is None:
                continue
            cur = getattr(obj, name)
            if not isinstance(cur, np.ndarray) or cur.dtype.kind != "f":
                continue
            new = self.mk(np.array(cur)[::-1] * (1.0 + 0.01 * rng.random()) + (0.003 if name == "weights" else 0.0), f"{label}.new-{name}")
            ok = False
            with self.ctx.guard("no-exception", f"{cls.__name__}.{name}=[{self.mk.mode}]"):
                setattr(obj, name, new)
                ok = True
            if ok:
                used.append(name)
                self.ctx.count("property-setters-exercised")
                self.keep(f"{label}.{name}-after-set", getattr(obj, name))
        return used

    def call(self, subject, fn, *a, **k):
        out = None
        with self.ctx.guard("no-exception", f"{subject}[{self.mk.mode}]"):
            out = fn(*a, **k)
        return out

    def keep(self, label, value):
        if value is None:
            return
        try:
            v = np.asarray(value, dtype=float)
        except (TypeError, ValueError):
            return
        self.results.append((label, v))


def _reldiff(a, b):
    if a.shape != b.shape:
        return float("inf")
    fin = np.isfinite(a) & np.isfinite(b)
    if not fin.all():
        na, nb = a[~fin], b[~fin]
        if not np.array_equal(np.isnan(na), np.isnan(nb)) or not np.array_equal(na[~np.isnan(na)], nb[~np.isnan(nb)]):
            return float("inf")
    if not fin.any():
        return 0.0
    return float(np.abs(a[fin] - b[fin]).max() / (1.0 + np.abs(a[fin]).max()))


def _compare(ctx, scenario, mode, base, other, tol):
    subj = f"{scenario}[{mode}]"
    if [l for l, _ in base] != [l for l, _ in other]:
        ctx.check("result-independent-of-argument-pattern", subj, False, sig="different-set-of-results", detail={"base": [l for l, _ in base][:30], "other": [l for l, _ in other][:30]})
        return
    worst, wl = 0.0, None
    for (l, a), (_, b) in zip(base, other):
        m = _reldiff(a, b)
        if wl is None or m > worst or m != m:
            worst, wl = m, l
            if m != m:
                break
    ctx.check("result-independent-of-argument-pattern", subj, worst, tol, sig=f"differs:{wl}", detail={"worst_result": wl, "rel_diff": worst})


# ---------------------------------------------------------------------------------- scenarios
def _tmp(name):
    d = os.path.join(tempfile.gettempdir(), f"gridrv-c20-{os.getpid()}")
    os.makedirs(d, exist_ok=True)
    return os.path.join(d, name)


def scn_basegrid(R, rng):
    from grid.basegrid import Grid, LocalGrid, OneDGrid

    mk, n = R.mk, int(rng.integers(12, 60))
    pts, w = mk(rng.normal(size=(n, 3)), "points"), mk(rng.uniform(0.1, 1, n), "weights")
    g = R.call("Grid", Grid, pts, w)
    if g is None:
        return
    f1, f2 = mk.pair(rng.normal(size=n), "func_vals")
    R.keep("int1", R.call("Grid.integrate", g.integrate, f1))
    R.keep("int2", R.call("Grid.integrate", g.integrate, f1, f2))
    R.keep("int3", R.call("Grid.integrate", g.integrate, f1, f2, mk.same(w) if mk.alias else mk(rng.normal(size=n), "f3")))
    for idx in (3, np.int64(2), slice(2, 9), mk(np.array([1, 4, 5]), "index"), mk(rng.random(n) < 0.5, "mask")):
        sub = R.call("Grid.__getitem__", g.__getitem__, idx)
        if sub is not None:
            R.keep("getitem", sub.points)
    c = mk(rng.normal(size=3) * 0.3, "center")
    for rad in (0.0, 0.8, 50.0, np.inf):
        lg = R.call("Grid.get_localgrid", g.get_localgrid, c, rad)
        if lg is not None:
            R.keep("local-idx", lg.indices)
            R.keep("local-w", lg.weights)
    R.call("Grid.get_localgrid", g.get_localgrid, mk.same(pts[0]) if mk.alias else [0.1, 0.2, 0.3], 1.0)
    cen = mk.same(pts[:3]) if mk.alias else mk(rng.normal(size=(3, 3)), "centers")
    fv = mk.same(w) if mk.alias else f1
    for tm in ("cartesian", "radial", "pure", "pure-radial"):
        R.keep("mom-" + tm, R.call("Grid.moments", g.moments, 2, cen, fv, tm))
    mo = R.call("Grid.moments", g.moments, np.int64(1), cen, fv, "cartesian", True)
    if mo is not None:
        R.keep("mom-orders", mo[1])
    R.call("Grid.save", g.save, _tmp("grid.npz"))
    R.keep("g.props", [g.size, float(g.points[0, 0]), float(g.weights[0])])
    # index arrays / centres in every order (descending, shuffled, repeated entries)
    for od in ORDERS:
        sub = R.call("Grid.__getitem__", g.__getitem__, mk(R.arrange(np.arange(1, min(n, 9)), od), "index-" + od))
        if sub is not None:
            R.keep("getitem-" + od, sub.weights)
    R.keep("mom-repeated-centres", R.call("Grid.moments", g.moments, 1, mk(R.arrange(np.vstack([np.asarray(cen), np.asarray(cen)[:1]])), "centers-arranged"), fv, "radial"))
    # a second grid on the SAME caller arrays; then the first one is changed through its public setters
    twin = R.call("Grid", Grid, pts, w)
    before = None if twin is None else R.call("Grid.integrate", twin.integrate, f1)
    R.use_setters(g, "g", rng)
    R.keep("g.int-after-set", R.call("Grid.integrate", g.integrate, f1))
    if twin is not None:
        after = R.call("Grid.integrate", twin.integrate, f1)
        R.keep("twin", [before, after])
        R.ctx.check("caller-data-unchanged-after-sequence", "basegrid:grid-sharing-the-caller-arrays", before == after and twin.weights is w and twin.points is pts, sig="twin-grid-changed-by-setter-of-the-other", detail={"before": before, "after": after})
    ind = mk(np.arange(n), "indices")
    lg = R.call("LocalGrid", LocalGrid, pts, w, c, ind)
    if lg is not None:
        R.keep("lg-int", R.call("LocalGrid.integrate", lg.integrate, f1))
        R.call("LocalGrid.save", lg.save, _tmp("lgrid.npz"))
        R.use_setters(lg, "lg", rng)
        R.keep("lg-int-after-set", R.call("LocalGrid.integrate", lg.integrate, f1))
    # one-dimensional grids: points and weights may be the same object
    x, wx = mk.pair(R.arrange(rng.uniform(0.05, 0.95, n)), "x1d")  # nodes of a hand-made 1-D grid: any order inside the domain
    dom = mk.obj([0.0, 1.0], "domain")
    og = R.call("OneDGrid", OneDGrid, x, wx, dom)
    if og is not None:
        R.keep("1d-int", R.call("OneDGrid.integrate", og.integrate, mk.same(x) if mk.alias else f1))
        for idx in (1, slice(0, 5), mk(np.array([0, 2]), "index1d")):
            s = R.call("OneDGrid.__getitem__", og.__getitem__, idx)
            if s is not None:
                R.keep("1d-getitem", s.weights)
        lg = R.call("OneDGrid.get_localgrid", og.get_localgrid, 0.5, 0.2)
        if lg is not None:
            R.keep("1d-local", lg.points)
    if og is not None:
        parent = R.call("OneDGrid.get_localgrid", og.get_localgrid, 0.5, np.inf)  # shares points/weights with its parent
        R.use_setters(og, "og", rng)
        R.keep("og.int-after-set", R.call("OneDGrid.integrate", og.integrate, f1))
        if parent is not None:
            R.keep("og.local-inf", parent.weights)
    og2 = R.call("OneDGrid", OneDGrid, x, wx)  # without a domain
    if og2 is not None:
        R.keep("1d-nodomain", [og2.size, og2.domain is None])
    g1 = R.call("Grid", Grid, x, wx)
    if g1 is not None:
        lg = R.call("Grid.get_localgrid", g1.get_localgrid, np.float64(0.4), 0.3)
        if lg is not None:
            R.keep("g1-local", lg.indices)
        lg2 = R.call("Grid.get_localgrid", g1.get_localgrid, mk(np.array(0.4), "center0d"), np.inf)
        if lg2 is not None:
            R.keep("g1-local-inf", lg2.weights)


_TF_SPECS = [
    ("BeckeRTransform", (0.1, 1.5), {}),
    ("BeckeRTransform", (0.0, 2.0), {"trim_inf": False}),
    ("LinearFiniteRTransform", (0.5, 4.0), {}),
    ("IdentityRTransform", (), {}),
    ("LinearInfiniteRTransform", (0.1, 10.0), {}),
    ("LinearInfiniteRTransform", (0.1, 10.0), {"b": 40.0}),
    ("ExpRTransform", (0.1, 10.0), {}),
    ("ExpRTransform", (0.1, 10.0), {"b": 40.0}),
    ("PowerRTransform", (0.01, 10.0), {}),
    ("PowerRTransform", (0.01, 10.0), {"b": 40.0}),
    ("HyperbolicRTransform", (0.4, 0.01), {}),
    ("MultiExpRTransform", (0.1, 1.5), {}),
    ("MultiExpRTransform", (0.0, 1.2), {"trim_inf": False}),
    ("KnowlesRTransform", (0.1, 1.5, 2), {}),
    ("KnowlesRTransform", (0.0, 1.2, 3), {"trim_inf": False}),
    ("HandyRTransform", (0.1, 1.5, 2), {}),
    ("HandyRTransform", (0.0, 1.2, 3), {"trim_inf": False}),
    ("HandyModRTransform", (0.1, 20.0, 2), {}),
    ("HandyModRTransform", (0.0, 30.0, 3), {"trim_inf": False}),
]
_TF_PROPS = ("rmin", "rmax", "R", "k", "m", "a", "b", "trim_inf", "domain", "codomain")


def scn_transforms(R, rng):
    import grid.rtransform as rt
    from grid.basegrid import OneDGrid

    mk, n = R.mk, int(rng.integers(8, 30))
    for name, args, kw in _TF_SPECS:
        tf = R.call(name, getattr(rt, name), *args, **kw)
        if tf is None:
            continue
        lo, hi = tf.domain
        R.keep(name + ".props", [float(v) for a in _TF_PROPS if hasattr(tf, a) for v in np.ravel(getattr(tf, a)) if v is not None])
        if np.isfinite(hi):
            xs = np.sort(rng.uniform(lo + 0.02 * (hi - lo), hi - 0.02 * (hi - lo), n))
            ends = R.pick([False, True])  # the end points themselves (r = rmin and r = infinity / 1e16: the trim_inf branch)
            if ends:
                xs[0], xs[-1] = lo, hi
            w0 = np.full(n, (hi - lo) / n)
            dom = (lo, hi)
        else:
            ends = False
            xs = np.arange(n, dtype=float) if name in ("LinearInfiniteRTransform", "ExpRTransform", "PowerRTransform") else np.sort(rng.uniform(0.05, 30.0, n))
            if name == "PowerRTransform":
                xs = xs + 1.0
            w0 = np.ones(n)
            dom = (0, np.inf) if name != "HyperbolicRTransform" else (0, 40.0)
        xs = R.arrange(xs)  # element-wise maps and hand-made 1-D grids admit any order of the nodes
        x = mk(xs, "x")
        r = None
        for meth in ("transform", "deriv", "deriv2", "deriv3"):
            v = R.call(f"{name}.{meth}", getattr(tf, meth), x)
            R.keep(f"{name}.{meth}", v)
            if meth == "transform":
                r = v
        if r is not None:
            rr = mk(np.array(r, dtype=float), "r")
            R.keep(f"{name}.inverse-all", R.call(f"{name}.inverse", tf.inverse, rr))
            # derivatives of the inverse are rejected where dr/dx = 0 or r = inf (the end points): interior values only
            r = np.array(r, dtype=float)[(xs != lo) & (xs != hi)] if ends else r
            rr = mk(np.array(r, dtype=float), "r-interior")
            for meth in ("inverse", "deriv_inverse", "deriv2_inverse", "deriv3_inverse"):
                R.keep(f"{name}.{meth}", R.call(f"{name}.{meth}", getattr(tf, meth), rr))
        xa, wa = (x, mk.same(x)) if (mk.alias and name not in ("LinearInfiniteRTransform", "ExpRTransform", "PowerRTransform")) else (x, mk(w0, "w"))
        og = R.call("OneDGrid", OneDGrid, xa, wa, dom if name != "PowerRTransform" else (1, np.inf))
        if og is not None and name != "PowerRTransform":
            ng = R.call(f"{name}.transform_1d_grid", tf.transform_1d_grid, og)
            if ng is not None:
                R.keep(f"{name}.t1d.p", ng.points)
                R.keep(f"{name}.t1d.w", ng.weights)
        itf = R.call("InverseRTransform", rt.InverseRTransform, tf)
        if itf is not None and r is not None:
            rr = mk(np.array(r, dtype=float), "r2")
            for meth in ("transform", "deriv", "deriv2", "deriv3"):
                R.keep(f"Inv{name}.{meth}", R.call(f"InverseRTransform.{meth}", getattr(itf, meth), rr))
            R.keep(f"Inv{name}.inverse", R.call("InverseRTransform.inverse", itf.inverse, x))
            R.keep(f"Inv{name}.props", [float(v) for v in np.ravel(itf.domain)] + [float(v) for v in np.ravel(itf.codomain)])
    for od in ORDERS:  # every order in every run (fresh, read-only, view, alias)
        arr = mk(R.arrange(rng.uniform(-0.99, 0.99, R.pick([21, 20])), od), "fp-array-" + od)
        R.keep("find_parameter-" + od, R.call("BeckeRTransform.find_parameter", rt.BeckeRTransform.find_parameter, arr, 0.1, 1.2))
        for cls_ in (rt.LinearInfiniteRTransform, rt.ExpRTransform, rt.PowerRTransform):  # state-changing public operation
            t_ = cls_(0.1, 9.0)
            xb = mk(R.arrange(rng.uniform(0.5, 30.0, 7), od), "b-array-" + od)
            R.call(cls_.__name__ + ".set_maximum_parameter_b", t_.set_maximum_parameter_b, xb)
            R.keep(cls_.__name__ + ".b-" + od, [t_.b])
    # UniformInteger based radial grid as the library builds it by default
    from grid.onedgrid import UniformInteger

    ui = UniformInteger(n)
    ptf = rt.PowerRTransform(0.01, 12.0)
    ng = R.call("PowerRTransform.transform_1d_grid", ptf.transform_1d_grid, ui)
    if ng is not None:
        R.keep("power-ui", ng.weights)


EDGE = 3e-9  # OneDGrid admits points outside its domain by up to 1e-7


def scn_edge_passthrough(R, rng):
    """Values at the EDGE of what the constructors admit, through operations that may pass their input through:
    hand-made 1-D grids with nodes outside their domain within the admitted tolerance (both ends where the image stays
    admissible), transform_1d_grid of EVERY transform class incl. Identity, Inverse(Identity), LinearFinite with identity
    parameters and their inverses, then Identity again on the result, then AtomGrid / MolGrid built on the result.  The
    source grid's points / weights and every array the caller keeps are compared afterwards."""
    import grid.rtransform as rt
    from grid.atomgrid import AtomGrid
    from grid.basegrid import OneDGrid
    from grid.becke import BeckeWeights
    from grid.molgrid import MolGrid

    mk, ctx = R.mk, R.ctx
    n = int(rng.integers(6, 12))
    tfs = [(name, getattr(rt, name)(*args, **kw)) for name, args, kw in _TF_SPECS]
    ident, lin_id = rt.IdentityRTransform(), rt.LinearFiniteRTransform(-1.0, 1.0)
    tfs += [("Inverse(Identity)", rt.InverseRTransform(ident)), ("LinearFinite(-1,1)", lin_id), ("Inverse(LinearFinite(-1,1))", rt.InverseRTransform(lin_id)),
            ("Inverse(Becke)", rt.InverseRTransform(rt.BeckeRTransform(0.0, 1.5))), ("Inverse(Inverse(Identity))", rt.InverseRTransform(rt.InverseRTransform(ident)))]
    radial = []
    for name, tf in tfs:
        lo, hi = (float(v) for v in tf.domain)
        top = hi if np.isfinite(hi) else 25.0
        base = np.sort(rng.uniform(lo + 0.05 * (top - lo), top - 0.05 * (top - lo), n))
        if name.startswith(("LinearInfinite", "Exp", "Power")):
            base = np.arange(1, n + 1, dtype=float)
        for which in ("none", "below", "above", "both"):
            xs = base.copy()
            if which in ("below", "both") and np.isfinite(lo):
                xs[0] = lo - EDGE
            if which in ("above", "both") and np.isfinite(hi):
                xs[-1] = hi + EDGE
            if which != "none" and np.array_equal(xs, base):
                continue
            dom = (lo, hi)
            # admissible only when the image of the grid is itself an admissible OneDGrid (the library re-validates it)
            with np.errstate(all="ignore"):
                img = np.asarray(tf.transform(xs.copy()), dtype=float)
                nd = np.sort(np.asarray(tf.transform(np.array(dom)), dtype=float))
            if not (np.all(np.isfinite(img)) and np.all(np.isfinite(nd[:1])) and img.min() >= nd[0] - 5e-8 and (not np.isfinite(nd[1]) or img.max() <= nd[1] + 5e-8)):
                ctx.count("edge-passthrough:image-not-admissible")
                continue
            x = mk(R.arrange(xs) if R.pick([False, True]) else xs, f"{name}.points[{which}]")
            w = mk(rng.uniform(0.1, 0.4, n), f"{name}.weights[{which}]")
            og = R.call("OneDGrid", OneDGrid, x, w, dom)
            if og is None:
                continue
            p0, w0 = np.array(og.points, copy=True), np.array(og.weights, copy=True)
            ng = R.call(f"{type(tf).__name__}.transform_1d_grid", tf.transform_1d_grid, og)
            same = og.points.tobytes() == p0.tobytes() and og.weights.tobytes() == w0.tobytes() and og.points is x and og.weights is w
            ctx.check("caller-data-unchanged-after-sequence", f"{name}.transform_1d_grid:source-grid", same, sig="source-grid-arrays-changed", detail={"edge": which, "points_before": p0[[0, -1]], "points_after": np.asarray(og.points)[[0, -1]]})
            if ng is None:
                continue
            R.keep(f"{name}.{which}.p", ng.points)
            R.keep(f"{name}.{which}.w", ng.weights)
            ng2 = R.call("IdentityRTransform.transform_1d_grid", ident.transform_1d_grid, ng) if ng.domain[0] >= 0 else None  # pass-through again
            if ng2 is not None:
                R.keep(f"{name}.{which}.again", ng2.points)
            if ng.domain[0] >= 0 and np.isfinite(ng.points).all() and ng.points.max() < 1e6 and ng.points.min() >= 0:  # AtomGrid rejects negative radii
                radial.append((f"{name}[{which}]", ng2 if ng2 is not None else ng, og, p0, w0))
    # atomic / molecular grids on (a rotating selection of) the transformed radial grids
    k0 = R.pick(list(range(5)))
    for lab, rg, og, p0, w0 in radial[k0::5][:6]:
        c1, c2 = mk(rng.normal(size=3) * 0.2, "center1"), mk(np.array([0.0, 0.0, 1.4]), "center2")
        at = R.call("AtomGrid", AtomGrid, rg, degrees=[R.pick([3, 5, 7])], center=c1, rotate=R.pick([0, 4]))
        at2 = R.call("AtomGrid", AtomGrid, rg, sizes=mk.obj([6] * rg.size, "sizes"), degrees=None, center=c2)
        if at is None or at2 is None:
            continue
        f = mk(np.exp(-np.sum(at.points**2, axis=1)), "func_vals")
        R.keep(lab + ".at", R.call("AtomGrid.integrate", at.integrate, f))
        mg = R.call("MolGrid", MolGrid, mk(np.array([1, 8]), "atnums"), mk.obj([at, at2], "atgrids"), BeckeWeights(), store=R.pick([True, False]))
        if mg is not None:
            R.keep(lab + ".mg", float(np.sum(mg.weights)))
        same = og.points.tobytes() == p0.tobytes() and og.weights.tobytes() == w0.tobytes()
        ctx.check("caller-data-unchanged-after-sequence", "AtomGrid/MolGrid on transformed grid:source-grid", same, sig="source-grid-arrays-changed", detail={"grid": lab})


def scn_onedgrid_rules(R, rng):
    import grid.onedgrid as od

    n = int(rng.integers(5, 40))
    for name in ("GaussLaguerre", "GaussLegendre", "GaussChebyshev", "UniformInteger", "GaussChebyshevType2", "GaussChebyshevLobatto", "Trapezoidal",
                 "RectangleRuleSineEndPoints", "TanhSinh", "Simpson", "MidPoint", "ClenshawCurtis", "FejerFirst", "FejerSecond", "TrefethenCC", "TrefethenGC2",
                 "TrefethenStripCC", "TrefethenStripGC2", "ExpSinh", "LogExpSinh", "ExpExp", "SingleTanh", "SingleExp", "SingleArcSinhExp"):
        m = n | 1 if name in ("TanhSinh", "Simpson", "ExpSinh", "LogExpSinh", "ExpExp", "SingleTanh", "SingleExp", "SingleArcSinhExp") else n
        extra = {"GaussLaguerre": [(), (1.5,), (-0.5,)], "TanhSinh": [(), (0.2,)], "TrefethenCC": [(9,), (1,), (5,)], "TrefethenGC2": [(5,), (9,), (1,)],
                 "TrefethenStripCC": [(), (1.3,)], "TrefethenStripGC2": [(1.2,), ()], "ExpSinh": [(), (0.5,)], "LogExpSinh": [(), (0.2,)], "ExpExp": [(0.2,), ()],
                 "SingleTanh": [(), (0.2,)], "SingleExp": [(0.2,), ()], "SingleArcSinhExp": [(), (0.2,)]}.get(name)
        g = R.call(name, getattr(od, name), m, *(R.pick(extra) if extra else ()))
        if g is not None:
            f = R.mk(np.cos(g.points), "f")
            R.keep(name, R.call(name + ".integrate", g.integrate, f))
            s = R.call(name + ".__getitem__", g.__getitem__, slice(1, 4))
    for d in (1, 5, 9):
        g = R.call("TrefethenGeneral", od.TrefethenGeneral, n, od.GaussChebyshev, d)
        if g is not None:
            R.keep("TrefethenGeneral", g.weights)
    g = R.call("TrefethenStripGeneral", od.TrefethenStripGeneral, n, od.ClenshawCurtis, 1.2)
    if g is not None:
        R.keep("TrefethenStripGeneral", g.weights)


def _radial(mk, rng, n=None, zero=False):
    """Radial OneDGrid whose arrays are the caller's (mk) arrays."""
    from grid.basegrid import OneDGrid

    n = n or int(rng.integers(5, 12))
    r = np.sort(rng.uniform(0.05, 6.0, n))
    if zero:
        r[0] = 0.0
    return OneDGrid(mk(r, "rgrid.points"), mk(rng.uniform(0.1, 0.6, n), "rgrid.weights"), mk.obj((0, np.inf), "rgrid.domain"))


def scn_atomgrid(R, rng):
    from grid.angular import AngularGrid
    from grid.atomgrid import AtomGrid

    mk = R.mk
    method = R.pick(["lebedev", "spherical", "maxdet", "ahrens_beylkin"])
    rg = _radial(mk, rng, zero=R.pick([False, True]))
    n = rg.size
    R.keep("conv", R.call("AngularGrid.convert_angular_sizes_to_degrees", AngularGrid.convert_angular_sizes_to_degrees, mk(rng.integers(1, 150, 5), "sizes"), method))
    ag = R.call("AngularGrid", AngularGrid, degree=int(rng.integers(1, 20)), method=method, cache=R.pick([True, False]))
    ag2 = R.call("AngularGrid", AngularGrid, size=int(rng.integers(6, 200)), method=method, cache=R.pick([False, True]))
    if ag is not None and ag2 is not None:
        R.keep("ag", [ag.degree, ag.size, ag2.degree, ag2.size, len(ag.method)])
    degs_list = mk.obj([int(v) for v in rng.integers(3, 14, n)], "degrees-list")
    degs_arr = mk(rng.integers(3, 14, n), "degrees-array")
    center = mk(rng.normal(size=3), "center")
    at = R.call("AtomGrid", AtomGrid, rg, degs_list, center=center, rotate=R.pick([0, 1, 17]), method=method)
    at2 = R.call("AtomGrid", AtomGrid, rg, degrees=degs_arr, center=center, method=method)
    sz = mk.obj([int(v) for v in rng.integers(6, 60, n)], "sizes-list")
    at3 = R.call("AtomGrid", AtomGrid, rg, None, sizes=sz, center=center, method=method)
    szarr = mk(rng.integers(6, 60, n), "sizes-array")
    at4 = R.call("AtomGrid", AtomGrid, rg, degrees=mk.same(szarr) if mk.alias else degs_arr, sizes=szarr, method=method)
    one = mk.obj([9], "one-degree")
    at5 = R.call("AtomGrid", AtomGrid, rg, one, center=mk.obj([0.0, 0.5, 0.0], "center-list"))
    # sector lists, deliberately unsorted contents are not admissible -> sorted ascending radii, arbitrary degrees
    r_sec = mk.obj([0.5, 1.0, 2.5], "r_sectors-list")
    d_sec = mk.obj([3, 9, 5, 3], "d_sectors-list")
    atp = R.call("AtomGrid.from_pruned", AtomGrid.from_pruned, rg, 1.3, r_sec, d_sec, center=center, method=method)
    r_sec_a, d_sec_a = mk(R.arrange(np.array([0.4, 1.1, 2.0, 2.6])[: R.pick([3, 4])]), "r_sectors-array"), None
    d_sec_a = mk(np.array([5, 11, 7, 3, 9])[: len(r_sec_a) + 1], "d_sectors-array")
    atp2 = R.call("AtomGrid.from_pruned", AtomGrid.from_pruned, rg, 0.9, r_sectors=r_sec_a, d_sectors=d_sec_a, center=center, rotate=7, method=method)
    s_sec = mk.obj([6, 26, 14, 6], "s_sectors-list")
    atp3 = R.call("AtomGrid.from_pruned", AtomGrid.from_pruned, rg, 1.0, r_sec, None, s_sectors=s_sec, center=center)
    atp4 = R.call("AtomGrid.from_pruned", AtomGrid.from_pruned, rg, 1.0, r_sec_a, d_sectors=None, s_sectors=mk(np.array([6, 26, 14, 6, 38])[: len(r_sec_a) + 1], "s_sectors-array"))
    preset = ["coarse", "medium", "fine", "sg_1"][int(rng.integers(0, 4))]
    atq = R.call("AtomGrid.from_preset", AtomGrid.from_preset, int([1, 6, 8][int(rng.integers(0, 3))]), preset, rg, center)
    atq2 = R.call("AtomGrid.from_preset", AtomGrid.from_preset, R.pick([1, 6, 8, 17]), R.pick(["coarse", "medium", "fine", "veryfine", "ultrafine", "insane"]), center=center, rotate=R.pick([1, 0]))
    # shell-count presets: the radial grid must have exactly the prescribed number of shells
    from grid.basegrid import OneDGrid

    sc_preset, sc_z = R.pick(["sg_0", "g1", "sg_2", "g2", "sg_3", "g3", "sg_1"]), R.pick([1, 6, 8, 19, 20])
    if sc_preset == "sg_1":
        nsh = 12  # sg_1 of K, Ca (Z > 18) lists shell counts too, lighter elements use radii
        sc_z = R.pick([19, 20])
    else:
        nsh = 0
    try:
        prune = np.load(os.path.join(core.GRIDDIR, "data", "prune_grid", f"prune_grid_{sc_preset}.npz"))
        nsh = int(np.sum(prune[f"{sc_z}_rad"]))
    except Exception as exc:
        raise core.MonitorError(f"cannot read preset table {sc_preset}: {exc}")
    rr = np.sort(rng.uniform(0.02, 8.0, nsh))
    rg_sc = OneDGrid(mk(rr, "rgrid-sc.points"), mk(np.gradient(rr) if nsh > 1 else np.ones(1), "rgrid-sc.weights"), (0, np.inf))
    atsc = R.call(f"AtomGrid.from_preset[{sc_preset}]", AtomGrid.from_preset, sc_z, sc_preset, rg_sc, center, R.pick([0, 5]), method if method != "ahrens_beylkin" else "lebedev")
    if atsc is not None:
        R.keep("atsc", [atsc.size, float(np.sum(atsc.weights)), atsc.n_shells, int(atsc.l_max)])
    if atq is not None:
        R.keep("atq.wsum", float(np.sum(atq.weights)))
    for lab, a in (("at", at), ("at2", at2), ("at3", at3), ("at4", at4), ("at5", at5), ("atp", atp), ("atp2", atp2), ("atp3", atp3), ("atp4", atp4)):
        if a is not None:
            R.keep(lab + ".size", a.size)
            R.keep(lab + ".wsum", float(np.sum(a.weights)))
    if at is None:
        return
    npt = at.size
    f, f2 = mk.pair(np.exp(-np.sum((at.points - center) ** 2, axis=1)) * (1 + 0.1 * at.points[:, 0]), "func_vals")
    R.keep("at.int", R.call("AtomGrid.integrate", at.integrate, f, f2))
    R.keep("at.angular", R.call("AtomGrid.integrate_angular_coordinates", at.integrate_angular_coordinates, f))
    f2d = mk(rng.normal(size=(3, npt)), "func_vals-2d")
    R.keep("at.angular2d", R.call("AtomGrid.integrate_angular_coordinates", at.integrate_angular_coordinates, f2d))
    sp = R.call("AtomGrid.spherical_average", at.spherical_average, f)
    if sp is not None:
        R.keep("at.sphavg", R.call("spline", sp, mk(np.array([0.3, 1.0]), "r-eval")))
    spl = R.call("AtomGrid.radial_component_splines", at.radial_component_splines, f)
    if spl is not None:
        R.keep("at.nspl", len(spl))
    P = mk.same(at.points[:4]) if mk.alias else mk(rng.normal(size=(6, 3)), "eval-points")
    itp = R.call("AtomGrid.interpolate", at.interpolate, f)
    if itp is not None:
        R.keep("itp0", R.call("AtomGrid.interpolate()", itp, P))
        R.keep("itp1", R.call("AtomGrid.interpolate()", itp, P, deriv=1))
        R.keep("itp1s", R.call("AtomGrid.interpolate()", itp, P, deriv=1, deriv_spherical=True))
        R.keep("itp2r", R.call("AtomGrid.interpolate()", itp, P, deriv=2, only_radial_deriv=True))
    R.keep("c2s", R.call("AtomGrid.convert_cartesian_to_spherical", at.convert_cartesian_to_spherical, P, mk.same(center) if mk.alias else mk(np.array([0.1, 0.0, -0.2]), "center2")))
    R.keep("c2s-own", R.call("AtomGrid.convert_cartesian_to_spherical", at.convert_cartesian_to_spherical))
    R.keep("c2s-1d", R.call("AtomGrid.convert_cartesian_to_spherical", at.convert_cartesian_to_spherical, mk(np.array([0.1, 0.2, 0.3]), "point-1d")))
    sh = R.call("AtomGrid.get_shell_grid", at.get_shell_grid, int(rng.integers(0, n)), r_sq=bool(rng.integers(0, 2)))
    if sh is not None:
        R.keep("shell.w", sh.weights)
    lg = R.call("AtomGrid.get_localgrid", at.get_localgrid, center, 1.0)
    if lg is not None:
        R.keep("at.local", lg.indices)
    R.keep("at.mom", R.call("AtomGrid.moments", at.moments, R.pick([1, 2]), mk(center[None, :].copy(), "centers"), f, R.pick(["pure", "cartesian", "radial", "pure-radial"])))
    R.keep("at.props", [at.size, at.n_shells, int(at.l_max), at.rotate, len(at.method), float(np.sum(at.basis)) if at.basis is not None else 0.0, float(at.center[0]), int(at.indices[-1]), int(np.sum(at.degrees))])
    R.call("AtomGrid.save", at.save, _tmp("atgrid.npz"))
    # radial nodes handed over in another order (descending / shuffled / repeated radii): construction and the
    # shell-wise operations admit it (the spline-based ones need increasing radii and are not called on it)
    from grid.basegrid import OneDGrid

    ru = R.arrange(rng.uniform(0.05, 5.0, n))
    rgu = OneDGrid(mk(ru, "rgrid-unsorted.points"), mk(rng.uniform(0.1, 0.6, n), "rgrid-unsorted.weights"), (0, np.inf))
    atu = R.call("AtomGrid[unsorted radii]", AtomGrid, rgu, degrees=degs_arr, center=center, rotate=R.pick([0, 2]))
    if atu is not None:
        fu = mk(np.exp(-np.sum((atu.points - center) ** 2, axis=1)), "func_vals-unsorted")
        R.keep("atu.int", R.call("AtomGrid.integrate", atu.integrate, fu))
        R.keep("atu.ang", R.call("AtomGrid.integrate_angular_coordinates", atu.integrate_angular_coordinates, fu))
        R.keep("atu.c2s", R.call("AtomGrid.convert_cartesian_to_spherical", atu.convert_cartesian_to_spherical))
        sh = R.call("AtomGrid.get_shell_grid", atu.get_shell_grid, n - 1)
        R.keep("atu.mom", R.call("AtomGrid.moments", atu.moments, 1, mk(center[None, :].copy(), "centers-u"), fu, "cartesian"))
    atpu = R.call("AtomGrid.from_pruned[unsorted radii]", AtomGrid.from_pruned, rgu, 1.0, r_sec_a, d_sec_a, center=center)
    if atpu is not None:
        R.keep("atpu", [atpu.size, float(np.sum(atpu.weights))])
    R.use_setters(at, "at", rng)
    R.keep("at.int-after-set", R.call("AtomGrid.integrate", at.integrate, f))
    if ag is not None:
        R.use_setters(ag, "ag", rng)
        R.keep("ag.int-after-set", R.call("AngularGrid.integrate", ag.integrate, mk(np.ones(ag.size), "ones")))


NO_BRAGG_RADIUS = (2, 10, 18, 36, 54, 85, 86)  # elements whose tabulated Bragg-Slater radius is NaN (fallback branch of Becke)


def _molecule(mk, rng, natom=None, pool=(1, 6, 7, 8), force=()):
    natom = natom or int(rng.integers(2, 6))
    zs = rng.choice(list(pool), natom)
    for i, z in enumerate(force):
        zs[(i * 2 + 1) % natom] = z
    xyz = rng.normal(size=(natom, 3)) * 1.2 + np.arange(natom)[:, None] * np.array([0.9, 0.4, 0.2])
    return mk(zs.astype(int), "atnums"), mk(xyz, "atcoords")


def scn_molgrid(R, rng):
    from grid.atomgrid import AtomGrid
    from grid.becke import BeckeWeights
    from grid.hirshfeld import HirshfeldWeights
    from grid.molgrid import MolGrid

    mk = R.mk
    # every other run: a molecule with atoms that have no Bragg radius (He, Ne, Ar: fallback branch of the Becke routes)
    nobles = R.pick([False, True])
    atnums, atcoords = _molecule(mk, rng, pool=(1, 6, 7, 8, 2, 10, 18) if nobles else (1, 6, 7, 8), force=(R.pick([2, 10, 18]),) if nobles else ())
    natom = len(atnums)
    hcno = set(atnums.tolist()) <= {1, 6, 7, 8}  # proatoms for Hirshfeld are shipped for H, C, N, O only
    rg = _radial(mk, rng, n=6)
    atgrids = mk.obj([AtomGrid(rg, degrees=[int(rng.integers(3, 9))], center=atcoords[i], rotate=R.pick([0, 3])) for i in range(natom)], "atgrids-list")
    radii = mk.obj(R.pick([{1: 0.6, 6: 1.3}, {2: 0.5, 10: 0.8}, {}]), "radii-dict")
    becke = R.call("BeckeWeights", BeckeWeights, radii, order=R.pick([2, 3, 1]))
    size = int(sum(a.size for a in atgrids))
    cache = {}

    def ro(v):
        if mk.mode == "readonly":
            v = v.view()
            v.setflags(write=False)
        return v

    def fn_cached(points, atc, atn, indices):
        return ro(cache.setdefault(len(points), np.full(len(points), 1.0)))

    def fn_fresh(points, atc, atn, indices):
        return ro(np.full(len(points), 1.0))

    aw = mk(rng.uniform(0.2, 1.0, size), "aim_weights-array")
    mgs = {}
    for lab, w in (("becke", becke), ("hirshfeld", HirshfeldWeights() if hcno else None), ("array", aw), ("fn-cached", fn_cached), ("fn-fresh", fn_fresh)):
        if w is None:
            continue
        for store in (False, True):
            mg = R.call(f"MolGrid[{lab}]", MolGrid, atnums, atgrids, w, store=store)
            if mg is not None:
                mgs[(lab, store)] = mg
                R.keep(f"mg.{lab}.{store}", float(np.sum(mg.weights)))
    mk.const("aim-callback-cache", cache, 1.0)
    mg = mgs.get(("becke", True)) or next(iter(mgs.values()), None)
    if mg is None:
        return
    f, f2 = mk.pair(np.exp(-np.sum(mg.points**2, axis=1)), "func_vals")
    R.keep("mg.int", R.call("MolGrid.integrate", mg.integrate, f, f2))
    R.keep("mg.int-aw", R.call("MolGrid.integrate", mg.integrate, mk.same(aw) if mk.alias else f))
    for i in (0, natom - 1):
        a = R.call("MolGrid.__getitem__", mg.__getitem__, i)
        b = R.call("MolGrid.get_atomic_grid", mg.get_atomic_grid, i)
        if a is not None:
            R.keep("mg.item", a.weights)
    mg0 = mgs.get(("array", False))
    if mg0 is not None:
        a = R.call("MolGrid.__getitem__", mg0.__getitem__, 1)
        b = R.call("MolGrid.get_atomic_grid", mg0.get_atomic_grid, 1)
        if a is not None and b is not None:
            R.keep("mg0.item", a.weights)
            R.keep("mg0.atomic", b.weights)
    P = mk.same(mg.points[:3]) if mk.alias else mk(rng.normal(size=(4, 3)), "eval-points")
    itp = R.call("MolGrid.interpolate", mg.interpolate, f)
    if itp is not None:
        R.keep("mg.itp", R.call("MolGrid.interpolate()", itp, P))
        R.keep("mg.itp1", R.call("MolGrid.interpolate()", itp, P, 1))
    lg = R.call("MolGrid.get_localgrid", mg.get_localgrid, atcoords[0], 1.5)
    R.keep("mg.mom", R.call("MolGrid.moments", mg.moments, R.pick([1, 2]), atcoords, f, R.pick(["cartesian", "pure", "radial", "pure-radial"])))
    R.keep("mg.props", [mg.size, int(mg.indices[-1]), float(np.sum(mg.aim_weights)), float(np.sum(mg.atweights)), float(mg.atcoords[0, 0]), 0 if mg.atgrids is None else len(mg.atgrids)])
    R.call("MolGrid.save", mg.save, _tmp("molgrid.npz"))
    mg_set = mgs.get(("array", False)) or mg  # built from the caller's aim-weights array
    R.use_setters(mg_set, "mg", rng)
    R.keep("mg.int-after-set", R.call("MolGrid.integrate", mg_set.integrate, f))
    from grid.utils import dipole_moment_of_molecule

    R.keep("dipole", R.call("dipole_moment_of_molecule", dipole_moment_of_molecule, mg, f, atcoords, atnums))
    # class-method constructors with list / dict / array arguments
    preset = mk.obj(["coarse"] * natom, "preset-list")
    rgl = mk.obj([rg] * natom, "rgrid-list")
    R.call("MolGrid.from_preset", MolGrid.from_preset, atnums, atcoords, preset, rgl, aim_weights=becke, store=True)
    pd = mk.obj({int(z): "coarse" for z in set(atnums.tolist())}, "preset-dict")
    rgd = mk.obj({int(z): rg for z in set(atnums.tolist())}, "rgrid-dict")
    mgp = R.call("MolGrid.from_preset", MolGrid.from_preset, atnums, atcoords, pd, rgd, rotate=0)
    if mgp is not None:
        R.keep("mgp.size", mgp.size)
    mgs_ = R.call("MolGrid.from_size", MolGrid.from_size, atnums, atcoords, R.pick([14, 6, 26]), rg, aim_weights=HirshfeldWeights() if hcno else becke, rotate=R.pick([0, 37]), store=R.pick([True, False]))
    # defaults: one OneDGrid for all atoms / default radial grid per element, default (Becke) weights, a single preset name
    mgd = R.call("MolGrid.from_size", MolGrid.from_size, atnums, atcoords, 6, None if R.pick([True, False]) else rg)
    mgp1 = R.call("MolGrid.from_preset", MolGrid.from_preset, atnums, atcoords, R.pick(["coarse", "medium"]), rg, store=R.pick([False, True]))
    mgp0 = R.call("MolGrid.from_preset", MolGrid.from_preset, atnums[:2], atcoords[:2], "coarse")
    for lab, m_ in (("mgd", mgd), ("mgp1", mgp1), ("mgp0", mgp0)):
        if m_ is not None:
            R.keep(lab, [m_.size, float(np.sum(m_.weights))])
    if mgs_ is not None:
        R.keep("from_size", float(np.sum(mgs_.weights)))
    radius = mk.obj([1.0 + 0.1 * i for i in range(natom)], "radius-list")
    r_sec = mk.obj([[0.5, 1.0, 1.5] for _ in range(natom)], "r_sectors-lol")
    d_sec = mk.obj([[3, 7, 5, 3] for _ in range(natom)], "d_sectors-lol")
    mgq = R.call("MolGrid.from_pruned", MolGrid.from_pruned, atnums, atcoords, radius, r_sec, d_sec, rgrid=rg, aim_weights=becke, rotate=0)
    if mgq is not None:
        R.keep("from_pruned", float(np.sum(mgq.weights)))
    s_sec = mk.obj([[6, 14, 6, 6] for _ in range(natom)], "s_sectors-lol")
    R.call("MolGrid.from_pruned", MolGrid.from_pruned, atnums, atcoords, 1.2, r_sec, s_sectors=s_sec, rgrid=rgl, rotate=3)
    R.call("MolGrid.from_pruned", MolGrid.from_pruned, atnums, atcoords, 1.2, r_sec, 5, rgrid=rgd)
    R.call("MolGrid.from_pruned", MolGrid.from_pruned, atnums, atcoords, np.float64(1.1), r_sec, s_sectors=R.pick([6, 14]), rgrid=rg, store=True)
    mgq0 = R.call("MolGrid.from_pruned", MolGrid.from_pruned, atnums[:2], atcoords[:2], 1.0, r_sec[:2], d_sec[:2])  # default radial grids
    if mgq0 is not None:
        R.keep("from_pruned-default-rgrid", mgq0.size)


def scn_becke_hirshfeld(R, rng):
    from grid.becke import BeckeWeights
    from grid.hirshfeld import HirshfeldWeights
    from grid.utils import get_cov_radii

    mk = R.mk
    # two molecules per run: ordinary elements, and one with elements that have no tabulated Bragg radius
    # (noble gases, At, Rn: documented fallback to the radius of the previous element) - every route with both
    special = [R.pick(NO_BRAGG_RADIUS), R.pick(NO_BRAGG_RADIUS)]
    for tag, pool, force in (("", (1, 6, 7, 8), ()), ("nobragg-", (1, 3, 8, 9, 17, 35) + NO_BRAGG_RADIUS, special)):
        atnums, atcoords = _molecule(mk, rng, natom=int(rng.integers(2, 9)), pool=pool, force=force)
        natom = len(atnums)
        per = int(rng.integers(3, 40))
        pts = mk(np.concatenate([atcoords[i] + rng.normal(size=(per, 3)) * 0.7 for i in range(natom)]), "points")
        if mk.alias and natom >= 2:
            pts = mk.same(atcoords)  # the nuclei themselves as evaluation points (coincident point/nucleus), same object twice
            per = 1
        n = len(pts)
        ind = mk(np.arange(0, n + 1, per), "indices")
        radii = mk.obj(R.pick([{1: 0.55, 7: 1.2}, {2: 0.5, 10: 0.7, 86: 2.0}, {}, {18: 1.0, 1: 0.6}]), "radii-dict")
        bw = R.call("BeckeWeights", BeckeWeights, radii, R.pick([1, 2, 3, 4]))
        bw2 = R.call("BeckeWeights", BeckeWeights, radii)  # the same dict again
        bw3 = R.call("BeckeWeights", BeckeWeights, None, order=R.pick([3, 2]))
        for lab, b in ((tag + "custom-", bw), (tag + "default-", bw3)):
            if b is None:
                continue
            R.keep(lab + "gw", R.call("BeckeWeights.generate_weights", b.generate_weights, pts, atcoords, atnums, pt_ind=ind))
            R.keep(lab + "gw-list", R.call("BeckeWeights.generate_weights", b.generate_weights, pts, atcoords, atnums, pt_ind=mk.obj([int(v) for v in ind], "pt_ind-list")))
            sel = mk.obj([natom - 1], "select-list")
            R.keep(lab + "gw-sel", R.call("BeckeWeights.generate_weights", b.generate_weights, pts, atcoords, atnums, select=sel))
            R.keep(lab + "gw-int", R.call("BeckeWeights.generate_weights", b.generate_weights, pts, atcoords, atnums, select=R.pick([0, np.int64(1)])))
            order = [int(v) for v in rng.permutation(natom)]
            sel2 = mk.obj(order, "select-perm")
            R.keep(lab + "gw-sel2", R.call("BeckeWeights.generate_weights", b.generate_weights, pts, atcoords, atnums, select=sel2, pt_ind=ind))
            R.keep(lab + "cw", R.call("BeckeWeights.compute_weights", b.compute_weights, pts, atcoords, atnums, pt_ind=ind))
            R.keep(lab + "cw-none", R.call("BeckeWeights.compute_weights", b.compute_weights, pts, atcoords, atnums, select=natom - 1))
            R.keep(lab + "cw-sel", R.call("BeckeWeights.compute_weights", b.compute_weights, pts, atcoords, atnums, select=sel2, pt_ind=mk.obj([int(v) for v in ind], "pt_ind-list2")))
            R.keep(lab + "cw-selarr", R.call("BeckeWeights.compute_weights", b.compute_weights, pts, atcoords, atnums, select=mk(np.array(order), "select-array"), pt_ind=ind))
            R.keep(lab + "cw-int", R.call("BeckeWeights.compute_weights", b.compute_weights, pts, atcoords, atnums, select=0))
            for a_idx in sorted({0, natom - 1, int(rng.integers(0, natom))}):
                R.keep(lab + f"caw{a_idx}", R.call("BeckeWeights.compute_atom_weight", b.compute_atom_weight, pts, atcoords, atnums, a_idx, R.pick([0.45, 0.4, 0.3])))
            R.keep(lab + "call", R.call("BeckeWeights.__call__", b, pts, atcoords, atnums, ind))
        if set(atnums.tolist()) <= {1, 6, 7, 8}:  # proatom densities are shipped for H, C, N, O only
            hw = HirshfeldWeights()
            R.keep(tag + "hcall", R.call("HirshfeldWeights.__call__", hw, pts, atcoords, atnums, ind))
            R.keep(tag + "proatom", R.call("HirshfeldWeights.generate_proatom", HirshfeldWeights.generate_proatom, pts, mk.same(atcoords[0]) if mk.alias else mk(rng.normal(size=3), "coord"), int(atnums[0])))
        for ctype in ("bragg", "cambridge", "alvarez"):
            R.keep(tag + "covr-" + ctype, R.call("get_cov_radii", get_cov_radii, atnums, ctype))
        R.keep(tag + "covr-list", R.call("get_cov_radii", get_cov_radii, mk.obj([1, 6, 8, 2, 86], "atnums-list"), R.pick(["cambridge", "bragg", "alvarez"])))
        R.keep(tag + "covr-scalar", R.call("get_cov_radii", get_cov_radii, int(atnums[0]), "bragg"))


def scn_cubic(R, rng):
    from grid.basegrid import OneDGrid
    from grid.cubic import Tensor1DGrids, UniformGrid

    mk = R.mk
    shape = mk(rng.integers(7, 10, 3), "shape")
    sign = np.ones(3)
    neg = R.pick([None, 0, 1, 2])  # one axis running in the negative direction
    if neg is not None:
        sign[neg] = -1.0
    axes = mk(np.diag(rng.uniform(0.2, 0.5, 3) * sign), "axes")
    origin = mk.same(axes[0]) if mk.alias else mk(rng.normal(size=3), "origin")
    wt = R.pick(["Trapezoid", "Rectangle", "Fourier1", "Alternative", "Fourier2"])
    ug = R.call("UniformGrid", UniformGrid, origin, axes, shape, wt)
    if ug is not None:
        n = ug.size
        vals = mk(np.exp(-np.sum((ug.points - ug.points.mean(axis=0)) ** 2, axis=1)) + 0.5, "values")
        lo, hi = ug.points.min(axis=0), ug.points.max(axis=0)
        inner = lo + (hi - lo) * rng.uniform(0.3, 0.7, size=(5, 3))
        P = mk(inner, "eval-points")
        R.keep("ug.int", R.call("UniformGrid.integrate", ug.integrate, vals))
        for method in ("cubic", "linear", "nearest"):
            R.keep("ug.itp-" + method, R.call("UniformGrid.interpolate", ug.interpolate, P, vals, method=method))
        R.keep("ug.itp-log", R.call("UniformGrid.interpolate", ug.interpolate, P, vals, use_log=True))
        R.keep("ug.itp-d", R.call("UniformGrid.interpolate", ug.interpolate, P, vals, **R.pick([{"nu_x": 1}, {"nu_y": 1}, {"nu_z": 2}, {"nu_x": 1, "nu_y": 1}, {"nu_y": 2, "nu_z": 1}])))
        R.keep("ug.itp-logd", R.call("UniformGrid.interpolate", ug.interpolate, P[:2], vals, use_log=True, **R.pick([{"nu_z": 1}, {"nu_x": 1}, {"nu_y": 1}, {"nu_x": 2}, {"nu_y": 2}])))
        R.keep("ug.props", [float(ug.origin[0]), float(ug.axes[1, 1]), int(ug.shape[2]), ug.ndim, ug.size])
        R.keep("ug.closest", R.call("UniformGrid.closest_point", ug.closest_point, P[0], "closest"))
        R.keep("ug.closest-o", R.call("UniformGrid.closest_point", ug.closest_point, mk(inner[1], "point"), "origin"))
        R.keep("ug.c2i", R.call("UniformGrid.coordinates_to_index", ug.coordinates_to_index, mk(np.array([1, 2, 3]), "ijk")))
        R.keep("ug.c2i-l", R.call("UniformGrid.coordinates_to_index", ug.coordinates_to_index, mk.obj([2, 1, 0], "ijk-list")))
        R.keep("ug.i2c", R.call("UniformGrid.index_to_coordinates", ug.index_to_coordinates, 17))
        ax = R.call("UniformGrid.get_points_along_axes", ug.get_points_along_axes)
        atnums, atcoords = _molecule(mk, rng, natom=3)
        pseudo = mk(atnums.astype(float) - 0.5, "pseudo_numbers")
        fn = _tmp(f"c20_{R.mk.mode}.cube")
        R.call("UniformGrid.generate_cube", ug.generate_cube, fn, vals, atcoords, atnums, pseudo)
        R.call("UniformGrid.generate_cube", ug.generate_cube, fn, vals, atcoords, atnums)
        rd = R.call("UniformGrid.from_cube", UniformGrid.from_cube, fn, R.pick(["Rectangle", "Trapezoid", "Alternative"]), True)
        if rd is not None:
            R.keep("cube.data", rd[1]["data"])
        ug_file = R.call("UniformGrid.from_cube", UniformGrid.from_cube, fn)
        # the same file with the Gaussian convention for angstrom units (negative first count) and without pseudo-numbers
        R.call("UniformGrid.generate_cube", ug.generate_cube, fn, vals, atcoords, atnums, mk(np.zeros(len(atnums)), "pseudo_numbers-zero"))
        with open(fn) as fh:
            lines = fh.readlines()
        cnt, rest = lines[3].split(None, 1)
        lines[3] = f"{-int(cnt):5d} {rest}"
        fn2 = _tmp(f"c20_{R.mk.mode}_angstrom.cube")
        with open(fn2, "w") as fh:
            fh.writelines(lines)
        import contextlib
        import io

        with contextlib.redirect_stdout(io.StringIO()):
            rd2 = R.call("UniformGrid.from_cube", UniformGrid.from_cube, fn2, "Trapezoid", R.pick([True, False]))
        if isinstance(rd2, tuple):
            R.keep("cube2.nums", rd2[1]["atcorenums"])
        R.call("UniformGrid.save", ug.save, _tmp("ugrid.npz"))
        R.use_setters(ug, "ug", rng)
        R.keep("ug.int-after-set", R.call("UniformGrid.integrate", ug.integrate, vals))
        lg = R.call("UniformGrid.get_localgrid", ug.get_localgrid, P[0], 0.6)
        R.keep("ug.mom", R.call("UniformGrid.moments", ug.moments, 1, P[:2], vals, "radial"))
    atnums, atcoords = _molecule(mk, rng, natom=3)
    cn = mk(atnums.astype(float), "atcorenums")
    for rot in (True, False):
        um = R.call("UniformGrid.from_molecule", UniformGrid.from_molecule, cn, atcoords, spacing=1.5, extension=2.0, rotate=rot, weight="Trapezoid")
        if um is not None:
            R.keep(f"from_molecule-{rot}", um.points[[0, -1]])
    # 2-D uniform grid
    sh2, ax2, or2 = mk(np.array([5, 6]), "shape2"), mk(np.array([[0.3, 0.05], [0.0, 0.4]]), "axes2"), mk(np.array([-1.0, 0.5]), "origin2")
    u2 = R.call("UniformGrid", UniformGrid, or2, ax2, sh2, R.pick(["Rectangle", "Fourier1", "Trapezoid", "Alternative"]))
    if u2 is not None:
        R.keep("u2.w", u2.weights)
        R.keep("u2.i2c", R.call("UniformGrid.index_to_coordinates", u2.index_to_coordinates, 7))
        R.keep("u2.c2i", R.call("UniformGrid.coordinates_to_index", u2.coordinates_to_index, mk(np.array([2, 3]), "ij")))
        R.keep("u2.int", R.call("UniformGrid.integrate", u2.integrate, mk(rng.normal(size=30), "values2d")))
        R.keep("u2.lg", getattr(R.call("UniformGrid.get_localgrid", u2.get_localgrid, or2, 0.7), "indices", None))
    # tensor grids from caller arrays
    ods = []
    for i, m in enumerate(rng.integers(7, 9, 3)):
        x = mk(np.sort(rng.uniform(-1, 1, int(m))), f"oned{i}.points")
        w = mk.same(x) if mk.alias else mk(rng.uniform(0.1, 0.3, int(m)), f"oned{i}.weights")
        ods.append(OneDGrid(x, w, (-1, 1)))
    tg = R.call("Tensor1DGrids", Tensor1DGrids, *ods)
    if tg is not None:
        vals = mk(np.cos(tg.points[:, 0]) * np.sin(tg.points[:, 1] + 0.3) + tg.points[:, 2], "tvalues")
        R.keep("tg.int", R.call("Tensor1DGrids.integrate", tg.integrate, vals))
        mid = tg.points.mean(axis=0) + rng.normal(size=(3, 3)) * 0.05
        R.keep("tg.itp", R.call("Tensor1DGrids.interpolate", tg.interpolate, mk(mid, "tpoints"), vals))
        R.keep("tg.itp-lin", R.call("Tensor1DGrids.interpolate", tg.interpolate, mk(mid, "tpoints2"), vals, method="linear"))
        R.call("Tensor1DGrids.save", tg.save, _tmp("tgrid.npz"))
        R.use_setters(tg, "tg", rng)
        R.keep("tg.int-after-set", R.call("Tensor1DGrids.integrate", tg.integrate, vals))
        R.use_setters(ods[0], "oned0", rng)
    t2 = R.call("Tensor1DGrids", Tensor1DGrids, ods[0], ods[0] if mk.alias else ods[1])
    if t2 is not None:
        R.keep("t2.w", t2.weights)
        axs = R.call("Tensor1DGrids.get_points_along_axes", t2.get_points_along_axes)
        if axs is not None:
            R.keep("t2.axes", np.concatenate(axs))
        R.keep("t2.props", [float(v) for v in t2.origin] + list(t2.shape))


def scn_periodic(R, rng):
    from grid.periodicgrid import PeriodicGrid

    mk = R.mk
    n = int(rng.integers(10, 50))
    for dim, nvec in ((3, 3), (3, 2), (3, 1), (2, 2), (2, 1), (1, 1), (3, 0), (1, 0)):
        for wrap in (False, True):
            if dim == 1:
                pts = mk(rng.uniform(-2.5, 2.5, n) if wrap else rng.uniform(0, 1.0, n), "points1d")
                rv = mk(np.array([1.0 + rng.random()]), "realvecs1d") if nvec else None
                c = mk(np.array(rng.uniform(-1, 2)), "center0d")
            else:
                base = rng.uniform(0, 1, size=(n, dim)) if not wrap else rng.uniform(-2, 3, size=(n, dim))
                cell = np.eye(dim) * rng.uniform(1.0, 2.0, dim) + rng.normal(size=(dim, dim)) * 0.15
                pts = mk(base @ cell, "points")
                rv = mk(cell[:nvec], "realvecs") if nvec else None
                c = mk.same(pts[0]) if mk.alias else mk(rng.uniform(-1, 2, dim), "center")
            w = mk(rng.uniform(0.1, 1, n), "weights")
            lab = f"PeriodicGrid[{dim}D{nvec}CV,wrap={wrap}]"
            pg = R.call(lab, PeriodicGrid, pts, w, rv, wrap) if nvec else R.call(lab, PeriodicGrid, pts, w, wrap=wrap)
            if pg is None:
                continue
            R.keep(lab + ".points", pg.points)
            for rad in (0.0, 0.4, 1.7):
                lg = R.call("PeriodicGrid.get_localgrid", pg.get_localgrid, c, rad)
                if lg is not None:
                    R.keep(lab + ".lw", np.sort(lg.weights))
            for idx in (2, slice(1, 6), mk(np.array([0, 3]), "index")):
                s = R.call("PeriodicGrid.__getitem__", pg.__getitem__, idx)
                if s is not None:
                    R.keep(lab + ".item", s.points)
            R.keep(lab + ".props", np.concatenate([np.ravel(pg.realvecs), np.ravel(pg.recivecs), np.ravel(pg.spacings), np.ravel(pg.frac_intvls)]))
            if R.pick([False, True]):  # documented: points / weights may be reassigned (same shape)
                R.use_setters(pg, lab, rng)
                lg = R.call("PeriodicGrid.get_localgrid", pg.get_localgrid, c, 0.9)
                if lg is not None:
                    R.keep(lab + ".lw-after-set", np.sort(lg.weights))
            R.keep(lab + ".int", R.call("PeriodicGrid.integrate", pg.integrate, mk.same(w) if mk.alias else mk(rng.normal(size=n), "f")))


def scn_ngrid(R, rng):
    from grid.basegrid import Grid, OneDGrid
    from grid.ngrid import MultiDomainGrid

    mk = R.mk
    n1, n2 = int(rng.integers(3, 8)), int(rng.integers(3, 9))
    g1 = OneDGrid(mk(R.arrange(rng.uniform(0, 1, n1)), "g1.points"), mk(rng.uniform(0.1, 0.4, n1), "g1.weights"), (0, 1))
    g2 = OneDGrid(mk(R.arrange(rng.uniform(0, 2, n2)), "g2.points"), mk(rng.uniform(0.1, 0.4, n2), "g2.weights"), (0, 2))
    g3 = Grid(mk(rng.normal(size=(n2, 3)), "g3.points"), mk(rng.uniform(0.1, 0.4, n2), "g3.weights"))
    cache, cache1 = {}, {}
    buf = np.full(64, 0.5)
    if mk.mode == "readonly":
        buf.setflags(write=False)

    def ro(v):
        if mk.mode == "readonly" and isinstance(v, np.ndarray):
            v = v.view()
            v.setflags(write=False)
        return v

    integrands = {
        "fresh": lambda x, y: ro(np.exp(-x) * y),
        "returns-argument": lambda x, y: ro(y) if isinstance(y, np.ndarray) else y,
        "cached": lambda x, y: ro(cache.setdefault(np.shape(y), np.full(np.shape(y), 0.5))) if isinstance(y, np.ndarray) else 0.5,
        "view-of-buffer": lambda x, y: ro(buf[: np.size(y)]) if isinstance(y, np.ndarray) else 0.5,
    }
    lst = mk.obj([g1, g2], "grid_list")
    md = R.call("MultiDomainGrid", MultiDomainGrid, lst)
    md2 = R.call("MultiDomainGrid", MultiDomainGrid, mk.obj([g1], "grid_list1"), num_domains=2)
    md1 = R.call("MultiDomainGrid", MultiDomainGrid, [g2], num_domains=1)
    md3 = R.call("MultiDomainGrid", MultiDomainGrid, [g1, g3])
    R.keep("md.sizes", [int(m.size) for m in (md, md2, md1, md3) if m is not None] + [int(m.num_domains) for m in (md, md2, md1, md3) if m is not None])
    for lab, fn in integrands.items():
        for m, ml in ((md, "2grids"), (md2, "same-grid-twice")):
            if m is None:
                continue
            for chunk in (1, 5, 6000):
                R.keep(f"{ml}.{lab}.{chunk}", R.call("MultiDomainGrid.integrate", m.integrate, fn, False, chunk))
            R.keep(f"{ml}.{lab}.nv", R.call("MultiDomainGrid.integrate", m.integrate, fn, non_vectorized=True, integration_chunk_size=7))
    if md1 is not None:
        R.keep("1domain-arg", R.call("MultiDomainGrid.integrate", md1.integrate, lambda x: ro(x)))
        R.keep("1domain-cached", R.call("MultiDomainGrid.integrate", md1.integrate, lambda x: ro(cache1.setdefault(x.shape, np.full(x.shape, 2.0)))))
    if md3 is not None:
        R.keep("3d-last", R.call("MultiDomainGrid.integrate", md3.integrate, lambda x, P: ro(P[:, 0]) * x))
    mk.const("integrand-cache", cache, 0.5)
    mk.const("integrand-cache-1domain", cache1, 2.0)
    mk.const("integrand-buffer", buf, 0.5)


def scn_coulomb_utils(R, rng):
    from grid.coulomb import coulomb_gaussian_p, coulomb_gaussian_s, coulomb_potential, load_atomic_gaussian_params
    from grid import utils

    mk = R.mk
    n = int(rng.integers(5, 40))
    r = np.abs(rng.normal(size=n)) * 2
    r[0] = 0.0
    r[1] = 1e-14
    r = R.arrange(r)
    ra = mk(r, "r")
    for norm in (True, False):
        R.keep(f"cgs{norm}", R.call("coulomb_gaussian_s", coulomb_gaussian_s, ra, 0.7, norm))
        R.keep(f"cgp{norm}", R.call("coulomb_gaussian_p", coulomb_gaussian_p, ra, 1.3, normalized=norm))
    R.keep("cgs-scalar", R.call("coulomb_gaussian_s", coulomb_gaussian_s, 0.5, 0.7))
    R.keep("cgs-list", R.call("coulomb_gaussian_s", coulomb_gaussian_s, mk.obj([0.0, 0.5, 2.0], "r-list"), 0.7))
    R.keep("cgp-int", R.call("coulomb_gaussian_p", coulomb_gaussian_p, mk(np.array([0, 1, 2]), "r-int"), 0.7))
    P = mk(rng.normal(size=(n, 3)), "points")
    k = 3
    cs = mk.same(P[:k]) if mk.alias else mk(rng.normal(size=(k, 3)), "centers_s")
    co, al = mk.pair(rng.uniform(0.2, 2.0, k), "coeffs/alphas")
    R.keep("cpot-s", R.call("coulomb_potential", coulomb_potential, P, cs, co, al))
    R.keep("cpot-sp", R.call("coulomb_potential", coulomb_potential, P, cs, co, al, mk.same(cs) if mk.alias else mk(rng.normal(size=(k, 3)), "centers_p"), co, al, normalized=False))
    R.keep("cpot-lists", R.call("coulomb_potential", coulomb_potential, P, mk.obj([[0.0, 0.0, 0.0], [0.0, 0.0, 1.0]], "centers-lol"), mk.obj([1.0, 0.5], "coeffs-list"), mk.obj([0.5, 2.0], "alphas-list")))
    for el in ("H", 6, "cl", np.int64(8)):
        pr = R.call("load_atomic_gaussian_params", load_atomic_gaussian_params, el)
        if pr is not None:
            R.keep(f"params-{el}", pr[0])
    lmax = int(rng.integers(0, 7))
    th, ph = mk.pair(rng.uniform(0, np.pi, n), "theta/phi")
    R.keep("Y", R.call("generate_real_spherical_harmonics", utils.generate_real_spherical_harmonics, lmax, th, ph))
    R.keep("Ysp", R.call("generate_real_spherical_harmonics_scipy", utils.generate_real_spherical_harmonics_scipy, lmax, th, ph))
    R.keep("Ysp-list", R.call("generate_real_spherical_harmonics_scipy", utils.generate_real_spherical_harmonics_scipy, 2, mk.obj([0.1, 0.2], "theta-list"), mk.obj([0.3, 0.4], "phi-list")))
    R.keep("dY", R.call("generate_derivative_real_spherical_harmonics", utils.generate_derivative_real_spherical_harmonics, lmax, th, ph))
    sph = mk(np.column_stack([np.abs(rng.normal(size=n)), rng.uniform(-np.pi, np.pi, n), rng.uniform(0, np.pi, n)]), "sph_pts")
    R.keep("solid", R.call("solid_harmonics", utils.solid_harmonics, lmax, sph))
    R.keep("c2s", R.call("convert_cart_to_sph", utils.convert_cart_to_sph, P, mk.same(P[0]) if mk.alias else mk(rng.normal(size=3), "center")))
    R.keep("c2s-none", R.call("convert_cart_to_sph", utils.convert_cart_to_sph, P))
    R.keep("c2s-list", R.call("convert_cart_to_sph", utils.convert_cart_to_sph, P, mk.obj([0.0, 0.0, 0.1], "center-list")))
    zp = mk(np.zeros((3, 3)), "zero-points")
    R.keep("c2s-zero", R.call("convert_cart_to_sph", utils.convert_cart_to_sph, zp, mk.same(zp[0]) if mk.alias else None))
    d = mk(rng.normal(size=6), "derivs")
    R.keep("d2c", R.call("convert_derivative_from_spherical_to_cartesian", utils.convert_derivative_from_spherical_to_cartesian, d[0], d[1], d[2], abs(d[3]) + 0.1, d[4], abs(d[5]) + 0.1))
    R.keep("d2c-0", R.call("convert_derivative_from_spherical_to_cartesian", utils.convert_derivative_from_spherical_to_cartesian, 1.0, 2.0, 3.0, 0.0, 0.3, 0.0))
    for t, dim in (("cartesian", 3), ("cartesian", 2), ("cartesian", 1), ("radial", 3), ("pure", 3), ("pure-radial", 3)):
        R.keep(f"orders-{t}{dim}", R.call("generate_orders_horton_order", utils.generate_orders_horton_order, 3, t, dim))


def scn_rejected(R, rng):
    """Calls that the library rejects (or that fail late): the EXCEPTIONAL exit must leave the arguments intact too.
    Whether and how a call is rejected is not decided here."""
    import grid.rtransform as rt
    from grid import utils
    from grid.atomgrid import AtomGrid
    from grid.basegrid import Grid, OneDGrid
    from grid.becke import BeckeWeights
    from grid.coulomb import coulomb_gaussian_s, coulomb_potential
    from grid.cubic import UniformGrid
    from grid.hirshfeld import HirshfeldWeights
    from grid.molgrid import MolGrid
    from grid.ngrid import MultiDomainGrid
    from grid.ode import solve_ode_bvp, solve_ode_ivp
    from grid.periodicgrid import PeriodicGrid
    from grid.poisson import solve_poisson_bvp

    mk, ctx = R.mk, R.ctx
    n = int(rng.integers(8, 20))
    pts, w = mk(rng.normal(size=(n, 3)), "points"), mk(rng.uniform(0.1, 1, n), "weights")
    f = mk(rng.normal(size=n), "func_vals")
    g = Grid(pts, w)
    rg = _radial(mk, rng, n=5)
    atnums, atcoords = _molecule(mk, rng, natom=2)
    atgrids = [AtomGrid(rg, degrees=[3], center=atcoords[i]) for i in range(2)]
    size = sum(a.size for a in atgrids)
    ind = mk(np.array([0, n // 2, n]), "indices")
    x = mk(np.linspace(0.1, 1.0, 9), "x")
    opts = mk.obj({"max_nodes": 3, "tol": 1e-12}, "ode_params")
    btf = rt.BeckeRTransform(1e-3, 1.5)
    from grid.onedgrid import GaussLegendre

    at = AtomGrid(btf.transform_1d_grid(GaussLegendre(12)), degrees=[4])
    dens = mk(np.exp(-np.sum(at.points**2, axis=1)), "density")
    attempts = [
        ("Grid", lambda: Grid(pts, w[:-1])),
        ("Grid", lambda: Grid(pts, mk(rng.normal(size=(n, 2)), "weights-2d"))),
        ("Grid.integrate", lambda: g.integrate(f[:-1])),
        ("Grid.integrate", lambda: g.integrate(mk.obj([1.0, 2.0], "values-list"))),
        ("Grid.integrate", lambda: g.integrate(f, mk(rng.normal(size=(n, 1)), "values-2d"))),
        ("Grid.get_localgrid", lambda: g.get_localgrid(mk(np.zeros(2), "center-2"), 1.0)),
        ("Grid.get_localgrid", lambda: g.get_localgrid(pts[0], -1.0)),
        ("Grid.get_localgrid", lambda: g.get_localgrid(pts[0], np.nan)),
        ("Grid.moments", lambda: g.moments(2, pts[0], f)),
        ("Grid.moments", lambda: g.moments(2, pts[:2], mk(rng.normal(size=(n, 2)), "func-2d"))),
        ("Grid.moments", lambda: g.moments(0, pts[:2], f, "pure-radial")),
        ("Grid.moments", lambda: g.moments(mk.obj([0, 1], "orders-list"), pts[:2], f)),
        ("Grid.moments", lambda: g.moments(1, pts[:2], f, "bogus")),
        ("OneDGrid", lambda: OneDGrid(x, x, mk.obj((1.0, 0.0), "domain-desc"))),
        ("OneDGrid", lambda: OneDGrid(x, x, (0.5, 2.0))),
        ("AtomGrid", lambda: AtomGrid(rg, degrees=mk.obj([3, 5], "degrees-short"))),
        ("AtomGrid", lambda: AtomGrid(rg, degrees=[3], center=mk(np.zeros(2), "center-2b"))),
        ("AtomGrid", lambda: AtomGrid(rg, degrees=mk.obj([3] * 4 + [100000], "degrees-too-high"))),
        ("AtomGrid.from_pruned", lambda: AtomGrid.from_pruned(rg, 1.0, mk.obj([0.5, 1.0], "r_sectors"), mk.obj([3, 5], "d_sectors-short"))),
        ("AtomGrid.from_preset", lambda: AtomGrid.from_preset(1, "nonexistent", rg, atcoords[0])),
        ("MolGrid", lambda: MolGrid(atnums, atgrids, mk(np.ones(size + 1), "aim-wrong-size"))),
        ("MolGrid", lambda: MolGrid(atnums, atgrids, "becke")),
        ("MolGrid.interpolate", lambda: MolGrid(atnums, atgrids, BeckeWeights()).interpolate(mk(np.ones(size), "fv"))),
        ("MolGrid.from_preset", lambda: MolGrid.from_preset(atnums, atcoords[0], "coarse", rg)),
        ("MolGrid.from_pruned", lambda: MolGrid.from_pruned(atnums, atcoords, 1.0, mk.obj([[0.5], [0.5], [0.5]], "r_sectors-3"), mk.obj([[3, 5]], "d_sectors-1"), rgrid=rg)),
        ("BeckeWeights", lambda: BeckeWeights(mk.obj({1.5: 0.3}, "radii-bad-key"))),
        ("BeckeWeights.generate_weights", lambda: BeckeWeights().generate_weights(pts, atcoords, atnums, select=mk.obj([0], "select"), pt_ind=ind)),
        ("BeckeWeights.generate_weights", lambda: BeckeWeights().generate_weights(pts, atcoords, atnums, pt_ind=mk.obj([0], "pt_ind-1"))),
        ("HirshfeldWeights.__call__", lambda: HirshfeldWeights()(pts, atcoords, mk(atnums.astype(float), "atnums-float"), ind)),
        ("UniformGrid", lambda: UniformGrid(pts[0], mk(np.ones((3, 3)), "axes-singular"), mk(np.array([3, 3, 3]), "shape"))),
        ("UniformGrid", lambda: UniformGrid(pts[0], mk(np.eye(3), "axes"), mk(np.array([3, 0, 3]), "shape-zero"))),
        ("UniformGrid.interpolate", lambda: UniformGrid(pts[0], np.eye(3) * 0.3, np.array([7, 7, 7])).interpolate(pts[:2], f)),
        ("UniformGrid.interpolate", lambda: UniformGrid(pts[0], np.eye(3) * 0.3, np.array([7, 7, 7])).interpolate(pts[:2], mk(np.ones(343), "values"), method="quintic")),
        ("UniformGrid.closest_point", lambda: UniformGrid(pts[0], mk(np.eye(3) + 0.1, "axes-skew"), np.array([3, 3, 3])).closest_point(pts[1])),
        ("UniformGrid.generate_cube", lambda: UniformGrid(pts[0], np.eye(3), np.array([3, 3, 3])).generate_cube(_tmp("x.cube"), f, atcoords, atnums)),
        ("PeriodicGrid", lambda: PeriodicGrid(pts, w, mk(np.ones((3, 3)), "realvecs-singular"))),
        ("PeriodicGrid", lambda: PeriodicGrid(pts, w, mk(np.ones((4, 3)), "realvecs-4"))),
        ("PeriodicGrid.get_localgrid", lambda: PeriodicGrid(pts, w, np.eye(3) * 4).get_localgrid(pts[0], np.inf)),
        ("MultiDomainGrid", lambda: MultiDomainGrid(mk.obj([], "empty-grid-list"))),
        ("MultiDomainGrid", lambda: MultiDomainGrid(mk.obj([g, g], "two-grids"), num_domains=2)),
        ("MultiDomainGrid.get_localgrid", lambda: MultiDomainGrid([g]).get_localgrid(pts[0], 1.0)),
        ("MultiDomainGrid.moments", lambda: MultiDomainGrid([g]).moments(1, pts[:2], f)),
        ("solve_ode_bvp", lambda: solve_ode_bvp(x, lambda t: t, mk.obj([1.0, 0.5, 1.0], "coeffs"), mk.obj([[0, 0, 0.0]], "bd_cond-short"))),
        ("solve_ode_bvp", lambda: solve_ode_bvp(x, lambda t: t, [lambda t: t, 0.5, 1.0], mk.obj([[0, 0, 0.0], [1, 0, 1.0]], "bd_cond"), tol=1e-13, max_nodes=12)),
        ("solve_ode_ivp", lambda: solve_ode_ivp(mk.obj((0.0, 5.0), "x_span"), lambda t: t, [1.0, 0.5, 1.0], mk.obj([0.0, 1.0], "y0"), rt.LinearFiniteRTransform(0.0, 1.0))),
        ("solve_ode_ivp", lambda: solve_ode_ivp((0.0, 1.0), lambda t: t, [1.0, 0.5, 1.0], mk.obj([0.0], "y0-short"))),
        ("solve_ode_ivp", lambda: solve_ode_ivp((0.0, 1.0), lambda t: t, mk.obj([1.0, "a", 1.0], "coeffs-bad"), [0.0, 1.0])),
        ("solve_poisson_bvp", lambda: solve_poisson_bvp(at, dens, rt.InverseRTransform(btf), remove_large_pts=10.0, ode_params=opts)),
        ("solve_poisson_bvp", lambda: solve_poisson_bvp(at, dens, btf, ode_params=opts)),
        ("solve_poisson_bvp", lambda: solve_poisson_bvp(at, dens, rt.InverseRTransform(btf), boundary=1, ode_params=opts)),
        ("coulomb_gaussian_s", lambda: coulomb_gaussian_s(mk(np.array([-1.0, 1.0]), "r-negative"), 1.0)),
        ("coulomb_gaussian_s", lambda: coulomb_gaussian_s(x, -1.0)),
        ("coulomb_potential", lambda: coulomb_potential(pts, pts[:2], x[:2], x[:2], centers_p=pts[:2])),
        ("coulomb_potential", lambda: coulomb_potential(pts, pts[:2], x[:2], x[:2], pts[:2], x[:3], x[:2])),
        ("generate_real_spherical_harmonics_scipy", lambda: utils.generate_real_spherical_harmonics_scipy(-1, x, x)),
        ("generate_real_spherical_harmonics_scipy", lambda: utils.generate_real_spherical_harmonics_scipy(2, x, x[:-1])),
        ("convert_cart_to_sph", lambda: utils.convert_cart_to_sph(mk(rng.normal(size=(4, 2)), "points-2col"))),
        ("convert_cart_to_sph", lambda: utils.convert_cart_to_sph(pts, mk(np.zeros(2), "center-2c"))),
        ("generate_orders_horton_order", lambda: utils.generate_orders_horton_order(2, "cartesian", 4)),
        ("get_cov_radii", lambda: utils.get_cov_radii(atnums, "bogus")),
        ("transform_1d_grid", lambda: rt.BeckeRTransform(0.1, 1.2).transform_1d_grid(OneDGrid(x, x, (0, 2)))),
        ("InverseRTransform", lambda: rt.InverseRTransform(x)),
    ]
    raised = 0
    for subject, fn in attempts:
        try:
            fn()
            ctx.count("rejected-calls:accepted")
        except (ValueError, TypeError, NotImplementedError, IndexError, KeyError, FileNotFoundError, AttributeError, AssertionError) as exc:
            if not core.is_library_exception(exc) and not isinstance(exc, FileNotFoundError):
                raise
            raised += 1
            ctx.count("rejected-calls:raised")
    R.keep("raised", raised)


# --- ODE ------------------------------------------------------------------------------------
class _RunAway(RuntimeError):
    """Raised by the harness callbacks when one solve has used an absurd number of callback calls (a corrupted
    right-hand side can make the ODE diverge and the adaptive solver crawl for hours)."""


CALL_LIMIT = 150000  # per solve; solves of this workload need a few thousand callback calls


class _CB:
    """Callback factory. `math` fixes the function, `kind` how the array is produced."""

    def __init__(self, readonly):
        self.readonly = readonly
        self.caches = []
        self.calls = 0

    def _ro(self, v):
        self.calls += 1
        if self.calls > CALL_LIMIT:
            raise _RunAway(f"more than {CALL_LIMIT} callback calls in one solve")
        if self.readonly and isinstance(v, np.ndarray):
            v = v.view()
            v.setflags(write=False)
        return v

    def make(self, kind, const):
        """kind in fresh|arg|view-of-arg -> f(x) = x ; cached|view-of-cache -> f(x) = const (fresh for baseline decided by caller)."""
        ro = self._ro
        if kind == "arg":
            return lambda x: ro(x)
        if kind == "view-of-arg":
            return lambda x: ro(np.asarray(x)[...])
        if kind == "fresh-x":
            return lambda x: ro(np.array(x, dtype=float))
        if kind == "fresh-const":
            return lambda x: ro(np.full(np.shape(x), const))
        if kind == "cached":
            cache = {}
            self.caches.append((cache, const))
            return lambda x: ro(cache.setdefault(np.shape(x), np.full(np.shape(x), const)))
        if kind == "view-of-cache":
            buf = np.full(200000, const)
            self.caches.append(({"buf": buf}, const))
            return lambda x: ro(buf[: np.size(x)].reshape(np.shape(x)))
        raise ValueError(kind)

    def caches_intact(self):
        return all(bool(np.all(a == c)) for cache, c in self.caches for a in cache.values())


def _ode_tf(name):
    import grid.rtransform as rt

    if name == "none":
        return None, (0.2, 2.0)
    if name == "identity":
        return rt.IdentityRTransform(), (0.2, 2.0)
    if name == "inv-becke":
        return rt.InverseRTransform(rt.BeckeRTransform(0.0, 1.5)), (0.2, 3.0)
    if name == "linear-finite":
        return rt.LinearFiniteRTransform(0.5, 2.5), (-0.8, 0.8)
    if name == "exp":
        return rt.ExpRTransform(0.5, 3.0, 2.0), (0.1, 1.9)
    if name == "inv-knowles":
        return rt.InverseRTransform(rt.KnowlesRTransform(0.0, 1.5, 2)), (0.2, 3.0)
    raise ValueError(name)


def _ode_solve(ctx, p, cbf, alias_kinds, seed):
    """Run one solve. alias_kinds=False replaces every aliasing callback by its fresh equivalent (baseline)."""
    from grid.ode import solve_ode_bvp, solve_ode_ivp

    rng = np.random.default_rng(seed)
    tf, (lo, hi) = _ode_tf(p["tf"])
    order = p["order"]
    c_rhs, c_co = float(rng.uniform(0.5, 2.0)), float(rng.uniform(0.3, 1.2))

    def cb(kind, const):
        if kind in ("arg", "view-of-arg", "fresh"):
            return cbf.make(kind if (alias_kinds and kind != "fresh") else "fresh-x", const)
        return cbf.make(kind if alias_kinds else "fresh-const", const)

    fx = cb(p["rhs"], c_rhs)
    ck = p["coef"]
    if ck == "number":
        coeffs = [0.7, -0.4, 0.3][: order] + [1.0]
    elif ck == "ndarray":
        coeffs = np.array([0.7, -0.4, 0.3][:order] + [1.0])
        if cbf.readonly:
            coeffs.setflags(write=False)
    else:
        # non-zero lower-order coefficients a0 (callback of the kind under test), a1.. (numbers / callbacks), leading 1 + small
        lower = [cb(ck, c_co)] + [cb(ck, 0.5 * c_co) if i % 2 else 0.6 for i in range(1, order)]
        coeffs = lower + [1.0]
    n = int(rng.integers(12, 30))
    x = np.linspace(lo, hi, n)
    if cbf.readonly:
        x.setflags(write=False)
    np.random.seed(4321)
    if p["solver"] == "bvp":
        bd = [[0, 0, 0.3], [1, 0, 1.1], [0, 1, 0.2]][:order]
        guess = rng.normal(size=(order, n)) * 0.1
        if cbf.readonly:
            guess.setflags(write=False)
        args = dict(x=x, fx=fx, coeffs=coeffs, bd_cond=bd, transform=tf, tol=1e-5, max_nodes=20000, initial_guess_y=guess if p.get("guess", True) else None, no_derivatives=False)
        sol = solve_ode_bvp(**args)
        held = {"x": x, "bd_cond": bd, "coeffs": coeffs, "initial_guess_y": guess}
    else:
        y0 = [0.3, 0.2, -0.1][:order]
        if p["coef"] == "ndarray":
            y0 = np.array(y0)
            if cbf.readonly:
                y0.setflags(write=False)
        span = (lo, hi)
        sol = solve_ode_ivp(span, fx, coeffs, y0, tf, "DOP853" if order != 1 else "RK45", False, 1e-8, 1e-8)
        held = {"x_span": span, "y0": y0, "coeffs": coeffs}
    ev = np.linspace(lo, hi, 9)[1:-1]
    if cbf.readonly:
        ev.setflags(write=False)
    val = np.asarray(sol(ev), dtype=float)
    return val, held


def run_ode(ctx, p):
    seed = [ctx.seed, int(ctx.rng.integers(0, 2**31))]
    subject = f"solve_ode_{p['solver']}[tf={p['tf']},rhs={p['rhs']},coef={p['coef']}{',read-only' if p['readonly'] else ''}]"
    base = None
    try:
        cb0 = _CB(False)
        base, _ = _ode_solve(ctx, p, cb0, False, seed)
    except ValueError as exc:
        if "converge" in str(exc):
            ctx.discard("baseline solve did not converge")
            return
        raise
    cbf = _CB(p["readonly"])
    val = None
    with ctx.guard("no-exception", subject):
        try:
            val, held = _ode_solve(ctx, p, cbf, True, seed)
        except _RunAway:
            ctx.discard("runaway solve: callback call budget exceeded")
    ctx.case_note("callback_calls", cbf.calls)
    if val is None:
        return
    ctx.check("callback-cache-intact", subject, cbf.caches_intact(), sig="cached-array-corrupted")
    m = float(np.max(np.abs(val - base)) / (1.0 + np.max(np.abs(base)))) if val.shape == base.shape else float("inf")
    ctx.check("result-independent-of-argument-pattern", subject, m, TOL_SOLVE, sig="callback-aliasing-changes-solution", detail={"rel_diff": m})


LOWER_KINDS = ("zero-scalars", "zero-array", "zero-callables", "only-a0", "only-highest-lower")
LEAD_KINDS = ("one", "constant", "callable-fresh", "callable-cached", "callable-view-of-cache")
RHS_KINDS = ("arg", "cached", "view-of-cache", "fresh")
STRUCTURES = [(lo_, le_, r_) for lo_ in LOWER_KINDS for le_ in LEAD_KINDS for r_ in RHS_KINDS]


def _structure_solve(p, combo, cbf, alias_kinds, seed):
    """One solve of  sum_k a_k y^(k) = f  whose lower-order terms are (partly) absent and whose leading coefficient need
    not be 1. alias_kinds=False: every callback hands out fresh arrays (baseline, same mathematics)."""
    from grid.ode import solve_ode_bvp, solve_ode_ivp

    lower, lead, rhs = combo
    order, ro = p["order"], cbf.readonly
    rng = np.random.default_rng(seed)
    tf, (lo, hi) = _ode_tf(p["tf"])
    c_rhs = float(rng.uniform(0.5, 2.0))

    def cb(kind, const):
        if kind in ("arg", "fresh"):
            return cbf.make("arg" if (alias_kinds and kind == "arg") else "fresh-x", const)
        return cbf.make(kind if alias_kinds else "fresh-const", const)

    fx = cb(rhs, c_rhs)
    if lower == "zero-scalars":
        low = [0, 0.0, 0][:order]
    elif lower == "zero-array":
        low = [0.0] * order
    elif lower == "zero-callables":
        low = [cb("cached" if i % 2 == 0 else "fresh-const", 0.0) if alias_kinds else cbf.make("fresh-const", 0.0) for i in range(order)]
    elif lower == "only-a0":
        low = [0.7] + [0.0] * (order - 1)
    else:
        low = [0.0] * (order - 1) + [-0.4]
    if lead == "one":
        top = 1.0
    elif lead == "constant":
        top = 2.5
    elif lead == "callable-fresh":
        _ro = cbf._ro
        top = lambda x: _ro(1.5 + 0.1 * np.asarray(x, dtype=float))  # noqa: E731
    else:
        top = cb("cached" if lead == "callable-cached" else "view-of-cache", 2.0)
    coeffs = low + [top]
    if lower == "zero-array" and not callable(top):
        coeffs = np.array(coeffs, dtype=float)
        if ro:
            coeffs.setflags(write=False)
    n = int(rng.integers(12, 26))
    x = np.linspace(lo, hi, n)
    ev = np.linspace(lo, hi, 9)[1:-1]
    if ro:
        x.setflags(write=False)
        ev.setflags(write=False)
    held = {"x": x, "ev": ev}
    np.random.seed(4321)
    if p["solver"] == "bvp":
        bd = [[0, 0, 0.3], [1, 0, 1.1], [0, 1, 0.2]][:order]
        guess = np.zeros((order, n))
        if ro:
            guess.setflags(write=False)
        held.update(bd_cond=bd, initial_guess_y=guess)
        pristine = _deep(held)
        sol = solve_ode_bvp(x, fx, coeffs, bd, tf, 1e-5, 20000, guess, False)
    else:
        y0 = np.array([0.3, 0.2, -0.1][:order])
        if ro:
            y0.setflags(write=False)
        held.update(y0=y0)
        pristine = _deep(held)
        sol = solve_ode_ivp((lo, hi), fx, coeffs, y0, tf, "DOP853", False, 1e-8, 1e-8)
    after_solve = [k for k in held if not _same(held[k], pristine[k])]
    val = np.asarray(sol(ev), dtype=float)
    val2 = np.asarray(sol(x), dtype=float)  # the returned solution evaluated on the caller's mesh itself
    after_eval = [k for k in held if not _same(held[k], pristine[k])]
    return val, val2, after_solve, after_eval


def run_ode_structure(ctx, p):
    seed0 = int(ctx.rng.integers(0, 2**31))
    off = (p["order"] * 7 + len(p["tf"]) + (3 if p["solver"] == "ivp" else 0) + (5 if p["readonly"] else 0)) % p["stride"]
    ran = 0
    for j in range(off, len(STRUCTURES), p["stride"]):
        combo = STRUCTURES[j]
        lower, lead, rhs = combo
        subject = f"solve_ode_{p['solver']}[tf={p['tf']},lower={lower},lead={lead},rhs={rhs}{',read-only' if p['readonly'] else ''}]"
        seed = [ctx.seed, seed0, j]
        try:
            base, base2, _, _ = _structure_solve(p, combo, _CB(False), False, seed)
        except ValueError as exc:
            if "converge" in str(exc):
                ctx.count("ode-structure:baseline-not-converged")
                continue
            raise
        cbf = _CB(p["readonly"])
        out = None
        with ctx.guard("no-exception", subject):
            try:
                out = _structure_solve(p, combo, cbf, True, seed)
            except _RunAway:
                ctx.count("ode-structure:runaway")
        ran += 1
        if out is None:
            continue
        val, val2, ch1, ch2 = out
        short = f"solve_ode_{p['solver']}[lower={lower},lead={lead},rhs={rhs}]"
        ctx.check("caller-data-unchanged-after-sequence", short + ":after-solve", not ch1, sig="changed:" + ",".join(ch1), detail={"changed": ch1, "tf": p["tf"], "order": p["order"]})
        ctx.check("caller-data-unchanged-after-sequence", short + ":after-evaluating-solution", not ch2, sig="changed:" + ",".join(ch2), detail={"changed": ch2, "tf": p["tf"], "order": p["order"]})
        ctx.check("callback-cache-intact", short, cbf.caches_intact(), sig="cached-array-corrupted", detail={"tf": p["tf"], "order": p["order"], "read_only": p["readonly"]})
        m = max(_reldiff(base, val), _reldiff(base2, val2))
        ctx.check("result-independent-of-argument-pattern", subject, m, TOL_SOLVE, sig="callback-aliasing-changes-solution", detail={"rel_diff": m})
    if ran == 0:
        ctx.discard("no structure solved")


DATA_KINDS = ("list", "tuple", "float64-array", "int-array", "float32-array", "float64-view")


def _as_kind(values, kind, readonly, nested=False):
    """Put integer-valued numbers into the container type `kind` (the mathematics is the same for every kind)."""
    if kind == "list":
        return [list(v) for v in values] if nested else [float(v) for v in values]
    if kind == "tuple":
        return tuple(tuple(v) for v in values) if nested else tuple(float(v) for v in values)
    if nested:  # boundary conditions [side, derivative, value]: rows are indexed with the first two entries -> integer arrays only
        rows = [np.array(v, dtype=int) for v in values]
        out = rows if kind in ("float64-array", "float32-array") else np.array(values, dtype=int)  # list of int rows / one (K,3) int array
        if kind == "float64-view":
            out = np.array(values, dtype=int)[:, ::1][::1]
        for a in rows if isinstance(out, list) else [out]:
            if readonly:
                a.setflags(write=False)
        return out
    if kind == "float64-view":
        buf = np.zeros(2 * len(values) + 1)
        a = buf[1::2]
        a[...] = values
    else:
        a = np.array(values, dtype={"float64-array": np.float64, "int-array": np.int64, "float32-array": np.float32}[kind])
    if readonly:
        a.setflags(write=False)
    return a


def run_ode_data(ctx, p):
    """Initial values / boundary data / interval / mesh / initial guess as list, tuple, float64, int, float32 array and
    strided view: bitwise unchanged after the call (also when write-protected: LAPACK and friends do not honour the flag),
    same solution for every container type."""
    from grid.ode import solve_ode_bvp, solve_ode_ivp

    solver, order, ro = p["solver"], p["order"], p["readonly"]
    tf, (lo, hi) = _ode_tf(p["tf"])
    rng = ctx.rng
    coeffs_num = [0.7, -0.4, 0.3][:order] + [1.0]
    n = int(rng.integers(10, 24))
    y0_vals = [1, 2, -1][:order]
    bd_vals = [[0, 0, 1], [1, 0, 2], [0, 1, 1]][:order]
    ev = np.linspace(lo, hi, 7)[1:-1]
    ref = None
    for kind in DATA_KINDS:
        subject = f"solve_ode_{solver}[tf={p['tf']},order={order},data={kind}{',read-only' if ro else ''}]"
        np.random.seed(99)
        cbf = _CB(ro)
        fx = cbf.make("fresh-x", 1.0)
        coeffs = _as_kind(coeffs_num, kind, ro) if kind != "int-array" else list(coeffs_num)
        if solver == "bvp":
            x = _as_kind(np.linspace(lo, hi, n), "float64-view" if kind == "float64-view" else "float64-array", ro)
            bd = _as_kind(bd_vals, kind, ro, nested=True)
            guess = None if kind == "tuple" else _as_kind(np.zeros(order * n), "float64-array", False).reshape(order, n)
            if guess is not None and ro:
                guess.setflags(write=False)
            data = {"x": x, "coeffs": coeffs, "bd_cond": bd, "initial_guess_y": guess}
            nod = DATA_KINDS.index(kind) % 2 == 1  # alternate no_derivatives (with a transform: solution only / with derivatives)
            call = lambda: solve_ode_bvp(x, fx, coeffs, bd, tf, 1e-5, 20000, guess, nod)  # noqa: E731
        else:
            span = _as_kind([lo, hi], kind if kind in ("list", "tuple") else "float64-array", ro)
            y0 = _as_kind(y0_vals, kind, ro)
            data = {"x_span": span, "coeffs": coeffs, "y0": y0}
            nod = DATA_KINDS.index(kind) % 2 == 1
            call = lambda: solve_ode_ivp(span, fx, coeffs, y0, tf, "DOP853", nod, 1e-8, 1e-8)  # noqa: E731
        pristine = _deep(data)
        val = None
        with ctx.guard("no-exception", subject):
            try:
                sol = call()
                val = np.asarray(sol(ev), dtype=float)
                val = val[0] if val.ndim == 2 else val  # y(x) only: comparable whether or not derivatives are returned
            except _RunAway:
                ctx.discard("runaway solve: callback call budget exceeded")
        changed = [k for k in data if not _same(data[k], pristine[k])]
        ctx.check("caller-data-unchanged-after-sequence", f"solve_ode_{solver}[order={order},data={kind}]", not changed, sig="changed:" + ",".join(changed), detail={"changed": changed, "tf": p["tf"], "read_only": ro, "before": {k: pristine[k] for k in changed}, "after": {k: data[k] for k in changed}})
        if solver == "ivp" and kind in ("list", "float64-array"):  # the interval given backwards (as grid.poisson does): integrate from hi to lo
            span_r = _as_kind([hi, lo], kind, ro)
            y0_r = _as_kind(y0_vals, kind, ro)
            data_r = {"x_span": span_r, "y0": y0_r}
            prist_r = _deep(data_r)
            with ctx.guard("no-exception", subject + "[reversed interval]"):
                solve_ode_ivp(span_r, cbf.make("fresh-x", 1.0), list(coeffs_num), y0_r, tf, "RK45", True, 1e-6, 1e-6)
            ch = [k for k in data_r if not _same(data_r[k], prist_r[k])]
            ctx.check("caller-data-unchanged-after-sequence", f"solve_ode_ivp[order={order},data={kind},reversed-interval]", not ch, sig="changed:" + ",".join(ch), detail={"changed": ch, "tf": p["tf"]})
        if val is None:
            continue
        if ref is None:
            ref = val
        else:
            m = _reldiff(ref, val)
            ctx.check("result-independent-of-argument-pattern", subject, m, TOL_SOLVE if kind != "float32-array" else 1e-4, sig="container-type-changes-solution", detail={"rel_diff": m})


# --- Poisson --------------------------------------------------------------------------------
def run_poisson(ctx, p):
    from grid.atomgrid import AtomGrid
    from grid.becke import BeckeWeights
    from grid.molgrid import MolGrid
    from grid.onedgrid import GaussLegendre, Trapezoidal
    from grid.poisson import interpolate_laplacian, solve_poisson_bvp, solve_poisson_ivp
    from grid.robust_poisson import solve_poisson_robust
    from grid.rtransform import BeckeRTransform, InverseRTransform, LinearFiniteRTransform

    kind, mode = p["kind"], p["mode"]
    seed = int(ctx.rng.integers(0, 2**31))

    salt = int(p.get("k", 0)) * len(MODES) + MODES.index(mode)

    def once(md, share=True):
        rng = np.random.default_rng(seed)
        mk = Mk(md, share)
        R = Run(ctx, mk, "poisson-" + kind, salt)
        np.random.seed(99)
        alpha = float(rng.uniform(0.6, 1.5))
        deg = R.pick([4, 6, 8])
        if kind == "ivp":
            tf0 = LinearFiniteRTransform(1e-3, 40.0)
            rg = tf0.transform_1d_grid(Trapezoidal(int(rng.integers(40, 56))))
        else:
            tf0 = BeckeRTransform(float(rng.choice([1e-3, 1e-2])), 1.5)
            rg = tf0.transform_1d_grid(GaussLegendre(int(rng.integers(22, 32))))
        tf = InverseRTransform(tf0)
        center = mk(rng.normal(size=3) * 0.1, "center")
        at = AtomGrid(rg, degrees=[deg], center=center)
        grid = at
        if kind == "bvp-mol":
            c2 = mk(center + np.array([0.0, 0.0, 1.3]), "center2")
            at2 = AtomGrid(rg, degrees=[deg], center=c2)
            grid = MolGrid(mk(np.array([1, 1]), "atnums"), mk.obj([at, at2], "atgrids"), BeckeWeights(), store=True)
        pts = grid.points
        dens = (alpha / np.pi) ** 1.5 * np.exp(-alpha * np.sum((pts - center) ** 2, axis=1))
        fv = mk(dens, "func_vals")
        P = mk.same(pts[:5]) if mk.alias else mk(rng.normal(size=(5, 3)), "eval-points")
        if kind in ("bvp", "bvp-mol"):
            # the empty dict (every default filled in by the solver, tol 1e-6) only for the single-centre solve: minutes for two centres
            opts = mk.obj(R.pick([{"tol": 1e-4}, {}, {"tol": 1e-3, "max_nodes": 30000}, {"no_derivatives": True, "tol": 1e-4}] if kind == "bvp" else [{"tol": 1e-3}, {"tol": 1e-4, "max_nodes": 30000}]), "ode_params")
            pot = R.call("solve_poisson_bvp", solve_poisson_bvp, grid, fv, tf, R.pick([None, 1.0]), True, R.pick([10.0, 50.0, None]) if kind == "bvp" else 10.0, opts)
            if pot is not None:
                R.keep("pot", R.call("solve_poisson_bvp()", pot, P))
            if kind == "bvp":  # the same dict again (option dict reused across calls), keyword style
                pot2 = R.call("solve_poisson_bvp", solve_poisson_bvp, grid, fv, tf, include_origin=False, remove_large_pts=10.0, ode_params=opts)
                if pot2 is not None:
                    R.keep("pot2", R.call("solve_poisson_bvp()", pot2, P))
        elif kind == "ivp":
            opts = mk.obj({"rtol": 1e-4, "atol": 1e-4}, "ode_params")
            r_int = mk.obj((40.0, 1e-3), "r_interval")
            pot = R.call("solve_poisson_ivp", solve_poisson_ivp, grid, fv, tf, r_int, opts)
            if pot is not None:
                R.keep("pot", R.call("solve_poisson_ivp()", pot, P))
            opts2 = mk.obj({"method": "RK45", "rtol": 1e-3}, "ode_params2")
            pot2 = R.call("solve_poisson_ivp", solve_poisson_ivp, grid, fv, tf, r_interval=r_int, ode_params=opts2)
        elif kind in ("robust", "robust-split2"):
            opts = mk.obj({"tol": 1e-4}, "ode_params")
            atn, atc = mk(np.array([1]), "atnums"), mk(np.array([center]), "atcoords")
            basis = mk(np.geomspace(0.1, 50.0, 6), "alphas_basis")
            kw = mk.obj({"remove_large_pts": 10.0, "ode_params": opts}, "bvp_kwargs")
            pot = R.call("solve_poisson_robust", solve_poisson_robust, grid, fv, tf, atn, atc, kind == "robust-split2", R.pick([basis, None]), **kw)
            if pot is not None:
                R.keep("pot", R.call("solve_poisson_robust()", pot, P))
                R.keep("pot-list", R.call("solve_poisson_robust()", pot, mk.obj([[0.0, 0.0, 1.0], [0.5, 0.0, 0.0]], "points-list")))
        else:
            lap = R.call("interpolate_laplacian", interpolate_laplacian, grid, fv)
            if lap is not None:
                R.keep("lap", R.call("interpolate_laplacian()", lap, P))
                near = mk(np.array([center + 1e-9, center, center + 0.3]), "points-at-centre")
                R.keep("lap-cut", R.call("interpolate_laplacian()", lap, near, 1e-4))
            at2 = AtomGrid(rg, degrees=[deg], center=mk(center + np.array([0.0, 1.1, 0.0]), "center2"))
            mg = MolGrid(np.array([1, 1]), [at, at2], BeckeWeights(), store=True)
            fm = mk(np.exp(-np.sum(mg.points**2, axis=1)), "func_vals-mol")
            lap2 = R.call("interpolate_laplacian", interpolate_laplacian, mg, fm)
            if lap2 is not None:
                R.keep("lap-mol", R.call("interpolate_laplacian()", lap2, P, 1e-5))
        mk.check(ctx, f"poisson-{kind}[{md}]")
        return R.results

    base = once("fresh") if mode != "alias" else once("alias", share=False)
    if mode != "fresh":
        other = once(mode)
        _compare(ctx, "poisson-" + kind, mode, base, other, TOL_SOLVE)


# --- repository tests under the monitor -------------------------------------------------------
def run_repo_tests(ctx, p):
    tests = os.path.join(core.SRC, "grid", "tests")
    env = dict(os.environ)
    env["PYTHONPATH"] = core.SRC + os.pathsep + core.VERIF
    env["GRIDRV_C20_SHARD"] = f"{p['shard']}/{p['of']}"
    env["PYTHONDONTWRITEBYTECODE"] = "1"
    for k in ("OMP_NUM_THREADS", "OPENBLAS_NUM_THREADS", "MKL_NUM_THREADS"):
        env[k] = "1"

    def launch(monitor, only=None):
        fd, out = tempfile.mkstemp(prefix="gridrv-c20-tests-", suffix=".json")
        os.close(fd)
        os.unlink(out)
        e = dict(env)
        e["GRIDRV_C20_OUT"] = out
        e["GRIDRV_C20_MONITOR"] = "1" if monitor else "0"
        cmd = ["/venv/bin/python", "-m", "pytest", "-p", "gridrv.monitors.pytest_c20", "-p", "no:cacheprovider", "-q", "--no-header", "-rN"]
        if only:
            e.pop("GRIDRV_C20_SHARD")
            cmd += only
        else:
            cmd.append(tests)
        t0 = time.time()
        pr = subprocess.run(cmd, env=e, cwd=tempfile.gettempdir(), stdout=subprocess.PIPE, stderr=subprocess.STDOUT, timeout=3000)
        if not os.path.exists(out):
            raise core.MonitorError(f"repo-tests shard produced no side file (rc={pr.returncode}): {pr.stdout.decode(errors='replace')[-400:]}")
        with open(out) as fh:
            d = json.load(fh)
        os.unlink(out)
        d["wall"] = time.time() - t0
        return d

    d = launch(True)
    if not d.get("monitor") or d.get("wrapped", 0) < 150:
        raise core.MonitorError("monitor was not installed in the pytest process")
    oc = d["outcomes"]
    ctx.case_note("tests", len(oc))
    ctx.case_note("wall_s", round(d["wall"], 1))
    ctx.count("repo-tests-run", len(oc))
    for name, n in d["hits"].items():
        ctx.hit(name, n)
    for key, n in d["counts"].items():
        ctx.count("repo-tests:" + key, n)
    for clause, n in d["oks"].items():
        for _ in range(min(n, 1)):
            ctx.check(clause, "repo-tests", True)
        ctx.count(f"repo-tests:evaluations:{clause}", n)
    for f in d["failures"]:
        det = dict(f.get("detail") or {})
        det["test"] = f.get("context")
        ctx.fail(f["clause"], f["subject"], f["sig"], detail=det)
    for o in d["observations"]:
        ctx.observe(o.get("what", "?"), **{k: v for k, v in o.items() if k != "what"})
    for e in d["errors"]:
        ctx.monitor_error("repo-tests:" + e["where"], RuntimeError(e["error"] + " @ " + str(e.get("context"))))
    bad = sorted(t for t, o in oc.items() if o in ("failed", "error"))
    ctx.count("repo-tests-failed-under-monitor", len(bad))
    if bad:
        # transparency: a test failing under the monitor must fail identically without it
        root = d.get("rootdir") or core.REPO
        ids = [os.path.normpath(os.path.join(root, t.split("::")[0])) + "".join("::" + q for q in t.split("::")[1:]) for t in bad]
        d0 = launch(False, only=ids[:40])
        oc0 = {k.split("/")[-1]: v for k, v in d0["outcomes"].items()}
        for t in bad[:40]:
            if oc0.get(t.split("/")[-1]) not in ("failed", "error"):  # node ids compared by file-name::test
                ctx.monitor_error("repo-tests", RuntimeError(f"test {t} fails under the monitor but passes without it (monitor not transparent)"))
            else:
                ctx.observe("repository test fails with and without the monitor", test=t)
    ctx.check("monitor-transparent-on-repo-tests", "repo-tests", True)


# --------------------------------------------------------------------------------- dispatch
SCENARIOS = {
    "basegrid": 1.0,
    "transforms": 1.5,
    "onedgrid-rules": 1.0,
    "atomgrid": 4.0,
    "molgrid": 6.0,
    "becke-hirshfeld": 2.0,
    "cubic": 5.0,
    "periodic": 2.0,
    "ngrid": 2.0,
    "coulomb-utils": 2.0,
    "rejected-calls": 2.0,
    "edge-passthrough": 3.0,
}
_SCN_FN = {
    "basegrid": scn_basegrid,
    "transforms": scn_transforms,
    "onedgrid-rules": scn_onedgrid_rules,
    "atomgrid": scn_atomgrid,
    "molgrid": scn_molgrid,
    "becke-hirshfeld": scn_becke_hirshfeld,
    "cubic": scn_cubic,
    "periodic": scn_periodic,
    "ngrid": scn_ngrid,
    "coulomb-utils": scn_coulomb_utils,
    "rejected-calls": scn_rejected,
    "edge-passthrough": scn_edge_passthrough,
}


def run_scenario(ctx, p):
    scn, mode = p["scenario"], p["mode"]
    seed = [ctx.seed, int(ctx.rng.integers(0, 2**31))]
    fn = _SCN_FN[scn]

    salt = int(p.get("k", 0)) * len(MODES) + MODES.index(mode)

    def once(md, share=True):
        mk = Mk(md, share)
        R = Run(ctx, mk, scn, salt)
        np.random.seed(777)
        fn(R, np.random.default_rng(seed))
        mk.check(ctx, f"{scn}[{md}]")
        return R.results

    base = once("fresh") if mode != "alias" else once("alias", share=False)
    if mode != "fresh":
        other = once(mode)
        _compare(ctx, scn, mode, base, other, TOL_SAME)


def run_case(ctx, family, params):
    if family in ("api-aliasing", "transforms"):
        run_scenario(ctx, params)
    elif family == "ode-callbacks":
        run_ode(ctx, params)
    elif family == "ode-data":
        run_ode_data(ctx, params)
    elif family == "ode-structure":
        run_ode_structure(ctx, params)
    elif family == "poisson":
        run_poisson(ctx, params)
    elif family == "repo-tests":
        run_repo_tests(ctx, params)
    else:
        raise ValueError(family)
